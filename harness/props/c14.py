"""
C14 — numbers written on a schematic are the true circuit quantities.

Correspondence (exact): label text and arrow flag produced by
`SchematicDiagramSolution.draw_voltage/current/power/potential` and by `create_schematic(dict)`
on small real schematics (built with the repo's own `SimpleCircuit.Elements`) against the Lean
model (CC/Model/Annot.lean over the generated CC/Gen/AnnotTables.lean and the C18 formatting
model), the model being fed the implementation's own solution value.

Oracle: the label text is read back (CC/Spec/Fmt.lean) and compared with the circuit solution
computed independently through `Circuit.solution` (DCSolution / ComplexSolution; peak phasors
for the time function), with the sign rule `reverse ⇒ negated` of CC/Spec/Annot.lean; the
declared solution type must select the adapter kind of `specKind`; real, Cartesian, polar
(rad/deg) and sinusoidal annotations of one quantity must agree with one another; the power
annotation of an element must be V·conj(I) (RMS) / ½·V·conj(I) (peak) / V·I (DC) of its own
voltage and current annotations, with Q ≥ 0 for inductors and Q ≤ 0 for capacitors.
"""
from __future__ import annotations
import math, cmath, io, contextlib
from fractions import Fraction
import numpy as np
import core
from props import c18

ID = 'C14'
LEAN_MODULE = 'CC.Properties.C14'
LEVEL = 'proof'
THEOREMS = [
    'CC.C14_translator_accepts',
    'CC.C14_adapters', 'CC.C14_sign', 'CC.C14_denotes_value', 'CC.C14_reverse_neg', 'CC.C14_arrow', 'CC.C14_factories',
    'CC.C14_ctors', 'CC.C14_lookup', 'CC.C14_lookup_params',
    'CC.C14_denotes_real', 'CC.C14_denotes_complex_shown_parts', 'CC.C14_agree_real_cartesian', 'CC.C14_agree_magnitude',
]
# round 5 (CC/Properties/C14Polar.lean over CC/Properties/C18Polar.lean): polar, time-function, power and zero annotations
LEAN_MODULE_EXTRA = ['CC.Properties.C14Polar']
THEOREMS += ['CC.C14_denotes_polar', 'CC.C14_denotes_time', 'CC.C14_denotes_power', 'CC.C14_denotes_real_zero',
             'CC.C14_denotes_complex_zero_part']
# round 5b (CC/Properties/C14Readers.lean over CC/Properties/C18Readers.lean): Cartesian and time-function labels read by
# the verified readers; numeric agreement Cartesian vs polar
LEAN_MODULE_EXTRA += ['CC.Properties.C14Readers']
THEOREMS += ['CC.C14_denotes_cartesian', 'CC.C14_denotes_sinusoid', 'CC.C14_agree_numeric']
OPEN_STATEMENTS = [
    'C14_denotes at the level of the text is proved for the real voltage / current / potential annotations (CC.C14_denotes_real '
    'for a non-zero value, CC.C14_denotes_real_zero for exactly 0) and for the DC power annotation (CC.C14_denotes_power: text of '
    '|P| read back by the real path + arrow down iff P > 0) — below 1e16 outside the rounds-up-to-one region (open finding)',
    'Cartesian complex annotations: CC.C14_denotes_complex_shown_parts states each branch with its is_zero condition, the signs '
    'and the accuracy of the part texts; WHICH parts appear is false at full strength (open finding: parts the prefixes can '
    'express are dropped).  Phasors with an EXACTLY zero part are proved (CC.C14_denotes_complex_zero_part).  Round 5b: the whole '
    'label is read by the Spec reader parseCartesian (CC.C14_denotes_cartesian: exactly the parts named, each RealOK w.r.t. the '
    'SIGNED Re / Im of the signed solution value, both parts in the domain); C14_agree_real_cartesian covers re >= 0 only',
    'polar and time-function annotations: CC.C14_denotes_polar (the label read by parsePolar: magnitude RealOK w.r.t. d.absV, '
    'angle within 0.5e-4 rad / 0.5e-2 deg of d.angle, shown iff above the cut-off) and CC.C14_denotes_time (w = 0: the real '
    'annotation of Re of the signed value, read back; w != 0: amplitude·sin/cos(freq·t±phase) with the amplitude read back '
    'w.r.t. d.absV) are statements about the run-time parameters d.absV, d.angle, d.phase, d.phaseDeg, d.wHz (abs / angle / '
    'phase of the signed value, computed by libm): that these ARE the modulus and argument of the signed solution value — and '
    'hence that RMS (polar) and peak (time) texts denote the quantity — is covered by the correspondence and the oracle only; '
    'round 5b: the whole time-function label is read by parseSinusoid (CC.C14_denotes_sinusoid: amplitude / frequency / phase '
    'RealOK w.r.t. d.absV, d.w or d.wHz, shownPhase d.phase d.phaseDeg, the flags; w = 0: the constant) and what the three numbers '
    'denote relative to Re(X e^{jwt}) is bounded by C18_sinusoid_denotes with the libm deviation as an explicit term (not yet '
    'instantiated with the parsed numbers in one corollary); the time-function POWER label is not p(t) (open finding)',
    'C14_agree numeric: CC.C14_agree_numeric proves, for all reals, |(a\'+jb\') - M\'e^{j th\'}| <= |a\'-re| + |b\'-im| + |M\'-M| + '
    '|M||th\'-th| + |(re+j im) - M e^{j th}| — the Cartesian and polar readings agree within the sum of their display tolerances '
    'PLUS the distance of the run-time parameters d.absV, d.angle from the modulus / argument of the signed value (zero when '
    'exact; its size for the libm values is oracle only).  Not written: the corollary that plugs in the tolerances of '
    'C14_denotes_cartesian / C14_denotes_polar for one (q, d) (needs finiteness of the texts and Q -> R casts; degree mode needs '
    'the factor pi/180); polar vs time function compare RMS with peak magnitudes (different d.absV): shape only (C14_agree_magnitude)',
    'pins (restate generated definitions): C14_sign, C14_factories, C14_ctors',
]
ASSUMPTIONS = c18.ASSUMPTIONS + [
    'the circuit solution (Circuit.solution.DCSolution / ComplexSolution on circuit_translator(schematic)) is the reference '
    'for the annotated quantity; the drawing → circuit step is property C13, the solution itself C01/C02',
    'schemdraw label objects expose the text as _userlabels[-1].label and the arrow flag as _userparams["reverse"]',
    'hand-written model CC/Model/Annot.lean dispatches on the generated adapter / factory / constructor / solutions tables',
]

QUANT = ('voltage', 'current', 'power', 'potential')
KIND_CTOR = {'real': 'real_solution', 'complex': 'single_frequency_complex_solution',
             'time': 'single_frequency_time_domain_steady_state_solution'}

# --------------------------------------------------------------------------- schematics

def build(desc):
    """a schematic from a small description (only the repo's own Elements)"""
    import CircuitCalculator.SimpleCircuit.Elements as elm
    d = elm.Schematic(unit=desc.get('unit', 5), show=False)
    def mk(e):
        k = e['kind']; kw = dict(name=e['name'], reverse=e.get('reverse', False))
        if k == 'R': return elm.Resistor(R=e['value'], **kw)
        if k == 'C': return elm.Capacitor(C=e['value'], **kw)
        if k == 'L': return elm.Inductance(L=e['value'], **kw)
        if k == 'Z': return elm.Impedance(Z=complex(*e['value']), **kw)
        if k == 'V': return elm.VoltageSource(V=e['value'], **kw)
        if k == 'I': return elm.CurrentSource(I=e['value'], **kw)
        if k == 'VAC': return elm.ACVoltageSource(V=e['value'], w=e['w'], phi=e['phi'], **kw)
        if k == 'VC': return elm.ComplexVoltageSource(V=complex(*e['value']), **kw)
        raise ValueError(k)
    def place(el, direction):
        return getattr(el, direction)()
    shape = desc['shape']
    els = desc['elements']
    if shape == 'loop':
        # source up, series elements to the right, last element down, wire back, ground at the origin
        d += place(mk(els[0]), 'up')
        for e in els[1:-1]:
            d += place(mk(e), 'right')
            if e.get('node_after'): d += elm.LabelNode(name=e['node_after'], id_loc='N')
        d += place(mk(els[-1]), 'down')
        d += elm.Line().left().length(d.unit * max(1, len(els) - 2))
        d += elm.Ground()
    elif shape == 'loop_ccw':
        # the same loop drawn the other way round: elements run against the positive axes
        d += elm.Ground()
        d += elm.Line().right().length(d.unit * max(1, len(els) - 2))
        d += place(mk(els[-1]), 'up')
        for e in reversed(els[1:-1]):
            d += place(mk(e), 'left')
            if e.get('node_after'): d += elm.LabelNode(name=e['node_after'], id_loc='N')
        d += place(mk(els[0]), 'down')
    elif shape == 'ladder':
        # source up, R1 right, shunt down, R3 right, R4 down, wires back
        d += place(mk(els[0]), 'up')
        d += place(mk(els[1]), 'right')
        d += elm.LabelNode(name='a', id_loc='N')
        d.push()
        d += place(mk(els[2]), 'down')
        d.pop()
        d += place(mk(els[3]), 'right')
        d += place(mk(els[4]), 'down')
        d += elm.Line().left()
        d += elm.Line().left()
        d += elm.Ground()
    else:
        raise ValueError(shape)
    return d

def random_desc(rng, ac: bool):
    val = lambda lo, hi: float(f'{rng.choice([1, 1.5, 2.2, 3.3, 4.7, 6.8, 9.995, 12, 47, 99.96])}e{rng.randint(lo, hi)}')
    w = rng.choice([10.0, 100.0, 314.1592653589793, 1000.0, 2 * math.pi * 50])
    def passive(name):
        k = rng.choice(['R', 'R', 'C', 'L', 'Z']) if ac else 'R'
        if k == 'R': return dict(kind='R', name=name, value=val(0, 3), reverse=rng.random() < 0.3)
        if k == 'C': return dict(kind='C', name=name, value=val(-6, -4), reverse=rng.random() < 0.3)
        if k == 'L': return dict(kind='L', name=name, value=val(-3, -1), reverse=rng.random() < 0.3)
        return dict(kind='Z', name=name, value=[val(0, 2), rng.choice([-1, 1]) * val(0, 2)], reverse=rng.random() < 0.3)
    if ac:
        src = rng.choice([
            dict(kind='VAC', name='Vq', value=val(-1, 2), w=w, phi=rng.choice([0.0, 0.5, -1.0, 2.0]), reverse=rng.random() < 0.3),
            dict(kind='VC', name='Vq', value=[val(-1, 2), rng.choice([-1, 1]) * val(-1, 2)], reverse=rng.random() < 0.3)])
    else:
        src = rng.choice([dict(kind='V', name='Vq', value=val(-2, 3), reverse=rng.random() < 0.3),
                          dict(kind='I', name='Iq', value=val(-4, 0), reverse=rng.random() < 0.3)])
    shape = rng.choice(['loop', 'loop', 'loop_ccw', 'ladder'])
    if shape == 'ladder':
        els = [src] + [passive(f'{"RCLZ"[i % 4]}{i}') for i in range(1, 5)]
        # a DC loop must stay resistive
    else:
        n = rng.randint(2, 3)
        els = [src] + [passive(f'E{i}') for i in range(1, n + 1)]
        if len(els) > 2 and rng.random() < 0.7: els[1]['node_after'] = 'a'
    return dict(shape=shape, elements=els, w=w if ac else 0.0, ac=ac, unit=5)

# --------------------------------------------------------------------------- helpers

def label_text(label) -> str:
    return label._userlabels[-1].label

def derived(s: complex, w: float, opts, drv=None) -> dict:
    deg, sin = opts.get('deg', False), opts.get('sin', False)
    ph = c18.shifted_phase(drv, s, sin) if (sin and drv is not None) else cmath.phase(s)
    return dict(abs=core.q(abs(s)), angle=core.q(float(np.angle(s, deg=deg))), phase=core.q(ph),
                phase_deg=core.q(math.degrees(ph)), w=core.q(w), w_hz=core.q(w / 2 / math.pi))

def truth_solution(circuit, kind, w):
    from CircuitCalculator.Circuit.solution import DCSolution, ComplexSolution
    if kind == 'real': return DCSolution(circuit=circuit)
    if kind == 'complex': return ComplexSolution(circuit=circuit, w=w)
    return ComplexSolution(circuit=circuit, w=w, peak_values=True)     # the time function's amplitude is the peak value

def get_q(sol, quantity, name):
    return complex(getattr(sol, 'get_' + quantity)(name))

def text_oracle(drv, kind, quantity, text, expected: complex, opts, w):
    """failures of one annotation text against the value it must denote; returns (failures, numbers read)"""
    p = opts['precision']
    unit = {'voltage': 'V', 'current': 'A', 'power': 'W', 'potential': 'V'}[quantity]
    lo, hi = -6, 3
    read = {}
    if kind == 'real':
        v = expected.real; s = text
        fails = []
        if quantity == 'power':
            lo, hi = -12, 12
            arrow, s = text[-1:], text[:-1]
            if arrow not in '↓↑' or not arrow: return ['unreadable'], read
            if v != 0 and arrow != ('↓' if v > 0 else '↑'): fails.append('power_arrow')
            v = abs(v)
        if v == 0:
            r = drv.call('fmt_parse', unit=unit, s=s)['parsed']
            if r is None or r.get('inf') or Fraction(r['value']) != 0: fails.append('nonzero_text_for_zero')
            return fails, read
        r = drv.call('fmt_spec_real', v=core.q(v), precision=p, max_exp=hi, unit=unit, s=s)
        if r['parsed'] and not r['parsed'].get('inf'): read['real'] = float(Fraction(r['parsed']['value']))
        return fails + list(r['failures']), read
    if kind == 'complex':
        if not opts.get('polar'):
            r = drv.call('fmt_spec_complex', re=core.q(expected.real), im=core.q(expected.imag), precision=p, min_exp=lo,
                         max_exp=hi, unit=unit, s=text)
            if 'unreadable' not in r['failures']:
                part = lambda t: 0.0 if (t is None or t.get('inf')) else float(Fraction(t['value']))
                read['cart'] = complex(part(r.get('re')), part(r.get('im')))
            return list(r['failures']), read
        if abs(expected) == 0: return [], read
        deg = opts.get('deg', False); nd = 2 if deg else 4
        ang = float(np.angle(expected, deg=deg))
        r = drv.call('fmt_spec_polar', abs=core.q(abs(expected)), precision=p, max_exp=hi, unit=unit, s=text)
        fails = list(r['failures'])
        if not fails:
            a = None if r['angle'] is None else float(Fraction(r['angle']))
            if a is None:
                if abs(ang) > 10.0 ** -nd * (1 + 1e-9): fails.append('angle_omitted')
                a = 0.0
            else:
                da = abs(a - ang)
                if deg: da = min(da, abs(da - 360.0))
                else: da = min(da, abs(da - 2 * math.pi))
                # the angle of the solution carries the conditioning of the solve: 1e-9 relative on the value
                noise = opts.get('_noise', 0.0)
                if da > 0.5 * 10.0 ** -nd + (1e-7 if not deg else 1e-5) + (math.degrees(noise) if deg else noise): fails.append('angle_accuracy')
                else:
                    f = c18.angle_digits_failure(max(da - (1e-7 if not deg else 1e-5), 0.0), ang, p, nd)
                    if f: fails.append(f)
                if bool(r['deg_sign']) != deg: fails.append('degree_sign')
            if r['abs'] and not r['abs'].get('inf'):
                read['polar'] = (float(Fraction(r['abs']['value'])), math.radians(a) if deg else a)
        return fails, read
    # time function: amplitude·cos(w t + phase) must be the steady-state time function
    case = dict(w=w, sin=opts.get('sin', False), deg=opts.get('deg', False), hertz=opts.get('hertz', False))
    if w != 0 and '(' not in text:
        return ['not_a_time_function'], read
    fails, _ = c18.sinus_oracle(drv, text, expected, unit, p, case, lo, hi)
    head = text.split('·')[0]
    r = drv.call('fmt_parse', unit=unit, s=head)['parsed']
    if r and not r.get('inf'):
        read['time_amp'] = amp = float(Fraction(r['value']))
        bad = [f for f in fails if f in ('accuracy', 'amplitude:accuracy')]
        if bad and abs(amp * math.sqrt(2) - abs(expected)) <= 2 * 10.0 ** (1 - p) * abs(expected):
            # the amplitude of the time function is the RMS value of the phasor (range clauses judged against the
            # peak value are consequences of the same cause)
            fails = [f for f in fails if f not in bad and f.split(':')[-1] not in ('finite_beyond_range', 'saturated_inside_range')] \
                + ['amplitude_is_rms']
    return fails, read

def time_power_failure(drv, text, truth_peak, name, reverse, w):
    """the instantaneous power of an element is p(t) = u(t)·i(t) = ½Re(U·I*) + ½|U||I|·cos(2ωt + arg U + arg I)
    (U, I peak phasors); the label denotes A·fn(ω_text·t + φ) (or a constant).  Returns '' if the two functions agree
    to the displayed precision, a description of the difference otherwise, None if the power is zero."""
    U = complex(truth_peak.get_voltage(name)); I = complex(truth_peak.get_current(name))
    sgn = -1.0 if reverse else 1.0
    def p_true(t):
        return sgn * (abs(U) * math.cos(w * t + cmath.phase(U))) * (abs(I) * math.cos(w * t + cmath.phase(I)))
    scale = abs(U) * abs(I)
    if scale < 1e-15: return None
    num = lambda tx, u: (lambda r: None if (r is None or r.get('inf')) else float(Fraction(r['value'])))(drv.call('fmt_parse', unit=u, s=tx)['parsed'])
    t = c18.parse_sinusoid(drv, text, 'W')
    if t is None:
        c = num(text, 'W')
        if c is None: return 'unreadable'
        f = lambda tt: c
    else:
        A = num(t['amp'], 'W')
        fq = num(t['freq'], 'Hz' if t['hertz'] else '/s')
        if A is None or fq is None: return 'unreadable'
        wt = fq * 2 * math.pi if t['hertz'] else fq
        ph = 0.0
        if t['phase']:
            body = t['phase'][1:-1] if t['deg'] else t['phase'][1:]
            v = num(body, '')
            if v is None: return 'unreadable'
            ph = (math.radians(v) if t['deg'] else v) * (1 if t['phase'][0] == '+' else -1)
        fn = math.sin if t['fn'] == 'sin' else math.cos
        f = lambda tt: A * fn(wt * tt + ph)
    T = 2 * math.pi / w if w else 1.0
    worst = max(abs(f(k * T / 16) - p_true(k * T / 16)) for k in range(16))
    if worst <= 3 * 0.5e-2 * 1.5 * scale:       # three labels' worth of half units at 3 digits
        return ''
    mean = 0.5 * (U * I.conjugate()).real * sgn
    return (f'label value at t=0 is {f(0.0):.4g}, p(0) = {p_true(0.0):.4g}; p(t) has mean {mean:.4g} and a part at 2ω of '
            f'amplitude {0.5 * scale:.4g}; largest difference over a period {worst:.3g}')

# --------------------------------------------------------------------------- the arrow that is drawn and the number next to it

STEP = {'up': (0.0, 1.0), 'down': (0.0, -1.0), 'left': (-1.0, 0.0), 'right': (1.0, 0.0)}

def arrow_of(label):
    """tail → head of the arrow segment of a placed label symbol, in absolute drawing coordinates"""
    import schemdraw
    found = []
    for sg in label.segments:
        a = getattr(sg, 'arrow', None)
        if isinstance(sg, schemdraw.segments.Segment) and a:
            pts = [np.array(label.transform.transform(pt)) for pt in sg.path]
            if a == '->': found.append((pts[0], pts[-1]))
            elif a == '<-': found.append((pts[-1], pts[0]))
            else: return None
    return found[0] if len(found) == 1 else None

def impedance_of(e, w):
    k = e['kind']
    if k == 'R': return complex(e['value'])
    if k == 'C': return 1 / (1j * w * e['value']) if w else None
    if k == 'L': return 1j * w * e['value']
    if k == 'Z': return complex(*e['value'])
    return None

def judge_along_arrow(drv, out, label, quantity, text, a, b, phi_a, phi_b, i_ab, kind, opts, w, canon_extra, what, case):
    """the number written next to an arrow is the quantity *along the arrow*: voltage = φ(tail side) − φ(head side),
    current = the current through the element in arrow direction; a, b geometric ends of the element, i_ab the true
    current a → b"""
    ar = arrow_of(label)
    if ar is None:
        out.skip('arrow_not_found'); return
    tail, head = ar
    along = float(np.dot(head - tail, np.array(b) - np.array(a)))
    if abs(along) < 1e-6 * float(np.linalg.norm(head - tail)) * float(np.linalg.norm(np.array(b) - np.array(a))) \
            or abs(along) < 0.9 * float(np.linalg.norm(head - tail)) * float(np.linalg.norm(np.array(b) - np.array(a))):
        # the arrow does not lie along the annotated element at all
        out.spec_fail(dict(op='arrow', quantity=quantity, kind=kind, symptom='arrow_perpendicular', **canon_extra),
                      f'{what}: the arrow drawn (tail {tail}, head {head}) does not lie along the element {a} → {b}', case,
                      impl=text, spec=dict(arrow=[list(map(float, tail)), list(map(float, head))]), case=case)
        return
    fwd = along > 0
    want = (phi_a - phi_b) if quantity == 'voltage' else i_ab
    if not fwd: want = -want
    if abs(want) < 1e-12:
        out.skip('numerically_zero_quantity'); return
    fails, _ = text_oracle(drv, kind, quantity, text, complex(want), opts, w)
    # findings of the number format itself are reported by the adapter path; here only the direction matters
    fails = [f for f in fails if f.split(':')[-1] not in FORMAT_FINDINGS]
    if fails and _regions(complex(want), opts, kind) == 'rounds_up_to_one':
        fails = []
    if fails:
        neg_ok, _ = text_oracle(drv, kind, quantity, text, complex(-want), opts, w)
        sym = 'number_against_the_arrow' if not neg_ok else '+'.join(sorted(set(f.split(':')[-1] for f in fails)))
        out.spec_fail(dict(op='arrow', quantity=quantity, kind=kind, symptom=sym, **canon_extra),
                      f'{what}: arrow drawn {"along" if fwd else "against"} the element direction a→b, text {text!r}, quantity along '
                      f'the arrow {want!r}: ' + ', '.join(fails), case, impl=text, spec=dict(want=str(want), arrow=[list(map(float, tail)), list(map(float, head))]),
                      case=case)
    else:
        out.nontrivial(('arrow', quantity, kind, fwd, tuple(sorted(canon_extra.items()))))

def make_symbol(elm, e, rev):
    """every annotatable two-terminal symbol of SimpleCircuit.Elements"""
    k = e['kind']; kw = dict(name=e['name'])
    if rev is not None: kw['reverse'] = rev
    if k == 'R': return elm.Resistor(R=e['value'], **kw)
    if k == 'G': return elm.Conductance(G=e['value'], **kw)
    if k == 'C': return elm.Capacitor(C=e['value'], **kw)
    if k == 'L': return elm.Inductance(L=e['value'], **kw)
    if k == 'Z': return elm.Impedance(Z=complex(*e['value']), **kw)
    if k == 'LAMP': return elm.Lamp(V_ref=e['value'][0], P_ref=e['value'][1], **kw)
    if k == 'SWO': return elm.Switch(state=elm.SwitchState.OPEN, **kw)
    if k == 'SWC': return elm.Switch(state=elm.SwitchState.CLOSED, **kw)
    if k == 'SC': return elm.LabeledLine(**kw)
    if k == 'V': return elm.VoltageSource(V=e['value'], **kw)
    if k == 'I': return elm.CurrentSource(I=e['value'], **kw)
    if k == 'VC': return elm.ComplexVoltageSource(V=complex(*e['value']), **kw)
    if k == 'IC': return elm.ComplexCurrentSource(I=complex(*e['value']), **kw)
    if k == 'VAC': return elm.ACVoltageSource(V=e['value'], w=e['w'], phi=e['phi'], **kw)
    if k == 'IAC': return elm.ACCurrentSource(I=e['value'], w=e['w'], phi=e['phi'], **kw)
    if k in ('VRECT', 'VTRI', 'VSAW'):
        cls = dict(VRECT=elm.RectVoltageSource, VTRI=elm.TriangleVoltageSource, VSAW=elm.SawtoothVoltageSource)[k]
        return cls(V=e['value'], w=e['w'], phi=e['phi'], **kw)
    if k in ('IRECT', 'ITRI', 'ISAW'):
        cls = dict(IRECT=elm.RectCurrentSource, ITRI=elm.TriangleCurrentSource, ISAW=elm.SawtoothCurrentSource)[k]
        return cls(I=e['value'], w=e['w'], phi=e['phi'], **kw)
    if k == 'VLIN': return elm.RealVoltageSource(V=e['value'][0], R=e['value'][1], **kw)
    if k == 'ILIN': return elm.RealCurrentSource(I=e['value'][0], R=e['value'][1], **kw)
    raise ValueError(k)

def check_arrows(ctx, out, g):
    """geometric, convention-free: symbol S from P0 to P1 (direction d1), symbol X from P1 to P2 (direction d2), a return
    resistor R0 from P2 back to P0, ground at P0, a labelled node at P1, a plain node at P2, and an unrelated wire far away
    drawn LAST in a direction of its own.  The loop current P0→P1→P2→P0 is φ(P2)/R0 whatever S and X are; every voltage /
    current annotation of S, X (and R0) must carry the quantity along the arrow actually drawn; potentials at the labelled
    node, the plain node and the ground symbol must be the node potentials."""
    import CircuitCalculator.SimpleCircuit.Elements as elm
    import CircuitCalculator.SimpleCircuit.DiagramSolution as ds
    from CircuitCalculator.SimpleCircuit.DiagramTranslator import circuit_translator
    drv = ctx.driver
    if drv is None: return
    u = 6.0
    if tuple(np.array(STEP[g['d1']]) + np.array(STEP[g['d2']])) == (0.0, 0.0): return
    w = g['w']
    src, x = g['src'], g['x']; r0 = g.get('r0', 5.0)
    def far_end(el, near):
        """the terminal of a placed two-terminal symbol that is not at `near` (geometric, whatever start/end mean)"""
        ends = [np.array(el.absanchors['start'], dtype=float), np.array(el.absanchors['end'], dtype=float)]
        return max(ends, key=lambda q: float(np.linalg.norm(q - near)))
    try:
        with contextlib.redirect_stdout(io.StringIO()):
            d = elm.Schematic(unit=u, show=False)
            P0 = np.array((0.0, 0.0))
            S = make_symbol(elm, src, g['srev']); S.at(tuple(P0)); getattr(S, g['d1'])(); d.add(S)
            P1 = far_end(S, P0)
            X = make_symbol(elm, x, g['xrev']); X.at(tuple(P1)); getattr(X, g['d2'])(); d.add(X)
            P2 = far_end(X, P1)
            if np.allclose(P2, P0) or np.allclose(P1, P0) or np.allclose(P2, P1):
                out.skip('degenerate_geometry'); return
            d.add(elm.Resistor(R=r0, name='R0').endpoints(tuple(P2), tuple(P0)))
            d.add(elm.Ground().at(tuple(P0)))
            d.add(elm.LabelNode(name='n1').at(tuple(P1))); d.add(elm.Node(name='n2').at(tuple(P2)))
            if g.get('last'):
                far = elm.Line().at((40.0, 40.0)); getattr(far, g['last'])(); d.add(far)       # drawn last, unrelated
            circuit = circuit_translator(d)
    except Exception as e:
        out.skip(f'schematic_not_built:{src["kind"]}-{x["kind"]}:{type(e).__name__}'); out.notes.append(f'{src["kind"]}-{x["kind"]}: {e}'[:200]); return
    for kind in g['kinds']:
        opts = dict(g['opts'][kind])
        try:
            kw = dict(opts) if kind == 'real' else dict(w=w, **{k: v for k, v in opts.items() if not (kind == 'time' and k == 'precision')})
            sol = getattr(ds, KIND_CTOR[kind])(d, **kw)
            truth = truth_solution(circuit, kind, w)
            phi = {'P0': 0j, 'P1': complex(truth.get_potential('n1')), 'P2': complex(truth.get_potential('n2'))}
        except Exception as e:
            out.skip(f'solution_failed:{src["kind"]}-{x["kind"]}:{type(e).__name__}'); continue
        if not all(np.isfinite([phi['P1'].real, phi['P1'].imag, phi['P2'].real, phi['P2'].imag])):
            out.skip('solution_not_finite'); continue
        i_loop = (phi['P2'] - phi['P0']) / r0              # through R0 from P2 to P0, hence P0→P1 through S and P1→P2 through X
        # ---- potentials at the three kinds of node symbols
        for nname, pkey in (('n1', 'P1'), ('n2', 'P2'), ('0', 'P0')):
            out.evaluations += 1
            out.count(f'arrow:{kind}:potential')
            case = dict(arrows=g, kind=kind, name=nname, quantity='potential')
            try:
                text = label_text(sol.draw_potential(nname))
            except Exception as e:
                out.spec_fail(dict(op='arrow', symptom='raises', exc=type(e).__name__, quantity='potential', kind=kind),
                              f'draw_potential({nname!r}) raises {type(e).__name__}: {e}', case, impl=repr(e), case=case)
                continue
            want = phi[pkey]
            if abs(want) < 1e-12:
                r = drv.call('fmt_parse', unit='V', s=text.split('·')[0].split('∠')[0])['parsed'] if 'j' not in text else None
                if r is not None and not r.get('inf') and Fraction(r['value']) != 0:
                    out.spec_fail(dict(op='arrow', quantity='potential', kind=kind, symptom='nonzero_text_for_zero'),
                                  f'{kind} potential at {nname!r}: {text!r} displayed for 0', case, impl=text, case=case)
                continue
            fails, _ = text_oracle(drv, kind, 'potential', text, want, opts, w)
            fails = [f for f in fails if f.split(':')[-1] not in FORMAT_FINDINGS]
            if fails and _regions(complex(want), opts, kind) != 'rounds_up_to_one':
                out.spec_fail(dict(op='arrow', quantity='potential', kind=kind, symptom='+'.join(sorted(set(f.split(':')[-1] for f in fails))),
                                   node=('ground' if nname == '0' else 'label_node' if nname == 'n1' else 'node')),
                              f'{kind} potential at {nname!r}: {text!r} displayed for {want!r}: ' + ', '.join(fails), case, impl=text, case=case)
            else:
                out.nontrivial(('potential', kind, nname))
        # ---- voltages and currents along the arrows
        for el, a, b, pa, pb, erev, ekind in (('S', P0, P1, 'P0', 'P1', g['srev'], src['kind']), ('X', P1, P2, 'P1', 'P2', g['xrev'], x['kind']),
                                               ('R0', P2, P0, 'P2', 'P0', False, 'R')):
            name = src['name'] if el == 'S' else x['name'] if el == 'X' else 'R0'
            for quantity in ('voltage', 'current'):
                for arev in (False, True):
                    for end in ((False, True) if quantity == 'current' else (None,)):
                        if el == 'R0' and (arev or end): continue
                        out.evaluations += 1
                        out.count(f'arrow:{kind}:{quantity}')
                        out.count(f'arrow:symbol:{ekind}')
                        case = dict(arrows=g, kind=kind, name=name, quantity=quantity, reverse=arev, end=end)
                        try:
                            lab = sol.draw_voltage(name, reverse=arev) if quantity == 'voltage' else sol.draw_current(name, reverse=arev, end=end)
                            d.add(lab)
                        except Exception as e:
                            out.spec_fail(dict(op='arrow', symptom='raises', exc=type(e).__name__, quantity=quantity, kind=kind, symbol=ekind),
                                          f'draw_{quantity}({name!r}) of a {ekind} symbol raises {type(e).__name__}: {e}', case, impl=repr(e), case=case)
                            continue
                        scale = max(abs(phi['P1']), abs(phi['P2'])) if quantity == 'voltage' else max(abs(phi['P1']), abs(phi['P2'])) / r0
                        q_here = (phi[pa] - phi[pb]) if quantity == 'voltage' else i_loop
                        if abs(q_here) < 1e-7 * max(scale, 1e-300):
                            out.skip('numerically_zero_quantity'); continue
                        # a closed switch is a 1e-12 Ω resistor: the nodal matrix is ill-conditioned (errors ~1e-3); only two
                        # digits of such a loop are judged
                        jopts = dict(opts, precision=min(opts['precision'], 2), _noise=2e-3) if 'SWC' in (src['kind'], x['kind']) else opts
                        judge_along_arrow(drv, out, lab, quantity, label_text(lab), a, b, phi[pa], phi[pb], i_loop, kind, jopts, w,
                                          dict(element='source' if ekind in SOURCE_KINDS else 'passive', symbol=ekind,
                                               element_reversed=bool(erev), annotation_reversed=arev, end=bool(end),
                                               direction=g['d1'] if el == 'S' else g['d2'] if el == 'X' else 'return',
                                               last=g.get('last') or 'none'),
                                          f'{kind} {quantity} annotation of {ekind} symbol {name!r} (element reverse={erev}, annotation reverse={arev}'
                                          + (f', end={end}' if end is not None else '') + f', drawn {g["d1"] if el == "S" else g["d2"] if el == "X" else "back"}, '
                                          f'last element drawn {g.get("last")})', case)

SOURCE_KINDS = ('V', 'I', 'VC', 'IC', 'VAC', 'IAC', 'VRECT', 'VTRI', 'VSAW', 'IRECT', 'ITRI', 'ISAW', 'VLIN', 'ILIN')
FORMAT_FINDINGS = ('omitted_inside_range', 'mantissa_range', 'saturated_inside_range', 'finite_beyond_range',
                   'angle_fewer_digits_than_precision')

def arrow_descs(rng, quick):
    import itertools
    combos = [(d1, d2, sr, xr) for d1, d2, sr, xr in itertools.product(STEP, STEP, (False, True), (False, True))
              if tuple(np.array(STEP[d1]) + np.array(STEP[d2])) != (0.0, 0.0)]
    rng.shuffle(combos)
    w = 100.0
    dc_v = [dict(kind='V', name='S', value=12.0), dict(kind='VLIN', name='S', value=[10.0, 2.0])]
    dc_i = [dict(kind='I', name='S', value=2.0), dict(kind='ILIN', name='S', value=[2.0, 50.0])]
    ac_v = [dict(kind='VAC', name='S', value=10.0, w=w, phi=0.5), dict(kind='VC', name='S', value=[3.0, 4.0]),
            dict(kind='VRECT', name='S', value=12.0, w=w, phi=0.0), dict(kind='VTRI', name='S', value=12.0, w=w, phi=0.3),
            dict(kind='VSAW', name='S', value=12.0, w=w, phi=0.0)]
    ac_i = [dict(kind='IAC', name='S', value=1.0, w=w, phi=-1.0), dict(kind='IC', name='S', value=[1.0, 1.0]),
            dict(kind='IRECT', name='S', value=1.0, w=w, phi=0.0), dict(kind='ITRI', name='S', value=1.0, w=w, phi=0.0),
            dict(kind='ISAW', name='S', value=1.0, w=w, phi=0.2)]
    x_any = [dict(kind='R', name='X', value=4.0), dict(kind='G', name='X', value=0.5), dict(kind='LAMP', name='X', value=[12.0, 24.0]),
             dict(kind='SWC', name='X'), dict(kind='SC', name='X'), dict(kind='Z', name='X', value=[3.0, 4.0]),
             dict(kind='L', name='X', value=0.05)]
    x_vonly = [dict(kind='SWO', name='X'), dict(kind='C', name='X', value=2e-4), dict(kind='I', name='X', value=0.5),
               dict(kind='ILIN', name='X', value=[0.5, 40.0])]
    x_ionly = [dict(kind='VLIN', name='X', value=[5.0, 1.0]), dict(kind='V', name='X', value=3.0)]
    plan = []
    for s in dc_v: plan += [(s, x, 0.0) for x in x_any + x_vonly if x['kind'] not in ('C',)]
    for s in dc_i: plan += [(s, x, 0.0) for x in x_any + x_ionly]
    for s in ac_v: plan += [(s, x, w) for x in x_any + [x_vonly[0], x_vonly[1]]]
    for s in ac_i: plan += [(s, x, w) for x in x_any]
    rng.shuffle(plan)
    n = 14 if quick else len(plan)
    # the quick tier still draws every symbol kind at least once over a few runs; every run contains a symbol without
    # `v_label` anchor (switch, labelled line, linear current source) and a reversed passive
    must = [pl for pl in plan if pl[1]['kind'] in ('SWO', 'SWC', 'SC')][:2] + [pl for pl in plan if pl[0]['kind'] == 'ILIN'][:1]
    plan = must + [pl for pl in plan if pl not in must][:max(n - len(must), 0)]
    out = []
    for k, (s, x, ww) in enumerate(plan):
        d1, d2, sr, xr = combos[k % len(combos)]
        p = rng.randint(2, 5)
        ac = ww > 0
        if ac:
            kinds = ['complex', 'time']
            opts = dict(complex=dict(precision=p, polar=rng.random() < 0.5, deg=rng.random() < 0.5),
                        time=dict(precision=3, sin=rng.random() < 0.4, deg=rng.random() < 0.5, hertz=rng.random() < 0.3))
        else:
            kinds = ['real', 'complex', 'time'] if k % 4 == 0 else ['real']
            opts = dict(real=dict(precision=p), complex=dict(precision=p, polar=False, deg=False),
                        time=dict(precision=3, sin=False, deg=False, hertz=False))
        # symbols that do not take a `reverse` argument are drawn as they are
        sr_ = None if s['kind'] in ('VLIN', 'ILIN') else sr
        xr_ = None if x['kind'] in ('VLIN', 'ILIN') else xr
        out.append(dict(d1=d1, d2=d2, srev=sr_, xrev=xr_, w=ww, src=s, x=x, kinds=kinds, opts=opts, r0=5.0,
                        last=rng.choice(['up', 'down', 'left', 'right'])))
    return out

# --------------------------------------------------------------------------- direct adapter path

def check_schematic(ctx, out, desc, kinds=('real', 'complex', 'time')):
    import CircuitCalculator.SimpleCircuit.DiagramSolution as ds
    from CircuitCalculator.SimpleCircuit.DiagramTranslator import circuit_translator
    drv = ctx.driver
    rng = ctx.rng('opts', repr(desc))
    try:
        sch = build(desc)
        circuit = circuit_translator(sch)
    except Exception as e:
        out.skip(f'schematic_not_built:{type(e).__name__}'); return
    names = [e['name'] for e in desc['elements']]
    nodes = [e['node_after'] for e in desc['elements'] if e.get('node_after')] + (['a'] if desc['shape'] == 'ladder' else [])
    w = desc['w']
    for kind in kinds:
        if kind == 'real' and desc['ac']: continue
        p = rng.randint(1, 6)
        forced = desc.get('opts', {}).get(kind, {})
        if kind == 'real':
            opts = dict(precision=forced.get('precision', p)); kw = dict(opts)
        elif kind == 'complex':
            opts = dict(precision=p, polar=rng.random() < 0.5, deg=rng.random() < 0.5)
            opts.update(forced)
            kw = dict(w=w, **opts)
        else:
            opts = dict(precision=3, sin=rng.random() < 0.4, deg=rng.random() < 0.5, hertz=rng.random() < 0.4)
            opts.update(forced)
            kw = dict(w=w, sin=opts['sin'], deg=opts['deg'], hertz=opts['hertz'])
        try:
            sol = getattr(ds, KIND_CTOR[kind])(sch, **kw)
            truth = truth_solution(circuit, kind, w)
        except Exception as e:
            out.skip(f'solution_failed:{type(e).__name__}'); continue
        inner = sol.solution.solution
        w_impl = float(getattr(inner, 'w', 0.0))
        for quantity in QUANT:
            targets = nodes if quantity == 'potential' else names
            for name in targets:
                for reverse in ((False,) if quantity == 'potential' else (False, True)):
                    out.evaluations += 1
                    out.count(f'{kind}:{quantity}')
                    case = dict(desc=desc, kind=kind, quantity=quantity, name=name, reverse=reverse, opts=opts)
                    try:
                        if quantity == 'potential': label = sol.draw_potential(name)
                        else: label = getattr(sol, 'draw_' + quantity)(name, reverse=reverse)
                        text = label_text(label)
                        q_impl = get_q(inner, quantity, name)
                        q_true = get_q(truth, quantity, name)
                    except Exception as e:
                        out.spec_fail(dict(op='draw_' + quantity, kind=kind, symptom='raises', exc=type(e).__name__),
                                      f'draw_{quantity}({name!r}) raises {type(e).__name__}: {e}', case, impl=repr(e), case=case)
                        continue
                    el = sol.diagram_parser.get_element(name)
                    el_rev = bool(getattr(el, 'is_reverse', False))
                    # sign*value exactly as the adapter computes it (int × complex: signed zeros differ from negation)
                    s_signed = q_impl if quantity == 'potential' else (-1 if reverse else 1) * q_impl
                    if drv is None: continue
                    m = drv.call('annot_text', kind=kind, quantity=quantity, reverse=reverse, q=core.qc(q_impl),
                                 element_reversed=el_rev, **derived(s_signed, w_impl, opts, drv), **opts)
                    out.traces_validated += 1
                    arrow_impl = label._userparams.get('reverse') if quantity in ('voltage', 'current') else None
                    if m['s'] != text:
                        tie = _tie(drv, s_signed, w_impl, opts)
                        if tie: out.skip('tie_margin_disagree')
                        else: out.disagree('annot_text', case, text, m['s'])
                    if m['arrow'] != arrow_impl:
                        out.disagree('annot_arrow', case, arrow_impl, m['arrow'])
                    # ---- oracle: the text denotes the solution's quantity with the sign rule
                    expected = core.cfloat(drv.call('annot_text', kind=kind, quantity=quantity, reverse=reverse, q=core.qc(q_true),
                                                    precision=3)['expected'])
                    if kind == 'time' and quantity == 'power':
                        bad = time_power_failure(drv, text, truth, name, reverse, w)
                        if bad:
                            out.spec_fail(dict(op='draw_power', kind='time', symptom='time_power_is_not_u_times_i', dc=(w == 0)),
                                          f'time-function power annotation of {name!r} (reverse={reverse}): {text!r} does not denote '
                                          f'p(t) = u(t)·i(t): {bad}', case, impl=text, spec=bad, case=case)
                        elif bad is not None:
                            out.nontrivial(('time_power', reverse))
                        continue
                    scale = max(abs(q_true), 1e-300)
                    if abs(q_true) < 1e-12 * _scale(truth, quantity, targets):
                        out.skip('numerically_zero_quantity'); continue
                    fails, read = text_oracle(drv, kind, quantity, text, expected, opts, w)
                    regs = _regions(expected, opts, kind)
                    if fails:
                        # one report per root-cause class
                        sep = ('omitted_inside_range', 'amplitude_is_rms', 'angle_fewer_digits_than_precision',
                               'saturated_inside_range', 'finite_beyond_range')
                        hi_q = 12 if (kind == 'real' and quantity == 'power') else 3
                        sat_vals = [abs(expected)] if (kind == 'time' or opts.get('polar')) else [expected.real, expected.imag]
                        groups = [[f for f in fails if f.split(':')[-1] == x] for x in sep] + \
                                 [[f for f in fails if f.split(':')[-1] not in sep]]
                        for g in groups:
                            if not g: continue
                            out.spec_fail(dict(op='draw_' + quantity, kind=kind, symptom='+'.join(sorted(set(f.split(':')[-1] for f in g))),
                                               clause=sorted(set(f.split(':')[0] for f in g if ':' in f)),
                                               region=regs, precision_ge_4=opts['precision'] >= 4, reverse=reverse,
                                               cartesian_part_suppressed=any('omitted_inside_range' in f for f in g),
                                               below_precision_threshold=c18.below_threshold(g, expected, opts['precision'], -6),
                                               saturation_gap=c18.in_saturation_gap(sat_vals, opts['precision'], hi_q),
                                               w_zero=(kind == 'time' and w == 0)),
                                          f'{kind} {quantity} of {name!r} (reverse={reverse}): {text!r} displayed for {expected!r}: ' + ', '.join(g),
                                          case, impl=text, spec=dict(failures=g, expected=str(expected)), case=case)
                    else:
                        out.nontrivial((kind, quantity, reverse, el_rev, desc['shape'], opts.get('polar'), opts.get('deg'),
                                        opts.get('sin'), opts.get('hertz'), opts['precision']))
    out.sample(dict(shape=desc['shape'], elements=[(e['kind'], e['name'], e.get('reverse', False)) for e in desc['elements']]))

def _scale(truth, quantity, targets):
    try:
        return max([abs(get_q(truth, quantity, n)) for n in targets] + [1e-300])
    except Exception:
        return 1.0

def _regions(expected: complex, opts, kind):
    p = opts['precision']
    xs = [expected.real, expected.imag, abs(expected)]
    return 'rounds_up_to_one' if any(c18.region(x, p) == 'rounds_up_to_one' for x in xs) else 'regular'

def _tie(drv, s: complex, w, opts):
    p = opts['precision']
    ph = c18.shifted_phase(drv, s, bool(opts.get('sin')))
    nums = [s.real, s.imag, abs(s), abs(ph), abs(math.degrees(ph)), w, w / 2 / math.pi]
    if any(c18.tie_hit(drv.call('fmt_sf', v=core.q(x), unit='', precision=p)['margins']) for x in nums if x != 0 and math.isfinite(x)):
        return True
    if opts.get('polar'):
        return c18._angle_tie(float(np.angle(s, deg=opts.get('deg', False))), opts.get('deg', False))
    return False

# --------------------------------------------------------------------------- agreement between annotation kinds

def label_under_open_finding(drv, text: str, unit: str) -> bool:
    """the text of a label itself falls under an open finding of the number format (a mantissa outside [1, 1000]: the
    value rounds up to 1 at precision ≥ 4 and is written '0.0010k…', possibly without its sign; or '∞').  A cross-label
    agreement clause must not judge *another* label from such a text."""
    body = text[:-1] if text[-1:] in ('↓', '↑') else text
    pieces = []
    head = body.split('·')[0].split('∠')[0]
    if 'j' in head or (len(head) > 1 and ('+' in head[1:] or '-' in head[1:].replace('e-', 'e'))):
        r = drv.call('fmt_spec_complex', re='1', im='1', precision=1, min_exp=-6, max_exp=3, unit=unit, s=head)
        pieces = [r.get('re'), r.get('im')]
    else:
        pieces = [drv.call('fmt_parse', unit=unit, s=head)['parsed']]
    for t in pieces:
        if t is None: continue
        if t.get('inf'): return True
        m = Fraction(t['mant'])
        if m != 0 and not (1 <= m <= 1000): return True
    return False

def check_agreement(ctx, out, desc):
    """real / Cartesian / polar / sinusoidal annotations of the same quantity of one schematic"""
    import CircuitCalculator.SimpleCircuit.DiagramSolution as ds
    drv = ctx.driver
    if drv is None: return
    try:
        sch = build(desc)
    except Exception as e:
        out.skip(f'schematic_not_built:{type(e).__name__}'); return
    w = desc['w']; p = 4
    def texts(ctor, **kw):
        sol = getattr(ds, ctor)(sch, **kw)
        return {(q, n): label_text(getattr(sol, 'draw_' + q)(n)) for q in ('voltage', 'current') for n in [e['name'] for e in desc['elements']]}
    try:
        cart = texts('single_frequency_complex_solution', w=w, precision=p)
        pol = texts('single_frequency_complex_solution', w=w, precision=p, polar=True)
        pdeg = texts('single_frequency_complex_solution', w=w, precision=p, polar=True, deg=True)
        tim = texts('single_frequency_time_domain_steady_state_solution', w=w)
        rea = texts('real_solution', precision=p) if not desc['ac'] else None
    except Exception as e:
        out.skip(f'solution_failed:{type(e).__name__}'); return
    for key in cart:
        out.evaluations += 1
        out.count('agreement')
        unit = 'V' if key[0] == 'voltage' else 'A'
        case = dict(desc=desc, agreement=list(key))
        def num(s):
            r = drv.call('fmt_parse', unit=unit, s=s)['parsed']
            return None if (r is None or r.get('inf')) else float(Fraction(r['value']))
        def cartesian(s):
            r = drv.call('fmt_spec_complex', re='1', im='1', precision=p, min_exp=-6, max_exp=3, unit=unit, s=s)
            if 'unreadable' in r['failures']: return None
            part = lambda t: 0.0 if t is None or t.get('inf') else float(Fraction(t['value']))
            return complex(part(r.get('re')), part(r.get('im')))
        def polar(s):
            r = drv.call('fmt_spec_polar', abs='1', precision=p, max_exp=3, unit=unit, s=s)
            if 'unreadable' in r['failures'] or r['abs'] is None or r['abs'].get('inf'): return None
            a = 0.0 if r['angle'] is None else float(Fraction(r['angle']))
            return float(Fraction(r['abs']['value'])), (math.radians(a) if r['deg_sign'] else a)
        if any(label_under_open_finding(drv, tx, unit) for tx in [cart[key], pol[key], pdeg[key], tim[key]] + ([rea[key]] if rea else [])):
            out.skip('agreement_skipped_label_under_open_finding'); continue
        c = cartesian(cart[key]); pr = polar(pol[key]); pd = polar(pdeg[key])
        amp = num(tim[key].split('·')[0])
        if amp is not None: amp = abs(amp)
        if None in (c, pr, pd, amp):
            out.skip('agreement_unreadable'); continue
        if abs(c) < 1e-9: out.skip('agreement_zero'); continue
        rel = 2 * 10.0 ** (1 - 3)       # the time function is printed with 3 digits, each Cartesian part with p
        fails = []
        if abs(abs(c) - pr[0]) > rel * pr[0]: fails.append('cartesian_vs_polar_magnitude')
        if abs(pr[0] - pd[0]) > 1e-9 * pr[0]: fails.append('polar_rad_vs_deg_magnitude')
        def dang(a, b):
            d = abs(a - b) % (2 * math.pi); return min(d, 2 * math.pi - d)
        if dang(cmath.phase(c), pr[1]) > 10 * rel: fails.append('cartesian_vs_polar_angle')
        if dang(pr[1], pd[1]) > 2e-4: fails.append('polar_rad_vs_deg_angle')
        sym = []
        # a time function A·cos(wt+φ) and an RMS phasor of the same quantity: A = √2·|phasor|
        if abs(amp - math.sqrt(2) * pr[0]) > rel * amp:
            sym.append('time_amplitude_is_not_peak' if abs(amp - pr[0]) <= rel * amp else 'time_amplitude')
        # a Cartesian text with a single part although both parts of the phasor are expressible with the prefixes
        om_im = 'j' not in cart[key]; om_re = cart[key].lstrip('-').startswith('j')
        suppressed = (om_im and abs(pr[0] * math.sin(pr[1])) >= 1e-6) or (om_re and abs(pr[0] * math.cos(pr[1])) >= 1e-6)
        thr = 10.0 ** (-6 + p - 1) * (1 - 1e-9)       # the code's threshold at this precision (open finding)
        below = (not om_im or abs(pr[0] * math.sin(pr[1])) < thr) and (not om_re or abs(pr[0] * math.cos(pr[1])) < thr)
        for f in fails + sym:
            out.spec_fail(dict(op='agree', symptom=f, dc=not desc['ac'], cartesian_part_suppressed=suppressed,
                               below_precision_threshold=below),
                          f'annotations of {key[0]} of {key[1]!r} disagree ({f}): cartesian {cart[key]!r}, polar {pol[key]!r}, '
                          f'degrees {pdeg[key]!r}, time {tim[key]!r}' + (f', real {rea[key]!r}' if rea else ''), case, case=case)
        if not fails and not sym:
            out.nontrivial(('agree', desc['shape'], desc['ac'], key[0]))

# --------------------------------------------------------------------------- power = V·conj(I), from the labels alone

def _parse_time_label(drv, s, unit, w):
    """'A<unit>·cos(<freq>·t[±phase])' → phasor A·exp(jφ) (cos reference, radians); None if unreadable"""
    num = lambda t, u: (lambda r: None if (r is None or r.get('inf')) else float(Fraction(r['value'])))(drv.call('fmt_parse', unit=u, s=t)['parsed'])
    if w == 0:
        a = num(s, unit)
        return None if a is None else complex(a, 0.0)
    head, sep, tail = s.partition('·cos(')
    if not sep or not tail.endswith(')'): return None
    a = num(head, unit)
    _, sep, ph = tail[:-1].partition('·t')
    if a is None or not sep: return None
    if ph == '': return complex(a, 0.0)
    v = num(ph[1:], '')
    if v is None or ph[0] not in '+-': return None
    return a * cmath.exp(1j * (v if ph[0] == '+' else -v))

def _parse_polar_label(drv, s, unit):
    r = drv.call('fmt_spec_polar', abs='1', precision=1, max_exp=3, unit=unit, s=s)
    if 'unreadable' in r['failures'] or r['abs'] is None or r['abs'].get('inf'): return None
    a = 0.0 if r['angle'] is None else float(Fraction(r['angle']))
    return float(Fraction(r['abs']['value'])) * cmath.exp(1j * a)

def check_power_agreement(ctx, out, desc):
    """the power annotation of an element against V·conj(I) (RMS phasors), ½·V·conj(I) (peak phasors of the time
    functions), V·I (DC) computed from the *voltage and current annotations* of the same element; random reverse
    flags, undone with the sign rule; sign of the reactive power of inductors (Q ≥ 0) and capacitors (Q ≤ 0)"""
    import CircuitCalculator.SimpleCircuit.DiagramSolution as ds
    drv = ctx.driver
    if drv is None: return
    rng = ctx.rng('power', repr(desc))
    try:
        sch = build(desc)
    except Exception as e:
        out.skip(f'schematic_not_built:{type(e).__name__}'); return
    w = desc['w']; p = 4
    kinds = [('complex', 'single_frequency_complex_solution', dict(w=w, precision=p, polar=True), p)]
    # (the time-function power label is judged against p(t) = u(t)·i(t) in check_schematic, not against ½·U·I*)
    if not desc['ac']:
        kinds.append(('real', 'real_solution', dict(precision=p), p))
    for kind, ctor, kw, prec in kinds:
        try:
            sol = getattr(ds, ctor)(sch, **kw)
        except Exception as e:
            out.skip(f'solution_failed:{type(e).__name__}'); continue
        for e in desc['elements']:
            name = e['name']
            rv, ri, rp = (rng.random() < 0.5 for _ in range(3))
            out.evaluations += 1
            out.count(f'power_agreement:{kind}')
            case = dict(desc=desc, power_agreement=dict(kind=kind, name=name))
            try:
                tv = label_text(sol.draw_voltage(name, reverse=rv)); ti = label_text(sol.draw_current(name, reverse=ri))
                tp = label_text(sol.draw_power(name, reverse=rp))
            except Exception as ex:
                out.skip(f'draw_failed:{type(ex).__name__}'); continue
            if label_under_open_finding(drv, tv, 'V') or label_under_open_finding(drv, ti, 'A') or label_under_open_finding(drv, tp, 'W'):
                # e.g. a current of −1.0 A at precision 4 is written '0.0010kA' (open finding, sign lost): the power label
                # is not to blame for what that text reads back to
                out.skip('agreement_skipped_label_under_open_finding'); continue
            if kind == 'complex':
                V, I, S = _parse_polar_label(drv, tv, 'V'), _parse_polar_label(drv, ti, 'A'), _parse_polar_label(drv, tp, 'W')
                factor = 1.0
            elif kind == 'time':
                V, I, S = _parse_time_label(drv, tv, 'V', w), _parse_time_label(drv, ti, 'A', w), _parse_time_label(drv, tp, 'W', w)
                factor = 0.5
            else:
                num = lambda t, u: (lambda r: None if (r is None or r.get('inf')) else float(Fraction(r['value'])))(drv.call('fmt_parse', unit=u, s=t)['parsed'])
                V, I = num(tv, 'V'), num(ti, 'A')
                a = num(tp[:-1], 'W')
                S = None if (a is None or tp[-1:] not in ('↓', '↑')) else (a if tp[-1] == '↓' else -a)
                factor = 1.0
            if V is None or I is None or S is None:
                out.skip('power_agreement_unreadable'); continue
            # undo the requested reversals (sign rule of Spec.Annot)
            V = -V if rv else V; I = -I if ri else I; S = -S if rp else S
            want = factor * V * (I.conjugate() if isinstance(I, complex) else I)
            if abs(want) < 1e-12 or abs(V) < 1e-9 or abs(I) < 1e-12:
                out.skip('power_agreement_zero'); continue
            # three labels, each within half a unit of its `prec`-th digit (relative ≤ ½·10^(1-prec)); printed angles
            # carry ≤ ½ unit of their last digit each
            rel = 3 * 0.5 * 10.0 ** (1 - prec) * 1.2
            ang_tol = (3 * 0.5e-4 + 1e-5 * 3 + 1e-6) if kind == 'complex' else 3 * 0.5 * 10.0 ** (1 - prec) * math.pi
            fails = []
            if abs(abs(S) - abs(want)) > rel * abs(want):
                fails.append('power_not_v_conj_i')
            elif kind != 'real':
                d = abs(cmath.phase(S) - cmath.phase(want)) % (2 * math.pi); d = min(d, 2 * math.pi - d)
                if d > ang_tol: fails.append('power_not_v_conj_i')
            elif (S > 0) != (want > 0):
                fails.append('power_not_v_conj_i')
            if kind != 'real' and w > 0 and e['kind'] in ('L', 'C') and not fails:
                q = S.imag if kind == 'complex' else S.imag
                if abs(q) > ang_tol * abs(S) and (q > 0) != (e['kind'] == 'L'):
                    fails.append('reactive_power_sign')
            if fails:
                out.spec_fail(dict(op='agree', symptom=fails[0], kind=kind, element=e['kind']),
                              f'{kind} power annotation of {name!r} {tp!r} (reverse={rp}) is not '
                              f'{"½·" if factor == 0.5 else ""}V·conj(I) of its voltage {tv!r} (reverse={rv}) and current {ti!r} '
                              f'(reverse={ri}): read {S!r}, expected {want!r}', case, impl=dict(v=tv, i=ti, p=tp),
                              spec=dict(read=str(S), expected=str(want)), case=case)
            else:
                out.nontrivial(('power_agree', kind, e['kind'], rv, ri, rp))

POWER_CORPUS = [
    # RL, RC and RLC loops at w > 0: inductors absorb, capacitors deliver reactive power
    dict(shape='loop', unit=5, w=100.0, ac=True, elements=[dict(kind='VAC', name='Vq', value=10.0, w=100.0, phi=0.0, reverse=False),
         dict(kind='R', name='R1', value=10.0, reverse=False), dict(kind='L', name='L1', value=0.1, reverse=False)]),
    dict(shape='loop', unit=5, w=100.0, ac=True, elements=[dict(kind='VAC', name='Vq', value=10.0, w=100.0, phi=0.5, reverse=False),
         dict(kind='R', name='R1', value=100.0, reverse=True), dict(kind='C', name='C1', value=1e-4, reverse=False)]),
    dict(shape='loop', unit=5, w=1000.0, ac=True, elements=[dict(kind='VC', name='Vq', value=[3.0, 4.0], reverse=False),
         dict(kind='R', name='R1', value=47.0, reverse=False), dict(kind='L', name='L1', value=0.022, reverse=True),
         dict(kind='C', name='C1', value=4.7e-5, reverse=False)]),
]

# --------------------------------------------------------------------------- declarative path

DECL_ELEMENT = {'R': ('resistor', 'R'), 'C': ('capacitor', 'C'), 'L': ('inductance', 'L'), 'V': ('voltage_source', 'V'),
                'I': ('current_source', 'I')}

def decl_elements(desc):
    """the 'loop' shape as a declarative element list"""
    out = []
    els = desc['elements']
    def one(e, direction):
        if e['kind'] == 'VAC':
            return dict(type='ac_voltage_source', name=e['name'], V=e['value'], w=e['w'], phi=e['phi'], reverse=e.get('reverse', False), direction=direction)
        if e['kind'] == 'Z':
            return dict(type='impedance', name=e['name'], Z=complex(*e['value']), reverse=e.get('reverse', False), direction=direction)
        if e['kind'] == 'VC':
            return dict(type='complex_voltage_source', name=e['name'], V=complex(*e['value']), reverse=e.get('reverse', False), direction=direction)
        t, k = DECL_ELEMENT[e['kind']]
        return {'type': t, 'name': e['name'], k: e['value'], 'reverse': e.get('reverse', False), 'direction': direction}
    out.append(one(els[0], 'up'))
    out.append(dict(type='node', name='n1'))
    for i, e in enumerate(els[1:-1]):
        out.append(one(e, 'right'))
        out.append(dict(type='node', name=f'n{i + 2}'))
    out.append(one(els[-1], 'down'))
    out.append(dict(type='line', direction='left', length=max(1, len(els) - 2)))
    out.append(dict(type='ground'))
    return out

def check_declarative(ctx, out, desc, sol_type, params):
    from CircuitCalculator.SimpleSimulation.schematic import create_schematic
    import CircuitCalculator.SimpleCircuit.Elements as elm
    from CircuitCalculator.SimpleCircuit.DiagramTranslator import circuit_translator
    import matplotlib.pyplot as plt
    drv = ctx.driver
    names = [e['name'] for e in desc['elements']]
    solution = dict(params)
    if sol_type is not None: solution['type'] = sol_type
    solution['voltages'] = [dict(name=n, reverse=(i % 2 == 1)) for i, n in enumerate(names)]
    solution['currents'] = [dict(name=names[-1]), dict(name=names[0], reverse=True), dict(name=names[1], end=True),
                            dict(name=names[-1], reverse=True, end=True)]
    solution['powers'] = [dict(name=names[1])]
    import copy
    data = dict(unit=5, elements=decl_elements(desc), solution=solution)
    pristine = copy.deepcopy(data)
    solution = pristine['solution']          # everything below reads the description as it was written
    case = dict(desc=desc, declarative=dict(type=sol_type, params=params))
    out.evaluations += 1
    out.count(f'declarative:{sol_type}')
    def texts_of(sch):
        return [(type(l).__name__, label_text(l), l._userparams.get('reverse') if not isinstance(l, elm.PowerLabel) else None)
                for l in sch.elements if isinstance(l, (elm.VoltageLabel, elm.CurrentLabel, elm.PowerLabel))]
    try:
        with contextlib.redirect_stdout(io.StringIO()):
            sch = create_schematic(data)
            first = texts_of(sch)
            label_objs = [l for l in sch.elements if isinstance(l, (elm.VoltageLabel, elm.CurrentLabel, elm.PowerLabel))]
            # the same description object used a second time (a description is data, not a consumable)
            second = texts_of(create_schematic(data))
        plt.close('all')
    except Exception as e:
        out.spec_fail(dict(op='create_schematic', solution_type=str(sol_type), symptom='raises', exc=type(e).__name__),
                      f'create_schematic raises {type(e).__name__}: {e}', case, impl=repr(e), case=case)
        return
    if data != pristine or second != first:
        out.spec_fail(dict(op='create_schematic', solution_type=str(sol_type),
                           symptom='description_consumed' if data != pristine else 'second_use_differs'),
                      f'second schematic from the same description differs: first {first}, second {second}; description '
                      f'{"changed" if data != pristine else "unchanged"}', case, impl=dict(first=first, second=second), case=case)
    got = [(c, t) for c, t, _ in first]
    if drv is None: return
    lk = drv.call('annot_lookup', type=sol_type if sol_type is not None else 'unknown', keys=sorted(solution.keys()))
    # ---- correspondence: the labels are those of the adapter the model's lookup selects, in the order of the loops
    order = []
    for lst, draw in lk['loops']:
        for ann in solution.get(lst, []):
            order.append((draw.replace('draw_', ''), ann['name'], ann.get('reverse', False)))
    kind = lk['kind']
    want = []
    circuit = circuit_translator(sch_without_labels(sch))
    w = float(params.get('w', 0.0)) if 'w' in lk['params'] else 0.0
    opts = dict(precision=int(params.get('precision', 3)) if 'precision' in lk['params'] else 3,
                polar=bool(params.get('polar', False)) if 'polar' in lk['params'] else False,
                deg=bool(params.get('deg', False)) if 'deg' in lk['params'] else False,
                sin=bool(params.get('sin', False)) if 'sin' in lk['params'] else False,
                hertz=bool(params.get('hertz', False)) if 'hertz' in lk['params'] else False)
    cls_of = {'voltage': 'VoltageLabel', 'current': 'CurrentLabel', 'power': 'PowerLabel'}
    tie = False
    for quantity, name, reverse in order:
        if kind is None:
            want.append((cls_of[quantity], '')); continue
        # the adapter's own solution object: RMS phasors unless the selected constructor passes peak_values=True
        sol = truth_solution(circuit, 'time' if (kind == 'time' and lk['peak']) else ('complex' if kind == 'time' else kind), w)
        q = get_q(sol, quantity, name)
        s_signed = (-1 if reverse else 1) * q
        m = drv.call('annot_text', kind=kind, quantity=quantity, reverse=reverse, q=core.qc(q), **derived(s_signed, w, opts, drv), **opts)
        tie = tie or _tie(drv, s_signed, w, opts)
        want.append((cls_of[quantity], m['s']))
    out.traces_validated += 1
    if want != got:
        if tie: out.skip('tie_margin_disagree')
        else: out.disagree('create_schematic', case, got, want)
    # ---- oracle: the declared type selects the specified kind of annotation, and the text denotes the solution
    spec_kind = lk['spec_kind']
    if spec_kind is None:
        if any(t for _, t in got):
            out.spec_fail(dict(op='create_schematic', solution_type=str(sol_type), symptom='labels_for_unknown_type'),
                          f'unknown solution type {sol_type!r} produced annotation texts', case, impl=got, case=case)
        else:
            out.nontrivial(('declarative', str(sol_type)))
        return
    sw = float(params.get('w', 0.0)) if spec_kind != 'real' else 0.0
    sopts = dict(precision=int(params.get('precision', 3)) if spec_kind != 'time' else 3,
                 polar=bool(params.get('polar', False)), deg=bool(params.get('deg', False)),
                 sin=bool(params.get('sin', False)), hertz=bool(params.get('hertz', False)))
    truth = truth_solution(circuit, spec_kind, sw)
    bad = []
    for (quantity, name, reverse), (_, text) in zip(order, got):
        if spec_kind == 'time' and quantity == 'power': continue
        q_true = get_q(truth, quantity, name)
        if abs(q_true) < 1e-12 * _scale(truth, quantity, names): continue
        expected = -q_true if reverse else q_true
        fails, _ = text_oracle(drv, spec_kind, quantity, text, expected, sopts, sw)
        if fails: bad.append((quantity, name, reverse, text, fails, expected))
    if len(got) != len(order): bad.append(('labels', None, None, str(got), ['label_count']))
    # ---- geometric: the number next to each drawn arrow is the quantity along that arrow (incl. `end: true`)
    if kind == spec_kind and len(label_objs) == len(order):
        els = desc['elements']; U = 5.0
        pts = [np.array((0.0, 0.0)), np.array((0.0, U))]
        for _ in els[1:-1]: pts.append(pts[-1] + np.array((U, 0.0)))
        pts.append(pts[-1] + np.array((0.0, -U)))
        try:
            phis = [0j] + [complex(truth.get_potential(f'n{i}')) for i in range(1, len(els))] + [0j]
            j = next(i for i, e in enumerate(els) if impedance_of(e, sw) not in (None, 0))
            i_loop = (phis[j] - phis[j + 1]) / impedance_of(els[j], sw)
        except Exception as e:
            out.skip(f'declarative_geometry:{type(e).__name__}'); i_loop = None
        if i_loop is not None:
            ann_iter = [(lst, ann) for lst, _ in lk['loops'] for ann in solution.get(lst, [])]
            for (quantity, name, reverse), lab, (lst, ann) in zip(order, label_objs, ann_iter):
                if quantity not in ('voltage', 'current'): continue
                i = names.index(name)
                out.evaluations += 1
                out.count(f'arrow:declarative:{quantity}')
                # quantities that are numerical noise of the solve (e.g. an AC source evaluated at w = 0) are not judged
                vs = max([abs(complex(*e['value'])) if isinstance(e['value'], list) else abs(e['value'])
                          for e in els if e['kind'] in ('V', 'VAC', 'VC', 'I')] + [0.0])
                zs = [abs(z) for z in (impedance_of(e, sw) for e in els) if z not in (None, 0)]
                if els[0]['kind'] == 'I': vs = vs * max(zs + [1.0])
                q_here = (phis[i] - phis[i + 1]) if quantity == 'voltage' else i_loop
                floor = 1e-9 * vs if quantity == 'voltage' else 1e-9 * vs / max(min(zs + [1.0]), 1e-300)
                if abs(q_here) <= floor:
                    out.skip('numerically_zero_quantity'); continue
                judge_along_arrow(drv, out, lab, quantity, label_text(lab), pts[i], pts[i + 1], phis[i], phis[i + 1], i_loop,
                                  spec_kind, sopts, sw,
                                  dict(element='source' if i == 0 else 'passive', element_reversed=bool(els[i].get('reverse', False)),
                                       annotation_reversed=bool(reverse), end=bool(ann.get('end', False)), direction='declarative',
                                       declared_w_dropped=('w' in params and 'w' not in lk['params'])),
                                  f'declarative {spec_kind} {quantity} annotation of {name!r} ({ann})', case)
    if bad:
        symptoms = sorted({f.split(':')[-1] for b in bad for f in b[4]})
        out.spec_fail(dict(op='create_schematic', solution_type=str(sol_type), symptom='+'.join(symptoms),
                           selected_kind=str(kind), specified_kind=str(spec_kind),
                           cartesian_part_suppressed='omitted_inside_range' in symptoms,
                           declared_w_dropped=('w' in params and 'w' not in lk['params']),
                           saturation_gap=any(c18.in_saturation_gap([b[5].real, b[5].imag, abs(b[5])], sopts['precision'], 3) for b in bad if len(b) > 5),
                           below_precision_threshold=all(c18.below_threshold(b[4], b[5], sopts['precision'], -6) for b in bad if len(b) > 5)),
                      f'solution type {sol_type!r}: ' + '; '.join(f'{b[0]} of {b[1]!r}: {b[3]!r} ({", ".join(b[4])})' for b in bad[:3]),
                      case, impl=got, spec=dict(specified_kind=spec_kind, selected_kind=kind), case=case)
    else:
        out.nontrivial(('declarative', str(sol_type), tuple(sorted(params))))

def sch_without_labels(sch):
    import CircuitCalculator.SimpleCircuit.Elements as elm
    import copy
    s2 = elm.Schematic(unit=sch.unit, show=False)
    s2.elements = [e for e in sch.elements if not isinstance(e, (elm.VoltageLabel, elm.CurrentLabel, elm.PowerLabel))]
    return s2

# --------------------------------------------------------------------------- run

CORPUS = [
    dict(shape='loop', unit=5, w=0.0, ac=False, elements=[dict(kind='V', name='Vq', value=10.0, reverse=False),
         dict(kind='R', name='R1', value=100.0, reverse=False, node_after='a'), dict(kind='R', name='R2', value=200.0, reverse=True)]),
    dict(shape='loop', unit=5, w=100.0, ac=True, elements=[dict(kind='VAC', name='Vq', value=10.0, w=100.0, phi=0.5, reverse=False),
         dict(kind='R', name='R1', value=100.0, reverse=False, node_after='a'), dict(kind='C', name='C1', value=1e-4, reverse=False)]),
    dict(shape='loop_ccw', unit=5, w=0.0, ac=False, elements=[dict(kind='I', name='Iq', value=0.02, reverse=True),
         dict(kind='R', name='R1', value=47.0, reverse=True, node_after='a'), dict(kind='R', name='R2', value=9.995, reverse=False)]),
    # quantities within 1e-14 of ±1 (forward / reverse) at precision ≥ 4: the open rounds-up-to-one finding, reached on every run
    dict(shape='loop', unit=5, w=0.0, ac=False, opts=dict(real=dict(precision=5)),
         elements=[dict(kind='V', name='Vq', value=0.99999999999999, reverse=False),
                   dict(kind='R', name='R1', value=0.5, reverse=False, node_after='a'), dict(kind='R', name='R2', value=0.5, reverse=True)]),
    dict(shape='loop', unit=5, w=0.0, ac=False, opts=dict(real=dict(precision=4)),
         elements=[dict(kind='I', name='Iq', value=0.99999999999999, reverse=False),
                   dict(kind='R', name='R1', value=999.99999999999, reverse=False, node_after='a'), dict(kind='R', name='R2', value=1.0, reverse=False)]),
    # parts exactly in the decade of the zero-suppression threshold: 10 V·cos(1000 t) – 20 kΩ – 50 nF, I_rms = (176.8 + j176.8) µA
    dict(shape='loop', unit=5, w=1000.0, ac=True, opts=dict(complex=dict(precision=3, polar=False, deg=False)),
         elements=[dict(kind='VAC', name='Vq', value=10.0, w=1000.0, phi=0.0, reverse=False),
                   dict(kind='R', name='R1', value=20000.0, reverse=False, node_after='a'), dict(kind='C', name='C1', value=5e-8, reverse=False)]),
    dict(shape='loop', unit=5, w=1000.0, ac=True, opts=dict(complex=dict(precision=3, polar=False, deg=False), time=dict(sin=True, deg=False, hertz=False)),
         elements=[dict(kind='VC', name='Vq', value=[3.0, 4.0], reverse=False),
                   dict(kind='R', name='R1', value=4000.0, reverse=True), dict(kind='R', name='R2', value=6000.0, reverse=False)]),
    # a phasor on the negative real axis in sine form (±π representatives)
    dict(shape='loop', unit=5, w=1000.0, ac=True, opts=dict(time=dict(sin=True, deg=False, hertz=False)),
         elements=[dict(kind='VAC', name='Vq', value=100.0, w=1000.0, phi=0.0, reverse=True),
                   dict(kind='R', name='E1', value=33.0, reverse=False), dict(kind='R', name='E2', value=21.4, reverse=False)]),
]

def run(ctx, out):
    out.rule = ('small real schematics (series loop drawn clockwise / counter-clockwise, ladder) built with SimpleCircuit.Elements: '
                'DC (V/I source, resistors) and AC (sinusoidal / complex source, R, C, L, Z), random reverse flags and values; every '
                'named element × {voltage, current, power} × {forward, reverse}, labelled nodes × potential; kinds real / complex '
                '(Cartesian, polar rad/deg) / time function, precisions 1–6; declarative descriptions with every declared type.  '
                'Non-trivial: a non-zero quantity whose text the oracle accepted; distinct by (kind, quantity, reverse, element '
                'reversed, shape, options)')
    quick = ctx.quick
    for desc in CORPUS:
        check_schematic(ctx, out, desc)
    rng = ctx.rng('schematics')
    for k in range(40 if quick else 400):
        if ctx.time_left() < 40: out.notes.append(f'schematics cut by budget after {k}'); break
        check_schematic(ctx, out, random_desc(rng, ac=(k % 2 == 1)))
    rng = ctx.rng('agreement')
    for k in range(14 if quick else 120):
        if ctx.time_left() < 30: out.notes.append('agreement cut by budget'); break
        check_agreement(ctx, out, CORPUS[k] if k < 2 else random_desc(rng, ac=(k % 2 == 1)))
    rng = ctx.rng('arrows')
    for g in arrow_descs(rng, quick):
        if ctx.time_left() < 28: out.notes.append('arrow geometry cut by budget'); break
        check_arrows(ctx, out, g)
    rng = ctx.rng('power')
    for k in range(12 if quick else 150):
        if ctx.time_left() < 25: out.notes.append('power agreement cut by budget'); break
        d = POWER_CORPUS[k] if k < len(POWER_CORPUS) else (CORPUS[0] if k == len(POWER_CORPUS) else random_desc(rng, ac=(k % 3 != 0)))
        check_power_agreement(ctx, out, d)
    rng = ctx.rng('declarative')
    decl = [('dc', {}), ('real', dict(precision=2)), ('complex', dict(precision=4, polar=True, deg=True)),
            ('single_frequency_time_domain', dict(w=100.0)), ('single_frequency_time_domain', dict(w=100.0, sin=True, hertz=True)),
            ('nonsense', {}), (None, {}), ('complex', dict(polar=False, bogus=1)), ('complex', dict(w=100.0, precision=3))]
    for k, (ty, params) in enumerate(decl * 2 if quick else decl * 8):
        if ctx.time_left() < 15: out.notes.append('declarative cut by budget'); break
        ac = ty in ('single_frequency_time_domain',) or (ty == 'complex' and ('w' in params or k % 2 == 0))
        d = None
        for _ in range(20):
            d = random_desc(rng, ac=ac)
            if d['shape'] == 'loop': break
        if d['shape'] != 'loop': d = CORPUS[1] if ac else CORPUS[0]
        if ac and 'w' in params: params = dict(params, w=d['w'])
        check_declarative(ctx, out, d, ty, params)

def replay(ctx, out, rp):
    case = rp.get('case') or rp.get('input')
    if isinstance(case, dict) and 'arrows' in case:
        check_arrows(ctx, out, case['arrows']); return
    if not isinstance(case, dict) or 'desc' not in case:
        raise SystemExit('replay file carries no schematic description')
    if 'declarative' in case:
        check_declarative(ctx, out, case['desc'], case['declarative']['type'], case['declarative']['params'])
    elif 'agreement' in case:
        check_agreement(ctx, out, case['desc'])
    elif 'power_agreement' in case:
        check_power_agreement(ctx, out, case['desc'])
    elif 'arrows' in case:
        check_arrows(ctx, out, case['arrows'])
    else:
        check_schematic(ctx, out, case['desc'], kinds=(case['kind'],))
