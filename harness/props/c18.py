"""
C18 — displayed numbers are accurate to the stated precision.

Correspondence (exact: rendered-string equality): `str(ScientificFloat)`,
`str(ScientificComplex)` and every `Display.print_*` helper against the Lean model
(CC/Model/Fmt.lean over the generated CC/Gen/FmtTables.lean), the model being fed the exact
rational value of each binary64 input and the implementation's own `abs`/`angle`/`phase`.
A case whose rounding argument lies within 2^-40 (relative) of a tie is still compared; a
string difference there is counted as `tie_margin_disagree` and is not a disagreement.

Oracle (CC/Spec/Fmt.lean, evaluated by the driver on the *implementation's* string):
`parseBack` → exponent multiple of three, 1 ≤ mantissa ≤ 1000, value within half a unit of
the p-th significant digit (+2^-40 relative, for the float arithmetic inside the pipeline),
sign, saturation exactly beyond the range, complex parts / polar magnitude and angle.
"""
from __future__ import annotations
import math, cmath
from fractions import Fraction
import numpy as np
import core

ID = 'C18'
LEAN_MODULE = 'CC.Properties.C18'
LEVEL = 'proof'
THEOREMS = [
    'CC.C18_translator_accepts',
    'CC.C18_exp3', 'CC.C18_exp3_floor', 'CC.C18_mantissa_half', 'CC.C18_mantissa_range', 'CC.C18_accuracy',
    'CC.C18_saturate', 'CC.C18_saturate_text', 'CC.C18_mantissa_sign', 'CC.C18_is_inf_iff', 'CC.C18_is_zero_iff',
    'CC.C18_suppressed_small', 'CC.C18_complex', 'CC.C18_complex_polar', 'CC.C18_fixed_accuracy',
    'CC.C18_prefix_clamp', 'CC.C18_no_prefix', 'CC.C18_tables_admissible', 'CC.C18_tables_si',
    'CC.C18_display_ranges', 'CC.C18_display_args', 'CC.C18_defaults',
    'CC.C18_real_counterexample', 'CC.C18_rounds_up_to_one_text', 'CC.C18_complex_suppression_counterexample',
    'CC.C18_zero_never_infinity', 'CC.C18_exponent_decade_partial', 'CC.C18_accuracy_positional',
    'CC.C18_exponent_decade_small', 'CC.C18_exponent_decade_domain', 'CC.C18_accuracy_domain',
    'CC.C18_mantissa_range_domain', 'CC.C18_saturate_domain', 'CC.C18_tables_ends', 'CC.C18_sine_shift', 'CC.C18_saturation_independent_of_precision', 'CC.C18_render', 'CC.C18_real_domain', 'CC.C18_complex_shown_parts',
]
# round 5 (CC/Proofs/FmtPolar.lean, CC/Properties/C18Polar.lean): polar form, time function, power texts, zero parts
LEAN_MODULE_EXTRA = ['CC.Properties.C18Polar']
THEOREMS += [
    'CC.C18_polar_constants', 'CC.C18_polar_text', 'CC.C18_polar_magnitude_real_path', 'CC.C18_polar_omission',
    'CC.C18_polar_angle_text', 'CC.C18_polar_small_angle_text', 'CC.C18_polar_reads_back',
    'CC.C18_time_configs', 'CC.C18_time_w_zero', 'CC.C18_time_text', 'CC.C18_time_parts_read_back', 'CC.C18_time_phase_rule',
    'CC.C18_time_function_denotes', 'CC.C18_sine_shift_former_sign',
    'CC.C18_cartesian_zero_im', 'CC.C18_cartesian_zero_re', 'CC.C18_zero_part_read_back', 'CC.C18_zero_text',
    'CC.C18_active_power_text', 'CC.C18_active_reactive_text',
]
# round 5b (CC/Spec/FmtReaders.lean, CC/Proofs/FmtReaders.lean, CC/Properties/C18Readers.lean): verified readers for the
# Cartesian, time-function and P/Q texts; what a time-function text denotes (bound over a window)
LEAN_MODULE_EXTRA += ['CC.Properties.C18Readers']
THEOREMS += [
    'CC.C18_cartesian_reads_back', 'CC.C18_cartesian_zero_part_reads_back',
    'CC.C18_sinusoid_reads_back', 'CC.C18_sinusoid_const_reads_back', 'CC.C18_pq_reads_back',
    'CC.C18_wave_lipschitz', 'CC.C18_sinusoid_denotes',
]
OPEN_STATEMENTS = [
    'CC.C18_exponent_decade_statement and CC.C18_real_partial_statement for |v| >= 1e16 only (outside the property domain '
    '1e-15..1e15; proved below 1e16 as C18_exponent_decade_domain / C18_real_domain).  Consequence: under |v| < 1e16 the first '
    'conjunct of C18_saturate_domain (Beyond -> is_inf) is vacuous for every configuration without prefixes (max_exp = 16, '
    'Beyond needs |v| >= 1e19); it has content for the prefix tables only',
    'CC.C18_real_statement is FALSE for the current code: CC.C18_real_counterexample (open finding 1, not repaired: the '
    "repository's own tests encode the behaviour)",
    'Cartesian complex text: WHICH parts appear.  C18_complex_shown_parts states each branch with its is_zero condition and '
    'that the part texts read back accurately; that a part is left out only when it should be is FALSE at full strength (open '
    'finding 2, C18_complex_suppression_counterexample: |im| = 20|re| dropped).  Values with an EXACTLY zero part are now proved '
    '(C18_cartesian_zero_im / _zero_re / C18_zero_part_read_back: exactly that part is omitted, the other is the real path; the '
    'number 0 itself: C18_zero_text); a non-zero part that is_zero suppresses remains finding 2',
    'a verified reader for the composite texts: now proved for all four — polar (C18_polar_reads_back), Cartesian '
    '(C18_cartesian_reads_back / C18_cartesian_zero_part_reads_back: parseCartesian of CC/Spec/Fmt.lean, the reader the oracle '
    'runs, returns exactly the parts C18_complex_shown_parts names, each RealOK w.r.t. the SIGNED part), time function '
    '(C18_sinusoid_reads_back / _const_reads_back: parseSinusoid of CC/Spec/FmtReaders.lean, amplitude / frequency / phase '
    'RealOK, flags) and P/Q (C18_pq_reads_back: parsePQ).  Hypotheses that remain: CfgOK, InDomain of every number shown, and '
    'the separators (j, space; the dot of the time function) do not occur in the unit or a prefix letter (true of every unit '
    'and table of the code).  In degree mode the phase reads back to |degrees(phase)| with the sign of the phase in radians '
    '(shownPhase): that degrees(phase) has the sign of phase is a property of the parameter, not proved.  Still open here: '
    'a combined text-level corollary that instantiates C18_sinusoid_denotes with the three half-unit tolerances of the parsed '
    'numbers (the pieces are proved: C18_sinusoid_reads_back gives the three RealOK facts, C18_wave_lipschitz / '
    'C18_sinusoid_denotes the bound |A-A\'| + |A|(|w-w\'|T + |phi-phi\'|) for ALL reals; the instantiation needs finiteness of '
    'the texts (no saturation) and the casts Q -> R, not written)',
    'polar / time function: abs(value), np.angle, cmath.phase (+ quarter turn), degrees, w/2/pi are PARAMETERS of the model.  '
    'The theorems say the text denotes the numbers handed to the formatter (magnitude: RealOK; angle: within 0.5e-4 rad / '
    '0.5e-2 deg, C18_polar_angle_text; phase: real path with p digits); that these numbers are |z| and arg z of the value is '
    'oracle only.  C18_time_function_denotes proves over the reals that Re(X e^{jwt}) = |X|cos(wt+arg X) = |X|sin(wt+arg X+shift*pi/2) '
    'for the generated shift — for exact modulus/argument, not for the libm values; C18_sinusoid_denotes (round 5b) bounds the '
    'distance of ANY wave A\'cos/sin(w\'t+phi\') from Re(X e^{jwt}) on |t| <= T by |‖X‖-A\'| + ‖X‖(|w-w\'|T + |arg X (+shift*pi/2) - phi\'|), '
    'so the libm deviation enters as an explicit term instead of an exactness assumption — its size is still oracle only',
    'the polar angle carries a FIXED number of decimals (4 / 2), not p significant digits: C18_polar_angle_text is the strongest '
    'true statement (open finding 3; C18_polar_small_angle_text: 2e-5 rad is shown as 0.0000); '
    'print_active_reactive_power omits Q below an ABSOLUTE threshold (C18_active_reactive_text states it; open finding 4)',
    'all round-5 read-back statements inherit the real-path domain: value != 0, |v| < 1e16, outside the rounds-up-to-one region '
    '(InDomain; open finding 1)',
    'pins (restate generated definitions so that an edit breaks a theorem, no further content): C18_is_inf_iff, C18_is_zero_iff, '
    'C18_no_prefix, C18_defaults, C18_display_args, C18_display_ranges, C18_polar_constants, C18_time_configs',
]
ASSUMPTIONS = [
    'the model formats the exact rational value of the binary64 input; float arithmetic inside Utils.py '
    '(value/10**e, np.round, 10**-k, % 1) is replaced by exact arithmetic with round-half-even — differences are '
    'confined to inputs within 2^-40 (relative) of a rounding tie, which are counted (tie_margin_*) and excluded',
    "Python's repr(float) is a parameter: exponent notation iff x < 1e-4 or x >= 1e16, integer part and leading-zero "
    'count equal to those of the exact value, printed exponent = floor(log10 x) (deviations counted as repr_exponent_deviation)',
    "f'{x:.nf}' rounds the exact binary value correctly (half-even)",
    'abs(complex), np.angle, cmath.phase, math.degrees, w/2/pi are parameters: the model is fed the values the implementation computed',
    'hand-written model CC/Model/Fmt.lean is tied to the code by the rendered-string correspondence and by the shape guard of extract_fmt.py',
]

TIE = Fraction(1, 2 ** 40)

TABLES = {
    'default': {-12: 'p', -9: 'n', -6: 'u', -3: 'm', -1: 'c', 3: 'k', 6: 'M', 9: 'G', 12: 'T'},
    'uv': {-6: 'u', -3: 'm', 3: 'k'},
    'ohm': {-3: 'm', 3: 'k', 6: 'M', 9: 'G'},
    'farad': {-12: 'p', -9: 'n', -6: 'μ', -3: 'm'},
    'henry': {-9: 'n', -6: 'μ', -3: 'm'},
    'hertz': {-3: 'm', 3: 'k', 6: 'M', 9: 'G', 12: 'T'},
}
TABLE_NAMES = list(TABLES)
UNITS = ['V', 'A', 'W', 'Ω', 'S', 'F', 'H', 'Hz', '/s', 'var', '']

def fr(x: float) -> Fraction:
    return Fraction(*float(x).as_integer_ratio())

def jtable(t):
    return None if t is None else [[k, v] for k, v in t.items()]

def region(v: float, p: int) -> str:
    """classification of the input used by the canonical form of a failure"""
    a = abs(fr(v))
    if a == 0:
        return 'zero'
    if a < 1 and a >= (1 - Fraction(1, 2) / 10 ** p) * (1 - TIE):     # the float computation may round a tie up
        return 'rounds_up_to_one'
    return 'regular'

def tie_hit(margins) -> bool:
    return any(core.unq(m) < TIE for m in margins)

def check_repr_assumption(out, v: float):
    """the assumed behaviour of repr (exponent notation threshold and printed exponent)"""
    a = abs(v)
    if a == 0:
        return
    s = repr(a)
    sci = 'e' in s
    ideal_sci = fr(a) < Fraction(1, 10000) or fr(a) >= 10 ** 16
    if sci != ideal_sci:
        out.count('repr_notation_deviation')
    elif sci:
        e = int(s.split('e')[1])
        d = math.floor(math.log10(a))
        # exact decade
        while Fraction(10) ** d > fr(a): d -= 1
        while Fraction(10) ** (d + 1) <= fr(a): d += 1
        if e != d:
            out.count('repr_exponent_deviation')

# --------------------------------------------------------------------------- one case

def canon_of(case, failures, extra=None):
    tname = case.get('table')
    c = dict(op=case['kind'], symptom='+'.join(sorted(set(f.split(':')[-1] for f in failures))),
             precision_ge_4=case['p'] >= 4, precision_ge_12=case['p'] >= 12,
             table_max_negative=bool(case.get('use_prefix') and tname and max(TABLES[tname]) < 0)
                                or case.get('fn') in ('print_capacitance', 'print_inductance'))
    c.update(extra or {})
    if 'omitted_inside_range' not in c['symptom']:
        c.pop('below_precision_threshold', None)
    if not ({'saturated_inside_range', 'finite_beyond_range'} & set(c['symptom'].split('+'))):
        c.pop('saturation_gap', None)
    return c

def decade_of(a: Fraction) -> int:
    d = math.floor(math.log10(float(a))) if a else 0
    while Fraction(10) ** d > a: d -= 1
    while Fraction(10) ** (d + 1) <= a: d += 1
    return d

def in_saturation_gap(values, p: int, max_exp: int) -> bool:
    """some value lies (after rounding to p digits) between the specified end of the range 1000·10^max_exp and the
    code's precision-dependent one 10^(max_exp + p) — the open finding 'saturation depends on the precision'"""
    lo, hi = min(p, 3), max(p, 3)
    for v in values:
        a = abs(fr(v))
        if a == 0 or lo == hi: continue
        hu = Fraction(10) ** (decade_of(a) - p + 1) / 2
        if a + hu >= Fraction(10) ** (max_exp + lo) * (1 - TIE) and a < Fraction(10) ** (max_exp + hi): return True    # (float rounding may carry a tie)
    return False

def angle_digits_failure(err: float, ang: float, p: int, nd: int):
    """the printed angle has fixed `nd` decimals; the property asks for half a unit of the p-th *significant* digit"""
    if ang == 0: return None
    allowed = 0.5 * 10.0 ** (math.floor(math.log10(abs(ang))) - p + 1)
    if allowed < 0.5 * 10.0 ** -nd and err > allowed * (1 + 1e-6) + 1e-12:
        return 'angle_fewer_digits_than_precision'
    return None

def below_threshold(fails, z: complex, p: int, min_exp: int) -> bool:
    """every part the text leaves out lies below the code's precision-dependent threshold 10^(min_exp + p - 1)
    (the open finding); a part left out at or above it is something else"""
    thr = Fraction(10) ** (min_exp + p - 1)
    parts = [v for tag, v in (('re:', z.real), ('im:', z.imag)) if any(f.startswith(tag) and 'omitted_inside_range' in f for f in fails)]
    return all(abs(fr(v)) < thr for v in parts)       # exact: C18_suppressed_small proves is_zero ⇒ |v| < thr

SEPARATE = ('omitted_inside_range', 'infinite_text_for_zero', 'angle_fewer_digits_than_precision', 'reactive_power_omitted',
            'saturated_inside_range', 'finite_beyond_range')

def report(out, case, fails, extra, what, **kw):
    """one spec failure per root-cause class: the independent symptoms `SEPARATE` are reported on their own,
    the remaining clauses of one text together"""
    groups = [[f for f in fails if f.split(':')[-1] == s] for s in SEPARATE]
    groups.append([f for f in fails if f.split(':')[-1] not in SEPARATE])
    for g in groups:
        if g:
            out.spec_fail(canon_of(case, g, extra), what + ', '.join(g), case, case=case, **kw)

_NUM = None
def extra_decimal_only(s_impl: str, s_model: str) -> bool:
    """what is left of the float product at 12+ digits after /repo 8387fb8: when mantissa*10**(e-e3) falls just below a
    power of ten (0.9999999999999999 for 1.0), the number of decimals is still fixed from that unrounded value, so the text
    carries one more (zero) decimal than the exact model's — the same number, one digit longer"""
    import re
    global _NUM
    _NUM = _NUM or re.compile(r'\d+\.\d+|\d+')
    a, b = _NUM.findall(s_impl), _NUM.findall(s_model)
    if len(a) != len(b) or _NUM.sub('#', s_impl) != _NUM.sub('#', s_model): return False
    return all(x == y or ('.' in y and x == y + '0') for x, y in zip(a, b)) and a != b

def run_sf(ctx, out, case):
    """str(ScientificFloat(v, unit, p, use_prefix, table))"""
    from CircuitCalculator.Utils import ScientificFloat
    v, p, unit, use, tname = case['v'], case['p'], case['unit'], case['use_prefix'], case['table']
    table = TABLES[tname] if tname else None
    kw = dict(value=v, unit=unit, precision=p, use_exp_prefix=use)
    if table is not None: kw['exp_prefixes'] = dict(table)
    reg = region(v, p)
    try:
        s_impl = str(ScientificFloat(**kw))
    except Exception as e:
        out.spec_fail(dict(op='sf', symptom='raises', exc=type(e).__name__, region=reg), f'ScientificFloat raises {type(e).__name__}',
                      case, impl=repr(e), case=case)
        return
    drv = ctx.driver
    max_exp = max(table) if (use and table is not None) else (12 if use else 16)
    if use and table is None: max_exp = max(TABLES['default'])
    tie = False
    if drv is not None:
        m = drv.call('fmt_sf', v=core.q(v), unit=unit, precision=p, use_prefix=use, table=jtable(table))
        tie = tie_hit(m['margins'])
        out.traces_validated += 1
        if tie: out.count('tie_margin_hit')
        if m['s'] != s_impl:
            if tie:
                out.skip('tie_margin_disagree')
            elif p >= 12 and extra_decimal_only(s_impl, m['s']):
                out.skip('high_precision_extra_decimal')
            else:
                out.disagree('fmt_sf', case, s_impl, m['s'])
        res = drv.call('fmt_spec_real', v=core.q(v), precision=p, max_exp=max_exp, unit=unit, s=s_impl)
        if res['failures']:
            report(out, case, res['failures'], dict(region=reg, saturation_gap=in_saturation_gap([v], p, max_exp)),
                   f'{s_impl!r} displayed for {v!r} at precision {p}: ', impl=s_impl,
                   spec=dict(failures=res['failures'], parsed=res['parsed']))
        else:
            out.nontrivial(('sf', p, use, tname, math.floor(math.log10(abs(v))) if v else None,
                            'inf' if res['parsed'] and res['parsed'].get('inf') else 'num'))

def impl_angle(z: complex, deg: bool) -> float:
    return float(np.angle(z, deg=deg))

def run_sc(ctx, out, case):
    """str(ScientificComplex(z, unit, p, use_prefix, compact, polar, deg, table))"""
    from CircuitCalculator.Utils import ScientificComplex
    z = complex(case['re'], case['im'])
    p, unit, use, tname = case['p'], case['unit'], case['use_prefix'], case['table']
    compact, polar, deg = case['compact'], case['polar'], case['deg']
    table = TABLES[tname] if tname else None
    kw = dict(value=z, unit=unit, precision=p, use_exp_prefix=use, compact=compact, polar=polar, deg=deg)
    if table is not None: kw['exp_prefixes'] = dict(table)
    regs = sorted({region(z.real, p), region(z.imag, p)} if not polar else {region(abs(z), p)})
    reg = 'rounds_up_to_one' if 'rounds_up_to_one' in regs else 'regular'
    try:
        s_impl = str(ScientificComplex(**kw))
    except Exception as e:
        out.spec_fail(dict(op='sc', symptom='raises', exc=type(e).__name__, region=reg), f'ScientificComplex raises {type(e).__name__}',
                      case, impl=repr(e), case=case)
        return
    drv = ctx.driver
    if drv is None: return
    eff = table if table is not None else TABLES['default']
    max_exp = max(eff) if use else 16
    min_exp = min(eff) if use else -16
    a = abs(z); ang = impl_angle(z, deg)
    m = drv.call('fmt_sc', re=core.q(z.real), im=core.q(z.imag), abs=core.q(a), angle=core.q(ang), unit=unit, precision=p,
                 use_prefix=use, table=jtable(table), compact=compact, polar=polar, deg=deg)
    out.traces_validated += 1
    tie = tie_hit(m['margins'])
    if polar:
        thr = Fraction(1, 100) if deg else Fraction(1, 100000)
        near_thr = abs(abs(fr(ang)) - thr) <= thr * TIE * 2 ** 12      # np.log10 rounds within a few ulp of the threshold
        nd = 2 if deg else 4
        x = abs(fr(ang)) * 10 ** nd
        tie = tie or near_thr or abs(x - math.floor(x) - Fraction(1, 2)) < TIE
    if tie: out.count('tie_margin_hit')
    if m['s'] != s_impl:
        if tie: out.skip('tie_margin_disagree')
        elif p >= 12 and extra_decimal_only(s_impl, m['s']): out.skip('high_precision_extra_decimal')
        else: out.disagree('fmt_sc', case, s_impl, m['s'])
    if polar:
        if a == 0: return
        res = drv.call('fmt_spec_polar', abs=core.q(a), precision=p, max_exp=max_exp, unit=unit, s=s_impl)
        fails = list(res['failures'])
        if not fails:
            nd = 2 if deg else 4
            if res['angle'] is None:
                if abs(fr(ang)) > Fraction(1, 10 ** nd) * (1 + TIE * 2 ** 12): fails.append('angle_omitted')
            else:
                if abs(core.unq(res['angle']) - fr(ang)) > Fraction(1, 2) / 10 ** nd * (1 + TIE): fails.append('angle_accuracy')
                else:
                    f = angle_digits_failure(abs(float(core.unq(res['angle'])) - ang), ang, p, nd)
                    if f: fails.append(f)
                if bool(res['deg_sign']) != deg: fails.append('degree_sign')
    else:
        res = drv.call('fmt_spec_complex', re=core.q(z.real), im=core.q(z.imag), precision=p, min_exp=min_exp,
                       max_exp=max_exp, unit=unit, s=s_impl)
        fails = list(res['failures'])
    if fails:
        report(out, case, fails, dict(region=reg, below_precision_threshold=below_threshold(fails, z, p, min_exp),
                                      saturation_gap=in_saturation_gap([abs(z)] if polar else [z.real, z.imag], p, max_exp)),
               f'{s_impl!r} displayed for {z!r} at precision {p}: ', impl=s_impl,
               spec={k: v for k, v in res.items()})
    else:
        quad = (z.real >= 0, z.imag >= 0)
        out.nontrivial(('sc', p, use, tname, compact, polar, deg, quad, m['re_zero'], m['im_zero']))

# Display helpers: name -> (argument kind, unit or None (= free), spec range key)
HELPERS = {
    'print_complex': ('complex', None), 'print_abs': ('abs', None), 'print_real': ('real', None),
    'print_sinosoidal': ('sinus', None), 'print_active_power': ('real', 'W'),
    'print_active_reactive_power': ('pq', None), 'print_resistance': ('zreal', 'Ω'),
    'print_conductance': ('zreal', 'S'), 'print_impedance': ('z', 'Ω'),
    'print_capacitance': ('real+', 'F'), 'print_inductance': ('real+', 'H'),
}

_ranges = {}
def helper_range(drv, fn):
    if fn not in _ranges:
        r = drv.call('fmt_helper_range', fn=fn)
        _ranges[fn] = (r['min'], r['max'])
    return _ranges[fn]

def real_oracle(drv, v, p, max_exp, unit, s):
    if v == 0: return [], None
    r = drv.call('fmt_spec_real', v=core.q(v), precision=p, max_exp=max_exp, unit=unit, s=s)
    return list(r['failures']), r['parsed']

def run_display(ctx, out, case):
    """one Display.print_* helper"""
    from CircuitCalculator.SimpleCircuit import Display as D
    fn, p = case['fn'], case['p']
    kind, fixed_unit = HELPERS[fn]
    unit = fixed_unit if fixed_unit is not None else case.get('unit', 'V')
    z = complex(case['re'], case.get('im', 0.0))
    f = getattr(D, fn)
    req = dict(fn=fn, precision=p, unit=unit)
    reg = 'regular'
    try:
        if kind == 'complex':
            polar, deg = case['polar'], case['deg']
            s_impl = f(z, unit=unit, precision=p, polar=polar, deg=deg)
            req.update(re=core.q(z.real), im=core.q(z.imag), abs=core.q(abs(z)), angle=core.q(impl_angle(z, deg)), polar=polar, deg=deg)
        elif kind == 'abs':
            s_impl = f(z, unit=unit, precision=p); req.update(abs=core.q(abs(z)))
        elif kind == 'real':
            if fn == 'print_active_power':
                s_impl = f(z.real, precision=p)
            else:
                s_impl = f(z, unit=unit, precision=p)
            req.update(re=core.q(z.real))
        elif kind == 'sinus':
            w, sin, deg, hertz = case['w'], case['sin'], case['deg'], case['hertz']
            s_impl = f(z, unit=unit, precision=p, w=w, sin=sin, deg=deg, hertz=hertz)
            ph = shifted_phase(ctx.driver, z, sin) if ctx.driver is not None else cmath.phase(z)
            req.update(re=core.q(z.real), abs=core.q(abs(z)), phase=core.q(ph), phase_deg=core.q(math.degrees(ph)), w=core.q(w),
                       w_hz=core.q(w / 2 / math.pi), sin=sin, deg=deg, hertz=hertz)
        elif kind == 'pq':
            s_impl = f(z, precision=p); req.update(re=core.q(z.real), im=core.q(z.imag))
        elif kind == 'zreal':
            s_impl = f(z.real, precision=p); req.update(re=core.q(z.real), im='0')
        elif kind == 'z':
            s_impl = f(z, precision=p); req.update(re=core.q(z.real), im=core.q(z.imag))
        else:
            s_impl = f(z.real, precision=p); req.update(re=core.q(z.real))
    except Exception as e:
        out.spec_fail(dict(op=fn, symptom='raises', exc=type(e).__name__), f'{fn} raises {type(e).__name__}', case,
                      impl=repr(e), case=case)
        return
    drv = ctx.driver
    if drv is None: return
    m = drv.call('fmt_display', **req)
    out.traces_validated += 1
    if m['s'] != s_impl:
        # tie margins of every number involved
        nums = [z.real, z.imag, abs(z)]
        if kind == 'sinus':
            nums += [abs(ph), abs(math.degrees(ph)), case['w'], case['w'] / 2 / math.pi]
        tie = any(tie_hit(drv.call('fmt_sf', v=core.q(x), unit='', precision=p)['margins']) for x in nums if x != 0)
        if kind == 'complex' and case['polar']:
            tie = True if tie else _angle_tie(impl_angle(z, case['deg']), case['deg'])
        if tie: out.skip('tie_margin_disagree')
        elif p >= 12 and extra_decimal_only(s_impl, m['s']): out.skip('high_precision_extra_decimal')
        else: out.disagree('fmt_display', case, s_impl, m['s'])
    # ---- oracle
    lo, hi = helper_range(drv, fn)
    fails = []; spec = {}
    def regs(*xs):
        return 'rounds_up_to_one' if any(region(x, p) == 'rounds_up_to_one' for x in xs) else 'regular'
    if kind in ('real', 'real+', 'abs'):
        v = abs(z) if kind == 'abs' else z.real
        s = s_impl
        reg = regs(v)
        if fn == 'print_active_power':
            arrow = s[-1:]; s = s[:-1]
            if v != 0 and arrow != ('↓' if v > 0 else '↑'): fails.append('power_arrow')
            v = abs(v)
        fl, spec = real_oracle(drv, v, p, hi, unit, s); fails += fl
    elif kind in ('z', 'zreal') or (kind == 'complex' and not case['polar']):
        reg = regs(z.real, z.imag)
        r = drv.call('fmt_spec_complex', re=core.q(z.real), im=core.q(z.imag), precision=p, min_exp=lo, max_exp=hi, unit=unit, s=s_impl)
        fails += r['failures']; spec = r
    elif kind == 'complex':
        reg = regs(abs(z))
        if abs(z) != 0:
            deg = case['deg']; ang = impl_angle(z, deg); nd = 2 if deg else 4
            r = drv.call('fmt_spec_polar', abs=core.q(abs(z)), precision=p, max_exp=hi, unit=unit, s=s_impl)
            fails += r['failures']; spec = r
            if not fails:
                if r['angle'] is None:
                    if abs(fr(ang)) > Fraction(1, 10 ** nd) * (1 + TIE * 2 ** 12): fails.append('angle_omitted')
                else:
                    if abs(core.unq(r['angle']) - fr(ang)) > Fraction(1, 2) / 10 ** nd * (1 + TIE): fails.append('angle_accuracy')
                    else:
                        f = angle_digits_failure(abs(float(core.unq(r['angle'])) - ang), ang, p, nd)
                        if f: fails.append(f)
                    if bool(r['deg_sign']) != deg: fails.append('degree_sign')
    elif kind == 'pq':
        reg = regs(z.real, z.imag)
        lines = s_impl.split('\n')
        if not lines[0].startswith('P: ') or len(lines[0]) < 4:
            fails.append('unreadable')
        else:
            arrow, body = lines[0][3], lines[0][4:]
            if z.real != 0 and arrow != ('↓' if z.real > 0 else '↑'): fails.append('P:power_arrow')
            fl, spec = real_oracle(drv, abs(z.real), p, hi, 'W', body); fails += ['P:' + x for x in fl]
        if len(lines) == 2:
            if not lines[1].startswith('Q: ') or len(lines[1]) < 4:
                fails.append('unreadable')
            else:
                arrow, body = lines[1][3], lines[1][4:]
                if z.imag != 0 and arrow != ('↓' if z.imag > 0 else '↑'): fails.append('Q:power_arrow')
                fl, _ = real_oracle(drv, abs(z.imag), p, hi, 'var', body); fails += ['Q:' + x for x in fl]
        elif abs(z.imag) >= 1e-12:
            # the reactive part may be left out only if it is below the smallest unit the prefixes express (1 pvar)
            fails.append('Q:reactive_power_omitted')
    elif kind == 'sinus':
        reg = regs(abs(z), ph, math.degrees(ph), case['w'], case['w'] / 2 / math.pi)
        fl, spec = sinus_oracle(drv, s_impl, z, unit, p, case, lo, hi); fails += fl
    if fails:
        sat_vals = [z.real, z.imag, abs(z)] + ([abs(ph), abs(math.degrees(ph)), case['w'], case['w'] / 2 / math.pi] if kind == 'sinus' else [])
        extra = dict(op=fn, region=reg, below_precision_threshold=below_threshold(fails, z, p, lo),
                     saturation_gap=in_saturation_gap(sat_vals, p, hi) or (kind == 'sinus' and in_saturation_gap(sat_vals[3:], p, 16)))
        if kind == 'sinus': extra['w_zero'] = (case['w'] == 0)
        if kind == 'pq': extra['below_abs_threshold'] = abs(z.imag) <= 1e-4 * (1 + 2.0 ** -40)
        report(out, case, fails, extra,
               f'{fn}: {s_impl!r} displayed for {z!r} at precision {p}: ',
               impl=s_impl, spec=spec)
    else:
        out.nontrivial((fn, p, case.get('polar'), case.get('deg'), case.get('sin'), case.get('hertz'), z.real >= 0, z.imag >= 0,
                        math.floor(math.log10(abs(z))) // 3 if abs(z) else None))

def _angle_tie(ang, deg):
    thr = Fraction(1, 100) if deg else Fraction(1, 100000)
    nd = 2 if deg else 4
    x = abs(fr(ang)) * 10 ** nd
    return abs(abs(fr(ang)) - thr) <= thr * TIE * 2 ** 12 or abs(x - math.floor(x) - Fraction(1, 2)) < TIE

_consts = {}
def sin_shift(drv) -> int:
    """quarter turns the *code* adds for the sine form (translated by extract_fmt.py; used only to compute the
    runtime parameters handed to the model — never by the oracle)"""
    if 'sin_shift' not in _consts:
        _consts.update(drv.call('fmt_consts'))
    return int(_consts['sin_shift'])

def shifted_phase(drv, z: complex, sin: bool) -> float:
    ph = cmath.phase(z)
    if sin: ph += sin_shift(drv) * math.pi / 2
    return ph

def parse_sinusoid(drv, s, unit):
    """'A<unit>·(sin|cos)([2π·]<freq>(Hz|/s)·t[±<phase>[°]])' → dict(amp_text, fn, hertz, freq_text, phase_text (signed
    string or ''), deg); None if the text has no such form"""
    for fn in ('cos', 'sin'):
        head, sep, tail = s.partition('·' + fn + '(')
        if sep: break
    else:
        return None
    if not tail.endswith(')'): return None
    tail = tail[:-1]
    hertz = tail.startswith('2π·')
    if hertz: tail = tail[3:]
    freq, sep, ph = tail.partition('·t')
    if not sep: return None
    if ph and ph[0] not in '+-': return None
    return dict(amp=head, fn=fn, hertz=hertz, freq=freq, phase=ph, deg=ph.endswith('°'))

def sinus_oracle(drv, s, z, unit, p, case, lo, hi, mod_2pi=True):
    """Semantic, convention-independent: the text is parsed into the function it denotes,
    A·fn(ω t + φ), and compared with Re(z·e^{jωt}) = |z|·cos(ω t + arg z): amplitude and frequency to the displayed
    precision, phase modulo a full turn after converting sin → cos by a quarter turn.  The requested options
    (sin / deg / hertz) only decide which *form* the text must have."""
    w, sin, deg, hertz = case['w'], case['sin'], case['deg'], case['hertz']
    fails = []
    a = abs(z)
    if w == 0:
        # no time dependence: the text denotes the constant Re(z·e^{j0}) = Re z, with its sign
        if z.real == 0: return [], None
        return real_oracle(drv, z.real, p, hi, unit, s)
    t = parse_sinusoid(drv, s, unit)
    if t is None:
        return ['unreadable'], None
    spec = None
    if a:
        fl, spec = real_oracle(drv, a, p, hi, unit, t['amp']); fails += ['amplitude:' + x for x in fl]
    # form requested by the options
    if (t['fn'] == 'sin') != bool(sin): fails.append('form:function_name')
    if t['hertz'] != bool(hertz): fails.append('form:two_pi')
    if t['phase'] and t['deg'] != bool(deg): fails.append('form:degree_sign')
    # frequency
    if t['hertz']:
        _, hz_hi = helper_range(drv, 'print_sinosoidal_hz')
        fl, _ = real_oracle(drv, w / 2 / math.pi, p, hz_hi, 'Hz', t['freq'])
    else:
        fl, _ = real_oracle(drv, w, p, 16, '/s', t['freq'])
    fails += ['frequency:' + x for x in fl]
    if a == 0:
        return fails, spec
    # phase: the angle the text must carry for its own function name, as a class modulo a full turn
    full = 360.0 if t['deg'] else 2 * math.pi
    target = cmath.phase(z) + (math.pi / 2 if t['fn'] == 'sin' else 0.0)       # cos x = sin(x + π/2)
    if t['deg']: target = math.degrees(target)
    if t['phase'] == '':
        rep = math.remainder(target, full)
        cut = 1e-4          # the code compares the phase in radians, whatever the display unit
        if abs(rep) > cut * (1 + 2.0 ** -30) + 1e-9: fails.append('phase:omitted')
        return fails, spec
    body = t['phase'][1:-1] if t['deg'] else t['phase'][1:]
    r = drv.call('fmt_parse', unit='', s=body)['parsed']
    if r is None or r.get('inf'):
        return fails + ['phase:unreadable'], spec
    shown = float(Fraction(r['value'])) * (1 if t['phase'][0] == '+' else -1)
    # the representative of the target class nearest to the displayed number
    rep = target + full * round((shown - target) / full)
    half_turn = abs(abs(math.remainder(shown - target, full)) - full / 2) <= 0.02 * full
    if half_turn:
        fails.append('phase:half_turn')          # the text denotes the negative of the quantity
    elif abs(rep) > 1e-12:
        fl, _ = real_oracle(drv, abs(rep), p, 16, '°' if t['deg'] else '', t['phase'][1:])
        # conditioning of a solved phase: one unit in the 9th digit is not a formatting error
        if 'accuracy' in fl and abs(abs(shown) - abs(rep)) <= 1e-9 * max(1.0, abs(rep)): fl.remove('accuracy')
        fails += ['phase:' + x for x in fl]
        if (shown > 0) != (rep > 0) and abs(rep) > 1e-9: fails.append('phase:sign')
    return fails, spec

RUNNERS = {'sf': run_sf, 'sc': run_sc, 'display': run_display}

def check_case(ctx, out, case):
    out.evaluations += 1
    out.count('kind:' + (case['fn'] if case['kind'] == 'display' else case['kind']))
    out.count(f'precision:{case["p"]}')
    for k in ('v', 're', 'im'):
        if k in case and isinstance(case[k], float): check_repr_assumption(out, case[k])
    RUNNERS[case['kind']](ctx, out, case)

# --------------------------------------------------------------------------- generators

def neighbours(x: float):
    return [x, float(np.nextafter(x, 0.0)), float(np.nextafter(x, math.inf))]

def decimal_grid(digits: int):
    """every mantissa with at most `digits` digits × 10^k, k ∈ [-15, 15], and both float neighbours"""
    for k in range(-15, 16):
        for m in range(1, 10 ** digits):
            x = float(f'{m}e{k}')
            for y in neighbours(x):
                yield y

def carry_values():
    """values straddling rounding carries: 999.5, 0.9995, 99.95 …"""
    for k in range(-15, 16):
        for p in range(1, 7):
            for tail in ('5', '49', '51', '4', '6'):
                x = float('9' * p + '.' + tail + f'e{k}')
                for y in neighbours(x):
                    yield y

def random_binary64(rng, lo=-15.0, hi=15.0):
    return rng.choice([-1.0, 1.0]) * float(10 ** rng.uniform(lo, hi))

def pick_precision(rng):
    """every precision p ≥ 1 the mantissa arithmetic can carry in binary64: mostly 1..6, one in five 7..15"""
    return rng.randint(1, 6) if rng.random() < 0.8 else rng.randint(7, 15)

def sf_case(rng, v, p=None, use=None, table=None):
    p = p if p is not None else pick_precision(rng)
    use = use if use is not None else rng.random() < 0.6
    table = table if table is not None else (rng.choice(TABLE_NAMES + [None]) if use else None)
    return dict(kind='sf', v=float(v), p=p, unit=rng.choice(UNITS), use_prefix=use, table=table)

def sc_case(rng, re, im):
    use = rng.random() < 0.6
    return dict(kind='sc', re=float(re), im=float(im), p=pick_precision(rng), unit=rng.choice(UNITS), use_prefix=use,
                table=rng.choice(TABLE_NAMES + [None]) if use else None, compact=rng.random() < 0.5,
                polar=rng.random() < 0.4, deg=rng.random() < 0.5)

def display_case(rng, fn, re, im):
    kind, fixed = HELPERS[fn]
    c = dict(kind='display', fn=fn, re=float(re), im=float(im), p=pick_precision(rng))
    if fixed is None: c['unit'] = rng.choice(['V', 'A', 'W'])
    if kind == 'complex': c.update(polar=rng.random() < 0.5, deg=rng.random() < 0.5)
    if kind == 'sinus':
        c.update(w=rng.choice([0.0, 1.0, 100.0, 314.1592653589793, 2 * math.pi * 50, float(10 ** rng.uniform(-3, 9))]),
                 sin=rng.random() < 0.5, deg=rng.random() < 0.5, hertz=rng.random() < 0.5)
    if kind in ('real+',): c['re'] = abs(c['re']); c['im'] = 0.0
    if kind in ('zreal',): c['im'] = 0.0
    return c

def complex_value(rng):
    """four quadrants, parts of equal or very different magnitude, axis-aligned values"""
    mode = rng.random()
    re = random_binary64(rng, -9, 9)
    if mode < 0.15: im = 0.0
    elif mode < 0.25: re, im = 0.0, random_binary64(rng, -9, 9)
    elif mode < 0.65: im = re * rng.choice([-1, 1]) * float(10 ** rng.uniform(-1, 1))
    elif mode < 0.8: im = re * rng.choice([-1, 1]) * float(10 ** rng.uniform(-8, -3))
    else: im = random_binary64(rng, -9, 9)
    if rng.random() < 0.2:
        # decimal values and carries
        re = rng.choice([-1, 1]) * float(f'{rng.choice([1, 5, 12, 999, 9995, 99995, 95])}e{rng.randint(-7, 7)}')
    return re, im

CORPUS = [
    # the value that rounds up to 1 (exponent() returns 0 from the '1.0' branch)
    dict(kind='sf', v=0.99996, p=4, unit='V', use_prefix=False, table=None),
    dict(kind='sf', v=-0.99996, p=4, unit='V', use_prefix=True, table='uv'),
    dict(kind='sf', v=-0.9999996, p=6, unit='A', use_prefix=False, table=None),
    dict(kind='sf', v=0.9996, p=3, unit='V', use_prefix=False, table=None),
    dict(kind='sf', v=999.5, p=3, unit='V', use_prefix=False, table=None),
    dict(kind='sf', v=0.9995, p=3, unit='V', use_prefix=True, table='uv'),
    dict(kind='sf', v=99.95, p=3, unit='V', use_prefix=True, table='ohm'),
    dict(kind='sf', v=1e-7, p=3, unit='', use_prefix=False, table=None),
    dict(kind='sf', v=1234567.0, p=3, unit='V', use_prefix=True, table='uv'),
    dict(kind='sf', v=1e-9, p=3, unit='V', use_prefix=True, table='uv'),
    dict(kind='sf', v=1.0, p=3, unit='F', use_prefix=True, table='farad'),
    dict(kind='sf', v=3e20, p=2, unit='V', use_prefix=False, table=None),
    dict(kind='sc', re=-0.99996, im=-0.99996, p=4, unit='V', use_prefix=True, table='uv', compact=True, polar=False, deg=False),
    # former failing input (zero part displayed as ∞; repaired in /repo f0e8a34)
    dict(kind='sc', re=0.0, im=5.40122566420661e-09, p=5, unit='F', use_prefix=True, table='farad', compact=False, polar=False, deg=False),
    dict(kind='sc', re=0.0, im=-7.17451315804594e-08, p=6, unit='', use_prefix=True, table='henry', compact=True, polar=False, deg=False),
    dict(kind='sc', re=3.0, im=-4.0, p=3, unit='V', use_prefix=False, table=None, compact=False, polar=True, deg=True),
    dict(kind='sc', re=3.0, im=1e-9, p=3, unit='V', use_prefix=False, table=None, compact=False, polar=True, deg=False),
    dict(kind='display', fn='print_sinosoidal', re=3.0, im=4.0, p=3, unit='V', w=100.0, sin=True, deg=False, hertz=True),
    dict(kind='display', fn='print_sinosoidal', re=3.0, im=4.0, p=3, unit='V', w=100.0, sin=False, deg=True, hertz=False),
    # former finding (8387fb8): wrong digits at 12+ digits (float product mantissa*10**(e-e3), then int() and a separately rounded fraction)
    dict(kind='sf', v=8.0, p=12, unit='V', use_prefix=False, table=None),
    dict(kind='display', fn='print_real', re=2000.0, im=0.0, p=12, unit='V'),
    dict(kind='sf', v=470.0, p=14, unit='V', use_prefix=False, table=None),
    # former finding (edb6a6b): the end of the range does not depend on the precision
    dict(kind='display', fn='print_real', re=50e3, im=0.0, p=1, unit='V'),
    dict(kind='display', fn='print_real', re=1.2e8, im=0.0, p=6, unit='V'),
    # former finding (7cf4bc4): at w = 0 the label is the constant Re X with its sign
    dict(kind='display', fn='print_sinosoidal', re=-10.0, im=0.0, p=3, unit='V', w=0.0, sin=False, deg=False, hertz=False),
    dict(kind='display', fn='print_sinosoidal', re=3.0, im=4.0, p=3, unit='V', w=0.0, sin=False, deg=False, hertz=False),
    dict(kind='display', fn='print_active_reactive_power', re=3.0, im=-4.0, p=3),
    dict(kind='display', fn='print_active_power', re=-3.5, im=0.0, p=3),
    dict(kind='display', fn='print_capacitance', re=4.7e-9, im=0.0, p=2),
]

def boundary_cases():
    """values exactly at (and next to) every threshold of the formatter: the zero-suppression threshold
    10^(min_exp + p - 1) of each prefix table and precision and the decade above it, the range end 10^(max_exp + p),
    the phase cut-off 1e-4 of print_sinosoidal, the polar angle cut-offs 1e-5 rad / 0.01°"""
    cases = []
    for tname in TABLE_NAMES + [None]:
        tbl = TABLES[tname] if tname else None
        lo = min(tbl) if tbl else -16; hi = max(tbl) if tbl else 16
        for p in range(1, 7):
            for e in (lo + p - 1, lo + p, hi + p):
                if not -15 <= e <= 15: continue
                for y in neighbours(float(f'1e{e}')) + [float(f'9.995e{e - 1}'), float(f'5e{e}')]:
                    big = float(f'3e{min(e + 2, hi + p - 1)}')
                    use = tname is not None
                    cases.append(dict(kind='sc', re=big, im=y, p=p, unit='V', use_prefix=use, table=tname, compact=True, polar=False, deg=False))
                    cases.append(dict(kind='sc', re=-y, im=big, p=p, unit='A', use_prefix=use, table=tname, compact=False, polar=False, deg=False))
                    cases.append(dict(kind='sf', v=y, p=p, unit='V', use_prefix=use, table=tname))
    for p in (1, 3, 4, 6):
        for e in (-6 + p - 1, -6 + p):
            for y in neighbours(float(f'1e{e}')):
                cases.append(dict(kind='display', fn='print_complex', re=0.02, im=y, p=p, unit='A', polar=False, deg=False))
                cases.append(dict(kind='display', fn='print_complex', re=-y, im=-y * 1.5, p=p, unit='V', polar=False, deg=False))
                cases.append(dict(kind='display', fn='print_impedance', re=y * 1000, im=-y * 1000, p=p))
    for phi in [1e-4, float(np.nextafter(1e-4, 0)), float(np.nextafter(1e-4, 1)), 1.0001e-4, 0.9999e-4, -1e-4, -1.0001e-4, -0.9999e-4]:
        z = 5.0 * cmath.exp(1j * phi)
        for sin in (False, True):
            for deg in (False, True):
                cases.append(dict(kind='display', fn='print_sinosoidal', re=z.real, im=z.imag, p=3, unit='V', w=100.0, sin=sin, deg=deg, hertz=False))
    for phi, deg in [(1e-5, False), (1.0001e-5, False), (0.9999e-5, False), (-1.0001e-5, False),
                     (math.radians(0.01), True), (math.radians(0.010001), True), (math.radians(0.009999), True), (-math.radians(0.010001), True)]:
        z = 2.0 * cmath.exp(1j * phi)
        cases.append(dict(kind='display', fn='print_complex', re=z.real, im=z.imag, p=3, unit='V', polar=True, deg=deg))
        cases.append(dict(kind='sc', re=z.real, im=z.imag, p=4, unit='V', use_prefix=False, table=None, compact=False, polar=True, deg=deg))
    # sine-form labels in every quadrant (former finding: the quarter turn was subtracted)
    for k in range(8):
        z = 10.0 * cmath.exp(1j * (k * math.pi / 4 + 0.1))
        for deg in (False, True):
            cases.append(dict(kind='display', fn='print_sinosoidal', re=z.real, im=z.imag, p=3, unit='V', w=100.0, sin=True, deg=deg, hertz=(k % 2 == 0)))
    cases.append(dict(kind='display', fn='print_sinosoidal', re=10.0, im=0.0, p=3, unit='V', w=100.0, sin=True, deg=False, hertz=False))
    return cases

def run(ctx, out):
    out.rule = ('binary64 values: decimal mantissas × 10^k (k ∈ [-15,15]) with both float neighbours, carry straddlers '
                '(9…9.5·10^k), random values, beyond-range values; precisions 1–6; with/without prefixes; every prefix '
                'table; complex values in four quadrants (Cartesian, polar rad/deg); every Display helper.  A case is '
                'non-trivial when the oracle accepted a readable text; distinct by (kind/helper, precision, prefix '
                'use, table, options, decade or quadrant)')
    quick = ctx.quick
    for case in CORPUS:
        check_case(ctx, out, case)
    for case in boundary_cases():
        check_case(ctx, out, case)
    # ---- exhaustive / sampled decimal grid
    rng = ctx.rng('grid')
    if quick:
        grid = list(decimal_grid(2))
        sample = rng.sample(grid, 4000) + rng.sample(list(decimal_grid(3)), 5000) + rng.sample(list(carry_values()), 2500)
        for y in sample:
            if ctx.time_left() < 20: out.notes.append('grid sample cut by budget'); break
            s = rng.choice([-1.0, 1.0])
            check_case(ctx, out, sf_case(rng, s * y))
    else:
        n = 0
        for y in list(decimal_grid(3)) + list(carry_values()):
            if ctx.time_left() < 300: out.notes.append(f'exhaustive grid cut by budget after {n} values'); break
            n += 1
            s = -1.0 if n % 7 == 0 else 1.0
            for p in range(1, 7):
                # without prefixes and with one table, cycling through the tables
                check_case(ctx, out, sf_case(rng, s * y, p=p, use=False))
                check_case(ctx, out, sf_case(rng, s * y, p=p, use=True, table=(TABLE_NAMES)[(n + p) % len(TABLE_NAMES)]))
        out.extra['exhaustive_grid_values'] = n
    # ---- random binary64, including beyond the range
    rng = ctx.rng('random')
    for k in range(5000 if quick else 40000):
        if ctx.time_left() < 15: out.notes.append('random values cut by budget'); break
        check_case(ctx, out, sf_case(rng, random_binary64(rng, -21, 21) if k % 5 == 0 else random_binary64(rng)))
    # ---- complex
    rng = ctx.rng('complex')
    for k in range(4000 if quick else 30000):
        if ctx.time_left() < 12: out.notes.append('complex values cut by budget'); break
        re, im = complex_value(rng)
        check_case(ctx, out, sc_case(rng, re, im))
    # ---- display helpers
    rng = ctx.rng('display')
    fns = list(HELPERS)
    for k in range(4400 if quick else 40000):
        if ctx.time_left() < 8: out.notes.append('display helpers cut by budget'); break
        re, im = complex_value(rng)
        check_case(ctx, out, display_case(rng, fns[k % len(fns)], re, im))

def replay(ctx, out, rp):
    case = rp.get('case') or rp.get('input')
    if not isinstance(case, dict) or 'kind' not in case:
        raise SystemExit('replay file carries no formatting case')
    check_case(ctx, out, case)
