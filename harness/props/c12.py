"""
C12 — transient simulation solves the circuit's differential equations.

Correspondence (op `ss_transient`): the model's TransientSolution wiring (`_u` rows in the order
of `sources`, initial state zero, output = row_c·x + row_d·u per sample with the MODEL's rows)
against the implementation's `_u` and every `get_potential / get_voltage / get_current` series,
fed with the implementation's own `_x`.

Oracle on the implementation (decides the property), on dyadic circuits with piecewise-linear
inputs whose breakpoints lie on the grid (one-sample ramps = steps, ramps, triangles):
  * start from rest (all outputs zero at the first sample, state zero);
  * `_u` ordering = `sources`; every source of the circuit is an input;
  * Kirchhoff's current law at every node (reference included) at every sample, from the
    reported currents;  Kirchhoff's voltage law (voltage = potential difference);
  * element laws per sample: resistor v = R·i, voltage source v = u(t), current source
    i = u(t), capacitor v = x_k and i = C·ẋ_k, inductor i = x_k and v = L·ẋ_k with
    ẋ = A x + B u of the implementation's own matrices (state k in dictionary order);
  * agreement of `_x` with an independent `scipy.linalg.expm` variation-of-constants
    evaluation for piecewise-linear inputs (support for the `lsim` assumption);
  * for constant final inputs: settling to `DCSolution`;
  * time windows t0 = m·h (zero, small, large, now and then negative — open finding), typed time vectors (int64
    np.arange grids, float32), `_u` and the sources' own reported voltages / currents against the supplied
    waveforms at the REQUESTED times, shift invariance;
  * a non-uniform grid must raise or give the exact response at the reported times (matrix-exponential
    reference with per-step exponentials);
  * periodic inputs settle to the multi-frequency steady state of C09 (`periodic_case`): ac / periodic sin, tri,
    rect voltage sources, last simulated period against `TimeDomainSolution`;
  * source kinds: ideal ac / periodic voltage sources and ac current sources with phases in all quadrants.
Note: ẋ = A x + B u is formed from the implementation's own A, B, so the clauses "capacitor i = C·ẋ" and
"resistor v = R·i" restate how the rows are built (tautologies); the independent clauses — KCL at every node, KVL,
state identities v_C = x_k / i_L = x_k, v_L = L·ẋ_k, source laws, the expm reference, settling to DCSolution, the
steady state against TimeDomainSolution — determine everything.
"""
from __future__ import annotations
import numpy as np
import core, gen_net, gen_state as gs
from props import c10

ID = 'C12'
LEAN_MODULE = 'CC.Properties.C12'
LEVEL = 'proof'
THEOREMS = [
    'CC.C12_sample_equations',
    'CC.C12_state_is_output',
    'CC.C12_settle_dc',
    'CC.C12_rest',
    'CC.C12_rest_output',
    'CC.C12_input_order',
    'CC.C12_output_sample',
    'CC.C12_sample_rhs',
    'CC.C12_sample_circuit',
    'CC.C12_kcl_sample',
    'CC.C12_element_laws',
    'CC.C12_kvl_sample',
    'CC.C12_frequency_response',
]
# round 5: the output rows deliver the report (CC.C10_output_rows, lean/CC/Properties/C10Rows.lean); per-sample circuit equations for the rows themselves
THEOREMS += ['CC.C10_output_rows', 'CC.C12_rows_sample_circuit']
LEAN_MODULE_EXTRA = list(globals().get('LEAN_MODULE_EXTRA', [])) + ['CC.Properties.C10Rows']
# round 5: equilibrium = DC solution at circuit level (lean/CC/Properties/C12Equilibrium.lean; C10_transfer at s = 0)
THEOREMS += ['CC.C12_equilibrium_is_dc', 'CC.C12_equilibrium_is_dc_unique']
LEAN_MODULE_EXTRA = list(globals().get('LEAN_MODULE_EXTRA', [])) + ['CC.Properties.C12Equilibrium']
# translator tie of the TransientSolution getters: the series a getter returns is row_c·x_t + row_d·u_t per sample = the report read from y = C x + D u
# (lean/CC/Properties/C19Transient.lean; generated table Gen.Sol.transientTable, reading CC/Model/TransientGetters.lean)
THEOREMS += ['CC.C12_getter_is_row_output', 'CC.C12_getter_samples_report']
LEAN_MODULE_EXTRA = list(globals().get('LEAN_MODULE_EXTRA', [])) + ['CC.Properties.C19Transient']
# translator tie of TransientSolution.__post_init__ (the _u rows, the solver call, _tout / _x): harness/extract_solution.py -> Gen.Sol.methodTable,
# reading CC/Model/SolutionEval.lean part (B), proofs CC/Properties/C12SolGen.lean
THEOREMS += ['CC.C12_gen_init_shape', 'CC.C12_gen_input_rows', 'CC.C12_gen_solver_call']
LEAN_MODULE_EXTRA = list(globals().get('LEAN_MODULE_EXTRA', [])) + ['CC.Properties.C12SolGen']
OPEN_STATEMENTS = [
    "getter tie (C12_getter_is_row_output / C12_getter_samples_report): the four TransientSolution getters are extracted (Gen.Sol.transientTable) and proved, for ARBITRARY sample arrays _x, _u, to return per sample the report read from y = C x + D u; __post_init__ is now extracted too (Gen.Sol.methodTable) and read by CC/Model/SolutionEval.lean: C12_gen_input_rows (row i of _u = input function of sources[i] on the requested time vector = the hand model transientU over the generated sources = ssSources; missing function: KeyError) and C12_gen_solver_call (the solver is called once with exactly A, B, C = I, D = 0, _u.T, tin, x0 = zero column; _tout / _x are its first / second result, _x reshaped to one row per state); what stays open: the evaluators of the generated trees (CC/Model/TransientGetters.lean, CC/Model/SolutionEval.lean) are hand-written readings; the statements before self._ssm = ... are tied only as literal text / tree (C12_gen_init_shape, transientSsm); user input functions are total maps List K -> List K (exceptions, scalar returns and numpy broadcasting / dtype not modelled); numpy shape errors are not modelled",
    "not formalised: 'agrees with the exact response of the linear system for piecewise-linear inputs' — lsim is a parameter of the model; oracle only (independent matrix-exponential reference on every case)",
    "not formalised: 'for constant inputs they settle to the DC solution' — proved is the algebraic core only: at a rest point (A x + B u = 0) the outputs are Ã⁻¹ QS u (C12_settle_dc) and the report read from them solves the circuit equations of the DC (s = 0) network, uniquely when that network is well-posed (C12_equilibrium_is_dc, C12_equilibrium_is_dc_unique); that the simulated trajectory CONVERGES to a rest point (needs Re λ < 0 and the flow), and that a rest point exists, is not a theorem; oracle only (settle stream against DCSolution)",
    "not formalised: 'for periodic inputs they settle to the multi-frequency steady state of C09' — C12_frequency_response (= C10_transfer) is the frequency response only, not convergence of the simulation; oracle only (periodic-steady-state stream against TimeDomainSolution)",
]
ASSUMPTIONS = [
    'scipy.signal.lsim returns samples of the exact solution of ẋ = A x + B u for inputs that are linear between grid points, started from x = 0 (its documented first-order-hold method); supported on every case by an independent scipy.linalg.expm evaluation',
    'the per-sample theorems are algebraic (they hold for every state sample x and input sample u, hence for every integrator): C12_sample_circuit proves KCL, KVL and every element law per sample for the model; the per-sample oracle checks the same on the implementation',
    'binary64 arithmetic within 1e-9 relative on the dyadic, well-conditioned instances generated',
]

EXTRA_CANON = {}      # set by the value-variation stream: same ids, different values, same process

def canon(desc, symptom, **kw):
    return dict(op='transient', symptom=symptom, **gs.facts(desc), **({'si_units': True} if 'si' in desc else {}),
                **({'grid': desc['grid']} if 'grid' in desc else {}), **EXTRA_CANON, **kw)

def make_inputs(rng, desc, sources, n):
    """piecewise-linear profiles with breakpoints on the grid, zero at the first sample, constant
    (= the component's DC value) over the last two thirds"""
    prof = {}
    meta = {}
    k_const = n // 3
    for s in sources:
        final = next((gs.dc_value(c) for c in desc['comps'] if c['id'] == s), 1.0)
        p = np.zeros(n)
        style = rng.choice(['step', 'ramp', 'triangle', 'late_step', 'step', 'const'])
        k0 = rng.randint(1, max(1, k_const // 4))
        if n < 8:                       # tiny grids: a ramp over the whole window, or a constant
            style = rng.choice(['const', 'line'])
        meta[s] = (style, k0, final)
        if style == 'const':            # non-zero at the first sample, constant over the whole window
            p[:] = final
        elif style == 'line':
            p[:] = np.linspace(0.0, final, n)
        elif style == 'step':
            p[k0 + 1:] = final
        elif style == 'late_step':
            p[k_const:] = final
        elif style == 'ramp':
            p[k0:k_const] = np.linspace(0, final, k_const - k0, endpoint=False); p[k_const:] = final
        else:
            mid = (k0 + k_const) // 2
            p[k0:mid] = np.linspace(0, 2.0 * (final or 1.0), mid - k0, endpoint=False)
            p[mid:k_const] = np.linspace(2.0 * (final or 1.0), final, k_const - mid, endpoint=False)
            p[k_const:] = final
        prof[s] = p
    return prof, k_const, meta

def grid_for(A, n_min=90, n_max=1500):
    lam = np.linalg.eigvals(A) if A.size else np.array([-1.0])
    big = max(abs(lam)); slow = gs.decay_rate(lam)      # 0.0 for a (numerically) lossless circuit: it never settles
    h = 2.0 ** np.floor(np.log2(0.5 / max(big, 1e-9)))
    settle = slow > 0
    n = n_min
    if settle:
        need = int(np.ceil(1.5 * 25.0 / slow / h))     # e^{-25} ≈ 1.4e-11 over the constant part
        if need <= n_max: n = max(n_min, need)
        else: settle = False
    return np.arange(n) * h, settle

def expm_response(A, B, U, h):
    """exact samples of ẋ = A x + B u, x(0) = 0, for u linear between grid points"""
    from scipy.linalg import expm
    ns, nu = B.shape
    M = np.zeros((ns + 2 * nu, ns + 2 * nu))
    M[:ns, :ns] = A * h; M[:ns, ns:ns + nu] = B * h; M[ns:ns + nu, ns + nu:] = np.eye(nu)
    E = expm(M)
    Phi, G1, G2 = E[:ns, :ns], E[:ns, ns:ns + nu], E[:ns, ns + nu:]
    X = np.zeros((ns, U.shape[1]))
    for k in range(U.shape[1] - 1):
        X[:, k + 1] = Phi @ X[:, k] + G1 @ U[:, k] + G2 @ (U[:, k + 1] - U[:, k])
    return X

def expm_response_nonuniform(A, B, U, t):
    """exact samples of ẋ = A x + B u, x(t[0]) = 0, for u linear between the (arbitrarily spaced) samples"""
    from scipy.linalg import expm
    ns, nu = B.shape
    X = np.zeros((ns, len(t)))
    for k in range(len(t) - 1):
        h = float(t[k + 1] - t[k])
        M = np.zeros((ns + 2 * nu, ns + 2 * nu))
        M[:ns, :ns] = A * h; M[:ns, ns:ns + nu] = B * h; M[ns:ns + nu, ns + nu:] = np.eye(nu)
        E = expm(M)
        X[:, k + 1] = E[:ns, :ns] @ X[:, k] + E[:ns, ns:ns + nu] @ U[:, k] + E[:ns, ns + nu:] @ (U[:, k + 1] - U[:, k])
    return X

def check_case(ctx, out, desc, origin='random'):
    from CircuitCalculator.Circuit.solution import TransientSolution, DCSolution
    drv = ctx.driver
    rng = ctx.rng('inputs', str(gs.pretty(desc)))     # waveforms derive from the description: replayable
    out.evaluations += 1
    f = gs.facts(desc)
    out.count(f'reactive:{f["n_reactive"]}')
    out.count('names:' + ('interleaved' if f['names_interleave'] else 'blockwise'))
    ok, why = gs.nondegenerate(drv, desc)
    if not ok:
        out.count('degenerate:' + why); return
    out.nontrivial(gs.shape(desc))
    inp = gs.pretty(desc)
    comps = desc['comps']
    try:
        im = gs.impl_model(desc)
    except Exception as e:
        out.spec_fail(canon(desc, 'raises', exc=gs.gen_tag(e)), f'non-degenerate circuit: state-space model raises {type(e).__name__}',
                      inp, impl=dict(exception=repr(e)), desc=desc); return
    A = np.asarray(im.ssm.A, dtype=float); B = np.asarray(im.ssm.B, dtype=float)
    if not (np.all(np.isfinite(A)) and np.all(np.isfinite(B))):
        out.spec_fail(canon(desc, 'non_finite'), 'state-space matrices are not finite', inp, desc=desc); return
    si_mode = 'si' in desc
    cnd = max([c10.cond_of(p) for p in im.inverses] + [1.0])
    if not cnd <= (c10.SI_COND_GUARD if si_mode else 1e6):
        out.skip('si_ill_conditioned' if si_mode else 'ill_conditioned'); return
    if si_mode: out.count('si_cases')
    src_ids = [c['id'] for c in comps if c['kind'] in ('V', 'I', 'I0', 'Iac')]
    # the time grid resolves the circuit's own time constants: taken from the MODEL's state matrix in the
    # unit-scale stream (independent of the implementation's A), from the implementation's otherwise
    Aref = A
    if si_mode and drv is not None:
        m0 = drv.call('ss_model', net=gen_net.impl_to_json(im.network), cvals=gs.dict_items(im.cvals),
                      lvals=gs.dict_items(im.lvals), pots=[], ids=[], spots=[], sids=[])
        if 'A' in m0 and len(m0['A']) == A.shape[0]:
            Aref = np.array([[core.cfloat(x).real for x in r] for r in m0['A']]).reshape(A.shape)
    tin0, settle = grid_for(Aref)
    n = len(tin0); h = tin0[1] - tin0[0]
    if desc.get('grid') == 'coarse':    # a grid that does NOT resolve the dynamics: h ≈ 8 slowest time constants (exact for
        lam_ = np.linalg.eigvals(Aref) if Aref.size else np.array([-1.0])     # piecewise-linear inputs whatever h is)
        slow_ = gs.decay_rate(lam_)
        if slow_ > 0:
            h = 2.0 ** np.ceil(np.log2(8.0 / slow_)); n = 12; tin0 = np.arange(n) * h; settle = True
        else:                           # lossless: 8 of the slowest oscillation periods per step, no settling clause
            h = 2.0 ** np.ceil(np.log2(8.0 * 2 * np.pi / max(float(min(abs(lam_))), 1e-9 * float(max(abs(lam_))), 1e-300)))
            n = 12; tin0 = np.arange(n) * h; settle = False
    elif desc.get('grid') == 'two':     # the shortest grid there is
        n = 2; tin0 = np.arange(2) * h; settle = False
    # time window: the requested grid starts at t0 = m·h — zero, small, large (exact in binary64), now and then
    # negative ("all uniform time grids"; scipy.signal.lsim refuses a negative initial time: open finding)
    grid = desc.get('grid')
    amp = 1.0
    if grid == 'int64':
        # integer-typed time vector (np.arange(0, n)): needs h = 1, i.e. the circuit's time scale × 1/h
        if h != 1.0:
            if desc.get('_rescaled'):
                out.skip('integer_grid_not_reached'); return
            d2 = dict(desc, comps=[dict(c, val=c['val'] / h) if c['kind'] in ('C', 'L') else dict(c) for c in comps], _rescaled=True)
            return check_case(ctx, out, d2, origin)
        t0 = float(rng.choice([0, 0, 5, 37, 1000]))
        tin0 = np.arange(n, dtype=np.int64); tin = (int(t0) + tin0).astype(np.int64); amp = 0.8125
    elif grid == 'float32':
        t0 = h * rng.choice([0, 5, 37])
        tin = (t0 + tin0).astype(np.float32); tin0 = tin0.astype(np.float32); amp = 0.8125
        if not np.array_equal(tin.astype(float), t0 + tin0.astype(float)):
            out.skip('float32_grid_not_exact'); return
    else:
        t0 = h * (rng.choice([-8, -2 ** 12]) if rng.random() < 0.04 and grid is None else rng.choice([0, 0, 5, 37, 1000, 2 ** 16, 1, 2 ** 20]))
        tin = t0 + tin0
    if grid: out.count('grid:' + grid)
    out.count('window:' + ('t0=0' if t0 == 0 else 't0>0' if t0 > 0 else 't0<0'))
    prof, k_const, meta = make_inputs(rng, desc, src_ids, n)
    prof = {k: amp * v for k, v in prof.items()}      # non-integer sample values on the typed grids
    lossy_ids = {c['id'] for c in comps if gs.is_lossy_source(c)}
    given = list(src_ids); rng.shuffle(given)
    # the inputs are genuine functions of time: piecewise linear with breakpoints on the REQUESTED grid
    from CircuitCalculator.SignalProcessing.one_sided_functions import step as lib_step
    def mk_inputs(grid):
        d_ = {}
        for s in given:
            style, k0, final = meta[s]
            if style == 'step':         # the library's own one-sided step: jumps after grid[k0]
                d_[s] = (lambda a, tt: (lambda t: lib_step(np.asarray(t), t0=tt, X0=0.0, X1=a)))(amp * final, grid[k0])
            else:
                d_[s] = (lambda p: (lambda t: np.interp(t, grid, p)))(prof[s])
        return d_
    inputs = mk_inputs(tin)
    try:
        sol = TransientSolution(im.circuit, tin=(tin.tolist() if grid == 'list' else tin), input=inputs)
        sources = list(sol._ssm.sources)
        X = np.asarray(sol._x, dtype=float); U = np.asarray(sol._u, dtype=float).reshape(len(sources), len(tin))
        labels, ids = gs.labels_of(desc), [c['id'] for c in comps]
        pot = {l: np.asarray(sol.get_potential(l)[1]) for l in labels}
        vol = {i: np.asarray(sol.get_voltage(i)[1]) for i in ids}
        cur = {i: np.asarray(sol.get_current(i)[1]) for i in ids}
        pw = {i: np.asarray(sol.get_power(i)[1]) for i in ids}
        tout = np.asarray(sol.t)
    except Exception as e:
        out.spec_fail(canon(desc, 'raises', exc=gs.gen_tag(e), **({'negative_start_time': True} if t0 < 0 else {})),
                      f'transient simulation raises {type(e).__name__}: {e}' + (f' (uniform grid starting at t0 = {t0})' if t0 < 0 else ''), inp,
                      impl=dict(exception=repr(e)), desc=desc); return
    for what, q, arg in (('potential', sol.get_potential, c10.UNKNOWN_NODE), ('voltage', sol.get_voltage, c10.UNKNOWN_ID),
                         ('current', sol.get_current, c10.UNKNOWN_ID)):
        try:
            series = q(arg)[1]
        except (KeyError, IndexError):
            continue
        except Exception as e:
            out.spec_fail(dict(op='transient', symptom='unknown_query_wrong_error', what=what, exc=gs.gen_tag(e)),
                          f'get_{what}({arg!r}) raises {type(e).__name__}', inp, desc=desc); return
        out.spec_fail(dict(op='transient', symptom='unknown_query_no_error', what=what),
                      f'TransientSolution.get_{what}({arg!r}) answers a query for an id that does not exist '
                      f'(series of {float(np.max(np.abs(series)))}) instead of raising', inp, desc=desc)
        return
    def fail(symptom, what, **kw):
        out.spec_fail(canon(desc, symptom), what, inp, impl=dict(A=A.tolist(), B=B.tolist(), sources=sources, **kw), desc=desc,
                      profiles={k: v.tolist() for k, v in prof.items()} if n <= 200 else None, n=n, h=h, t0=t0)
    # every source drives the simulation; `_u` rows follow `sources`
    if sorted(sources) != sorted(src_ids):
        return fail('source_missing', f'sources of the simulated model {sources} are not the circuit\'s sources {sorted(src_ids)}: '
                    f'the waveform supplied for {sorted(set(src_ids) - set(sources))} is ignored')
    if tout.shape != tin.shape or not np.array_equal(tout, tin):
        return fail('time_axis', f'the returned time vector is not the requested one: requested [{tin[0]}, …, {tin[-1]}] '
                    f'({len(tin)} samples), returned [{tout[0] if tout.size else None}, …, {tout[-1] if tout.size else None}] ({tout.size} samples)')
    for k, s in enumerate(sources):
        if not np.array_equal(U[k], prof[s]):
            other = [s2 for s2 in sources if s2 != s and np.array_equal(U[k], prof[s2])]
            if other:
                return fail('input_order', f'row {k} of _u is the waveform of {other[0]!r}, not of sources[{k}] = {s!r}')
            return fail('input_sampling', f'row {k} of _u is not the waveform of sources[{k}] = {s!r} evaluated at the requested '
                        f'times (window starts at t0 = {t0}): first differing sample {int(np.argmax(U[k] != prof[s]))}')
    if X.shape != (A.shape[0], n):
        return fail('shape', f'state samples have shape {X.shape}')
    allv = [pot[l] for l in labels] + list(vol.values()) + list(cur.values())
    if not all(np.all(np.isfinite(a)) for a in allv + [X]):
        return fail('non_finite', 'non-finite simulated values')
    scale = max(1.0, max(float(np.max(np.abs(a))) for a in allv + ([X] if X.size else [])))
    tol = 1e-9 * scale
    tolv = toli = tol                     # ordinary (dyadic, order-one) circuits: one scale
    if si_mode:                           # SI units: voltages and currents each against their own magnitude
        rs = [c['val'] for c in comps if c['kind'] == 'R'] or [1.0]
        sv = max([float(np.max(np.abs(a))) for a in list(pot.values()) + list(vol.values())] + [0.0])
        si_ = max([float(np.max(np.abs(a))) for a in cur.values()] + [0.0])
        sv, si_ = max(sv, si_ * min(rs)), max(si_, sv / max(rs))
        rel = max(1e-8, c10.si_tolerance(cnd))
        tolv, toli = rel * sv, rel * si_
        if sv == 0 and si_ == 0:
            return fail('no_response', 'all simulated outputs are identically zero although the sources are driven')
    tk = lambda kind: toli if kind == 'i' else tolv
    kinds_of_state = ['v'] * len(im.cvals) + ['i'] * len(im.lvals)
    # start from rest
    driven_at_start = any(prof[s][0] != 0 for s in sources)
    if (X.size and np.max(np.abs(X[:, 0])) > 0) or (not driven_at_start and (max(abs(a[0]) for a in list(pot.values()) + list(vol.values())) > tolv
                                                                   or max(abs(a[0]) for a in cur.values()) > toli)):
        return fail('not_at_rest', f'first sample is not at rest: x0={X[:, 0].tolist()}')
    # Kirchhoff's voltage law and reference potential
    if np.max(np.abs(pot[desc['ground']])) > tolv:
        return fail('reference', 'reference potential is not zero')
    for c in comps:
        if np.max(np.abs(vol[c['id']] - (pot[c['n1']] - pot[c['n2']]))) > tolv:
            return fail('kvl', f'voltage of {c["id"]!r} is not the difference of its terminal potentials')
    # Kirchhoff's current law at every node, every sample
    for l in labels:
        # (a linear source reports its current in generator direction — C01's convention; judged with either sign)
        inc = lambda c: (1 if c['n1'] == l else 0) - (1 if c['n2'] == l else 0)
        res = sum(inc(c) * cur[c['id']] * (-1 if c['id'] in lossy_ids else 1) for c in comps)
        if lossy_ids:
            res2 = sum(inc(c) * cur[c['id']] for c in comps)
            if np.max(np.abs(res2)) < np.max(np.abs(res)): res = res2
        if np.max(np.abs(res)) > toli * len(comps):
            k = int(np.argmax(np.abs(res)))
            return fail('kcl', f'KCL residual {res[k]:.6g} at node {l!r}, sample {k} (t={tin[k]})',
                        currents={i: float(cur[i][k]) for i in ids})
    # element laws per sample
    Xdot = A @ X + B @ U
    order = list(im.cvals.keys()) + list(im.lvals.keys())
    for c in comps:
        i, k = c['id'], c['kind']
        if k == 'R' and np.max(np.abs(vol[i] - c['val'] * cur[i])) > (tolv + c['val'] * toli if si_mode else tol * max(1.0, c['val'])):
            return fail('element_law', f'resistor {i!r}: v ≠ R·i', kind=k)
        if i in lossy_ids:
            continue                    # terminal law of a linear source: judged through KCL and the settled values
        if np.max(np.abs(pw[i] - vol[i] * cur[i])) > (tolv * max(1e-300, float(np.max(np.abs(cur[i])))) + toli * float(np.max(np.abs(vol[i]))) + 1e-300):
            return fail('power', f'get_power({i!r}) is not voltage · current per sample', kind=k)
        if k == 'V' and np.max(np.abs(vol[i] - prof[i])) > tolv:
            return fail('element_law', f'voltage source {i!r}: v ≠ u(t)', kind=k)
        if k == 'I' and np.max(np.abs(cur[i] - prof[i])) > toli:
            return fail('element_law', f'current source {i!r}: i ≠ u(t)', kind=k)
        if k == 'C':
            s = order.index(i)
            if np.max(np.abs(vol[i] - X[s])) > tolv:
                return fail('state_identity', f'capacitor {i!r}: its voltage is not state {s}', kind=k)
            if np.max(np.abs(cur[i] - c['val'] * Xdot[s])) > (toli + 1e-9 * c['val'] * float(np.max(np.abs(Xdot[s]))) if si_mode
                                                              else tol * max(1.0, float(np.max(np.abs(Xdot))))):
                return fail('element_law', f'capacitor {i!r}: i ≠ C·dv/dt', kind=k)
        if k == 'L':
            s = order.index(i)
            if np.max(np.abs(cur[i] - X[s])) > toli:
                return fail('state_identity', f'inductor {i!r}: its current is not state {s}', kind=k)
            if np.max(np.abs(vol[i] - c['val'] * Xdot[s])) > (tolv + 1e-9 * c['val'] * float(np.max(np.abs(Xdot[s]))) if si_mode
                                                              else tol * max(1.0, float(np.max(np.abs(Xdot))))):
                return fail('element_law', f'inductor {i!r}: v ≠ L·di/dt', kind=k)
    out.count('samples_checked', n)
    # exact response of the linear system for piecewise-linear inputs (support for lsim)
    if A.size:
        Xe = expm_response(A, B, U, h)
        tolx = np.array([100 * tk(kd) for kd in kinds_of_state]).reshape(-1, 1)
        if np.any(np.abs(Xe - X) > tolx):
            k = int(np.argmax(np.max(np.abs(Xe - X), axis=0)))
            return fail('not_exact_response', f'state samples differ from the exact piecewise-linear response by '
                        f'{np.max(np.abs(Xe - X)):.3g} (sample {k})')
        out.count('expm_checked')
    # shift invariance: the same waveforms on the window [0, T] give the same samples
    if t0 != 0:
        try:
            sol0 = TransientSolution(im.circuit, tin=tin0, input=mk_inputs(tin0))
            X0 = np.asarray(sol0._x, dtype=float)
            if not np.array_equal(np.asarray(sol0.t), tin0) or X0.shape != X.shape or np.any(np.abs(X0 - X) > tolx if A.size else False):
                return fail('shift_invariance', f'the simulation on the window starting at t0 = {t0} differs from the same '
                            f'waveforms simulated on the window starting at 0')
            out.count('shift_invariance_checked')
        except Exception as e:
            return fail('raises', f'simulation on the zero-based window raises {type(e).__name__}: {e}')
    # a NON-uniform grid is outside the quantifier, but a result returned for one must still be the exact response
    # at the reported times (inputs linear between the given samples) — or the call must raise
    # (ordinary time scales only: scipy.signal.lsim tests uniformity with numpy.allclose and its ABSOLUTE tolerance
    #  1e-8, so on nanosecond grids every spacing looks uniform to it — observed on the unchanged tree, see notes)
    if A.size and grid is None and not si_mode and t0 >= 0 and rng.random() < 0.35:
        kk = np.arange(40)
        tnu = rng.choice([h * (1.15 ** kk - 1.0), np.concatenate([h / 4 * np.arange(20), h / 4 * 20 + 4 * h * np.arange(20)])])
        wave = lambda p: (lambda t: np.interp(t, tin0, p))
        try:
            solnu = TransientSolution(im.circuit, tin=tnu, input={s: wave(prof[s]) for s in given})
            Xnu, tnu_out = np.asarray(solnu._x, dtype=float), np.asarray(solnu.t, dtype=float)
        except Exception:
            solnu = None
            out.count('nonuniform_grid_rejected')
        if solnu is not None:
            Unu = np.array([np.interp(tnu, tin0, prof[s]) for s in sources])
            Xref = expm_response_nonuniform(A, B, Unu, tnu)
            if tnu_out.shape != tnu.shape or not np.array_equal(tnu_out, tnu) or Xnu.shape != Xref.shape or np.any(np.abs(Xnu - Xref) > tolx):
                return fail('nonuniform_grid', 'a non-uniform time grid is accepted, but the returned samples are not the response '
                            f'at the reported times (max deviation {float(np.max(np.abs(Xnu - Xref))) if Xnu.shape == Xref.shape else "shape"}; '
                            f'steps from {float(np.min(np.diff(tnu))):.4g} to {float(np.max(np.diff(tnu))):.4g})', grid_times=tnu.tolist())
            out.count('nonuniform_grid_exact')
    # settling to the DC solution for constant inputs
    if settle and not f['zero_valued_current_source']:
        dc = DCSolution(im.circuit)
        for key, series, ref in ([(('pot', l), pot[l], dc.get_potential(l)) for l in labels] +
                                 [(('v', i), vol[i], dc.get_voltage(i)) for i in ids] +
                                 [(('i', i), cur[i], dc.get_current(i)) for i in ids]):
            if abs(series[-1] - amp * ref) > 100 * tk('i' if key[0] == 'i' else 'v'):
                return fail('not_settled', f'{key}: final value {series[-1]} but DCSolution reports {amp * ref}')
        out.count('settled_to_dc')
    else:
        out.skip('settle_not_checked')
    # correspondence of the wiring on the implementation's own _x, _u (first samples)
    if drv is not None:
        T = min(n, 24)
        pots, eids = labels + [c10.UNKNOWN_NODE], ids
        m = drv.call('ss_model', net=gen_net.impl_to_json(im.network), cvals=gs.dict_items(im.cvals),
                     lvals=gs.dict_items(im.lvals), pots=pots, ids=eids, spots=[], sids=[])
        if 'A' in m:
            rows, keys = [], []
            for e in m['pot']:
                if 'ok' in e['c'] and 'ok' in e['d']:
                    rows.append([e['c']['ok'], e['d']['ok']]); keys.append(('pot', e['n']))
                else:
                    try:
                        sol.get_potential(e['n']); impl_unknown = 'ok'
                    except Exception as ex:
                        impl_unknown = gs.gen_tag(ex)
                    if impl_unknown != e['c'].get('err', e['d'].get('err')):
                        out.disagree('ss_transient.get_potential', inp, impl_unknown, e, node=e['n'])
            for e in m['el']:
                if 'ok' in e['vc'] and 'ok' in e['ic']:
                    rows.append([e['vc']['ok'], e['vd']['ok']]); keys.append(('v', e['id']))
                    rows.append([e['ic']['ok'], e['id_']['ok']]); keys.append(('i', e['id']))
            r = drv.call('ss_transient', sources=m['sources'], given=given, X=gs.qmat(X[:, :T]) if X.size else [],
                         U=[gs.qvec(prof[s][:T]) for s in given], nSamples=T, rows=rows)
            if 'err' in r:
                out.disagree('ss_transient', inp, 'ok', r)
            else:
                if not gs.mat_agree(U[:, :T], r['U']) and U.size:
                    out.disagree('ss_transient._u', inp, U[:, :T].tolist(), gs.model_mat(r['U']))
                if any(core.cfloat(z) != 0 for z in r['x0']) or len(r['x0']) != X.shape[0]:
                    out.disagree('ss_transient.x0', inp, 'zeros', r['x0'])
                for key, y in zip(keys, r['y']):
                    series = {'pot': pot, 'v': vol, 'i': cur}[key[0]][key[1]]
                    if not gs.vec_agree(series[:T], y, 1e-9 * scale) and not si_mode:
                        out.disagree('ss_transient.' + key[0], inp, series[:T].tolist(), [core.cfloat(z) for z in y], id=key[1])
                        break
                else:
                    out.traces_validated += 1
    out.sample(inp)

def periodic_case(ctx, out, desc, origin='periodic'):
    """periodic inputs settle to the multi-frequency steady state of C09: one voltage source becomes an ac
    source (frequency w1) or a periodic sin / tri / rect source (fundamental w0, harmonics up to 5·w0), the other
    sources stay dc; the transient simulation is driven with the source waveforms TimeDomainSolution itself
    assigns to the sources (its truncated Fourier series) for the decay time plus one period, and its last period is
    compared with TimeDomainSolution for every potential, voltage and current — within the first-order-hold error
    of sampling the harmonics, (w_max·h)²/8, and the decayed transient e^{-25}"""
    from CircuitCalculator.Circuit.solution import TransientSolution, TimeDomainSolution
    drv = ctx.driver
    rng = ctx.rng('periodic', str(gs.pretty(desc)))
    vs = [c for c in desc['comps'] if c['kind'] == 'V' and 'src' not in c]
    if not vs or gs.facts(desc)['zero_valued_current_source']:
        return
    out.evaluations += 1
    ok, why = gs.nondegenerate(drv, desc)
    if not ok:
        out.count('degenerate:' + why); return
    try:
        A0 = np.asarray(gs.impl_model(desc).ssm.A, dtype=float)
    except Exception:
        return                                        # reported by check_case
    lam = np.linalg.eigvals(A0) if A0.size else np.array([-1.0])
    big, slow = float(max(abs(lam))), gs.decay_rate(lam)
    if slow <= 0 or max([c10.cond_of(p) for p in gs.impl_model(desc).inverses] + [1.0]) > 1e6:
        out.skip('periodic_not_damped'); return
    w0 = float(gs.dyadic_near(float(np.median(abs(lam)))))
    pick = rng.choice(vs)['id']
    kind = rng.choice(['ac', 'sin', 'tri', 'rect'])
    phi = rng.choice(gs.PHASES)
    comps = []
    for c in desc['comps']:
        c = dict(c)
        if c['id'] == pick:
            c['src'] = dict(type='ac', w=w0, phi=phi) if kind == 'ac' else dict(type='periodic', wavetype=kind, w=w0, phi=phi)
        comps.append(c)
    d = dict(desc, comps=comps)
    inp = gs.pretty(d)
    w_max = w0 if kind in ('ac', 'sin') else 5.5 * w0
    h = 2.0 ** np.floor(np.log2(min(0.5 / big, 0.02 / w_max)))
    period = 2 * np.pi / w0
    n = int(np.ceil((25.0 / slow + period) / h)) + 2
    if n > 60000:
        out.skip('periodic_too_stiff'); return
    out.nontrivial(('periodic', kind) + gs.shape(d))
    tin = np.arange(n) * h
    pcanon = lambda symptom, **kw: dict(op='transient', symptom=symptom, periodic=kind, **gs.facts(d), **kw)
    try:
        circuit = gs.build_circuit(d)
        td = TimeDomainSolution(circuit, w_max=w_max)
        ws = np.asarray(td.w, dtype=float)
        def waveform(cid, is_v):
            ph = np.array([complex(s_.get_voltage(cid) if is_v else s_.get_current(cid)) for s_ in td._solutions])
            return lambda t: np.sum(np.abs(ph)[:, None] * np.cos(ws[:, None] * np.asarray(t)[None, :] + np.angle(ph)[:, None]), axis=0)
        inputs = {c['id']: waveform(c['id'], c['kind'] == 'V') for c in d['comps'] if c['kind'] in ('V', 'I')}
        sol = TransientSolution(circuit, tin=tin, input=inputs)
        last = tin >= tin[-1] - period
        tl = tin[last]
        labels, ids = gs.labels_of(d), [c['id'] for c in d['comps']]
        got = {('pot', l): np.asarray(sol.get_potential(l)[1])[last] for l in labels}
        got.update({('v', i): np.asarray(sol.get_voltage(i)[1])[last] for i in ids})
        got.update({('i', i): np.asarray(sol.get_current(i)[1])[last] for i in ids})
        ref = {('pot', l): np.asarray(td.get_potential(l)(tl), dtype=float) for l in labels}
        ref.update({('v', i): np.asarray(td.get_voltage(i)(tl), dtype=float) for i in ids})
        ref.update({('i', i): np.asarray(td.get_current(i)(tl), dtype=float) for i in ids})
    except Exception as e:
        out.spec_fail(pcanon('raises', exc=gs.gen_tag(e)), f'periodic steady state: {type(e).__name__}: {e}', inp, desc=d, periodic_base=desc)
        return
    scale = max(1.0, max(float(np.max(np.abs(v))) for v in ref.values()))
    tol = (2e-3 + (w_max * h) ** 2) * scale
    for key in ref:
        dev = float(np.max(np.abs(got[key] - ref[key])))
        if not dev <= tol:
            what = {'pot': 'potential of node', 'v': 'voltage of', 'i': 'current of'}[key[0]]
            out.spec_fail(pcanon('periodic_steady_state', output=key[0]),
                          f'{what} {key[1]!r}: after the transient has decayed the simulated last period differs from the '
                          f'multi-frequency steady state (TimeDomainSolution, frequencies {ws.tolist()}) by {dev:.4g} '
                          f'(tolerance {tol:.3g}, source {pick!r} is {kind} with w = {w0}, phase {phi:.4g})', inp, desc=d, periodic_base=desc)
            return
    out.count('periodic_steady_checked')

# linear sources in a transient (audit repro): 8 V behind 2 Ω into 2 Ω ∥ C settles at 8 V instead of 4 V; 3 A ∥ 0.5 S
LOSSY_CORPUS = [
    dict(ground='0', ground_pos=3, comps=[
        dict(kind='V', id='S', n1='1', n2='0', val=8.0, src=dict(type='dc', Ri=2.0)),
        dict(kind='R', id='R', n1='1', n2='0', val=2.0), dict(kind='C', id='C', n1='1', n2='0', val=1.0)]),
    dict(ground='0', ground_pos=3, comps=[
        dict(kind='I', id='S', n1='0', n2='1', val=3.0, src=dict(type='dc', Gi=0.5)),
        dict(kind='R', id='R', n1='1', n2='0', val=2.0), dict(kind='C', id='C', n1='1', n2='0', val=1.0)]),
]

CORPUS = c10.CORPUS + [
    # an AC current source (w ≠ 0) is an open circuit at w = 0: the model has no input for it
    dict(ground='0', ground_pos=3, comps=[
        dict(kind='Iac', id='Is', n1='0', n2='1', val=1.0), dict(kind='R', id='R1', n1='1', n2='0', val=2.0),
        dict(kind='C', id='C1', n1='1', n2='0', val=0.5)]),
]

def run(ctx, out):
    out.rule = ('RLC + ideal-source circuits (generator of C10) × piecewise-linear source waveforms with breakpoints on a dyadic '
                'uniform grid resolving the fastest time constant (steps as one-sample ramps, ramps, triangles; zero at the first '
                'sample, constant over the last two thirds); non-trivial when the circuit is non-degenerate (decided exactly); '
                'distinct by (node count, kind multiset, names-interleave, inductor-order); the waveforms are genuine functions '
                'of time and the requested window starts at t0 = m·h with m ∈ {0, 1, 5, 37, 1000, 2^16, 2^20} (returned time axis, '
                'input sampling at the requested times, shift invariance against the zero-based window); unit-scale stream: the '
                'same circuits in SI units (R mΩ…GΩ, C pF…F, L nH…H; exact decade scalings and log-uniform values), voltages and '
                'currents each against their own magnitude; revisit stream: same ids, only L / C values changed, same process, '
                'both orders')
    for desc in CORPUS:
        check_case(ctx, out, desc, 'corpus')
    for desc in c10.SI_CORPUS:
        check_case(ctx, out, desc, 'si_corpus')
    for g in ('int64', 'float32', 'list', 'coarse', 'two'):
        check_case(ctx, out, dict(c10.CORPUS[0], grid=g), 'typed_grid')
        check_case(ctx, out, dict(c10.CORPUS[5], grid=g), 'typed_grid')
    for desc in LOSSY_CORPUS + [c10.ZERO_R_CORPUS[0]]:
        check_case(ctx, out, desc, 'domain_corpus')
    periodic_case(ctx, out, c10.CORPUS[0]); periodic_case(ctx, out, c10.CORPUS[5])
    n_periodic = 0
    rng = ctx.rng('random')
    n_random = 110 if ctx.quick else 1800
    reserve = 8 if ctx.quick else 60
    for k in range(n_random):
        if ctx.time_left() < reserve: out.notes.append(f'stopped after {k} random cases (budget)'); break
        safe = rng.random() < 0.4
        for _ in range(40):
            desc = gs.random_desc(rng, safe=safe)
            ok, why = gs.nondegenerate(ctx.driver, desc)
            if ok: break
            out.count('rejected_degenerate:' + why)
        check_case(ctx, out, desc)
        # periodic steady state against TimeDomainSolution (C09): a handful of damped circuits per run
        if n_periodic < (10 if ctx.quick else 150) and gs.facts(desc)['n_reactive'] <= 3:
            before = out.distribution.get('periodic_steady_checked', 0) + len(out.spec_failures)
            periodic_case(ctx, out, desc)
            n_periodic += (out.distribution.get('periodic_steady_checked', 0) + len(out.spec_failures)) > before
        # typed time grids: integer (np.arange(0, n)) and float32 time vectors; source kinds: ideal ac / periodic sources
        if rng.random() < (0.3 if ctx.quick else 1.0):
            check_case(ctx, out, dict(desc, grid=rng.choice(['int64', 'float32', 'list', 'coarse', 'two'])), 'typed_grid')
        # corners of the domain: no source, 3–4 sources, no reactive element, no resistor, up to nine nodes, V = 0
        if rng.random() < (0.3 if ctx.quick else 1.0):
            for _ in range(40):
                dw = gs.wide_desc(rng)
                if gs.nondegenerate(ctx.driver, dw)[0]: break
            check_case(ctx, out, dw, 'corner'); out.count('corner:' + dw['corner'])
        # linear (lossy) sources: C12 speaks of "every non-degenerate RLC circuit and source waveforms" (open finding)
        if rng.random() < (0.08 if ctx.quick else 0.3):
            check_case(ctx, out, gs.with_lossy_sources(rng, desc), 'lossy'); out.count('lossy_source_cases')
        if rng.random() < (0.25 if ctx.quick else 1.0):
            check_case(ctx, out, gs.with_source_kinds(rng, desc, lossy=False), 'source_kinds')
            out.count('source_kind_cases')
        # unit-scale stream: the same circuit in realistic SI units
        if rng.random() < (0.3 if ctx.quick else 1.0):
            gs.run_sequence(out, EXTRA_CANON, [desc, gs.si_desc(rng, desc, exact=True), gs.si_desc(rng, desc, exact=False)],
                            lambda d: check_case(ctx, out, d, 'si'))
        # revisit stream: same circuit and ids, ONLY the L / C values differ (the w = 0 network handed to the
        # state-space builder is identical), same process, both orders
        if rng.random() < (0.3 if ctx.quick else 1.0):
            d2 = gs.vary_values(rng, desc, kinds=('C', 'L'))
            first, second = (desc, d2) if rng.random() < 0.5 else (d2, desc)
            gs.run_sequence(out, EXTRA_CANON, [first, second, first], lambda d: check_case(ctx, out, d, 'revisit'))
            out.count('revisit_sequences')
        # value-variation stream: the same description (ids, nodes, order) with other R, L, C values in
        # the same process, then the first one again — state leaking between analyses would show here
        if rng.random() < (0.3 if ctx.quick else 1.0):
            gs.run_sequence(out, EXTRA_CANON, [desc, gs.vary_values(rng, desc), desc], lambda d: check_case(ctx, out, d, 'varied'))
            out.count('value_variation_sequences')
        if gs.facts(desc)['n_reactive'] > 1 and rng.random() < (0.3 if ctx.quick else 1.0):
            check_case(ctx, out, gs.permute_reactive(rng, desc, keep_inductors_sorted=safe), 'permuted')

def replay(ctx, out, rp):
    if rp.get('sequence'):
        gs.run_sequence(out, EXTRA_CANON, rp['sequence'], lambda d: check_case(ctx, out, d, 'replay'))
        return
    if rp.get('periodic_base'):
        periodic_case(ctx, out, rp['periodic_base'], 'replay')
        return
    desc = rp.get('desc')
    if desc is None:
        raise SystemExit('replay file carries no circuit description')
    check_case(ctx, out, desc, 'replay')
