"""
C04 — linearity and superposition of sources.

Oracle on the implementation (metamorphic): (a) every source scaled by a complex factor a
⇒ potentials, voltages, currents scale by a, powers by |a|²; (b) for subset decompositions
of the source set, each part solved with the other sources deactivated by the library's
own `short_circuitify_voltage_sources` / `open_circuitify_current_sources(keep=…)`, the
sum equals the full response; (c) all sources deactivated ⇒ zero solution.
Correspondence: the two zeroing operations against CC/Model/Transform.lean.
Theorems: CC/Properties/C04.lean (linearity of the circuit equations in the sources).
"""
from __future__ import annotations
import itertools
import numpy as np
import core, gen_net
from props.c01 import tag, impl_report
from props.c16 import net_struct, model_struct, same_struct, key_json

ID = 'C04'
LEAN_MODULE = 'CC.Properties.C04'
LEVEL = 'proof'
THEOREMS = ['CC.C04_linear', 'CC.C04_superpose', 'CC.C04_reported_superpose', 'CC.C04_scale', 'CC.C04_scale_power', 'CC.C04_zero_all',
            'CC.physEqs_lin', 'CC.C16_zero_voltage_spec', 'CC.C16_zero_current_spec']
THEOREMS += ['CC.C16_gen_shortCircuitifyVS', 'CC.C16_gen_openCircuitifyCS', 'CC.C16_gen_keep', 'CC.C16_gen_construct', 'CC.C16_gen_finite']
LEAN_MODULE_EXTRA = ['CC.Properties.C16', 'CC.Properties.C16Gen']
# round 5: reported-level scaling (any a, zero included), zero case, reported currents, and the kernel-checked counterexample
# for the reported current of lossy sources (CC/Properties/C04More.lean)
LEAN_MODULE_EXTRA += ['CC.Properties.C04More']
THEOREMS += ['CC.C04_reported_scale', 'CC.C04_reported_zero_all', 'CC.C04_reported_superpose_current',
             'CC.C04_lossy_current_counterexample', 'CC.C04_reported_lossy_current_counterexample',
             'CC.withSrc_wf', 'CC.withSrc_wellPosed', 'CC.C04_scale_factor_is_abs_sq']
# round 5b: the composed link to the library's own zeroing operations, record-class change included (CC/Properties/C04Zeroing.lean)
LEAN_MODULE_EXTRA += ['CC.Properties.C04Zeroing']
THEOREMS += ['CC.circuitEqsAll_map_elecEq', 'CC.C04_zeroing_is_withSrc',
             'CC.C04_zeroed_branch_voltage', 'CC.C04_zeroed_branch_current', 'CC.C04_zeroed_branch_both', 'CC.C04_zeroed_not_lossy',
             'CC.C04_zero_voltage_solutions', 'CC.C04_zero_current_solutions', 'CC.C04_deactivate_solutions',
             'CC.C04_deactivate_solutions_withSrc', 'CC.deactivateOthers_ok', 'CC.deactivateOthers_wf',
             'CC.C04_zeroing_superpose', 'CC.C04_reported_zeroing_superpose', 'CC.C04_zeroing_lossy_sum_fails']
# round 5c: superposition over the library's zeroing for ANY finite partition of the sources, "each source alone" (CC/Properties/C04Groups.lean)
LEAN_MODULE_EXTRA += ['CC.Properties.C04Groups']
THEOREMS += ['CC.C04_linear_list', 'CC.C04_zeroing_superpose_groups', 'CC.C04_reported_zeroing_superpose_groups',
             'CC.C04_each_source_alone', 'CC.C04_reported_each_source_alone', 'CC.C04_groups_two', 'CC.C04_three_sources']
OPEN_STATEMENTS = ['C04_superpose / C04_reported_superpose_current are PARTIAL: they exclude the reported current of linear (lossy) sources by hypothesis (isLossy = false in all three networks) — the full statement is false for the current code (open finding C04), now kernel-checked: C04_lossy_current_counterexample (Spec level) and C04_reported_lossy_current_counterexample (values get_current returns: -3/2 != -2 + -1/2 for Vq=8V,Z=2 parallel Iq=1A,Y=1/2); only the physical current of such a branch superposes (C04_linear)',
                   'C04_reported_scale (any scale factor, zero included; potentials, voltages, reported currents incl. lossy sources, power by a*conj a) and C04_reported_zero_all are exact-arithmetic statements about every solution vector of the matrix equations of a valid (no self-loop), well-posed skeleton; floating-point rounding and ill-posed networks are covered by the oracle only; conj is an arbitrary ring endomorphism; a*conj a = |a|^2 is proved for the Gaussian rationals of the driver (C04_scale_factor_is_abs_sq), not for the complex numbers of Mathlib',
                   'the link from short_circuitify_voltage_sources / open_circuitify_current_sources to `withSrc … 0`: PROVED in round 5b for the model (CC/Properties/C04Zeroing.lean) — C04_zero_voltage_solutions / C04_zero_current_solutions / C04_deactivate_solutions: the returned network has exactly the solutions (potentials, voltages AND reported currents, the same report) of the skeleton of the input with every non-exempt source value set to 0, and that skeleton is a withSrc (C04_zeroing_is_withSrc, distinct ids); composed with C04_linear and C01_unique into C04_zeroing_superpose / C04_reported_zeroing_superpose (two groups of sources, each part solved after the library\'s own zeroing operations). What remains outside: model = Python code is C16_gen_shortCircuitifyVS / C16_gen_openCircuitifyCS plus the structural correspondence; exact arithmetic; well-posed N with distinct ids; any finite partition of the active sources into groups since round 5c (C04_zeroing_superpose_groups / C04_reported_zeroing_superpose_groups; each source alone: C04_each_source_alone; two groups re-derived: C04_groups_two); the order voltage-then-current zeroing used by the oracle (the branch-level lemma C04_zeroed_branch_both covers both orders)',
                   'the record-class change when a source is zeroed (Thevenin record zeroed into a Norton impedance and vice versa): PROVED electrically invisible in round 5b — C04_zeroed_branch_voltage / _current / _both (same terminals, identifier, zero set of the element law, reference direction of the reported current as the skeleton record with source value 0), C04_zeroed_not_lossy (the zeroed record reports its current first→second, the active lossy source in generator direction). Consequence stated exactly in C04_zeroing_superpose: reported currents add on every non-lossy branch; for a lossy source of group A i = i_A − i_B (group B: i_B − i_A), NOT the sum — the open finding C04, witnessed over the library\'s own zeroing by C04_zeroing_lossy_sum_fails (−3/2 ≠ −2 + −1/2, = −2 − (−1/2))',
                   'round 5c (CC/Properties/C04Groups.lean): the n-group statements are about the MODEL of the zeroing operations applied voltage-then-current (deactivateOthers), exact arithmetic, N with distinct ids (reported version: valid) and well-posed; the exemption lists must partition the ACTIVE sources (is_voltage_source or is_current_source; every active source in exactly one list — hypothesis hpart, discharged for "each source alone" by each_source_partition); for a linear (lossy) source the reported current is the signed sum i = i_own − Σ_others, never the plain sum (witness with three sources: C04_three_sources, −1/2 = −2 − (−1/2) − (−1) ≠ −7/2). Still open / oracle only: floating point, ill-posed networks, exemption lists that overlap or miss an active source (then the parts do not add up to N — not a superposition), powers of the parts (not additive, not claimed)']
ASSUMPTIONS = ['C04.lean / C04More.lean are about the Spec over a fixed skeleton; C04Zeroing.lean links the skeleton with zeroed source values to the networks the model of the library\'s zeroing operations returns (same solutions); model = Python code is C16_gen_* plus the structural correspondence',
               'the implementation-side sums use the implementation\'s own solver (validated by C01)']

SCALES = [2.0, -1.0, 0.5, 1j, complex(1, 1), complex(-0.5, 2), -4.0, complex(0, -0.25)]
SRC_KEYS = {'vs_ideal': 'V', 'vs_lossy': 'V', 'cs_ideal': 'I', 'cs_lossy': 'I'}

def scaled(desc, a):
    out = dict(zero=desc['zero'], branches=[])
    for d in desc['branches']:
        d2 = dict(d); d2['args'] = dict(d['args'])
        if d['kind'] in SRC_KEYS:
            k = SRC_KEYS[d['kind']]
            d2['args'][k] = complex(d['args'][k]) * a
        out['branches'].append(d2)
    return out

def solve(net):
    from CircuitCalculator.Network.NodalAnalysis.bias_point_analysis import nodal_analysis_bias_point_solver
    return impl_report(net, nodal_analysis_bias_point_solver(net))

def check_case(ctx, out, desc, a, parts_seed):
    from CircuitCalculator.Network import transformers as trf
    drv = ctx.driver
    out.evaluations += 1
    jnet = gen_net.desc_to_json(desc)
    if drv is not None:
        wp = drv.call('wellposed', net=jnet)
        if not wp['wellposed']:
            out.count('illposed'); return
    try:
        net = gen_net.to_impl(desc)
        pot, v, i, p = solve(net)
    except Exception as e:
        out.count('unsolvable:' + tag(e)); return
    from CircuitCalculator.Network.NodalAnalysis import node_analysis as na
    cond = np.linalg.cond(na.nodal_analysis_coefficient_matrix(net))
    if cond > 1e8:
        out.skip('ill_conditioned'); return
    tol = min(1e-5, max(1e-8, cond * 1e-12))      # binary64 loses ~cond·eps digits; the defects looked for are O(1)
    src_ids = [d['id'] for d in desc['branches'] if d['kind'] in SRC_KEYS]
    lossy = {d['id'] for d in desc['branches'] if d['kind'] in ('vs_lossy', 'cs_lossy')}
    if not src_ids:
        out.count('no_sources'); return
    out.nontrivial((gen_net.shape(desc), len(src_ids)))
    out.count(f'sources:{len(src_ids)}')
    ps, is_ = gen_net.net_scales(net)          # incl. source magnitudes (cancellation)
    scale = max([abs(x) for x in list(pot.values()) + list(v.values())] + [ps, 1e-300])
    iscale = max([abs(x) for x in i.values()] + [is_, 1e-300])
    canon = dict(kinds=sorted({d['kind'] for d in desc['branches']}))
    # ---- (a) scaling
    try:
        pot2, v2, i2, p2 = solve(gen_net.to_impl(scaled(desc, a)))
    except Exception as e:
        out.spec_fail(dict(canon, op='scale', symptom='raises', exc=tag(e)), 'scaled network fails to solve', gen_net.pretty(desc), desc=desc, a=a, parts_seed=parts_seed); return
    for name, x, y, f, s in (('potential', pot, pot2, a, scale), ('voltage', v, v2, a, scale), ('current', i, i2, a, iscale),
                             ('power', p, p2, abs(a) ** 2, scale * iscale)):
        for k in x:
            if not core.rclose(y[k], f * x[k], abs(f) * s, tol):
                out.spec_fail(dict(canon, op='scale', symptom='not_scaled', quantity=name), f'{name} of {k!r} does not scale with the sources',
                              gen_net.pretty(desc), impl=dict(orig=str(x[k]), scaled=str(y[k]), a=str(a)), desc=desc, a=a, parts_seed=parts_seed)
                return
    # ---- (b) superposition over a partition of the source set
    rng = core.Rng(parts_seed, 'parts')
    n_parts = rng.randint(2, min(3, max(2, len(src_ids)))) if len(src_ids) > 1 else 1
    assign = {s: rng.randrange(n_parts) for s in src_ids}
    parts = [[s for s in src_ids if assign[s] == k] for k in range(n_parts)]
    parts = [pt for pt in parts if pt] or [src_ids]
    sums = None
    for part in parts:
        keep = [b.element for b in net.branches if b.id in part]
        try:
            n1 = trf.short_circuitify_voltage_sources(net, keep=keep)
            n2 = trf.open_circuitify_current_sources(n1, keep=keep)
            r = solve(n2)
        except Exception as e:
            out.spec_fail(dict(canon, op='superpose', symptom='raises', exc=tag(e)), 'partially deactivated network fails to solve',
                          gen_net.pretty(desc), desc=desc, a=a, parts_seed=parts_seed); return
        if drv is not None:
            for fn, src_net, res in (('short_circuitify_voltage_sources', net, n1), ('open_circuitify_current_sources', n1, n2)):
                m = drv.call('transformer', fn=fn, net=gen_net.impl_to_json(src_net), keep=[key_json(e) for e in keep], arg='')
                out.traces_validated += 1
                if 'ok' not in m or not same_struct(net_struct(res), model_struct(m['ok'])):
                    out.disagree('transformer:' + fn, gen_net.pretty(desc), str(net_struct(res)), str(m), keep=part)
        sums = r[:3] if sums is None else tuple({k: sums[j][k] + r[j][k] for k in sums[j]} for j in range(3))
    for name, x, y, s in (('potential', pot, sums[0], scale), ('voltage', v, sums[1], scale), ('current', i, sums[2], iscale)):
        for k in x:
            if not core.rclose(y[k], x[k], s, tol):
                out.spec_fail(dict(canon, op='superpose', symptom='sum_mismatch', quantity=name,
                                   branch_is_lossy_source=(name == 'current' and k in lossy)),
                              f'{name} of {k!r} is not the sum of the single-part responses',
                              gen_net.pretty(desc), impl=dict(full=str(x[k]), sum=str(y[k]), parts=parts),
                              desc=desc, a=a, parts_seed=parts_seed)
    # ---- (c) everything deactivated
    try:
        n0 = trf.open_circuitify_current_sources(trf.short_circuitify_voltage_sources(net))
        pot0, v0, i0, _ = solve(n0)
        if any(abs(x) > 1e-12 * scale for x in list(pot0.values()) + list(v0.values())) or any(abs(x) > 1e-12 * iscale for x in i0.values()):
            out.spec_fail(dict(canon, op='zero_all', symptom='nonzero'), 'network with all sources deactivated has a non-zero solution',
                          gen_net.pretty(desc), impl=dict(pot=str(pot0)), desc=desc, a=a, parts_seed=parts_seed)
    except Exception as e:
        out.spec_fail(dict(canon, op='zero_all', symptom='raises', exc=tag(e)), 'fully deactivated network fails to solve',
                      gen_net.pretty(desc), desc=desc, a=a, parts_seed=parts_seed)
    out.sample(dict(net=gen_net.pretty(desc), a=str(a), parts=parts))

def run(ctx, out):
    out.rule = ('well-posed random networks of C01 with ≥ 1 source; scale factor from a fixed pool of dyadic complex numbers; '
                'random partition of the source set into 1–3 parts, each part isolated with the library\'s zeroing operations; '
                'distinct by (node count, branch count, kind multiset, number of sources)')
    rng = ctx.rng('random')
    n = 220 if ctx.quick else 5000
    for k in range(n):
        if ctx.time_left() < 10: out.notes.append(f'stopped after {k} cases (budget)'); break
        desc = gen_net.random_desc(rng, exact=rng.random() < 0.7, n_nodes=rng.randint(2, 6), min_sources=rng.randint(1, 3))
        check_case(ctx, out, desc, rng.choice(SCALES), rng.randrange(1 << 30))

def replay(ctx, out, rp):
    check_case(ctx, out, rp['desc'], complex(rp['a']), rp['parts_seed'])
