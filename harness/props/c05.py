"""
C05 — power is conserved and has the physically right sign.

Oracle on the implementation: (network level) the reported powers equal V·conj(I) of the
reported voltage/current and the Tellegen sum Σ σ_b·V_b·conj(I_b) vanishes, evaluated
exactly by the driver (op `spec_power`, CC/Spec/Circuit.lean) on the implementation's
values; (circuit level) DC power = V·I, complex power = V·conj(I) for RMS and ½·V·conj(I)
for peak phasors with both modes agreeing, resistor power real ≥ 0 and = |I|²R, inductor
purely reactive Q ≥ 0, capacitor purely reactive Q ≤ 0, time-domain and transient power =
v(t)·i(t) at every instant / sample, Tellegen at every instant.
Theorems: CC/Properties/C05.lean.
"""
from __future__ import annotations
import numpy as np
import core, gen_net, gen_circ
from props.c01 import tag, impl_report

ID = 'C05'
LEAN_MODULE = 'CC.Properties.C05'
LEVEL = 'proof'
THEOREMS = ['CC.C05_tellegen', 'CC.tellegen_of_kvl_kcl', 'CC.C05_instant', 'CC.C05_power_sign', 'CC.C05_resistor', 'CC.C05_inductor', 'CC.C05_capacitor', 'CC.C05_modes']
THEOREMS += ['CC.C05_gen_network_power', 'CC.C05_gen_dc_real', 'CC.C05_gen_dc_power', 'CC.C05_gen_peak', 'CC.C05_gen_rms',
    'CC.C05_gen_peak_power', 'CC.C05_gen_rms_power', 'CC.C05_gen_modes_agree', 'CC.C05_gen_time_function',
    'CC.C05_gen_time_power', 'CC.C05_gen_transient_power', 'CC.C05_gen_series']
LEAN_MODULE_EXTRA = ['CC.Properties.C05Gen', 'CC.Properties.C05Compose']
THEOREMS += ['CC.C05_transient_sample', 'CC.C05_periodic_steady', 'CC.C05_superposed', 'CC.C05_time_domain', 'CC.superpose_reLine_v']
OPEN_STATEMENTS = []
ASSUMPTIONS = ['C05_tellegen / C05_instant are Spec-level (any solution of CircuitEqs); they reach the reported values through C01_sound. The sign and mode facts (C05_resistor, C05_inductor, C05_capacitor, C05_modes, C05_power_sign) are identities over ℂ / any field without a model term: their link to reported values is C01_current_cases + C01_power + the element records of C07 and is not composed in Lean',
               'binary64 ≈ field arithmetic within 1e-9 relative', 'scipy.signal.lsim (transient samples) is a parameter']

def permuted_solver(seed):
    """the library's solver with permuted (valid, non-default) node / source index maps"""
    from CircuitCalculator.Network.NodalAnalysis.bias_point_analysis import NodalAnalysisBiasPointSolution
    from CircuitCalculator.Network.NodalAnalysis import label_mapping as lm
    from props.c01 import permuted_mapper
    return lambda net: NodalAnalysisBiasPointSolution(network=net, node_mapper=permuted_mapper(lm.default_node_mapper, seed),
                                                      voltage_source_mapper=permuted_mapper(lm.alphabetic_voltage_source_mapper, seed + 1),
                                                      current_source_mapper=permuted_mapper(lm.alphabetic_current_source_mapper, seed + 2))

def network_case(ctx, out, desc, mapper_seed=None):
    from CircuitCalculator.Network.NodalAnalysis.bias_point_analysis import nodal_analysis_bias_point_solver
    if mapper_seed is not None:
        nodal_analysis_bias_point_solver = permuted_solver(mapper_seed)
    drv = ctx.driver
    out.evaluations += 1
    jnet = gen_net.desc_to_json(desc)
    if drv is None: return
    if not drv.call('wellposed', net=jnet)['wellposed']:
        out.count('illposed'); return
    try:
        net = gen_net.to_impl(desc)
        pot, v, i, p = impl_report(net, nodal_analysis_bias_point_solver(net))
    except Exception as e:
        out.count('unsolvable:' + tag(e)); return
    from CircuitCalculator.Network.NodalAnalysis import node_analysis as na
    if np.linalg.cond(na.nodal_analysis_coefficient_matrix(net)) > 1e8:
        out.skip('ill_conditioned'); return
    out.nontrivial(('net', gen_net.shape(desc)))
    if not all(np.isfinite(list(pot.values()) + list(v.values()) + list(i.values()) + list(p.values()))):
        out.spec_fail(dict(level='network', symptom='non_finite', kinds=sorted({d['kind'] for d in desc['branches']})),
                      'non-finite reported value on a well-posed network', gen_net.pretty(desc), impl=dict(i=str(i), p=str(p)), desc=desc, mapper_seed=mapper_seed)
        return
    rep = dict(pot={k: core.qc(x) for k, x in pot.items()}, v={k: core.qc(x) for k, x in v.items()},
               i={k: core.qc(x) for k, x in i.items()}, p={k: core.qc(x) for k, x in p.items()})
    r = drv.call('spec_power', net=jnet, report=rep)
    out.traces_validated += 1
    vmax = max([abs(x) for x in v.values()] + [1.0])
    scale = vmax * max([abs(x) for x in i.values()] + [gen_net.ymax_json(jnet) * vmax, 1.0])
    canon = dict(level='network', kinds=sorted({d['kind'] for d in desc['branches']}), custom_index_maps=mapper_seed is not None)
    if abs(core.cfloat(r['tellegen'])) > 1e-8 * scale * len(p):
        out.spec_fail(dict(canon, symptom='tellegen'), 'complex powers do not sum to zero', gen_net.pretty(desc),
                      impl=dict(p=str(p)), spec=dict(sum=r['tellegen']), desc=desc, mapper_seed=mapper_seed)
    for k, res in r['presid'].items():
        if abs(core.cfloat(res)) > 1e-10 * scale:
            out.spec_fail(dict(canon, symptom='power_formula'), f'power of {k!r} ≠ V·conj(I)', gen_net.pretty(desc),
                          impl=dict(p=str(p[k]), v=str(v[k]), i=str(i[k])), desc=desc, mapper_seed=mapper_seed)
    # sign facts for positive passive elements
    for d in desc['branches']:
        k = d['id']
        if d['kind'] == 'resistor' and d['args']['R'] > 0:
            R = d['args']['R']
            if abs(p[k].imag) > 1e-9 * scale or p[k].real < -1e-9 * scale or not core.close(p[k].real, abs(i[k]) ** 2 * R, scale):
                out.spec_fail(dict(canon, symptom='resistor_power'), f'resistor {k!r}: power is not |I|²R ≥ 0', gen_net.pretty(desc),
                              impl=dict(p=str(p[k]), i=str(i[k])), desc=desc, mapper_seed=mapper_seed)
    out.sample(gen_net.pretty(desc))

def circuit_case(ctx, out, comps, w):
    from CircuitCalculator.Circuit import solution as sol
    out.evaluations += 1
    canon = dict(level='circuit', kinds=sorted({c['kind'] for c in comps}))
    try:
        circ = gen_circ.to_impl(comps)
        if not (gen_circ.wellposed_at(ctx.driver, circ, w) and gen_circ.wellposed_at(ctx.driver, circ, 0.0)):
            out.count('circuit_illposed'); return
        dc = sol.DCSolution(circ)
        rms = sol.ComplexSolution(circ, w=w, peak_values=False)
        peak = sol.ComplexSolution(circ, w=w, peak_values=True)
    except Exception as e:
        out.count('circuit_unsolvable:' + tag(e)); return
    ids = [c['id'] for c in comps if c['kind'] != 'ground']
    try:
        vals = {k: (dc.get_voltage(k), dc.get_current(k), dc.get_power(k), rms.get_voltage(k), rms.get_current(k), rms.get_power(k),
                    peak.get_voltage(k), peak.get_current(k), peak.get_power(k)) for k in ids}
    except Exception as e:
        out.count('circuit_query_error:' + tag(e)); return
    if not all(np.all(np.isfinite(np.array(x, dtype=complex))) for x in vals.values()):
        out.count('non_finite'); return
    scale = max([abs(x[5]) for x in vals.values()] + [abs(x[2]) for x in vals.values()] + [1.0])
    if scale > 1e9: out.skip('ill_conditioned'); return
    out.nontrivial(('circ', tuple(sorted(c['kind'] for c in comps)), w > 0))
    src_lossy = {c['id'] for c in comps if (c['kind'] in ('dc_voltage_source', 'ac_voltage_source') and c['args'].get('R', 0) != 0)
                 or (c['kind'] in ('dc_current_source', 'ac_current_source') and c['args'].get('G', 0) != 0)
                 or (c['kind'] == 'complex_voltage_source' and c['args'].get('Z', 0) != 0)}
    tell_rms = 0; tell_dc = 0
    for c in comps:
        k = c['id']
        if c['kind'] == 'ground': continue
        vdc, idc, pdc, vr, ir, pr, vp, ip, pp = vals[k]
        def fail(sym, what, **impl):
            out.spec_fail(dict(canon, symptom=sym, kind=c['kind']), what, gen_circ.pretty(comps), impl=impl, comps=comps, w=w)
        if not core.close(pdc, vdc * idc, scale): fail('dc_power', f'DC power of {k!r} ≠ V·I', p=pdc, v=vdc, i=idc)
        if not core.close(pr, vr * np.conj(ir), scale): fail('rms_power', f'RMS power of {k!r} ≠ V·conj(I)', p=str(pr), v=str(vr), i=str(ir))
        if not core.close(pp, 0.5 * vp * np.conj(ip), scale): fail('peak_power', f'peak power of {k!r} ≠ ½·V·conj(I)', p=str(pp))
        if not core.close(pr, pp, scale): fail('modes_differ', f'peak and RMS modes report different power for {k!r}', rms=str(pr), peak=str(pp))
        if not core.close(vr * np.sqrt(2), vp, scale): fail('rms_not_peak_over_sqrt2', f'RMS voltage of {k!r} ≠ peak/√2', rms=str(vr), peak=str(vp))
        sgn = -1 if k in src_lossy else 1
        # lossy sources gated off at this frequency are plain immittances (passive direction)
        tell_rms += pr * (sgn if _active(c, w) else 1)
        tell_dc += pdc * (sgn if _active(c, 0.0) else 1)
        tol = 1e-9 * scale
        if c['kind'] == 'resistor' and (abs(pr.imag) > tol or pr.real < -tol or not core.close(pr.real, abs(ir) ** 2 * c['args']['R'], scale)):
            fail('resistor_power', f'resistor {k!r}: power is not |I|²R ≥ 0', p=str(pr), i=str(ir))
        if c['kind'] == 'inductance' and (abs(pr.real) > tol or pr.imag < -tol):
            fail('inductor_power', f'inductor {k!r}: power is not purely reactive with Q ≥ 0', p=str(pr))
        if c['kind'] == 'capacitor' and (abs(pr.real) > tol or pr.imag > tol):
            fail('capacitor_power', f'capacitor {k!r}: power is not purely reactive with Q ≤ 0', p=str(pr))
    if abs(tell_rms) > 1e-8 * scale * len(ids):
        out.spec_fail(dict(canon, symptom='tellegen'), 'complex powers do not sum to zero', gen_circ.pretty(comps), impl=dict(sum=str(tell_rms)), comps=comps, w=w)
    if abs(tell_dc) > 1e-8 * scale * len(ids):
        out.spec_fail(dict(canon, symptom='tellegen_dc'), 'DC powers do not sum to zero', gen_circ.pretty(comps), impl=dict(sum=str(tell_dc)), comps=comps, w=w)
    # time domain: p(t) = v(t)·i(t)
    try:
        td = sol.TimeDomainSolution(circ, w_max=4.0)
        ts = np.array([0.0, 0.3, 1.7, 2.9])
        for k in ids[:4]:
            pv = np.array(td.get_power(k)(ts), dtype=float); vv = np.array(td.get_voltage(k)(ts), dtype=float); iv = np.array(td.get_current(k)(ts), dtype=float)
            if not np.allclose(pv, vv * iv, rtol=1e-9, atol=1e-9 * scale):
                out.spec_fail(dict(canon, symptom='instant_power'), f'time-domain power of {k!r} ≠ v(t)·i(t)', gen_circ.pretty(comps), comps=comps, w=w)
        # Tellegen at every instant (all elements; circuits with linear sources are left to the open C04/C09 direction finding)
        if not src_lossy and all(gen_circ.wellposed_at(ctx.driver, circ, float(x)) for x in td.w):
            tot = np.zeros_like(ts); mag = np.zeros_like(ts)
            for k in ids:
                pv = np.array(td.get_power(k)(ts), dtype=float); tot += pv; mag += np.abs(pv)
            out.count('instant_tellegen_checked')
            # powers that are all (numerically) zero — e.g. a source shorted by an inductor at w = 0 — carry rounding noise only
            if np.any(np.abs(tot) > 1e-8 * np.maximum(mag, 1e-9 * scale) * len(ids)):
                out.spec_fail(dict(canon, symptom='instant_tellegen'), 'instantaneous powers v(t)·i(t) do not sum to zero', gen_circ.pretty(comps),
                              impl=dict(sum=str(list(tot)), total_magnitude=str(list(mag))), comps=comps, w=w)
    except Exception as e:
        out.count('timedomain_error:' + tag(e))
    out.sample(dict(w=w, circuit=gen_circ.pretty(comps)))

def transient_case(ctx, out, desc, wseed):
    """transient results: reported power is v·i per sample, and the powers of all elements sum to zero at every sample
    (C05_transient_sample: Tellegen for every state and input, hence for every integrator)"""
    import gen_state
    from CircuitCalculator.Circuit.solution import TransientSolution
    out.evaluations += 1
    ok, why = gen_state.nondegenerate(ctx.driver, desc) if ctx.driver is not None else (True, '')
    if not ok:
        out.count('transient_degenerate:' + str(why)); return
    canon = dict(level='transient', shape=str(gen_state.shape(desc)))
    try:
        im = gen_state.impl_model(desc)
        rng = core.Rng(wseed, 'waves')
        srcs = [c['id'] for c in desc['comps'] if c['kind'] in ('V', 'I')]
        level = rng.choice([1.0, 1.0, 1e-3, 1e-6, 1e-9])          # small-signal levels: powers down to atto-watts are judged relative to themselves
        coef = {s_: (level * rng.choice([0.5, 1.0, -2.0, 3.0]), rng.choice([0.0, 0.7, 2.0])) for s_ in srcs}
        wave = {s_: (lambda t, a=a, f=f: a * np.minimum(t, 1.0) + 0.25 * a * np.sin(f * t)) for s_, (a, f) in coef.items()}
        tin = np.linspace(0.0, 3.0, 97)
        ts = TransientSolution(im.circuit, tin=tin, input=wave)
        ids = [c['id'] for c in desc['comps'] if c['kind'] != 'gnd']
        P = {}; 
        for k in ids:
            v = np.asarray(ts.get_voltage(k)[1], dtype=float); i = np.asarray(ts.get_current(k)[1], dtype=float); p = np.asarray(ts.get_power(k)[1], dtype=float)
            if not (np.all(np.isfinite(v)) and np.all(np.isfinite(i)) and np.all(np.isfinite(p))):
                out.count('transient_non_finite'); return
            P[k] = (v, i, p)
    except Exception as e:
        out.count('transient_error:' + tag(e)); return
    out.nontrivial(('transient', gen_state.shape(desc)))
    vmax = max([float(np.max(np.abs(v))) for v, _, _ in P.values()] + [0.0])
    gmax = max([1.0 / c['val'] for c in desc['comps'] if c['kind'] == 'R' and c['val'] > 0] + [1.0])
    # power scale of the problem; a circuit in which no current can flow reports rounding noise only
    scale = max([float(np.max(np.abs(v)) * np.max(np.abs(i))) for v, i, _ in P.values()] + [1e-9 * vmax * vmax * gmax, 1e-300])
    tot = np.zeros_like(tin)
    for k, (v, i, p) in P.items():
        if np.max(np.abs(p - v * i)) > 1e-9 * scale:
            out.spec_fail(dict(canon, symptom='transient_power'), f'transient power of {k!r} ≠ v·i per sample', gen_state.pretty(desc), sdesc=desc, wseed=wseed); return
        tot += p
    out.traces_validated += 1
    if np.max(np.abs(tot)) > 1e-7 * scale * len(P):
        j = int(np.argmax(np.abs(tot)))
        out.spec_fail(dict(canon, symptom='transient_tellegen'), f'powers of all elements do not sum to zero at sample {j} (t={tin[j]}): {tot[j]}',
                      gen_state.pretty(desc), impl=dict(sum=float(tot[j]), scale=scale), sdesc=desc, wseed=wseed)

LOSSY_TRANSIENT_CORPUS = [
    ('dc_voltage_source', dict(V=8.0, R=2.0)), ('dc_current_source', dict(I=3.0, G=0.5)),
    ('ac_voltage_source', dict(V=4.0, w=0.0, phi=0.0, R=1.0)),
]

def lossy_transient_case(ctx, out, kind, args):
    """transient results of a circuit whose source has an internal resistance / conductance (C05 quantifies over linear
    sources and over transient results): the powers of all elements — the source counted as delivered power — sum to
    zero at every sample, and the response to a constant waveform settles to the DC solution"""
    from CircuitCalculator.Circuit import components as cp
    from CircuitCalculator.Circuit.circuit import Circuit
    from CircuitCalculator.Circuit.solution import TransientSolution, DCSolution
    out.evaluations += 1
    canon = dict(level='transient', lossy_source=True, source_kind=kind)
    pretty = dict(source=f'{kind}{args}', rest='R1(1,0)=2 ‖ C1(1,0)=0.5, ground 0')
    try:
        src = getattr(cp, kind)(id='S', nodes=('1', '0'), **args)
        circ = Circuit([src, cp.resistor(id='R1', nodes=('1', '0'), R=2.0), cp.capacitor(id='C1', nodes=('1', '0'), C=0.5), cp.ground(nodes=('0',))])
        amp = args.get('V', args.get('I'))
        tin = np.linspace(0.0, 40.0, 801)
        ts = TransientSolution(circ, tin=tin, input={'S': lambda t: amp * np.ones_like(t)})
        dc = DCSolution(circ)
        P = {k: np.asarray(ts.get_power(k)[1], dtype=float) for k in ('S', 'R1', 'C1')}
        v_end = float(np.asarray(ts.get_potential('1')[1], dtype=float)[-1]); v_dc = float(np.real(dc.get_potential('1')))
    except Exception as e:
        out.count('lossy_transient_error:' + tag(e)); return
    out.nontrivial(('transient_lossy', kind))
    tot = -P['S'] + P['R1'] + P['C1']          # linear source: delivered power
    tot2 = P['S'] + P['R1'] + P['C1']
    mag = np.abs(P['S']) + np.abs(P['R1']) + np.abs(P['C1'])
    bad = min(float(np.max(np.abs(tot))), float(np.max(np.abs(tot2))))
    if bad > 1e-6 * max(float(np.max(mag)), 1e-300):
        out.spec_fail(dict(canon, symptom='transient_tellegen'), f'transient powers do not sum to zero in either counting direction of the source (residual {bad:.4g})',
                      pretty, impl=dict(residual=bad), lossy=[kind, args]); return
    if abs(v_end - v_dc) > 1e-6 * max(abs(v_dc), 1.0):
        out.spec_fail(dict(canon, symptom='settling'), f'constant input settles to {v_end}, the DC solution is {v_dc}', pretty,
                      impl=dict(settled=v_end, dc=v_dc), lossy=[kind, args])

def _active(c, w, w_res=1e-3):
    if c['kind'].startswith('dc_'): return abs(w - 0.0) <= w_res
    if c['kind'].startswith('ac_'): return abs(w - c['args']['w']) <= w_res
    return True

def run(ctx, out):
    out.rule = ('network level: well-posed random networks of C01; circuit level: random RLC(+Z/lamp) circuits on a resistive '
                'spanning tree with DC/AC/complex sources, analysed at w ∈ {0, 1, 2}; distinct by (kind multiset, shape, w>0); transient level: random non-degenerate RLC circuits with ideal sources, ramp + sine inputs, 97 samples')
    rng = ctx.rng('random')
    n1, n2 = (150, 120) if ctx.quick else (4000, 3000)
    for k in range(n1):
        if ctx.time_left() < 20: break
        d = gen_net.random_desc(rng, exact=rng.random() < 0.6, n_nodes=rng.randint(2, 6))
        network_case(ctx, out, d)
        if k % 3 == 0: network_case(ctx, out, d, mapper_seed=rng.randrange(1 << 16))
    for k in range(n2):
        if ctx.time_left() < 10: break
        circuit_case(ctx, out, gen_circ.random_circuit(rng), rng.choice([0.0, 1.0, 2.0]))
    for kind, args in LOSSY_TRANSIENT_CORPUS:
        lossy_transient_case(ctx, out, kind, args)
    import gen_state
    for k in range(60 if ctx.quick else 1500):
        if ctx.time_left() < 10: break
        transient_case(ctx, out, gen_state.random_desc(rng, safe=True), rng.randrange(1 << 30))

def replay(ctx, out, rp):
    if 'lossy' in rp: lossy_transient_case(ctx, out, rp['lossy'][0], rp['lossy'][1])
    elif 'sdesc' in rp: transient_case(ctx, out, rp['sdesc'], rp['wseed'])
    elif 'desc' in rp: network_case(ctx, out, rp['desc'], rp.get('mapper_seed'))
    else: circuit_case(ctx, out, rp['comps'], rp['w'])
