"""
C05 — power is conserved and has the physically right sign.

Oracle on the implementation: (network level) the reported powers equal V·conj(I) of the
reported voltage/current and the Tellegen sum Σ σ_b·V_b·conj(I_b) vanishes, evaluated
exactly by the driver (op `spec_power`, CC/Spec/Circuit.lean) on the implementation's
values; (circuit level) DC power = V·I, complex power = V·conj(I) for RMS and ½·V·conj(I)
for peak phasors with both modes agreeing, resistor power real ≥ 0 and = |I|²R, inductor
purely reactive Q ≥ 0, capacitor purely reactive Q ≤ 0, time-domain and transient power =
v(t)·i(t) at every instant / sample, Tellegen at every instant.
Theorems: CC/Properties/C05.lean.
"""
from __future__ import annotations
import numpy as np
import core, gen_net, gen_circ
from props.c01 import tag, impl_report

ID = 'C05'
LEAN_MODULE = 'CC.Properties.C05'
LEVEL = 'proof'
THEOREMS = ['CC.C05_tellegen', 'CC.tellegen_of_kvl_kcl', 'CC.C05_instant', 'CC.C05_power_sign', 'CC.C05_resistor', 'CC.C05_inductor', 'CC.C05_capacitor', 'CC.C05_modes']
THEOREMS += ['CC.C05_gen_network_power', 'CC.C05_gen_dc_real', 'CC.C05_gen_dc_power', 'CC.C05_gen_peak', 'CC.C05_gen_rms',
    'CC.C05_gen_peak_power', 'CC.C05_gen_rms_power', 'CC.C05_gen_modes_agree', 'CC.C05_gen_time_function',
    'CC.C05_gen_time_power', 'CC.C05_gen_transient_power', 'CC.C05_gen_series']
LEAN_MODULE_EXTRA = ['CC.Properties.C05Gen', 'CC.Properties.C05Compose']
THEOREMS += ['CC.C05_transient_sample', 'CC.C05_periodic_steady', 'CC.C05_superposed', 'CC.C05_time_domain', 'CC.superpose_reLine_v']
OPEN_STATEMENTS = []
ASSUMPTIONS = ['binary64 ≈ field arithmetic within 1e-9 relative', 'scipy.signal.lsim (transient samples) is a parameter']

def network_case(ctx, out, desc):
    from CircuitCalculator.Network.NodalAnalysis.bias_point_analysis import nodal_analysis_bias_point_solver
    drv = ctx.driver
    out.evaluations += 1
    jnet = gen_net.desc_to_json(desc)
    if drv is None: return
    if not drv.call('wellposed', net=jnet)['wellposed']:
        out.count('illposed'); return
    try:
        net = gen_net.to_impl(desc)
        pot, v, i, p = impl_report(net, nodal_analysis_bias_point_solver(net))
    except Exception as e:
        out.count('unsolvable:' + tag(e)); return
    from CircuitCalculator.Network.NodalAnalysis import node_analysis as na
    if np.linalg.cond(na.nodal_analysis_coefficient_matrix(net)) > 1e8:
        out.skip('ill_conditioned'); return
    out.nontrivial(('net', gen_net.shape(desc)))
    if not all(np.isfinite(list(pot.values()) + list(v.values()) + list(i.values()) + list(p.values()))):
        out.spec_fail(dict(level='network', symptom='non_finite', kinds=sorted({d['kind'] for d in desc['branches']})),
                      'non-finite reported value on a well-posed network', gen_net.pretty(desc), impl=dict(i=str(i), p=str(p)), desc=desc)
        return
    rep = dict(pot={k: core.qc(x) for k, x in pot.items()}, v={k: core.qc(x) for k, x in v.items()},
               i={k: core.qc(x) for k, x in i.items()}, p={k: core.qc(x) for k, x in p.items()})
    r = drv.call('spec_power', net=jnet, report=rep)
    out.traces_validated += 1
    vmax = max([abs(x) for x in v.values()] + [1.0])
    scale = vmax * max([abs(x) for x in i.values()] + [gen_net.ymax_json(jnet) * vmax, 1.0])
    canon = dict(level='network', kinds=sorted({d['kind'] for d in desc['branches']}))
    if abs(core.cfloat(r['tellegen'])) > 1e-8 * scale * len(p):
        out.spec_fail(dict(canon, symptom='tellegen'), 'complex powers do not sum to zero', gen_net.pretty(desc),
                      impl=dict(p=str(p)), spec=dict(sum=r['tellegen']), desc=desc)
    for k, res in r['presid'].items():
        if abs(core.cfloat(res)) > 1e-10 * scale:
            out.spec_fail(dict(canon, symptom='power_formula'), f'power of {k!r} ≠ V·conj(I)', gen_net.pretty(desc),
                          impl=dict(p=str(p[k]), v=str(v[k]), i=str(i[k])), desc=desc)
    # sign facts for positive passive elements
    for d in desc['branches']:
        k = d['id']
        if d['kind'] == 'resistor' and d['args']['R'] > 0:
            R = d['args']['R']
            if abs(p[k].imag) > 1e-9 * scale or p[k].real < -1e-9 * scale or not core.close(p[k].real, abs(i[k]) ** 2 * R, scale):
                out.spec_fail(dict(canon, symptom='resistor_power'), f'resistor {k!r}: power is not |I|²R ≥ 0', gen_net.pretty(desc),
                              impl=dict(p=str(p[k]), i=str(i[k])), desc=desc)
    out.sample(gen_net.pretty(desc))

def circuit_case(ctx, out, comps, w):
    from CircuitCalculator.Circuit import solution as sol
    out.evaluations += 1
    canon = dict(level='circuit', kinds=sorted({c['kind'] for c in comps}))
    try:
        circ = gen_circ.to_impl(comps)
        if not (gen_circ.wellposed_at(ctx.driver, circ, w) and gen_circ.wellposed_at(ctx.driver, circ, 0.0)):
            out.count('circuit_illposed'); return
        dc = sol.DCSolution(circ)
        rms = sol.ComplexSolution(circ, w=w, peak_values=False)
        peak = sol.ComplexSolution(circ, w=w, peak_values=True)
    except Exception as e:
        out.count('circuit_unsolvable:' + tag(e)); return
    ids = [c['id'] for c in comps if c['kind'] != 'ground']
    try:
        vals = {k: (dc.get_voltage(k), dc.get_current(k), dc.get_power(k), rms.get_voltage(k), rms.get_current(k), rms.get_power(k),
                    peak.get_voltage(k), peak.get_current(k), peak.get_power(k)) for k in ids}
    except Exception as e:
        out.count('circuit_query_error:' + tag(e)); return
    if not all(np.all(np.isfinite(np.array(x, dtype=complex))) for x in vals.values()):
        out.count('non_finite'); return
    scale = max([abs(x[5]) for x in vals.values()] + [abs(x[2]) for x in vals.values()] + [1.0])
    if scale > 1e9: out.skip('ill_conditioned'); return
    out.nontrivial(('circ', tuple(sorted(c['kind'] for c in comps)), w > 0))
    src_lossy = {c['id'] for c in comps if (c['kind'] in ('dc_voltage_source', 'ac_voltage_source') and c['args'].get('R', 0) != 0)
                 or (c['kind'] in ('dc_current_source', 'ac_current_source') and c['args'].get('G', 0) != 0)
                 or (c['kind'] == 'complex_voltage_source' and c['args'].get('Z', 0) != 0)}
    tell_rms = 0; tell_dc = 0
    for c in comps:
        k = c['id']
        if c['kind'] == 'ground': continue
        vdc, idc, pdc, vr, ir, pr, vp, ip, pp = vals[k]
        def fail(sym, what, **impl):
            out.spec_fail(dict(canon, symptom=sym, kind=c['kind']), what, gen_circ.pretty(comps), impl=impl, comps=comps, w=w)
        if not core.close(pdc, vdc * idc, scale): fail('dc_power', f'DC power of {k!r} ≠ V·I', p=pdc, v=vdc, i=idc)
        if not core.close(pr, vr * np.conj(ir), scale): fail('rms_power', f'RMS power of {k!r} ≠ V·conj(I)', p=str(pr), v=str(vr), i=str(ir))
        if not core.close(pp, 0.5 * vp * np.conj(ip), scale): fail('peak_power', f'peak power of {k!r} ≠ ½·V·conj(I)', p=str(pp))
        if not core.close(pr, pp, scale): fail('modes_differ', f'peak and RMS modes report different power for {k!r}', rms=str(pr), peak=str(pp))
        if not core.close(vr * np.sqrt(2), vp, scale): fail('rms_not_peak_over_sqrt2', f'RMS voltage of {k!r} ≠ peak/√2', rms=str(vr), peak=str(vp))
        sgn = -1 if k in src_lossy else 1
        # lossy sources gated off at this frequency are plain immittances (passive direction)
        tell_rms += pr * (sgn if _active(c, w) else 1)
        tell_dc += pdc * (sgn if _active(c, 0.0) else 1)
        tol = 1e-9 * scale
        if c['kind'] == 'resistor' and (abs(pr.imag) > tol or pr.real < -tol or not core.close(pr.real, abs(ir) ** 2 * c['args']['R'], scale)):
            fail('resistor_power', f'resistor {k!r}: power is not |I|²R ≥ 0', p=str(pr), i=str(ir))
        if c['kind'] == 'inductance' and (abs(pr.real) > tol or pr.imag < -tol):
            fail('inductor_power', f'inductor {k!r}: power is not purely reactive with Q ≥ 0', p=str(pr))
        if c['kind'] == 'capacitor' and (abs(pr.real) > tol or pr.imag > tol):
            fail('capacitor_power', f'capacitor {k!r}: power is not purely reactive with Q ≤ 0', p=str(pr))
    if abs(tell_rms) > 1e-8 * scale * len(ids):
        out.spec_fail(dict(canon, symptom='tellegen'), 'complex powers do not sum to zero', gen_circ.pretty(comps), impl=dict(sum=str(tell_rms)), comps=comps, w=w)
    if abs(tell_dc) > 1e-8 * scale * len(ids):
        out.spec_fail(dict(canon, symptom='tellegen_dc'), 'DC powers do not sum to zero', gen_circ.pretty(comps), impl=dict(sum=str(tell_dc)), comps=comps, w=w)
    # time domain: p(t) = v(t)·i(t)
    try:
        td = sol.TimeDomainSolution(circ, w_max=4.0)
        ts = np.array([0.0, 0.3, 1.7, 2.9])
        for k in ids[:4]:
            pv = np.array(td.get_power(k)(ts), dtype=float); vv = np.array(td.get_voltage(k)(ts), dtype=float); iv = np.array(td.get_current(k)(ts), dtype=float)
            if not np.allclose(pv, vv * iv, rtol=1e-9, atol=1e-9 * scale):
                out.spec_fail(dict(canon, symptom='instant_power'), f'time-domain power of {k!r} ≠ v(t)·i(t)', gen_circ.pretty(comps), comps=comps, w=w)
    except Exception as e:
        out.count('timedomain_error:' + tag(e))
    out.sample(dict(w=w, circuit=gen_circ.pretty(comps)))

def _active(c, w, w_res=1e-3):
    if c['kind'].startswith('dc_'): return abs(w - 0.0) <= w_res
    if c['kind'].startswith('ac_'): return abs(w - c['args']['w']) <= w_res
    return True

def run(ctx, out):
    out.rule = ('network level: well-posed random networks of C01; circuit level: random RLC(+Z/lamp) circuits on a resistive '
                'spanning tree with DC/AC/complex sources, analysed at w ∈ {0, 1, 2}; distinct by (kind multiset, shape, w>0)')
    rng = ctx.rng('random')
    n1, n2 = (150, 120) if ctx.quick else (4000, 3000)
    for k in range(n1):
        if ctx.time_left() < 20: break
        network_case(ctx, out, gen_net.random_desc(rng, exact=rng.random() < 0.6, n_nodes=rng.randint(2, 6)))
    for k in range(n2):
        if ctx.time_left() < 10: break
        circuit_case(ctx, out, gen_circ.random_circuit(rng), rng.choice([0.0, 1.0, 2.0]))

def replay(ctx, out, rp):
    if 'desc' in rp: network_case(ctx, out, rp['desc'])
    else: circuit_case(ctx, out, rp['comps'], rp['w'])
