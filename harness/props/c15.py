"""
C15 — saving, reloading and declarative descriptions preserve the circuit.

Oracle on the implementation: real `serialize → deserialize` (SimpleCircuit/dump_load.py)
through JSON for drawings over the persistable kinds, 1, 2, 3 and 5 cycles; after each the
translated circuit must be the original one (ids, kinds, values, terminal order, reference
node, connectivity up to renaming).  One YAML cycle is run as a counted observation (C15 is about JSON).  `create_schematic(dict)` against the
programmatic construction of the same elements for every handler × direction × placement.

Correspondence (model CC/Model/DrawIO.lean): `undictify_element` of the model on the real
saved JSON against the real reloaded elements; n model cycles (`saveLoad`) against n real
cycles; the model's declarative placements against what `create_schematic` did.
"""
from __future__ import annotations
import math
import json, math
import core, gen_draw as gd
from props import c13

ID = 'C15'
LEAN_MODULE = 'CC.Properties.C15'
LEVEL = 'proof'
THEOREMS = [
    'CC.C15_persistable_total', 'CC.C15_tables',
    'CC.C15_value_roundtrip', 'CC.C15_phase_roundtrip',      # kernel lemmas about savedVal / savedPhase (see their docstrings)
    'CC.C15_roundtrip_element', 'CC.C15_stable_element', 'CC.C15_roundtrip', 'CC.C15_stable', 'CC.C15_cycles',
    'CC.C15_declarative',
    # round 5 (CC/Properties/C15Declarative.lean, lemmas in CC/Proofs/DrawDeclarative2.lean)
    'CC.Draw.construct_congr', 'CC.Draw.declarative_frame', 'CC.Draw.declarative_eq_declFrom',
    'CC.C15_declarative_list', 'CC.C15_declarative_length', 'CC.C15_declarative_symbols',
    'CC.C15_declarative_unknown', 'CC.C15_declarative_untyped', 'CC.C15_declarative_circuit',
    'CC.C15_extra_keys_symbol', 'CC.C15_extra_keys_circuit',
]
LEAN_MODULE_EXTRA = ['CC.Properties.C15Declarative']
# round 5b (CC/Properties/C15Extras.lean, lemmas in CC/Proofs/DrawExtras.lean): save∘load of drawings with extra keywords
LEAN_MODULE_EXTRA = list(globals().get('LEAN_MODULE_EXTRA', [])) + ['CC.Properties.C15Extras']
THEOREMS += [
    'CC.Draw.saveLoad_ext', 'CC.Draw.cycles_ext', 'CC.Draw.valKept_iff', 'CC.Draw.keysOK_iff',
    'CC.C15_withExtras_ext', 'CC.C15_saveLoad_extras', 'CC.C15_saveLoad_extras_succeeds',
    'CC.C15_roundtrip_extras', 'CC.C15_roundtrip_extras_verbatim',
    'CC.C15_stable_extras', 'CC.C15_stable_extras_verbatim',
    'CC.C15_extras_not_fixed', 'CC.C15_namesWF_of_check',
]
OPEN_STATEMENTS = [
    'declarative descriptions: the model function `declarative` is now characterised for every description list '
    '(C15_declarative_list: iff; C15_declarative_symbols: each constructor call equals the programmatic call on the constructor '
    'keywords, any keys / order / values; C15_declarative_circuit: same symbol list, same circuit for any anchors). Still '
    'correspondence + oracle only: that `create_schematic` is this model (handler table, direction table, factory defaults are '
    'regenerated from the AST), and the geometry — the anchors schemdraw computes from (class, method, length × unit, place_after '
    'end anchor) are a parameter (`anch`) of C15_declarative_circuit, assumed equal for the declarative and the programmatic drawing; '
    'Elements.Ground\'s re-mapped direction methods are outside the model',
    'C15_roundtrip / C15_stable assume the keyword layouts of C15_Canonical and unique element names. Round 5 proves that extra '
    'keywords the class does not read (placement parameters d, l, at, …) do not change the symbol or the circuit '
    '(C15_extra_keys_symbol / C15_extra_keys_circuit, any base layout). Round 5b CLOSES the round trip of such layouts: for a '
    'C15_Canonical drawing plus, per element, appended extras whose keys pass the decidable C15_extrasOK (not read by the class, '
    'not one of the keys undictify_element writes: name, reverse, deg, sin, constructor value keys, combine_to_complex keys) and '
    'whose values are ARBITRARY, saveLoad / n cycles succeed exactly when they do without the extras (same error otherwise) and the '
    'result has the symbols of the reloaded base and the circuit of the original (C15_roundtrip_extras, C15_stable_extras, '
    'C15_saveLoad_extras, C15_saveLoad_extras_succeeds); the reloaded keywords are an interleaving (Merge) of the reloaded base '
    'keywords and the extras after one cycle (nextEx), not base ++ extras; extras whose values are not None / complex '
    '(C15_valuesKept) come back verbatim (…_verbatim), and that restriction cannot be dropped there (witness examples; '
    'C15_extras_not_fixed: FixedAfter is false for a complex-valued extra — ElemStable does not transfer, the drawing-level '
    'statement is proved through the relation to the base drawing instead). Still open here: extras whose key collides with a '
    'reserved key or a key the class reads (e.g. a stray `R` on a source, overwritten by the loader) are outside C15_extrasOK; '
    'base layouts other than C15_Canonical have the transfer (C15_saveLoad_extras holds for any base over the persistable '
    'classes) but no base theorem; that schemdraw passes unknown keywords through untouched is part of the model assumption',
]
ASSUMPTIONS = [
    'json.loads(json.dumps(t)) = t on the stored tree (floats round-trip exactly through repr); yaml likewise',
    'schemdraw object construction and placement are parameters: save stores and load restores the anchors verbatim',
    'hand-written model CC/Model/DrawIO.lean is tied to the code by the load / cycles / declarative correspondence; class '
    'table, loader table, handler table, constructor field assignments are regenerated from the AST',
    'numpy.pi enters as its exact binary64 value; phases are compared with 1e-12 relative tolerance',
]

PI_Q = c13.PI_Q
CYCLES = (1, 2, 3, 5)

def flag_of(step):
    v = step.get('vals', {}) if step else {}
    f = [k for k in ('deg', 'sin') if v.get(k)]
    return '+'.join(f) if f else 'none'

def values_same(a, b):
    """save / load and the declarative path copy numbers: they must come back RELATIVELY exact
    (|b − a| ≤ 1e-15·|a|), however small — an absolute tolerance hides 2.2 pF → 2 pF"""
    if isinstance(a, str) or isinstance(b, str) or isinstance(a, bool) or isinstance(b, bool):
        return a == b and type(a) is type(b)
    try:
        a = complex(a); b = complex(b)
    except TypeError:
        return False
    if a != a or b != b or abs(a) == math.inf or abs(b) == math.inf:
        return repr(a) == repr(b)
    return abs(a - b) <= 1e-15 * max(abs(a), abs(b))

def same_circuit(c0, c1, ignore_ground_id=False):
    """None when c1 is c0 up to a bijective renaming of nodes; else (symptom, id, detail)"""
    if len(c0.components) != len(c1.components):
        return 'component_count', None, f'{len(c1.components)} components instead of {len(c0.components)}'
    fwd, bwd = {}, {}
    for a, b in zip(c0.components, c1.components):
        if a.type != b.type or (a.id != b.id and not (ignore_ground_id and a.type == 'ground')):
            return 'identity', a.id, f'{b.id}:{b.type} instead of {a.id}:{a.type}'
        if len(a.nodes) != len(b.nodes):
            return 'terminals', a.id, 'terminal count'
        for x, y in zip(a.nodes, b.nodes):
            if fwd.setdefault(x, y) != y or bwd.setdefault(y, x) != x:
                return 'connectivity', a.id, f'terminal {x!r} became {y!r}'
        if list(a.value.keys()) != list(b.value.keys()):
            return 'value_keys', a.id, f'{list(b.value)}'
        for k in a.value:
            if not values_same(a.value[k], b.value[k]):
                return 'value', a.id, f'{k}: {a.value[k]!r} became {b.value[k]!r}'
    if fwd.get(c0.ground_node, c1.ground_node) != c1.ground_node and c0.components:
        return 'reference', None, f'reference node {c0.ground_node!r} became {c1.ground_node!r}'
    return None

# --------------------------------------------------------------------------- save / load

def enc_param(v):
    """a value found in the saved JSON tree ↦ Val encoding"""
    if isinstance(v, dict) and v.get('type') == 'Point' and isinstance(v.get('values'), list) and len(v['values']) == 2 \
            and all(isinstance(x, (int, float)) for x in v['values']):
        return {'p': [core.q(v['values'][0]), core.q(v['values'][1])]}
    if isinstance(v, (dict, list)):
        return {'s': 'opaque:' + json.dumps(v)[:40]}
    return gd.enc_val(v)

def saved_to_driver(doc):
    elems = []
    for e in doc['simple_circuit']:
        aa = e['values']['absanchors']
        st = aa.get('start', {'values': [0, 0]})['values']; en = aa.get('end', {'values': [0, 0]})['values']
        elems.append(dict(type=e['type'] if e['type'] is not None else '', name=e['name'], reverse=bool(e['reverse']),
                          userparams=[[k, enc_param(v)] for k, v in e['values']['_userparams'].items()],
                          start=[core.q(st[0]), core.q(st[1])], end=[core.q(en[0]), core.q(en[1])]))
    circ = [dict(id=c['id'], value=[[k, gd.enc_val(v)] for k, v in c['value'].items()]) for c in doc['circuit']['components']]
    return elems, circ

def sym_equal(real, model):
    if real['cls'] != model['cls'] or real.get('name', '') != model['name'] or bool(real.get('rev', False)) != model['rev']:
        return False
    if real.get('node_id', '') != model['node_id']:
        return False
    if core.unq(real['start'][0]) != core.unq(model['start'][0]) or core.unq(real['end'][1]) != core.unq(model['end'][1]):
        return False
    ra = {k: gd.dec_val(v) for k, v in real['attrs']}
    ma = {k: gd.dec_val(v) for k, v in model['attrs']}
    # the model lists the attributes the class defines; the harness reads a fixed list
    for k in set(ra) & set(ma) | (set(ma) & set(gd.ATTRS_READ)) | set(ra):
        if k not in ra or k not in ma:
            return False
        a, b = ra[k], ma[k]
        if isinstance(a, (str, bool)) or isinstance(b, (str, bool)) or a is None or b is None:
            if a != b: return False
        elif not gd.values_close(a, b):
            return False
    return True

def drawing_for_model(program, placed):
    """the drawing as constructor calls + anchors (CC.Draw.DElem)"""
    out = []
    for s, e in zip(program, placed):
        k = s['kind']
        if k == 'wire':
            cls, kw = 'Line', ({'reverse': True} if s.get('rev') else {})
        elif k in gd.ONE_TERMINAL:
            cls = gd.ONE_TERMINAL[k]; kw = {}
            if 'name' in s: kw['name'] = s['name']
        else:
            cls = gd.TWO_TERMINAL[k][0]
            kw = dict(s.get('vals', {})); kw['name'] = s['name']
            if s.get('rev'): kw['reverse'] = True
        st = e.absanchors['start']; en = e.absanchors['end']
        out.append(dict(cls=cls, kwargs=[[a, gd.enc_val(v)] for a, v in kw.items()],
                        start=[core.q(st[0]), core.q(st[1])], end=[core.q(en[0]), core.q(en[1])]))
    return out

def tree_diff(a, b, path='$'):
    """first place where the loaded tree `b` is not the written tree `a` (type and value): (path, loaded, kind, written)"""
    num = lambda x: isinstance(x, (int, float)) and not isinstance(x, bool)
    if num(a):
        if not num(b):
            return path, b, ('number_became_' + type(b).__name__), a
        return None if float(a) == float(b) or (a != a and b != b) else (path, b, 'number_changed', a)
    if type(a) is not type(b):
        return path, b, f'{type(a).__name__}_became_{type(b).__name__}', a
    if isinstance(a, dict):
        if list(a.keys()) != list(b.keys()):
            return path, sorted(b.keys()), 'keys_changed', sorted(a.keys())
        for k in a:
            d = tree_diff(a[k], b[k], f'{path}.{k}')
            if d: return d
        return None
    if isinstance(a, list):
        if len(a) != len(b): return path, len(b), 'length_changed', len(a)
        for i, (x, y) in enumerate(zip(a, b)):
            d = tree_diff(x, y, f'{path}[{i}]')
            if d: return d
        return None
    return None if a == b else (path, b, 'value_changed', a)

def loader_reads_document(text, fmt):
    """the library's loader for `fmt` against the reference parser of that format"""
    from CircuitCalculator import dump_load as generic
    ref = json.loads(text)
    try:
        got = generic.deserializers[fmt](text)
    except Exception as e:
        return '$', repr(e), 'loader_raises', None
    # circuit-relevant parts first (component values, user parameters, anchors), then the whole tree
    try:
        for i, c in enumerate(ref['circuit']['components']):
            d = tree_diff(c, got['circuit']['components'][i], f'$.circuit.components[{i}]')
            if d: return d
        for i, e in enumerate(ref['simple_circuit']):
            for k in ('_userparams', 'absanchors'):
                d = tree_diff(e['values'][k], got['simple_circuit'][i]['values'][k], f'$.simple_circuit[{i}].values.{k}')
                if d: return d
    except (KeyError, IndexError, TypeError):
        pass
    return tree_diff(ref, got)

# engineering values m·10^e: integer mantissas print as `1e-06`, `5e-05`, `1e+16` (no decimal point)
def engineering_values(thorough=False):
    mant = [1, 2, 5, 10, 4.7, 2.2, 3.3, 6.8, 1.5, 8.2] if thorough else [1, 2, 5, 10, 4.7]
    vals = []
    for e in range(-15, 19):
        for m in mant:
            vals.append(float(f'{m}e{e}'))
    vals += [1e-4, 1e-5, 9.999e-5, 1e-7, 1e15, 1e16, 1e17, 1e22, 1.5e16, 123456789012345680.0, 0.0001, 100000.0, 1e-12, 2e-12]
    seen = set(); out_ = []
    for v in vals:
        if v not in seen:
            seen.add(v); out_.append(v)
    return out_

ENG_FIELDS = [('R', 'R', False), ('G', 'G', False), ('C', 'C', False), ('L', 'L', False), ('V', 'V', True), ('I', 'I', True),
              ('Vac', 'V', True), ('Vac', 'w', False), ('Vac', 'phi', True), ('Iac', 'I', True), ('Iac', 'w', False), ('Iac', 'phi', True),
              ('Vrect', 'V', True), ('Vrect', 'w', False), ('Vrect', 'phi', True), ('Irect', 'I', True), ('Z', 'Z', True),
              ('Vc', 'V', True), ('Ic', 'I', True)]

def small_value_programs():
    """non-round small values (picofarads, femto-units, tiny phases) in C, L, G, I, V, Z and phases"""
    mk = lambda i, kind, vals, rev=False: dict(kind=kind, name=f'{kind}s{i}', vals=vals, rev=rev, a=(i % 7, 0), b=(i % 7, 1), place='endpoints')
    a = [mk(0, 'C', {'C': 2.2e-12}), mk(1, 'C', {'C': 4.7e-13}, True), mk(2, 'L', {'L': 3.3e-15}), mk(3, 'L', {'L': 6.8e-9 * 1.0000001}),
         mk(4, 'G', {'G': 4.7e-13}), mk(5, 'I', {'I': 3.3e-15}, True), mk(6, 'I', {'I': -6.8e-9 * 0.3})]
    b = [mk(0, 'Iac', {'I': 4.7e-13, 'w': 2.2e-12, 'phi': 3.3e-15}), mk(1, 'Vac', {'V': 6.8e-9 * 7, 'w': 50.0, 'phi': -2.2e-12}, True),
         mk(2, 'Vrect', {'V': 3.3e-15, 'w': 4.7e-13, 'phi': 6.8e-13}), mk(3, 'Z', {'Z': complex(2.2e-12, -4.7e-13)}),
         mk(4, 'Vc', {'V': complex(3.3e-15, 6.8e-9 / 3)}), mk(5, 'Ic', {'I': complex(-4.7e-13, 2.2e-12)}, True), mk(6, 'G', {'G': 2.2e-12 / 3})]
    c = [mk(0, 'Vac', {'V': 1.0, 'w': 1e3, 'phi': 4.7e-13, 'deg': True}), mk(1, 'Iac', {'I': 2.2e-12, 'w': 1.0, 'phi': 3.3e-9, 'sin': True}),
         mk(2, 'Irect', {'I': 6.8e-15, 'w': 3.3e-3, 'phi': -4.7e-11, 'deg': True}), mk(3, 'V', {'V': -2.2e-12}), mk(4, 'R', {'R': 4.7e-13})]
    return [p + [dict(kind='gnd', a=(0, 0))] for p in (a, b, c)]

def engineering_programs(rng, values, per_drawing=6):
    """drawings whose numeric fields (values, phases, frequencies) carry the engineering values,
    every field of every persistable kind in turn"""
    progs = []
    cur = []
    k = 0
    for i, v in enumerate(values):
        kind, field, signed_ok = ENG_FIELDS[(i + k) % len(ENG_FIELDS)]
        vals = gd.random_vals(rng, kind, flags=False)
        x = -v if (signed_ok and i % 3 == 2) else v
        if field in ('Z',) or kind in ('Vc', 'Ic'):
            vals[field] = complex(x, v if i % 2 else 0.0)
        else:
            vals[field] = x
        j = len(cur)
        cur.append(dict(kind=kind, name=f'{kind}{i}', vals=vals, rev=(i % 4 == 1), a=(j, 0), b=(j, 1), place='endpoints'))
        if len(cur) == per_drawing:
            progs.append(cur + [dict(kind='gnd', a=(0, 0))]); cur = []; k += 1
    if cur:
        progs.append(cur + [dict(kind='gnd', a=(0, 0))])
    return progs

def roundtrip_case(ctx, out, program, geom, origin, yaml_too=True):
    from CircuitCalculator.SimpleCircuit.DiagramTranslator import circuit_translator
    from CircuitCalculator.SimpleCircuit.DiagramParser import SchematicDiagramParser
    from CircuitCalculator.SimpleCircuit import dump_load as dl
    out.evaluations += 1
    desc = gd.pretty(program, geom)
    d, placed = gd.build(program, geom)
    for s in program:
        out.count('kind:' + s['kind'])
        if s['kind'] in gd.TWO_TERMINAL:
            out.count('flag:' + flag_of(s))
    out.count('origin:' + origin)
    by_id = {s['name']: s for s in program if 'name' in s}
    try:
        c0 = circuit_translator(d)
    except Exception as e:
        ic = next((s for s in program if s['kind'] == 'Ic' and not s.get('rev')), None)
        out.spec_fail(dict(op='save', symptom='raises', exc=c13.tag(e), kind=ic['kind'] if ic else None, rev=False if ic else None),
                      f'drawing over the persistable kinds cannot be saved: {type(e).__name__}: {e}', desc,
                      impl=dict(exception=repr(e)), program=program, geom=geom)
        return
    out.nontrivial((tuple(sorted({s['kind'] for s in program})), tuple(sorted({flag_of(s) for s in program if s['kind'] in gd.TWO_TERMINAL})),
                    tuple(sorted({bool(s.get('rev')) for s in program if s['kind'] in gd.SOURCES}))))
    p0 = SchematicDiagramParser(d)
    ord_all = [gd.enc_pt(p) for p in p0.all_nodes]; ord_uniq = [gd.enc_pt(p) for p in p0.unique_nodes]
    cur = d
    impl_circuits = [c0]
    reported = False
    for cycle in range(1, max(CYCLES) + 1):
        try:
            text = dl.serialize(cur, 'json')
            nxt = dl.deserialize(text, 'json')
            c = circuit_translator(nxt)
        except Exception as e:
            bad = loader_reads_document(text, 'json') if 'text' in dir() else None
            if bad is not None:
                out.spec_fail(dict(op='roundtrip', fmt='json', symptom='document_misread', became=bad[2], part=('circuit' if '.circuit.' in bad[0] else 'userparams' if '_userparams' in bad[0] else 'other')),
                              f'cycle {cycle}: the json loader reads {bad[0]} as {bad[1]!r} ({type(e).__name__}: {e})', desc,
                              impl=dict(path=bad[0], loaded=repr(bad[1]), written=repr(bad[3]), exception=repr(e)), program=program, geom=geom)
                return
            out.spec_fail(dict(op='roundtrip', fmt='json', symptom='raises', exc=c13.tag(e)),
                          f'cycle {cycle}: {type(e).__name__}: {e}', desc, impl=dict(exception=repr(e)), program=program, geom=geom)
            return
        impl_circuits.append(c)
        # the loader of format 'json' must read the JSON document: same tree, numbers as numbers
        if cycle == 1:
            bad = loader_reads_document(text, 'json')
            if bad is not None:
                out.spec_fail(dict(op='roundtrip', fmt='json', symptom='document_misread', became=bad[2], part=('circuit' if '.circuit.' in bad[0] else 'userparams' if '_userparams' in bad[0] else 'other')),
                              f'the json loader reads {bad[0]} as {bad[1]!r}', desc, impl=dict(path=bad[0], loaded=repr(bad[1]), written=repr(bad[3])),
                              program=program, geom=geom)
                return
        # correspondence: the model's undictify_element on the real saved document
        if ctx.driver is not None and cycle <= 2:
            doc = json.loads(text)
            elems, circ = saved_to_driver(doc)
            m = ctx.driver.call('draw_load', elements=elems, circuit=circ, pi=PI_Q)
            real = gd.read_syms(nxt)
            out.traces_validated += 1
            if 'err' in m or len(m['ok']) != len(real) or not all(sym_equal(a, b) for a, b in zip(real, m['ok'])):
                out.disagree('draw_load', desc, real, m, cycle=cycle)
        if cycle in CYCLES and not reported:
            diff = same_circuit(c0, c)
            if diff is not None:
                st = by_id.get(diff[1])
                out.spec_fail(dict(op='roundtrip', fmt='json', symptom=diff[0], kind=st['kind'] if st else None, flag=flag_of(st)),
                              f'after {cycle} save/load cycle(s) the circuit changed: {diff[2]}', desc,
                              impl=dict(original=c13.show_circuit(c0), reloaded=c13.show_circuit(c)), program=program, geom=geom)
                reported = True
        cur = nxt
    # correspondence: n cycles in the model
    if ctx.driver is not None:
        m = ctx.driver.call('draw_cycles', drawing=drawing_for_model(program, placed), n=max(CYCLES), pi=PI_Q,
                            ord_all=ord_all, ord_uniq=ord_uniq)
        out.traces_validated += 1
        ok = len(m) == len(impl_circuits) and all('ok' in x and c13.circuits_equal(ci, x['ok']) for ci, x in zip(impl_circuits, m))
        if not ok:
            out.disagree('draw_cycles', desc, [c13.show_circuit(c) for c in impl_circuits], m)
    if yaml_too:
        # observation only: C15 speaks about JSON; the YAML stream is counted, never judged
        try:
            nxt = dl.deserialize(dl.serialize(d, 'yaml'), 'yaml')
            diff = same_circuit(c0, circuit_translator(nxt))
            out.count('yaml_observation:' + ('same_circuit' if diff is None else 'differs:' + diff[0]))
        except Exception as e:
            out.count('yaml_observation:raises:' + type(e).__name__)
    if not reported:
        out.sample(desc)

# --------------------------------------------------------------------------- declarative descriptions

DECL_CLASS = {'resistor': 'Resistor', 'conductance': 'Conductance', 'impedance': 'Impedance', 'capacitor': 'Capacitor',
              'inductance': 'Inductance', 'line': 'Line', 'node': 'Node', 'lamp': 'Lamp', 'ground': 'Ground',
              'voltage_source': 'VoltageSource', 'ac_voltage_source': 'ACVoltageSource', 'complex_voltage_source': 'ComplexVoltageSource',
              'current_source': 'CurrentSource', 'ac_current_source': 'ACCurrentSource', 'complex_current_source': 'ComplexCurrentSource'}
DECL_VALUES = {'resistor': 'R', 'conductance': 'G', 'impedance': 'Z', 'capacitor': 'C', 'inductance': 'L', 'lamp': 'lamp',
               'voltage_source': 'V', 'ac_voltage_source': 'Vac', 'complex_voltage_source': 'Vc', 'current_source': 'I',
               'ac_current_source': 'Iac', 'complex_current_source': 'Ic'}
PLACE_KEYS = ('type', 'direction', 'length', 'place_after')
# Elements.Ground re-maps its direction methods (the symbol hangs below its terminal)
GROUND_DIRECTION = {'up': 'left', 'down': 'right', 'left': 'down', 'right': 'up'}

def random_description(rng):
    n = rng.randint(1, 6)
    elems = []
    names = []
    types = list(DECL_CLASS)
    for i in range(n):
        t = rng.choice(types)
        e = {'type': t}
        if t in DECL_VALUES:
            e.update(gd.random_vals(rng, DECL_VALUES[t], flags=rng.random() < 0.3))
            e['name'] = f'{t[:2]}{i}'
            if rng.random() < 0.35: e['reverse'] = rng.random() < 0.7
        elif t == 'line':
            if rng.random() < 0.3: e['name'] = f'sc{i}'
        elif t == 'node':
            e['name'] = rng.choice(['A', 'B', 'n', '5']) + str(i)
        elif t == 'ground':
            if rng.random() < 0.3: e['name'] = rng.choice(['0', 'gnd'])
        if t not in ('node', 'ground') or rng.random() < 0.2:
            c = rng.random()
            if c < 0.85: e['direction'] = rng.choice(['right', 'left', 'up', 'down'])
            elif c < 0.9: e['direction'] = rng.choice(['', 'diagonal'])
            if rng.random() < 0.4: e['length'] = rng.choice([1, 2, 0.5, 3, 1.5])
        if names and rng.random() < 0.35:
            e['place_after'] = rng.choice(names)
        if 'name' in e and t != 'ground':
            names.append(e['name'])
        elems.append(e)
    return dict(unit=rng.choice([7, 3, 5, 2, 4.5]), elements=elems)

def programmatic(desc):
    """the same drawing written with the element classes directly"""
    from CircuitCalculator.SimpleCircuit import Elements as elm
    unit = desc.get('unit', 7)
    d = elm.Schematic(unit=unit)
    for e in desc['elements']:
        t = e['type']
        cls = getattr(elm, DECL_CLASS[t])
        if t == 'line' and 'name' in e:
            cls = elm.LabeledLine
        kw = {k: v for k, v in e.items() if k not in PLACE_KEYS}
        if t == 'ground' and 'name' not in kw:
            kw['name'] = ''          # element_factory's default; see notes (observation, ids of ground symbols are not compared)
        if 'name' not in kw and t not in ('line',):
            kw['name'] = ''
        obj = cls(**kw)
        length = e.get('length', 1) * unit
        dirn = e.get('direction', '')
        if dirn in ('right', 'left', 'up', 'down'):
            if t in ('node', 'ground'):
                getattr(obj, dirn)()         # one-terminal symbols are oriented, not stretched
            else:
                getattr(obj, dirn)(length)
        if e.get('place_after') is not None:
            names = [getattr(x, 'name', None) for x in d.elements]
            obj.at(d.elements[names.index(e['place_after'])].end)
        d.add(obj)
    return d

def declarative_case(ctx, out, desc, origin):
    from CircuitCalculator.SimpleSimulation.schematic import create_schematic
    from CircuitCalculator.SimpleSimulation import errors
    from CircuitCalculator.SimpleCircuit.DiagramTranslator import circuit_translator
    import copy
    out.evaluations += 1
    out.count('origin:' + origin)
    for e in desc['elements']:
        out.count('decl:' + str(e.get('type')))
        out.count('direction:' + str(e.get('direction', '-')))
        out.count('place_after:' + ('yes' if 'place_after' in e else 'no'))
    impl_err = None; sch = None
    work = copy.deepcopy(desc)           # the object handed to the library (twice)
    try:
        sch = create_schematic(work)
    except errors.UnknownCircuitElement:
        impl_err = 'UnknownKind'
    except errors.MissingArgument:
        impl_err = 'MissingArgument'
    except Exception as e:
        impl_err = c13.tag(e)
    # correspondence with the model's placements
    if ctx.driver is not None:
        m = ctx.driver.call('draw_declarative', unit=core.q(desc.get('unit', 7)), pi=PI_Q,
                            elements=[[[k, gd.enc_val(v)] for k, v in e.items()] for e in desc['elements']])
        out.traces_validated += 1
        if 'err' in m or impl_err:
            if m.get('err') != impl_err:
                out.disagree('draw_declarative', desc, impl_err or 'ok', m.get('err', 'ok'))
        else:
            bad = None
            if len(m['ok']) != len(sch.elements):
                bad = 'element count'
            else:
                for i, (pl, e) in enumerate(zip(m['ok'], sch.elements)):
                    up = e._userparams
                    if gd.class_name(e) != pl['cls']: bad = f'class of element {i}'; break
                    for k, v in pl['kwargs']:
                        if k == 'reverse': continue
                        if k not in up or gd.enc_val(up[k]) != v: bad = f'keyword {k} of element {i}'; break
                    if bad: break
                    if pl['method']:
                        want_d = GROUND_DIRECTION[pl['method']] if pl['cls'] == 'Ground' else pl['method']
                        if up.get('d') != want_d: bad = f'direction of element {i}'; break
                        if pl.get('plain'):
                            if 'l' in up: bad = f'length of one-terminal element {i}'; break
                        elif 'l' in up and not gd.values_close(up['l'], float(core.unq(pl['length']))): bad = f'length of element {i}'; break
                    elif 'd' in up: bad = f'direction of element {i} (none expected)'; break
                    if pl['at_end_of'] is not None:
                        tel = sch.elements[pl['at_end_of']]
                        if gd.class_name(tel) == 'Node' and 'at' not in tel._userparams:
                            # the referenced node was displaced by the rendering (finding 6): its anchors are no
                            # longer the ones `apply_position` read
                            out.skip('position_after_displaced_node'); continue
                        tgt = tel.absanchors['end']
                        at = up.get('at')
                        if at is None or abs(at[0] - tgt[0]) > 1e-9 or abs(at[1] - tgt[1]) > 1e-9: bad = f'position of element {i}'; break
            if bad:
                out.disagree('draw_declarative', desc, [dict(cls=gd.class_name(e), up=str(e._userparams)) for e in sch.elements], m, what=bad)
    if impl_err:
        out.count('decl_error:' + impl_err)
        oriented = [e for e in desc['elements'] if e.get('type') in ('node', 'ground') and e.get('direction') in ('right', 'left', 'up', 'down')]
        if impl_err == 'TypeError' and oriented and all(e.get('type') in DECL_CLASS for e in desc['elements']):
            out.spec_fail(dict(op='declarative', symptom='raises', exc='TypeError', type=oriented[0]['type'], has_direction=True),
                          f'a {oriented[0]["type"]} with a direction makes create_schematic raise TypeError', desc)
        return
    # frame: the caller's description is only read
    if work != desc:
        changed = next((i for i, (a, b) in enumerate(zip(work['elements'], desc['elements'])) if a != b), None)
        lost = sorted(set(desc['elements'][changed]) - set(work['elements'][changed])) if changed is not None else []
        out.spec_fail(dict(op='declarative', symptom='description_mutated', lost=lost),
                      f'create_schematic changed the caller\'s description (element {changed}: keys {lost} removed)', desc,
                      impl=dict(after=work))
        return
    # repeatability: the same description object builds the same drawing again
    try:
        sch2 = create_schematic(work)
        rep = None
        if len(sch2.elements) != len(sch.elements):
            rep = 'element count'
        else:
            for i, (a, b) in enumerate(zip(sch.elements, sch2.elements)):
                for key in ('start', 'end'):
                    pa, pb = a.absanchors[key], b.absanchors[key]
                    if abs(pa[0] - pb[0]) > 1e-9 or abs(pa[1] - pb[1]) > 1e-9:
                        rep = rep or f'element {i} {key} anchor {tuple(pa)} then {tuple(pb)}'
    except Exception as e:
        rep = f'second call raises {type(e).__name__}: {e}'
    if rep is not None or work != desc:
        out.spec_fail(dict(op='declarative', symptom='not_repeatable'), f'the second create_schematic of the same description differs: {rep}', desc)
        return
    out.nontrivial(('decl', tuple(sorted({e['type'] for e in desc['elements']})), tuple(sorted({e.get('direction', '-') for e in desc['elements']})),
                    any('place_after' in e for e in desc['elements'])))
    # oracle: the programmatic construction of the same drawing
    try:
        ref = programmatic(desc)
    except Exception as e:
        out.notes.append(f'programmatic construction failed: {type(e).__name__}: {e}')
        return
    for i, (a, b) in enumerate(zip(sch.elements, ref.elements)):
        for key in ('start', 'end'):
            pa, pb = a.absanchors[key], b.absanchors[key]
            if abs(pa[0] - pb[0]) > 1e-9 or abs(pa[1] - pb[1]) > 1e-9:
                out.spec_fail(dict(op='declarative', symptom='placement', type=desc['elements'][i]['type'],
                                   direction=desc['elements'][i].get('direction', '-'), place_after='place_after' in desc['elements'][i]),
                              f'element {i} {key} anchor {tuple(pa)} vs programmatic {tuple(pb)}', desc)
                return
    try:
        c_decl = circuit_translator(sch)
    except Exception as e1:
        try:
            circuit_translator(ref)
        except Exception as e2:
            if type(e1) is type(e2):
                out.count('decl_both_untranslatable:' + type(e1).__name__); return
        out.spec_fail(dict(op='declarative', symptom='raises', exc=c13.tag(e1)), f'declarative drawing is not translated: {e1!r}', desc)
        return
    try:
        c_ref = circuit_translator(ref)
    except Exception as e2:
        out.spec_fail(dict(op='declarative', symptom='programmatic_raises', exc=c13.tag(e2)), f'programmatic drawing is not translated: {e2!r}', desc)
        return
    diff = same_circuit(c_ref, c_decl, ignore_ground_id=True)
    if diff is not None:
        out.spec_fail(dict(op='declarative', symptom=diff[0]), f'declarative and programmatic drawings differ: {diff[2]}', desc,
                      impl=dict(declarative=c13.show_circuit(c_decl), programmatic=c13.show_circuit(c_ref)))
        return
    out.sample(desc)

def axes_case(ctx, out, desc, origin):
    """`create_schematic(description, circuit_ax=ax)` must build the drawing `create_schematic(description)` builds —
    with the description's `unit`, and with the default unit when the description names none"""
    from CircuitCalculator.SimpleSimulation.schematic import create_schematic
    from CircuitCalculator.SimpleCircuit.DiagramTranslator import circuit_translator
    from matplotlib.figure import Figure
    import copy
    for unit_given in (True, False):
        d0 = copy.deepcopy(desc)
        if not unit_given:
            d0.pop('unit', None)
        out.evaluations += 1
        out.count('origin:' + origin)
        try:
            ref = create_schematic(copy.deepcopy(d0))
            c_ref = circuit_translator(ref)
        except Exception:
            out.count('axes_reference_untranslatable'); continue
        canon = dict(op='declarative', with_axes=True, unit_given=unit_given)
        try:
            sch = create_schematic(copy.deepcopy(d0), circuit_ax=Figure().subplots())
            c = circuit_translator(sch)
        except Exception as e:
            out.spec_fail(dict(canon, symptom='raises', exc=c13.tag(e)),
                          f'create_schematic(description, circuit_ax=ax) raises {type(e).__name__}: {e} (without axes it builds)', d0)
            continue
        bad = None
        for i, (a, b) in enumerate(zip(sch.elements, ref.elements)):
            for key in ('start', 'end'):
                pa, pb = a.absanchors[key], b.absanchors[key]
                if abs(pa[0] - pb[0]) > 1e-9 or abs(pa[1] - pb[1]) > 1e-9:
                    bad = bad or f'element {i} {key} anchor {tuple(pa)} vs {tuple(pb)} without axes'
        diff = same_circuit(c_ref, c)
        if bad or diff is not None:
            out.spec_fail(dict(canon, symptom='placement' if bad else diff[0]), f'with an axes the drawing differs: {bad or diff[2]}', d0)
        else:
            out.nontrivial(('axes', unit_given, len(desc['elements'])))

def exhaustive_descriptions():
    """every handler × direction × placement option"""
    import random
    rng = random.Random(15)
    for t in DECL_CLASS:
        for dirn in ('right', 'left', 'up', 'down', None):
            for after in (False, True):
                for length in (None, 2):
                    first = {'type': 'resistor', 'R': 3.0, 'name': 'R0', 'direction': 'up'}
                    second = {'type': 'resistor', 'R': 4.0, 'name': 'R1', 'direction': 'right', 'length': 2}
                    e = {'type': t}
                    if t in DECL_VALUES:
                        e.update(gd.random_vals(rng, DECL_VALUES[t], flags=False)); e['name'] = 'X'
                    elif t == 'node':
                        e['name'] = 'K'
                    if dirn is not None: e['direction'] = dirn
                    if length is not None: e['length'] = length
                    if after: e['place_after'] = 'R0'
                    yield dict(unit=4, elements=[first, second, e])

# former failing inputs (findings 5 and 6, repaired by f6acf70 / 503c9e5): must pass now, reported again on a revert
DECL_CORPUS = [
    dict(unit=3, elements=[{'type': 'voltage_source', 'V': 5.0, 'name': 'V1', 'direction': 'up', 'length': 2},
                           {'type': 'resistor', 'R': 10.0, 'name': 'R1', 'direction': 'right', 'length': 1.5},
                           {'type': 'capacitor', 'C': 1e-06, 'name': 'C1', 'direction': 'down', 'length': 2},
                           {'type': 'line', 'direction': 'left', 'length': 1.5},
                           {'type': 'resistor', 'R': 22.0, 'name': 'R2', 'direction': 'right', 'length': 3, 'place_after': 'R1'},
                           {'type': 'inductance', 'L': 1e-05, 'name': 'L1', 'direction': 'down', 'length': 2},
                           {'type': 'line', 'direction': 'left', 'length': 3},
                           {'type': 'ground', 'place_after': 'C1'}]),
    dict(unit=5, elements=[{'type': 'voltage_source', 'V': 1.0, 'name': 'U1', 'reverse': True, 'direction': 'up'},
                           {'type': 'node', 'name': 'a'},
                           {'type': 'resistor', 'name': 'R3', 'R': 30.0, 'direction': 'right'},
                           {'type': 'line', 'direction': 'down'}, {'type': 'line', 'direction': 'left'}, {'type': 'ground'}]),
    dict(unit=4, elements=[{'type': 'resistor', 'R': 3.0, 'name': 'R0', 'direction': 'up'},
                           {'type': 'ground', 'direction': 'right', 'place_after': 'R0'},
                           {'type': 'node', 'name': 'K', 'direction': 'down'}]),
    dict(unit=5, elements=[{'type': 'ac_current_source', 'I': 13.0, 'w': 0.25, 'phi': -1.25, 'name': 'ac0', 'direction': 'left'},
                           {'type': 'complex_current_source', 'I': 644j, 'name': 'co1', 'place_after': 'ac0'},
                           {'type': 'node', 'name': 'A2'},
                           {'type': 'lamp', 'V_ref': 14.0, 'P_ref': 1.0, 'name': 'la3', 'direction': 'down'}]),
]

MALFORMED_DESCRIPTIONS = [
    dict(unit=3, elements=[{'type': 'transistor', 'name': 'Q'}]),
    dict(unit=3, elements=[{'name': 'R1', 'R': 1.0}]),
    dict(unit=3, elements=[{'type': 'resistor', 'name': 'R1'}]),
    dict(unit=3, elements=[{'type': 'voltage_source', 'V': 1.0}]),
    dict(unit=3, elements=[{'type': 'resistor', 'name': 'R1', 'R': 1.0, 'place_after': 'nope'}]),
    dict(unit=3, elements=[{'type': 'ac_voltage_source', 'name': 'V', 'V': 1.0, 'w': 2.0}]),
]

def run(ctx, out):
    import schemdraw
    schemdraw.use('svg')        # create_schematic draws on leaving its context; the SVG backend needs no figure
    out.rule = ('drawings over the persistable kinds (DC/AC/rectangular/complex sources, R, G, Z, C, L, ground, wires; all '
                'reversal flags; deg / sin flags) × 1,2,3,5 JSON cycles (+1 YAML cycle); declarative lists over every handler × '
                'direction × length × place_after; non-trivial = a drawing that can be saved / a description that builds; '
                'distinct by (kind set, flag set, reversal set) resp. (type set, direction set, placement)')
    rng = ctx.rng('c15')
    # engineering values in every numeric field (values, phases, frequencies)
    ev = engineering_values(thorough=not ctx.quick)
    erng = ctx.rng('c15', 'engineering')
    if ctx.quick:
        must = [1e-06, 1e-09, 5e-05, 1e-05, 0.0001, 1e-07, 2e-12, 1e16, 1e15, 1e22, 1e-15, 1e18]
        rest = [v for v in ev if v not in must]
        erng.shuffle(rest)
        ev = must + rest[:60]
    for prog in small_value_programs():
        out.count('small_values', sum(1 for s_ in prog if s_['kind'] != 'gnd'))
        roundtrip_case(ctx, out, prog, dict(gd.IDENT, unit=4.0), 'small_values', yaml_too=False)
    for prog in engineering_programs(erng, ev):
        if ctx.time_left() < 30: out.notes.append('engineering-value stream cut by budget'); break
        out.count('engineering_values', sum(1 for s_ in prog if s_['kind'] != 'gnd'))
        roundtrip_case(ctx, out, prog, dict(gd.IDENT, unit=4.0), 'engineering', yaml_too=False)
    # per kind × reversal × flags: a minimal drawing
    for k in gd.PERSISTABLE:
        for rev in (False, True):
            flagsets = [{}]
            if k in ('Vac', 'Iac'): flagsets += [{'deg': True}, {'sin': True}, {'deg': True, 'sin': True}]
            if k in ('Vrect', 'Irect'): flagsets += [{'deg': True}]
            # boundary phases: a STORED phase of exactly 0 (falsy) — sin(wt + 90°), a quarter turn in radians, plain 0 in
            # every notation (seeded change C15-5A: `if stored.get('phi'):` instead of `if 'phi' in stored`)
            if k in ('Vac', 'Iac'):
                flagsets += [{'deg': True, 'sin': True, 'phi': 90.0}, {'sin': True, 'phi': math.pi / 2}, {'phi': 0.0},
                             {'deg': True, 'phi': 0.0}, {'sin': True, 'phi': 0.0}, {'deg': True, 'sin': True, 'phi': 0.0}]
            if k in ('Vrect', 'Irect'): flagsets += [{'deg': True, 'phi': 0.0}, {'phi': 0.0}]
            for fl in flagsets:
                if ctx.time_left() < 30: break
                vals = gd.random_vals(rng, k, flags=False)
                vals.update(fl)
                if 'phi' in fl: out.count('boundary_phase')
                elif fl.get('deg'): vals['phi'] = 30.0
                elif k in ('Vac', 'Iac', 'Vrect', 'Irect'): vals['phi'] = 0.5
                prog = [dict(kind=k, name='X1', vals=vals, rev=rev, a=(0, 0), b=(0, 1), place='dir'),
                        dict(kind='R', name='R1', vals={'R': 10.0}, a=(0, 1), b=(1, 1), place='chain'),
                        dict(kind='wire', a=(1, 1), b=(1, 0), place='chain'), dict(kind='wire', a=(1, 0), b=(0, 0), place='chain'),
                        dict(kind='gnd', a=(0, 0))]
                roundtrip_case(ctx, out, prog, dict(gd.IDENT, unit=5.0), 'per_kind', yaml_too=(k == 'R' and not rev))
    n_rt = 25 if ctx.quick else 600
    for i in range(n_rt):
        if ctx.time_left() < 25: out.notes.append(f'round-trip stream stopped after {i} cases (budget)'); break
        c = rng.random()
        if c < 0.5:
            prog = gd.random_program(rng, persistable=True, labels=False, flags=rng.random() < 0.3)
        else:
            prog = gd.ladder_program(rng, persistable=True, ac=rng.random() < 0.5, flags=rng.random() < 0.2)
        if not gd.valid_program(prog):
            continue
        roundtrip_case(ctx, out, prog, gd.random_geometry(rng), 'random', yaml_too=False)
    for desc in DECL_CORPUS:
        declarative_case(ctx, out, desc, 'decl_corpus')
        axes_case(ctx, out, desc, 'decl_axes')
    for desc in MALFORMED_DESCRIPTIONS:
        declarative_case(ctx, out, desc, 'decl_malformed')
    k = 0
    for desc in exhaustive_descriptions():
        if ctx.time_left() < 15: out.notes.append('exhaustive declarative enumeration cut by budget'); break
        if ctx.quick and k % 3 != ctx.seed % 3:
            k += 1; continue
        k += 1
        declarative_case(ctx, out, desc, 'decl_exhaustive')
    n_decl = 60 if ctx.quick else 1500
    for i in range(n_decl):
        if ctx.time_left() < 8: break
        declarative_case(ctx, out, random_description(rng), 'decl_random')
    try:
        import matplotlib.pyplot as plt
        plt.close('all')
    except Exception:
        pass

def replay(ctx, out, rp):
    import schemdraw
    schemdraw.use('svg')
    inp = rp.get('input')
    if rp.get('program') is not None:
        prog = rp['program']
        for s in prog:
            for k in ('a', 'b'):
                if k in s: s[k] = tuple(s[k])
        roundtrip_case(ctx, out, prog, rp.get('geom'), 'replay', yaml_too=(rp.get('canon', {}).get('fmt') == 'yaml'))
    elif isinstance(inp, dict) and 'elements' in inp and rp.get('canon', {}).get('with_axes'):
        axes_case(ctx, out, inp, 'replay')
    elif isinstance(inp, dict) and 'elements' in inp:
        declarative_case(ctx, out, inp, 'replay')
    else:
        raise SystemExit('replay file carries neither a drawing program nor a description')
