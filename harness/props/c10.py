"""
C10 — the state-space model is an exact realisation of the circuit.

Correspondence (model CC/Model/StateSpace.lean vs implementation, op `ss_model`): index maps,
`sources`, `A, B, C, D`, every `c_row_*` / `d_row_*` (incl. an unknown node / element id), the
circuit-level stacking wrapper, the container's shape checks; numpy's two inverses are
checked as certificates (op `ss_cert`, exact residuals).

Oracle on the implementation (decides the property): `row_c (jw·1 − A)⁻¹ B + row_d` evaluated
in exact arithmetic (op `ss_transfer`) on the implementation's own matrices and output rows,
for every source and every output (all node potentials, every element's voltage and current),
at rational w spread over all time constants, against the exact phasor solution (op
`wellposed`, CC/Spec/Circuit.lean) of the same circuit at s = jw with that source alone — the
phasor network is written by the harness, not by the repository's transformer.  DC gain vs
`DCSolution`; state dimension; states = capacitor voltages, inductor currents; every source
is an input.  Domain (non-degenerate) decided exactly on the Spec side.
Wrapper / value-variation stream: the PUBLIC `Circuit.state_space_model.state_space_model(circuit,
potential_nodes, voltage_ids, current_ids)` with all outputs requested is checked against the
phasor solution too — on a description, then in the same process on the same description with
every R, L, C perturbed (same ids, nodes, order), then on the first again (canon
`op: state_space_wrapper, same_ids_different_values`); its A, B against the nodal model's.
Revisit stream: the same with ONLY the L / C values changed (the w = 0 network handed to the builder is
identical), both orders.  Unit-scale stream (`si_oracle`): the same circuit classes in realistic SI
units — exact decade scalings of impedance level and time scale, and log-uniform values, R from mΩ to
GΩ, C from pF to F, L from nH to H — nodal model and public wrapper against the exact phasor solution
at frequencies taken from the MODEL's state matrix, voltages and currents each against their own
magnitude, relative tolerance max(1e-9, 1e-17·cond) with a guard at cond 1e14 (skipped cases are
counted); a singular state matrix is a failure (no natural frequency at s = 0 in the domain).
"""
from __future__ import annotations
import numpy as np
import core, gen_net, gen_state as gs

ID = 'C10'
LEAN_MODULE = 'CC.Properties.C10'
LEVEL = 'proof'
THEOREMS = [
    'CC.C10_sample_system',
    'CC.C10_realisation',
    'CC.C10_resolvent',
    'CC.C10_dc_gain',
    'CC.C10_model_realisation',
    'CC.C10_certificate_check',
    'CC.C10_dims',
    'CC.C10_sources_length',
    'CC.C10_container',
    'CC.C10_unknown_node_zero_row',
    'CC.C10_columns_follow_sources',
    'CC.C10_augmented_is_circuit',
    'CC.C10_transfer',
    'CC.C10_transfer_unique',
]
THEOREMS += ['CC.C10_gen_Delta', 'CC.C10_gen_Q', 'CC.C10_gen_cols', 'CC.C10_gen_Lambda', 'CC.C10_gen_DQ', 'CC.C10_gen_matrices',
    'CC.C10_gen_model', 'CC.C10_gen_rel', 'CC.C10_gen_row_potential', 'CC.C10_gen_row_voltage', 'CC.C10_gen_row_current',
    'CC.C10_gen_sources', 'CC.C10_gen_wrapper', 'CC.C10_gen_circuit_values', 'CC.C10_gen_container',
    'CC.C10_gen_mappers_forwarded']
LEAN_MODULE_EXTRA = list(globals().get('LEAN_MODULE_EXTRA', [])) + ['CC.Properties.C10Gen']
# round 5: the output rows deliver the report (the former OPEN statement CC.C10_output_rows_statement, proved at full strength)
THEOREMS += ['CC.C10_rows_potential', 'CC.C10_rows_voltage', 'CC.C10_rows_current', 'CC.C10_output_rows',
    'CC.C10_rows_report', 'CC.C10_rows_transfer']
LEAN_MODULE_EXTRA += ['CC.Properties.C10Rows']
# TIE10B: translator tie of the CIRCUIT-level wrapper Circuit/state_space_model.py::state_space_model
# (harness/extract_statewrap.py -> lean/CC/Gen/StateWrap.lean; idioms lean/CC/Model/StateWrapBase.lean)
THEOREMS += ['CC.C10_gen_wrapper_values', 'CC.C10_gen_wrapper_values_ok', 'CC.C10_gen_wrapper_values_reactive',
    'CC.C10_gen_wrapper_model', 'CC.C10_gen_wrapper_outputs']
LEAN_MODULE_EXTRA += ['CC.Properties.C10Wrap']

OPEN_STATEMENTS = []    # CC.C10_output_rows_statement is now the theorem CC.C10_output_rows (lean/CC/Properties/C10Rows.lean)
OPEN_STATEMENTS += ['circuit-level wrapper (CC.Properties.C10Wrap): the generated state_space_model is proved equal to the hand model (dictionaries with the float(...) cast as the node Py.toFloat, nodalStateSpaceModel of transformCircuit circuit 0, rows stacked potentials | voltages | currents). Not tied: float() is the IDENTITY on exact numbers, so the numpy dtype of Lambda (an int value without the cast makes an integer array — seeded change C11-5B) is visible to the translator only as the missing cast node (Py.noCast; C10_gen_wrapper_values then fails), not as a numeric statement; the column count numpy keeps for an EMPTY request list (np.ndarray(shape=(0, n))) is recorded (Gen.StateWrap.wrapper_widths) but not proved; the StateSpaceModel(...) container call is tied only through its shape checks (C10_gen_container); the two dictionary lines of TransientSolution.__post_init__ are tied as literal text (Gen/Solution.lean methodTable), not through these theorems']
ASSUMPTIONS = [
    'C10_gen_wrapper_model / C10_gen_wrapper_outputs: np.linalg.inv is an arbitrary function inv that preserves nrows / ncols (hinv), .real is re; transform_circuit is the hand model transformCircuit (tied to circuit.py / transformers.py by the Circuit-group translators) with w_resolution the callee default (parameter wres)',
    'numpy.linalg.inv is a parameter of the model: theorems hold for every pair of matrices with Ã·Ainv = 1 and (DQᵀ Ainv DQ)·S = 1; numpy\'s own inverses are checked against these equations on every case (exact residual ≤ 1e-9)',
    'binary64 arithmetic of numpy agrees with field arithmetic within 1e-9 relative on the dyadic, well-conditioned instances generated (cond < 1e6; others are counted as skipped)',
    'the hand-written model CC/Model/StateSpace.lean is tied to the code by the ss_model correspondence only (no translator part)',
    'C10_transfer is proved for the model (RLC setting: distinct ids, no self-loops, capacitors open / inductors shorted in the w = 0 network, no lossy element); the exact transfer-function oracle checks the same statement on the implementation on every run',
]

UNKNOWN_NODE = '?no-such-node?'
UNKNOWN_ID = '?no-such-element?'

EXTRA_CANON = {}      # set by the value-variation stream: same ids, different values, same process

def canon(desc, symptom, **kw):
    return dict(op='state_space', symptom=symptom, **gs.facts(desc), **({'custom_index_maps': True} if desc.get('maps') else {}),
                **EXTRA_CANON, **kw)

def cond_of(pair):
    a, r = pair
    if a.size == 0: return 1.0
    return float(np.linalg.norm(a, 2) * np.linalg.norm(r, 2))

def _rows_request(desc):
    return gs.labels_of(desc) + [UNKNOWN_NODE], [c['id'] for c in desc['comps']] + [UNKNOWN_ID]

def correspondence(ctx, out, desc, im):
    """model vs implementation; returns the model's reply (or None)"""
    drv = ctx.driver
    from CircuitCalculator.Network.NodalAnalysis import label_mapping as lm
    from CircuitCalculator.Circuit.state_space_model import state_space_model
    pots, ids = _rows_request(desc)
    spots, sids = gs.labels_of(desc), [c['id'] for c in desc['comps']]
    jnet = gen_net.impl_to_json(im.network)
    m = drv.call('ss_model', net=jnet, cvals=gs.dict_items(im.cvals), lvals=gs.dict_items(im.lvals),
                 pots=pots, ids=ids, spots=spots, sids=sids)
    if 'singular' in m or 'err' in m:
        out.count('model:' + str(m.get('singular', m.get('err'))))
        return m
    ssm = im.ssm
    inp = gs.pretty(desc)
    # index maps and the published source order
    impl_maps = dict(nodes=ssm.node_index_mapping.keys, vs=ssm.voltage_source_index_mapping.keys,
                     cs=ssm.current_source_index_mapping.keys, src=lm.default_source_mapper(im.network).keys,
                     sources=ssm.sources)
    for k, v in impl_maps.items():
        if m[k] != v:
            out.disagree('ss_model.' + k, inp, v, m[k])
            return m
    # the four matrices
    for k in ('A', 'B', 'C', 'D'):
        if not gs.mat_agree(getattr(ssm, k), m[k]):
            out.disagree('ss_model.' + k, inp, np.asarray(getattr(ssm, k)).tolist(), gs.model_mat(m[k]))
            return m
    # every output row, unknown ids included
    ipot, iel = gs.impl_rows(ssm, pots, ids)
    for e in m['pot']:
        for key in ('c', 'd'):
            a, b = ipot[e['n']][key], e[key]
            if ('err' in a) != ('err' in b) or ('err' in a and a['err'] != b['err']) or \
               ('ok' in a and not gs.vec_agree(a['ok'], b['ok'])):
                out.disagree(f'ss_model.{key}_row_for_potential', inp,
                             {k: (v.tolist() if hasattr(v, 'tolist') else v) for k, v in a.items()}, b, node=e['n'])
                return m
    for e in m['el']:
        for key, name in (('vc', 'c_row_voltage'), ('vd', 'd_row_voltage'), ('ic', 'c_row_current'), ('id_', 'd_row_current')):
            a, b = iel[e['id']][key], e[key]
            if ('err' in a) != ('err' in b) or ('err' in a and a['err'] != b['err']) or \
               ('ok' in a and not gs.vec_agree(a['ok'], b['ok'])):
                out.disagree('ss_model.' + name, inp, {k: (v.tolist() if hasattr(v, 'tolist') else v) for k, v in a.items()}, b, id=e['id'])
                return m
    # circuit-level wrapper (stacked rows) and the container's checks
    try:
        sm = state_space_model(im.circuit, potential_nodes=spots, voltage_ids=sids, current_ids=sids)
        st = m['stacked']
        if 'err' in st or st['check'] != 0 or not gs.mat_agree(sm.C, st['C']) or not gs.mat_agree(sm.D, st['D']) \
           or not gs.mat_agree(sm.A, m['A']) or not gs.mat_agree(sm.B, m['B']):
            out.disagree('ss_model.stacked', inp, dict(C=np.asarray(sm.C).tolist(), D=np.asarray(sm.D).tolist()), st)
            return m
    except Exception as e:
        out.disagree('ss_model.stacked', inp, dict(exception=repr(e)), m['stacked'])
        return m
    # numpy's inverses as certificates of the model's hypotheses
    if len(im.inverses) == 2:
        c = drv.call('ss_cert', net=jnet, cvals=gs.dict_items(im.cvals), lvals=gs.dict_items(im.lvals),
                     Ainv=gs.qmat(im.inverses[0][1]), S=gs.qmat(im.inverses[1][1]))
        if 'err' not in c:
            res = max([abs(core.cfloat(x)) for r in c['r1'] + c['r2'] for x in r] + [0.0])
            sc = max(cond_of(im.inverses[0]), cond_of(im.inverses[1]), 1.0)
            if res > 1e-12 * sc:
                out.disagree('ss_cert', inp, dict(residual=res), dict(bound=1e-12 * sc))
                return m
            out.count('certificates_checked')
    else:
        out.disagree('ss_cert', inp, f'{len(im.inverses)} calls of numpy.linalg.inv', '2 calls')
    out.traces_validated += 1
    return m

def transfer_rows(drv, A, B, rows, w):
    """[row_c (jw − A)⁻¹ B + row_d] for every row pair; exact in the driver, numpy otherwise"""
    nu = np.asarray(B).shape[1] if np.asarray(B).ndim == 2 else 0
    if drv is not None:
        r = drv.call('ss_transfer', A=gs.qmat(A) if np.size(A) else [], B=gs.qmat(B) if np.size(B) else [[] for _ in range(np.asarray(A).shape[0])],
                     s=[core.q(0), core.q(w)], nu=nu, rows=[[gs.qvec(c), gs.qvec(d)] for c, d in rows])
        if 'singular' in r: return None
        return [[core.cfloat(x) for x in row] for row in r['H']]
    n = np.asarray(A).shape[0]
    try:
        X = np.linalg.solve(1j * float(w) * np.eye(n) - np.asarray(A, dtype=complex), np.asarray(B, dtype=complex))
    except np.linalg.LinAlgError:
        return None
    return [list(np.asarray(c, dtype=complex) @ X + np.asarray(d, dtype=complex)) for c, d in rows]

def oracle(ctx, out, desc, im) -> bool:
    """the property, decided on the implementation's outputs; True = held"""
    from CircuitCalculator.Circuit.solution import DCSolution
    drv = ctx.driver
    ssm = im.ssm
    inp = gs.pretty(desc)
    comps = desc['comps']
    caps = [c for c in comps if c['kind'] == 'C']
    inds = [c for c in comps if c['kind'] == 'L']
    srcs = [c for c in comps if c['kind'] in ('V', 'I', 'I0', 'Iac')]
    ns = len(caps) + len(inds)
    A, B, C, D = (np.asarray(getattr(ssm, k), dtype=float) for k in 'ABCD')
    if not all(np.all(np.isfinite(M)) for M in (A, B, C, D)):
        out.spec_fail(canon(desc, 'non_finite'), 'state-space matrices are not finite', inp, desc=desc); return False
    # every source is an input, once; input columns follow the published order
    sources = list(ssm.sources)
    if sorted(sources) != sorted(c['id'] for c in srcs):
        extra = sorted(set(sources) - {c['id'] for c in srcs})
        out.spec_fail(canon(desc, 'source_extra' if extra else 'source_missing'), f'published sources {sources} are not the circuit\'s sources '
                      f'{sorted(c["id"] for c in srcs)}' + (f': {extra} is no source of the circuit but is published as an input' if extra else ''),
                      inp, impl=dict(sources=sources), desc=desc); return False
    # state dimension
    if A.shape != (ns, ns) or B.shape != (ns, len(sources)) or C.shape[1:] != (ns,) or D.shape[1:] != (len(sources),):
        out.spec_fail(canon(desc, 'dims'), f'shapes A{A.shape} B{B.shape} C{C.shape} D{D.shape}, expected {ns} states, '
                      f'{len(sources)} inputs', inp, desc=desc); return False
    # conditioning guard (float layer)
    cnd = max([cond_of(p) for p in im.inverses] + [1.0])
    if cnd > 1e6:
        out.skip('ill_conditioned'); return True
    labels, ids = gs.labels_of(desc), [c['id'] for c in comps]
    ipot, iel = gs.impl_rows(ssm, labels + [UNKNOWN_NODE], ids)
    # a node of the circuit always has a row (zero row for the reference); an unknown id raises
    for n in labels:
        for key in ('c', 'd'):
            if 'err' in ipot[n][key]:
                out.spec_fail(canon(desc, 'raises', exc=ipot[n][key]['err']), f'output row {key} of node {n!r} raises', inp, desc=desc)
                return False
    if not (np.all(ipot[desc['ground']]['c']['ok'] == 0) and np.all(ipot[desc['ground']]['d']['ok'] == 0)):
        out.spec_fail(canon(desc, 'reference_row'), 'output row of the reference node is not zero', inp, desc=desc); return False
    if 'ok' in ipot[UNKNOWN_NODE]['c'] or 'ok' in ipot[UNKNOWN_NODE]['d']:
        out.spec_fail(dict(op='state_space', symptom='unknown_query_no_error', what='potential_row'),
                      f'c_row_for_potential / d_row_for_potential answer a query for the unknown node {UNKNOWN_NODE!r} '
                      f'({ipot[UNKNOWN_NODE]["c"].get("ok")}) instead of raising', inp, desc=desc)
        return False
    ipot = {n: dict(c=ipot[n]['c']['ok'], d=ipot[n]['d']['ok']) for n in labels}
    for i in ids:
        for key in ('vc', 'vd', 'ic', 'id_'):
            if 'err' in iel[i][key]:
                out.spec_fail(canon(desc, 'raises', exc=iel[i][key]['err']), f'output row {key} of element {i!r} raises',
                              inp, desc=desc); return False
    # the states are the capacitor voltages and the inductor currents, in dictionary order
    order = list(im.cvals.keys()) + list(im.lvals.keys())
    for k, sid in enumerate(order):
        e = np.zeros(ns); e[k] = 1
        rc, rd = (iel[sid]['vc']['ok'], iel[sid]['vd']['ok']) if k < len(im.cvals) else (iel[sid]['ic']['ok'], iel[sid]['id_']['ok'])
        if not (np.allclose(rc, e, rtol=0, atol=1e-9) and np.allclose(rd, 0, rtol=0, atol=1e-9)):
            out.spec_fail(canon(desc, 'state_identity'), f'state {k} is not the '
                          f'{"voltage of capacitor" if k < len(im.cvals) else "current of inductor"} {sid!r}: '
                          f'row_c={rc.tolist()} row_d={rd.tolist()}', inp, impl=dict(A=A.tolist()), desc=desc)
            return False
    rows, keys = [], []
    for n in labels:
        rows.append((ipot[n]['c'], ipot[n]['d'])); keys.append(('pot', n))
    for i in ids:
        rows.append((iel[i]['vc']['ok'], iel[i]['vd']['ok'])); keys.append(('v', i))
        rows.append((iel[i]['ic']['ok'], iel[i]['id_']['ok'])); keys.append(('i', i))
    # transfer function vs phasor solution, every source, every output, all time constants
    for w in gs.frequencies(A, ctx.quick):
        if ns and np.linalg.cond(1j * float(w) * np.eye(ns) - A) > 1e6:
            out.skip('near_resonance'); continue
        H = transfer_rows(drv, A, B, rows, w)
        if H is None:
            out.skip('resolvent_singular'); continue
        for k, src in enumerate(sources):
            sol = gs.spec_solve(drv, gs.phasor_net(desc, w, active=src))
            if not sol['wellposed']:
                out.skip('phasor_illposed_at_w'); continue
            exp = gs.expected_outputs(desc, sol)
            scale = max([abs(v) for v in exp.values()] + [1.0])
            for key, h in zip(keys, H):
                if not core.close(h[k], exp[key], scale, 1e-9):
                    what = {'pot': 'potential of node', 'v': 'voltage of', 'i': 'current of'}[key[0]]
                    out.spec_fail(canon(desc, 'dc_gain' if w == 0 else 'transfer_mismatch', output=key[0]),
                                  f'{what} {key[1]!r} in response to source {src!r} at w={w}: C(jw−A)⁻¹B+D gives {h[k]}, '
                                  f'the phasor solution is {exp[key]}', inp,
                                  impl=dict(A=A.tolist(), B=B.tolist(), sources=sources, value=h[k]),
                                  spec=dict(w=str(w), source=src, expected=exp[key]), desc=desc)
                    return False
            out.count('transfer_points')
    # the circuit-level wrapper stacks exactly these rows: potentials, then voltages, then currents
    from CircuitCalculator.Circuit.state_space_model import state_space_model
    try:
        if desc.get('maps'):
            raise StopIteration              # the public wrapper takes no index maps: nothing to compare
        sm = state_space_model(im.circuit, potential_nodes=labels, voltage_ids=ids, current_ids=ids)
        expC = [ipot[n]['c'] for n in labels] + [iel[i]['vc']['ok'] for i in ids] + [iel[i]['ic']['ok'] for i in ids]
        expD = [ipot[n]['d'] for n in labels] + [iel[i]['vd']['ok'] for i in ids] + [iel[i]['id_']['ok'] for i in ids]
        okc = np.asarray(sm.C).shape == (len(expC), ns) and np.allclose(np.asarray(sm.C), np.array(expC).reshape(len(expC), ns), rtol=0, atol=1e-12)
        okd = np.asarray(sm.D).shape == (len(expD), len(sources)) and np.allclose(np.asarray(sm.D), np.array(expD).reshape(len(expD), len(sources)), rtol=0, atol=1e-12)
        if not (okc and okd and np.array_equal(sm.A, ssm.A) and np.array_equal(sm.B, ssm.B)):
            out.spec_fail(canon(desc, 'stacked_rows'), 'state_space_model(circuit, potential_nodes, voltage_ids, current_ids) does not '
                          'stack the output rows of the requested potentials, voltages and currents in that order (C and D alike)',
                          inp, impl=dict(C=np.asarray(sm.C).tolist(), D=np.asarray(sm.D).tolist()), desc=desc); return False
    except StopIteration:
        pass
    except Exception as e:
        out.spec_fail(canon(desc, 'raises', exc=gs.gen_tag(e)), f'circuit-level state_space_model raises {type(e).__name__}: {e}', inp, desc=desc)
        return False
    # the wrapper's request lists: default (nothing requested), empty, a subset, duplicates — rows in request order
    if not desc.get('maps'):
        rq = ctx.rng('requests', str(inp))
        subs = [labels[k] for k in range(len(labels)) if rq.random() < 0.5]
        subi = [i for i in ids if rq.random() < 0.5]
        requests = [None, ([], [], []), (subs, subi, list(reversed(subi))), (labels[:1] * 2, ids[:1] * 2, ids[-1:] * 3)]
        for req in requests:
            try:
                smr = state_space_model(im.circuit) if req is None else state_space_model(im.circuit, potential_nodes=req[0], voltage_ids=req[1], current_ids=req[2])
            except Exception as e:
                out.spec_fail(canon(desc, 'raises', exc=gs.gen_tag(e)), f'state_space_model with request lists {req} raises {type(e).__name__}: {e}', inp, desc=desc)
                return False
            rp_, rv_, ri_ = ([], [], []) if req is None else req
            wantC = [ipot[n]['c'] for n in rp_] + [iel[i]['vc']['ok'] for i in rv_] + [iel[i]['ic']['ok'] for i in ri_]
            wantD = [ipot[n]['d'] for n in rp_] + [iel[i]['vd']['ok'] for i in rv_] + [iel[i]['id_']['ok'] for i in ri_]
            Cr, Dr = np.asarray(smr.C, dtype=float), np.asarray(smr.D, dtype=float)
            okr = Cr.shape == (len(wantC), ns) and Dr.shape == (len(wantD), len(sources)) \
                and (not wantC or (np.allclose(Cr, np.array(wantC).reshape(len(wantC), ns), rtol=0, atol=1e-12)
                                   and np.allclose(Dr, np.array(wantD).reshape(len(wantD), len(sources)), rtol=0, atol=1e-12)))
            if not okr:
                out.spec_fail(canon(desc, 'stacked_rows'), f'state_space_model(circuit, …) with the request lists {req}: C / D are not the requested '
                              f'rows in request order (shapes {Cr.shape}, {Dr.shape})', inp, desc=desc); return False
        out.count('wrapper_request_lists')
    # DC gain vs the library's own DC solution for the circuit's source values
    if not any(c['kind'] in ('I0', 'Iac') for c in comps):
        try:
            dc = DCSolution(im.circuit)
            u0 = np.array([next(gs.dc_value(c) for c in comps if c['id'] == s) for s in sources])
            X0 = np.linalg.solve(-A, B @ u0) if ns else np.zeros(0)
            for key, (rc, rd) in zip(keys, rows):
                val = float(rc @ X0 + rd @ u0)
                ref = {'pot': dc.get_potential, 'v': dc.get_voltage, 'i': dc.get_current}[key[0]](key[1])
                if not core.close(val, ref, max(abs(u0)) if len(u0) else 1.0, 1e-9):
                    out.spec_fail(canon(desc, 'dc_gain', output=key[0]),
                                  f'DC gain: {key} is {val}, DCSolution reports {ref}', inp,
                                  impl=dict(value=val, dc=float(ref)), desc=desc); return False
        except np.linalg.LinAlgError:
            out.skip('dc_singular')
    return True

SI_COND_GUARD = 1e14

def si_tolerance(cnd: float) -> float:
    """relative tolerance of the unit-scale streams, tied to the condition number of what the
    implementation inverts (measured float error stays ~1e-15 up to cond 1e13: bad scaling, not ill-posedness)"""
    return max(1e-9, 1e-17 * cnd)

def model_frequencies(ctx, desc, im, quick=True):
    """frequencies from the MODEL's state matrix (exact, independent of the implementation's A): the time
    constants of the circuit in its own units"""
    if ctx.driver is not None:
        m = ctx.driver.call('ss_model', net=gen_net.impl_to_json(im.network), cvals=gs.dict_items(im.cvals),
                            lvals=gs.dict_items(im.lvals), pots=[], ids=[], spots=[], sids=[])
        if 'A' in m:
            return gs.frequencies(np.array([[core.cfloat(x).real for x in r] for r in m['A']]), quick), m
    return gs.frequencies(np.asarray(im.ssm.A, dtype=float), quick), None

def si_oracle(ctx, out, desc, origin='si') -> bool:
    """unit-scale stream: the same circuit classes in realistic SI units (R from mΩ to GΩ, C from pF to F,
    L from nH to H).  Transfer function / DC gain of the implementation's nodal model AND of the public
    wrapper against the exact phasor solution, compared per physical kind (voltages against the largest
    expected voltage, currents against the largest expected current) with a relative tolerance tied to
    the condition number of the matrices the implementation inverts."""
    from CircuitCalculator.Circuit.state_space_model import state_space_model
    drv = ctx.driver
    out.evaluations += 1
    out.count('si_cases')
    ok, why = gs.nondegenerate(drv, desc)
    if not ok:
        out.count('degenerate:' + why); return True
    inp = gs.pretty(desc)
    scanon = lambda symptom, **kw: dict(op='state_space', symptom=symptom, si_units=True, **gs.facts(desc), **EXTRA_CANON, **kw)
    try:
        im = gs.impl_model(desc)
    except Exception as e:
        out.spec_fail(scanon('raises', exc=gs.gen_tag(e)), f'non-degenerate circuit in SI units: state-space model raises '
                      f'{type(e).__name__}: {e}', inp, desc=desc); return False
    ssm = im.ssm
    A, B = np.asarray(ssm.A, dtype=float), np.asarray(ssm.B, dtype=float)
    if not (np.all(np.isfinite(A)) and np.all(np.isfinite(B))):
        out.spec_fail(scanon('non_finite'), 'state-space matrices are not finite', inp, desc=desc); return False
    cnd = max([cond_of(p) for p in im.inverses] + [1.0])
    if not cnd <= SI_COND_GUARD:
        out.skip('si_ill_conditioned'); return True
    rel = si_tolerance(cnd)
    out.nontrivial(('si',) + gs.shape(desc))
    ns = A.shape[0]
    labels, ids = gs.labels_of(desc), [c['id'] for c in desc['comps']]
    sources = list(ssm.sources)
    ipot, iel = gs.impl_rows(ssm, labels, ids)
    rows, keys = [], []
    try:
        for n in labels:
            rows.append((ipot[n]['c']['ok'], ipot[n]['d']['ok'])); keys.append(('pot', n))
        for i in ids:
            rows.append((iel[i]['vc']['ok'], iel[i]['vd']['ok'])); keys.append(('v', i))
            rows.append((iel[i]['ic']['ok'], iel[i]['id_']['ok'])); keys.append(('i', i))
    except KeyError:
        out.spec_fail(scanon('raises'), 'an output row raises', inp, desc=desc); return False
    try:
        sm = state_space_model(im.circuit, potential_nodes=labels, voltage_ids=ids, current_ids=ids)
        Cw, Dw = np.asarray(sm.C, dtype=float), np.asarray(sm.D, dtype=float)
        pos = {('pot', n): k for k, n in enumerate(labels)}
        pos.update({('v', i): len(labels) + k for k, i in enumerate(ids)})
        pos.update({('i', i): len(labels) + len(ids) + k for k, i in enumerate(ids)})
        wrows = [(Cw[pos[key]], Dw[pos[key]]) for key in keys]
        variants = [('nodal model', A, B, rows), ('public wrapper state_space_model', np.asarray(sm.A, dtype=float), np.asarray(sm.B, dtype=float), wrows)]
    except Exception as e:
        out.spec_fail(scanon('raises', exc=gs.gen_tag(e)), f'state_space_model(circuit, …) raises {type(e).__name__}: {e}', inp, desc=desc)
        return False
    ws, _ = model_frequencies(ctx, desc, im, True)
    for w in ws:
        sols = {}
        for name, Av, Bv, rv in variants:
            H = transfer_rows(drv, Av, Bv, rv, w)
            if H is None:
                # a non-degenerate circuit has no natural frequency at s = 0; elsewhere: exactly on a resonance
                if w == 0:
                    out.spec_fail(scanon('natural_frequency_at_zero'), f'{name}: the state matrix is singular although the circuit '
                                  f'has no natural frequency at s = 0 (DC network well-posed)', inp, impl=dict(A=Av.tolist()), desc=desc)
                    return False
                out.skip('resolvent_singular'); continue
            for k, src in enumerate(sources):
                if src not in sols:
                    sols[src] = gs.spec_solve(drv, gs.phasor_net(desc, w, active=src))
                sol = sols[src]
                if not sol['wellposed']:
                    out.skip('phasor_illposed_at_w'); continue
                exp = gs.expected_outputs(desc, sol)
                sv, si = gs.unit_scales(desc, exp)
                for key, h in zip(keys, H):
                    sc = si if key[0] == 'i' else sv
                    if not (abs(h[k] - exp[key]) <= rel * sc):
                        what = {'pot': 'potential of node', 'v': 'voltage of', 'i': 'current of'}[key[0]]
                        out.spec_fail(scanon('dc_gain' if w == 0 else 'transfer_mismatch', output=key[0]),
                                      f'{name}, SI units: {what} {key[1]!r} in response to source {src!r} at w={float(w):.6g} rad/s: '
                                      f'C(jw−A)⁻¹B+D gives {h[k]}, the phasor solution is {exp[key]} '
                                      f'(scale of this kind {sc:.3g}, tolerance {rel:.1e}, cond {cnd:.3g})', inp,
                                      impl=dict(A=Av.tolist(), B=Bv.tolist(), sources=sources, value=h[k]),
                                      spec=dict(w=str(w), source=src, expected=exp[key]), desc=desc)
                        return False
                out.count('si_transfer_points')
    return True

# ordinary laboratory values that must be admitted (not skipped) by the unit-scale streams
SI_CORPUS = [
    dict(ground='0', ground_pos=3, si=dict(note='RC low-pass 1 kΩ / 10 nF'), comps=[
        dict(kind='V', id='Vs', n1='1', n2='0', val=1.0), dict(kind='R', id='R1', n1='1', n2='2', val=1e3),
        dict(kind='C', id='C1', n1='2', n2='0', val=10e-9)]),
    dict(ground='0', ground_pos=0, si=dict(note='RL 50 Ω / 1 nH with 100 pF'), comps=[
        dict(kind='V', id='Vs', n1='1', n2='0', val=1.0), dict(kind='R', id='R1', n1='1', n2='2', val=50.0),
        dict(kind='L', id='L1', n1='2', n2='3', val=1e-9), dict(kind='C', id='C1', n1='3', n2='0', val=100e-12),
        dict(kind='R', id='R2', n1='3', n2='0', val=75.0)]),
    dict(ground='0', ground_pos=0, si=dict(note='electrometer input 1 GΩ / 1 pF, 100 MΩ source'), comps=[
        dict(kind='V', id='Vs', n1='1', n2='0', val=1.0), dict(kind='R', id='R1', n1='1', n2='2', val=1e8),
        dict(kind='C', id='C1', n1='2', n2='0', val=1e-12), dict(kind='R', id='R2', n1='2', n2='0', val=1e9)]),
    dict(ground='0', ground_pos=0, si=dict(note='current source into 2.2 MΩ ∥ 4.7 nF, series 33 mH'), comps=[
        dict(kind='I', id='Is', n1='0', n2='1', val=1e-6), dict(kind='R', id='R1', n1='1', n2='0', val=2.2e6),
        dict(kind='C', id='C1', n1='1', n2='0', val=4.7e-9), dict(kind='L', id='L1', n1='1', n2='2', val=33e-3),
        dict(kind='R', id='R2', n1='2', n2='0', val=4.7e3)]),
]

def wrapper_oracle(ctx, out, desc, repeated, replay_info) -> bool:
    """the PUBLIC circuit-level wrapper `state_space_model(circuit, potential_nodes, voltage_ids,
    current_ids)` with every output requested: transfer function / DC gain of the returned
    (A, B, C, D) against the exact phasor solution of this very description; A, B against the
    nodal model's.  `repeated` marks calls made after another circuit with the same ids / nodes /
    order but different values went through the wrapper in this process."""
    from CircuitCalculator.Circuit.state_space_model import state_space_model
    drv = ctx.driver
    inp = gs.pretty(desc)
    labels, ids = gs.labels_of(desc), [c['id'] for c in desc['comps']]
    wcanon = lambda symptom, **kw: dict(op='state_space_wrapper', symptom=symptom, same_ids_different_values=repeated, **kw)
    out.evaluations += 1
    out.count('wrapper_calls' + (':repeated' if repeated else ''))
    try:
        im = gs.impl_model(desc)                       # nodal model of this description (source order, reference A, B)
        sm = state_space_model(im.circuit, potential_nodes=labels, voltage_ids=ids, current_ids=ids)
    except Exception as e:
        out.spec_fail(wcanon('raises', exc=gs.gen_tag(e)), f'state_space_model(circuit, …) raises {type(e).__name__}: {e}', inp,
                      desc=desc, **replay_info); return False
    A, B, C, D = (np.asarray(getattr(sm, k), dtype=float) for k in 'ABCD')
    sources = list(im.ssm.sources)
    ns = sum(1 for c in desc['comps'] if c['kind'] in gs.REACTIVE)
    keys = [('pot', n) for n in labels] + [('v', i) for i in ids] + [('i', i) for i in ids]
    if A.shape != (ns, ns) or B.shape != (ns, len(sources)) or C.shape != (len(keys), ns) or D.shape != (len(keys), len(sources)) \
       or not all(np.all(np.isfinite(M)) for M in (A, B, C, D)):
        out.spec_fail(wcanon('dims'), f'wrapper returns shapes A{A.shape} B{B.shape} C{C.shape} D{D.shape}', inp, desc=desc, **replay_info)
        return False
    if max([cond_of(p) for p in im.inverses] + [1.0]) > 1e6:
        out.skip('ill_conditioned'); return True
    rows = [(C[k], D[k]) for k in range(len(keys))]
    ws = gs.frequencies(A, True)
    ws = [ws[0]] + ws[len(ws) // 2:len(ws) // 2 + 1] if len(ws) > 1 else ws
    for w in ws:
        if ns and np.linalg.cond(1j * float(w) * np.eye(ns) - A) > 1e6:
            out.skip('near_resonance'); continue
        H = transfer_rows(drv, A, B, rows, w)
        if H is None:
            out.skip('resolvent_singular'); continue
        for k, src in enumerate(sources):
            sol = gs.spec_solve(drv, gs.phasor_net(desc, w, active=src))
            if not sol['wellposed']:
                out.skip('phasor_illposed_at_w'); continue
            exp = gs.expected_outputs(desc, sol)
            scale = max([abs(v) for v in exp.values()] + [1.0])
            for key, h in zip(keys, H):
                if not core.close(h[k], exp[key], scale, 1e-9):
                    what = {'pot': 'potential of node', 'v': 'voltage of', 'i': 'current of'}[key[0]]
                    out.spec_fail(wcanon('dc_gain' if w == 0 else 'transfer_mismatch', output=key[0]),
                                  f'public wrapper state_space_model(circuit, …){" (called after a circuit with the same ids but other values)" if repeated else ""}: '
                                  f'{what} {key[1]!r} in response to {src!r} at w={w}: C(jw−A)⁻¹B+D gives {h[k]}, the phasor solution of '
                                  f'THIS circuit is {exp[key]}', inp, impl=dict(A=A.tolist(), B=B.tolist(), value=h[k]),
                                  spec=dict(w=str(w), source=src, expected=exp[key]), desc=desc, **replay_info)
                    return False
            out.count('wrapper_transfer_points')
    # the wrapper hands out the nodal model's A, B
    if not (np.allclose(A, np.asarray(im.ssm.A), rtol=1e-12, atol=0) and np.allclose(B, np.asarray(im.ssm.B), rtol=1e-12, atol=0)):
        out.spec_fail(wcanon('wrapper_matrices'), 'A, B of state_space_model(circuit, …) differ from nodal_state_space_model of the same circuit',
                      inp, impl=dict(A=A.tolist(), A_nodal=np.asarray(im.ssm.A).tolist()), desc=desc, **replay_info)
        return False
    return True

def wrapper_sequence(ctx, out, desc, desc2):
    """same process: wrapper on a description, on the same description with other R, L, C values
    (same ids, nodes, order), and on the first one again"""
    info = dict(wrapper_sequence=dict(first=desc, second=desc2))
    return (wrapper_oracle(ctx, out, desc, False, info) and wrapper_oracle(ctx, out, desc2, True, info)
            and wrapper_oracle(ctx, out, desc, True, info))

def correspondence_maps(ctx, out, desc, im):
    """non-default (order-consistent) index maps: the implementation's matrices are the model's (stated for the
    default maps; `mapper_forwarding` in Gen/StateSpace.lean shows the maps are handed on) with the rows of C, D
    permuted by the node / voltage-source maps and the columns of B, D by the published source order"""
    drv = ctx.driver
    inp = gs.pretty(desc)
    m = drv.call('ss_model', net=gen_net.impl_to_json(im.network), cvals=gs.dict_items(im.cvals), lvals=gs.dict_items(im.lvals),
                 pots=[], ids=[], spots=[], sids=[])
    if 'A' not in m:
        out.count('model:' + str(m.get('singular', m.get('err')))); return
    ssm = im.ssm
    nmap, vmap, src = ssm.node_index_mapping, ssm.voltage_source_index_mapping, list(ssm.sources)
    if sorted(src) != sorted(m['sources']) or sorted(nmap.keys) != sorted(m['nodes']) or sorted(vmap.keys) != sorted(m['vs']):
        out.disagree('ss_model.maps.keys', inp, dict(sources=src, nodes=nmap.keys, vs=vmap.keys), {k: m[k] for k in ('sources', 'nodes', 'vs')})
        return
    Mm = {k: np.array([[core.cfloat(x) for x in r] for r in m[k]], dtype=complex).reshape(len(m[k]), -1) for k in 'ABCD'}
    N = len(m['nodes'])
    rowperm = [0] * (N + len(m['vs']))
    for j, n in enumerate(m['nodes']): rowperm[nmap[n]] = j
    for j, v in enumerate(m['vs']): rowperm[N + vmap[v]] = N + j
    colperm = [m['sources'].index(s_) for s_ in src]
    ns, nu = len(m['A']), len(src)
    exp = dict(A=Mm['A'].reshape(ns, ns), B=Mm['B'].reshape(ns, -1)[:, colperm] if nu else Mm['B'].reshape(ns, 0),
               C=Mm['C'].reshape(len(rowperm), ns)[rowperm, :], D=(Mm['D'].reshape(len(rowperm), -1)[rowperm, :][:, colperm] if nu else Mm['D'].reshape(len(rowperm), 0)))
    for k in 'ABCD':
        I = np.asarray(getattr(ssm, k), dtype=complex)
        sc = max(1.0, float(np.max(np.abs(exp[k]))) if exp[k].size else 1.0)
        if I.shape != exp[k].shape or (I.size and np.max(np.abs(I - exp[k])) > 1e-9 * sc):
            out.disagree('ss_model.maps.' + k, inp, I.tolist(), exp[k].tolist()); return
    out.traces_validated += 1
    out.count('custom_map_traces')

def check_case(ctx, out, desc, origin='random'):
    drv = ctx.driver
    out.evaluations += 1
    f = gs.facts(desc)
    out.count(f'reactive:{f["n_reactive"]}')
    out.count('names:' + ('interleaved' if f['names_interleave'] else 'blockwise'))
    out.count('inductors:' + ('alphabetic' if f['inductors_listed_alphabetically'] else 'permuted'))
    ok, why = gs.nondegenerate(drv, desc)
    if not ok:
        out.count('degenerate:' + why); return
    out.nontrivial(gs.shape(desc))
    try:
        im = gs.impl_model(desc)
    except Exception as e:
        out.spec_fail(canon(desc, 'raises', exc=gs.gen_tag(e)), f'non-degenerate circuit: state-space model raises {type(e).__name__}: {e}',
                      gs.pretty(desc), impl=dict(exception=repr(e)), desc=desc)
        return
    if drv is not None:
        if desc.get('maps'):
            correspondence_maps(ctx, out, desc, im)
        else:
            correspondence(ctx, out, desc, im)
    if oracle(ctx, out, desc, im):
        out.sample(gs.pretty(desc))

def dispatch(ctx, out, desc, origin):
    """unit-scale descriptions go to the unit-aware oracle, ordinary ones to the full check"""
    return si_oracle(ctx, out, desc, origin) if 'si' in desc else check_case(ctx, out, desc, origin)

def container_cases(ctx, out):
    """the container's five shape checks, model vs implementation, on consistent and inconsistent shapes"""
    from CircuitCalculator.SignalProcessing.state_space_model import StateSpaceModel
    if ctx.driver is None: return
    rng = ctx.rng('container')
    msgs = {1: 'Matrix A must be square', 2: 'Number of columns of matrix B must be equal to number of rows of matrix A',
            3: 'Number of columns of matrix B must be equal to number of rows of matrix A',
            4: 'Number of rows of matrix D must be equal to number of rows of matrix C',
            5: 'Number of columns of matrix D must be equal to number of columns of matrix B'}
    for _ in range(60):
        n, k, p = rng.randint(0, 3), rng.randint(0, 3), rng.randint(0, 3)
        sh = dict(a=[n, n], b=[n, k], c=[p, n], d=[p, k])
        if rng.random() < 0.8:
            key = rng.choice('abcd'); sh[key][rng.randrange(2)] += rng.choice([1, 2])
        try:
            StateSpaceModel(A=np.zeros(sh['a']), B=np.zeros(sh['b']), C=np.zeros(sh['c']), D=np.zeros(sh['d']))
            impl = 'ok'
        except ValueError as e:
            impl = str(e)
        r = ctx.driver.call('ss_container', **sh)['check']
        model = 'ok' if r == 0 else msgs[r]
        out.evaluations += 1
        consistent = (sh['a'][0] == sh['a'][1] == sh['b'][0] == sh['c'][1] and sh['d'] == [sh['c'][0], sh['b'][1]])
        if (impl == 'ok') != consistent:
            out.spec_fail(dict(op='container', symptom='shape_check'),
                          f'container {"accepts inconsistent" if impl == "ok" else "rejects consistent"} shapes {sh}', sh,
                          impl=dict(result=impl), shapes=sh)
        elif impl != model:
            out.disagree('ss_container', sh, impl, model)
        else:
            out.traces_validated += 1

def malformed_cases(ctx, out):
    """dictionaries that do not fit the network: the exception is an observable outcome"""
    from CircuitCalculator.Network.NodalAnalysis.state_space_model import nodal_state_space_model
    if ctx.driver is None: return
    base = CORPUS[5]
    im = gs.impl_model(base)
    jnet = gen_net.impl_to_json(im.network)
    variants = [
        ('extra_capacitor_key', dict(im.cvals, **{'C?': 1.0}), dict(im.lvals)),
        ('extra_inductor_key', dict(im.cvals), dict(im.lvals, **{'L?': 1.0})),
        ('resistor_as_inductor', dict(im.cvals), dict(im.lvals, **{'R1': 1.0})),
        ('capacitor_missing', {k: v for k, v in list(im.cvals.items())[1:]}, dict(im.lvals)),
    ]
    for name, cv, lv in variants:
        out.evaluations += 1
        try:
            ssm = nodal_state_space_model(im.network, c_values=cv, l_values=lv)
            impl = dict(ok=np.asarray(ssm.A).tolist())
        except Exception as e:
            impl = dict(err=gs.gen_tag(e))
        m = ctx.driver.call('ss_model', net=jnet, cvals=gs.dict_items(cv), lvals=gs.dict_items(lv), pots=[], ids=[], spots=[], sids=[])
        if 'err' in impl or 'err' in m:
            if impl.get('err') != m.get('err'):
                out.disagree('ss_model.malformed.' + name, gs.pretty(base), impl, {k: m[k] for k in m if k in ('err', 'singular')} or 'ok')
            else:
                out.traces_validated += 1; out.count('malformed:' + name + ':' + str(impl.get('err')))
        elif 'A' in m:
            if not gs.mat_agree(impl['ok'], m['A']):
                out.disagree('ss_model.malformed.' + name, gs.pretty(base), impl, gs.model_mat(m['A']))
            else:
                out.traces_validated += 1; out.count('malformed:' + name + ':ok')

# the repository's usual naming ('Is' < 'L' < 'Vs'), the suspected defects, and one fifth-order circuit
CORPUS = [
    dict(ground='0', ground_pos=5, comps=[
        dict(kind='V', id='Vs', n1='1', n2='0', val=1.0), dict(kind='R', id='R1', n1='1', n2='2', val=2.0),
        dict(kind='L', id='L', n1='2', n2='3', val=0.5), dict(kind='R', id='R2', n1='3', n2='0', val=4.0),
        dict(kind='I', id='Is', n1='0', n2='3', val=1.0)]),
    # regression (fixed by 3361ab5): voltage source 'A', inductor 'M', current source 'Z' (same circuit)
    dict(ground='0', ground_pos=5, comps=[
        dict(kind='V', id='A', n1='1', n2='0', val=1.0), dict(kind='R', id='R1', n1='1', n2='2', val=2.0),
        dict(kind='L', id='M', n1='2', n2='3', val=0.5), dict(kind='R', id='R2', n1='3', n2='0', val=4.0),
        dict(kind='I', id='Z', n1='0', n2='3', val=1.0)]),
    # regression (fixed by 3361ab5): inductors listed in non-alphabetic order
    dict(ground='0', ground_pos=0, comps=[
        dict(kind='V', id='Vq', n1='1', n2='0', val=1.0), dict(kind='R', id='R1', n1='1', n2='2', val=2.0),
        dict(kind='L', id='L2', n1='3', n2='0', val=0.25), dict(kind='R', id='R2', n1='3', n2='0', val=4.0),
        dict(kind='L', id='L1', n1='2', n2='3', val=0.125)]),
    dict(ground='0', ground_pos=0, comps=[
        dict(kind='V', id='Vq', n1='1', n2='0', val=1.0), dict(kind='R', id='R1', n1='1', n2='2', val=2.0),
        dict(kind='L', id='L1', n1='2', n2='3', val=0.125), dict(kind='R', id='R2', n1='3', n2='0', val=4.0),
        dict(kind='L', id='L2', n1='3', n2='0', val=0.25)]),
    # a current source whose DC value is zero is not published as an input
    dict(ground='0', ground_pos=3, comps=[
        dict(kind='I0', id='Is', n1='0', n2='1', val=0.0), dict(kind='R', id='R1', n1='1', n2='0', val=2.0),
        dict(kind='C', id='C1', n1='1', n2='0', val=0.5)]),
    # fifth order, two sources, repository naming
    dict(ground='0', ground_pos=9, comps=[
        dict(kind='V', id='Vs', n1='1', n2='0', val=2.0), dict(kind='R', id='R1', n1='1', n2='2', val=1.0),
        dict(kind='C', id='C2', n1='2', n2='0', val=0.5), dict(kind='L', id='L1', n1='2', n2='3', val=0.25),
        dict(kind='C', id='C1', n1='3', n2='0', val=1.0), dict(kind='R', id='R2', n1='3', n2='4', val=2.0),
        dict(kind='L', id='L2', n1='4', n2='0', val=0.5), dict(kind='C', id='C3', n1='4', n2='5', val=0.25),
        dict(kind='R', id='R3', n1='5', n2='0', val=4.0), dict(kind='I', id='Is', n1='0', n2='5', val=1.0)]),
]

# canonical inputs of the index-map defect repaired by 4559c7d (audit script c10_custom_mappers_min.py): reversed
# current-source map (column 0 published as 'Ib' carried Ia's response), reversed voltage-source map, reversed node map
MAP_CORPUS = [
    dict(ground='0', ground_pos=6, maps=dict(cs='reversed'), comps=[
        dict(kind='I', id='Ia', n1='0', n2='1', val=1.0), dict(kind='I', id='Ib', n1='0', n2='2', val=1.0),
        dict(kind='R', id='R1', n1='1', n2='0', val=1.0), dict(kind='R', id='R2', n1='1', n2='2', val=1.0),
        dict(kind='R', id='R3', n1='2', n2='0', val=2.0), dict(kind='C', id='C1', n1='2', n2='0', val=1.0)]),
    dict(ground='0', ground_pos=6, maps=dict(vs='reversed'), comps=[
        dict(kind='V', id='Va', n1='1', n2='0', val=1.0), dict(kind='V', id='Vb', n1='3', n2='0', val=1.0),
        dict(kind='R', id='R1', n1='1', n2='2', val=1.0), dict(kind='R', id='R2', n1='3', n2='2', val=3.0),
        dict(kind='C', id='C1', n1='2', n2='0', val=1.0), dict(kind='R', id='R3', n1='3', n2='0', val=1.0)]),
    dict(ground='0', ground_pos=5, maps=dict(node='reversed'), comps=[
        dict(kind='V', id='Vs', n1='1', n2='0', val=1.0), dict(kind='R', id='R1', n1='1', n2='2', val=1.0),
        dict(kind='C', id='C1', n1='2', n2='0', val=1.0), dict(kind='R', id='R2', n1='2', n2='3', val=1.0),
        dict(kind='C', id='C2', n1='3', n2='0', val=2.0)]),
]

# a resistor of 0 Ω (the constructor accepts R = 0) is a short circuit at w = 0, i.e. an ideal voltage source for the
# builder: it is published as an INPUT ('sources' = ['R0', 'Vs']) and TransientSolution asks for its waveform
ZERO_R_CORPUS = [
    dict(ground='0', ground_pos=4, comps=[
        dict(kind='V', id='Vs', n1='1', n2='0', val=1.0), dict(kind='R', id='R0', n1='1', n2='2', val=0.0),
        dict(kind='R', id='R1', n1='2', n2='3', val=2.0), dict(kind='C', id='C1', n1='3', n2='0', val=0.5)]),
]

def run(ctx, out):
    out.rule = ('RLC + ideal V/I-source circuits (connected multigraphs, 1–5 reactive elements, dyadic values, adversarial node '
                'labels, terminal orders and listing orders; 40 % with block-wise source names, 60 % with fully adversarial '
                'names); a case is non-trivial when the circuit is non-degenerate (DC network and infinite-frequency network '
                'both well-posed, decided exactly); distinct by (node count, kind multiset, names-interleave, inductor-order)')
    for desc in CORPUS:
        check_case(ctx, out, desc, 'corpus')
    vr = ctx.rng('vary-corpus')
    for desc in (CORPUS[0], CORPUS[1], CORPUS[3], CORPUS[5]):
        wrapper_sequence(ctx, out, desc, gs.vary_values(vr, desc))
    for desc in SI_CORPUS:
        si_oracle(ctx, out, desc, 'si_corpus')
    for desc in MAP_CORPUS:
        check_case(ctx, out, desc, 'map_corpus')
    for desc in ZERO_R_CORPUS:
        check_case(ctx, out, desc, 'domain_corpus')
    container_cases(ctx, out)
    malformed_cases(ctx, out)
    rng = ctx.rng('random')
    n_random = 130 if ctx.quick else 2500
    reserve = 8 if ctx.quick else 420          # thorough: stop the random stream after ≈ 18 min
    for k in range(n_random):
        if ctx.time_left() < reserve: out.notes.append(f'stopped after {k} random cases (budget)'); break
        safe = rng.random() < 0.4
        for _ in range(40):                      # rejection sampling into the domain (decided exactly)
            desc = gs.random_desc(rng, safe=safe)
            ok, why = gs.nondegenerate(ctx.driver, desc)
            if ok: break
            out.count('rejected_degenerate:' + why)
        check_case(ctx, out, desc)
        # corners of the domain: no source, 3–4 sources, no reactive element, no resistor, up to nine nodes, V = 0
        if rng.random() < (0.25 if ctx.quick else 1.0):
            for _ in range(40):
                dw = gs.wide_desc(rng)
                if gs.nondegenerate(ctx.driver, dw)[0]: break
            check_case(ctx, out, dw, 'corner'); out.count('corner:' + dw['corner'])
        # index-map stream: the three public mapper keyword arguments of nodal_state_space_model with non-default,
        # order-consistent maps — transfer per published source column, `sources` order, state identities
        if rng.random() < (0.35 if ctx.quick else 1.0):
            check_case(ctx, out, gs.with_maps(rng, desc), 'index_maps')
            out.count('index_map_cases')
        # integer-typed R, C, L (Python int / numpy integers): the same circuit must come out (seeded change C11-5B)
        if rng.random() < (0.3 if ctx.quick else 1.0):
            di = gs.with_int_values(rng, desc)
            if gs.nondegenerate(ctx.driver, di)[0]:
                check_case(ctx, out, di, 'int_values'); out.count('int_value_cases')
        # source-kind stream: the same circuit with ideal ac / periodic voltage sources (w = 0 and w ≠ 0) and ac
        # current sources (w = 0), nominal phases in all quadrants — every ideal source kind the builder accepts
        if rng.random() < (0.3 if ctx.quick else 1.0):
            check_case(ctx, out, gs.with_source_kinds(rng, desc, lossy=False), 'source_kinds')
            out.count('source_kind_cases')
        # unit-scale stream: the same circuit in realistic SI units (exact decade scalings and log-uniform values)
        if rng.random() < (0.35 if ctx.quick else 1.0):
            # (run as one sequence after the base circuit: same ids, other values, same process — the replay
            #  carries the prelude)
            gs.run_sequence(out, EXTRA_CANON, [desc, gs.si_desc(rng, desc, exact=True), gs.si_desc(rng, desc, exact=False)],
                            lambda d: dispatch(ctx, out, d, 'si'))
        # revisit stream: same circuit and ids, ONLY the L / C values differ (the w = 0 network is identical),
        # same process, both orders — through the nodal model and the public wrapper
        if gs.facts(desc)['n_reactive'] >= 1 and rng.random() < (0.35 if ctx.quick else 1.0):
            d2 = gs.vary_values(rng, desc, kinds=('C', 'L'))
            first, second = (desc, d2) if rng.random() < 0.5 else (d2, desc)
            wrapper_sequence(ctx, out, first, second)
            gs.run_sequence(out, EXTRA_CANON, [first, second, first], lambda d: dispatch(ctx, out, d, 'revisit'))
        # wrapper / value-variation stream: same ids, nodes and order, other R, L, C, same process
        if rng.random() < (0.5 if ctx.quick else 1.0):
            d2 = gs.vary_values(rng, desc)
            wrapper_sequence(ctx, out, desc, d2)
            gs.run_sequence(out, EXTRA_CANON, [desc, d2, desc], lambda d: check_case(ctx, out, d, 'varied'))
        # every listing order of the reactive elements (thorough), one more order (quick)
        if ctx.quick:
            if gs.facts(desc)['n_reactive'] > 1 and rng.random() < 0.5:
                check_case(ctx, out, gs.permute_reactive(rng, desc, keep_inductors_sorted=safe), 'permuted')
        elif gs.facts(desc)['n_reactive'] <= 3 or k % 10 == 0:
            for d2 in list(gs.all_reactive_orders(desc))[1:25]:
                if ctx.time_left() < reserve: break
                check_case(ctx, out, d2, 'permuted')

def replay(ctx, out, rp):
    if isinstance(rp.get('desc'), dict) and 'si' in rp['desc'] and not rp.get('sequence') and not rp.get('wrapper_sequence'):
        si_oracle(ctx, out, rp['desc'], 'replay')
        return
    if rp.get('wrapper_sequence'):
        ws = rp['wrapper_sequence']
        wrapper_sequence(ctx, out, ws['first'], ws['second'])
        return
    if rp.get('sequence'):
        gs.run_sequence(out, EXTRA_CANON, rp['sequence'], lambda d: dispatch(ctx, out, d, 'replay'))
        return
    desc = rp.get('desc')
    if desc is None and rp.get('shapes'):
        from CircuitCalculator.SignalProcessing.state_space_model import StateSpaceModel
        sh = rp['shapes']
        try:
            StateSpaceModel(A=np.zeros(sh['a']), B=np.zeros(sh['b']), C=np.zeros(sh['c']), D=np.zeros(sh['d'])); ok = True
        except ValueError:
            ok = False
        consistent = (sh['a'][0] == sh['a'][1] == sh['b'][0] == sh['c'][1] and sh['d'] == [sh['c'][0], sh['b'][1]])
        if ok != consistent:
            out.spec_fail(dict(op='container', symptom='shape_check'), f'container shape check wrong on {sh}', sh)
        return
    if desc is None:
        raise SystemExit('replay file carries no circuit description')
    check_case(ctx, out, desc, 'replay')
