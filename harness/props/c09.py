"""
C09 — multi-frequency steady state is the superposition of single-frequency solutions.

Correspondence (model CC/Model/MultiFreq.lean vs the real code):
  * `frequency_components` — exact tier (dyadic frequencies: every product k·w0 is exact in
    binary64), bit for bit, including coincidences that are bit-equal (merged by the set) and
    coincidences that are not (kept apart); error kinds (`ZeroDivisionError` for w0 = 0);
  * which source is active at which listed frequency (`transform_circuit` replaces an
    inactive source by a short / an open circuit) against the model's gates (op `active_index`);
  * time functions of `TimeDomainSolution` at sample instants against the model's
    `timeValue` fed with the implementation's own spectral lines (op `time_value`);
  * `FrequencyDomainSolution(one_sided=False)` against the model's `series` (op `two_sided`).

Oracle on the implementation (decides the property):
  * the listed frequencies are strictly increasing, contain every source frequency and every
    harmonic k·w0 ≤ w_max (k = 0 included) and nothing else, and no two of them lie within the
    frequency resolution of each other (each physical frequency analysed once);
  * the spectral line at w_k is `ComplexSolution(w_k, peak_values=True)`;
  * Kirchhoff's current law for the time functions at every node at random instants;
  * the full response equals the sum of the responses with each source alone (the other
    sources replaced by their internal immittance);
  * a periodic source's own voltage is its truncated Fourier sum, and approaches the waveform
    in mean square with the Parseval tail;
  * the two-sided spectrum is the mirror c(−w) = conj c(w), c(±w_k) = X_k/2, c(0) = X_0.
"""
from __future__ import annotations
import cmath, math
from fractions import Fraction
import numpy as np
import core, gen_net

ID = 'C09'
LEAN_MODULE = 'CC.Properties.C09'
LEVEL = 'proof'
THEOREMS = [
    'CC.C09_freqs_sorted', 'CC.C09_freqs_mem', 'CC.C09_once_counterexample', 'CC.C09_once_partial',
    'CC.C09_line', 'CC.C09_time_function', 'CC.C09_time_value', 'CC.C09_kcl_instant',
    'CC.C09_superpose_sources', 'CC.C09_source_reconstruction',
    'CC.C09_two_sided', 'CC.C09_two_sided_dc', 'CC.C09_two_sided_lines',
    'CC.C09_kcl_instant_circuit', 'CC.C09_superpose_sources_reported',
    # round 5 (CC/Properties/C09Line.lean): lines = C02 peak phasors, periodic source = truncated Fourier series, currents superpose
    'CC.C09_line_td_eq_fd', 'CC.C09_line_phasor', 'CC.C09_line_phasor_td', 'CC.C09_line_frequencies',
    'CC.C09_line_two_sided', 'CC.C09_line_circuit_eqs',
    'CC.C09_periodic_frequencies', 'CC.C09_periodic_own_line', 'CC.C09_periodic_own_line_current',
    'CC.C09_periodic_time_value', 'CC.C09_truncated_fourier', 'CC.C09_reconstruction_mean_square',
    'CC.C09_superpose_sources_currents',
]
LEAN_MODULE_EXTRA = ['CC.Properties.C09Line']
OPEN_STATEMENTS = [
    'CC.C09_once_statement (false after fix 6e56e9e for chains of frequencies: C09_once_counterexample)',
    'the spectral line at w_k is the peak phasor of C02 at w_k: PROVED for the model (C09_line_phasor, C09_line_phasor_td, C09_line_td_eq_fd, C09_line_frequencies, C09_line_two_sided, C09_line_circuit_eqs) about fdSolutions / tdSolutions / fdLines / tdLines / fdGet / tdValue of CC/Properties/C09Line.lean, which are now TIED to the source: __post_init__, _series and the getters of TimeDomainSolution / FrequencyDomainSolution are translated statement by statement into Gen.Sol.methodTable and the transcriptions are proved to be exactly the reading of those trees (C09_gen_td_post_init, C09_gen_fd_post_init, C09_gen_td_getters, C09_gen_fd_series, C09_gen_fd_getters; CC/Properties/C09SolGen.lean); what stays open: the reading itself (CC/Model/SolutionEval.lean: evalP / runMethod / closureAt) is hand-written and trusted — in particular closureAt recognises the Fourier synthesis sum as a whole and reads np.abs(X)*np.cos(w*t+np.angle(X)) as lineValue (identity over C: C09_time_function); the identifier guards are not read there (requireTable, C19); get_power of either class is tied only as a literal tree (C09_gen_getters_shape) and by the generated formulas td_get_power / cx_get_power; fc / C are two readings of one circuit (FComp vs Component) joined by the correspondence check, not by a theorem; solver exceptions are not modelled',
    "reproduction of a periodic source's waveform up to the truncation of the retained harmonics: PROVED in two layers — model (C09_periodic_frequencies, C09_periodic_own_line[_current], C09_periodic_time_value: an ideal periodic voltage source's own voltage is the sum of the lines amplitude(k)(cos phase(k) + j sin phase(k)), k = 0..floor(w_max/w0), = sum of a_k c_k + b_k s_k) and reals (C09_truncated_fourier: that sum is the truncated Fourier series of C08 for every t and N; C09_reconstruction_mean_square: it converges to the waveform in the mean square, via C08_mean_square); what stays open: the two layers are joined by the parameter convention of C07/C08 (trig, harm = numpy's cos/sin and fourier_series.amplitude/phase), not by a theorem; no bound for a fixed N (only convergence, the Parseval tail is the oracle's); C09_periodic_time_value assumes the analysed frequencies are exactly harmonicList (one periodic source, w_res < w0) and an ideal source (R = 0); binary64 rounding: oracle only",
    'superposition of sources for the networks the code builds for each source alone: C09_superpose_sources_reported (potentials, voltages) and C09_superpose_sources_currents (physical currents of every branch; reported currents of branches that are no lossy source in any of the three networks) still assume the per-frequency networks in skeleton form withSrc bs s; reported currents of lossy sources do NOT superpose (direction convention changes when the source is deactivated — C04_superpose excludes them, finding C09-4)',
]
ASSUMPTIONS = [
    'C09_line, C09_kcl_instant, C09_superpose_sources and C09_source_reconstruction are identities without a model term; the statements about the code are C09_freqs_*, C09_once_*, C09_two_sided*, C09_kcl_instant_circuit, C09_superpose_sources_reported and the round-5 theorems C09_line_*, C09_periodic_*, C09_superpose_sources_currents (CC/Properties/C09Line.lean); C09_truncated_fourier and C09_reconstruction_mean_square are statements over the reals about the generated Fourier coefficients',
    'C09_line_* are about the transcriptions fdSolutions / tdSolutions / fdLines / tdLines / fdGet / tdValue of solution.py (hand-written from existing model functions, solver = arbitrary function Net -> vector; solver exceptions are not modelled); C09_gen_td_post_init / C09_gen_fd_post_init / C09_gen_td_getters / C09_gen_fd_series / C09_gen_fd_getters prove them equal to the reading (CC/Model/SolutionEval.lean, trusted) of the method trees generated from the source',
    'cos, sin, abs, angle of numpy are parameters: the model evaluates a line from c = cos(w t), s = sin(w t) computed by numpy; C09_time_function proves |X|cos(wt + arg X) = X.re·c − X.im·s over the complex numbers',
    'the per-frequency networks are the implementation\'s own transform outputs (C02/C07), their solutions the solver\'s (C01)',
    'binary64 products k·w0 are exact in the exact tier (dyadic w0); floor(w_max/w0) cases where float and exact floor differ are skipped as tie margin',
]
# translator tie of frequency_components (harness/extract_freq.py -> CC/Gen/Freq.lean, idioms CC/Model/FreqBase.lean,
# proofs CC/Properties/C09Gen.lean): generated function = hand model frequencyComponents, for all inputs
THEOREMS += ['CC.C09_gen_frequency_components', 'CC.C09_gen_freqs', 'CC.C09_gen_default_resolution']
LEAN_MODULE_EXTRA = list(globals().get('LEAN_MODULE_EXTRA', [])) + ['CC.Properties.C09Gen']
# translator tie of TimeDomainSolution / FrequencyDomainSolution (__post_init__, _series, getters): harness/extract_solution.py -> Gen.Sol.methodTable,
# reading CC/Model/SolutionEval.lean part (A), proofs CC/Properties/C09SolGen.lean: the hand transcriptions of C09Line.lean = the reading of the generated trees
THEOREMS += ['CC.C09_gen_td_init_shape', 'CC.C09_gen_fd_init_shape', 'CC.C09_gen_series_shape', 'CC.C09_gen_getters_shape',
             'CC.C09_gen_td_post_init', 'CC.C09_gen_fd_post_init', 'CC.C09_gen_td_getters', 'CC.C09_gen_fd_series', 'CC.C09_gen_fd_getters']
LEAN_MODULE_EXTRA = list(globals().get('LEAN_MODULE_EXTRA', [])) + ['CC.Properties.C09SolGen']
ASSUMPTIONS += [
    'C09_gen_frequency_components ties the hand model frequencyComponents to the source text of frequency_components through the translator (expressions node by node, statement skeleton matched structurally, anything else refused); trusted: the idioms of CC/Model/FreqBase.lean (npFloor, npCeil, npArange, pyLast, pyFlatMapM, pyForM), sortQ for sorted, FComp as the reading of a component (type, float(value[\'w\']) or KeyError), exact rationals for binary64 (np.floor of a rounded quotient and the products w*n: tie margin, correspondence stream check_freqs)',
]
W_RES = 1e-3     # default w_resolution of transform(); TimeDomainSolution / FrequencyDomainSolution never override it

def tag(e):
    return {'ZeroDivisionError': 'ZeroDivisionError', 'KeyError': 'KeyError', 'IndexError': 'KeyError',
            'TypeError': 'TypeError', 'ValueError': 'ValueError'}.get(type(e).__name__, type(e).__name__)

# --------------------------------------------------------------------------- circuits

def mk_component(c):
    from CircuitCalculator.Circuit import components as ccp
    k, nodes = c['kind'], tuple(c['nodes'])
    if k == 'R': return ccp.resistor(c['id'], nodes, R=c['v'])
    if k == 'L': return ccp.inductance(c['id'], nodes, L=c['v'])
    if k == 'C': return ccp.capacitor(c['id'], nodes, C=c['v'])
    if k == 'short': return ccp.short_circuit(c['id'], nodes)
    if k == 'Vdc': return ccp.dc_voltage_source(c['id'], nodes, V=c['v'], R=c.get('R', 0))
    if k == 'Vac': return ccp.ac_voltage_source(c['id'], nodes, V=c['v'], R=c.get('R', 0), w=c['w'], phi=c.get('phi', 0))
    if k == 'Vper': return ccp.periodic_voltage_source(c['id'], nodes, wavetype=c['wave'], V=c['v'], w=c['w'], phi=c.get('phi', 0))
    if k == 'Vcx': return ccp.complex_voltage_source(c['id'], nodes, V=complex(c['v']), Z=complex(c.get('R', 0)))
    if k == 'Idc': return ccp.dc_current_source(c['id'], nodes, I=c['v'], G=c.get('G', 0))
    if k == 'Iac': return ccp.ac_current_source(c['id'], nodes, I=c['v'], G=c.get('G', 0), w=c['w'], phi=c.get('phi', 0))
    if k == 'Iper': return ccp.periodic_current_source(c['id'], nodes, wavetype=c['wave'], I=c['v'], w=c['w'], phi=c.get('phi', 0))
    if k == 'gnd': return ccp.ground(nodes=(nodes[0],))
    raise ValueError(k)

def mk_circuit(comps):
    from CircuitCalculator.Circuit.circuit import Circuit
    return Circuit([mk_component(c) for c in comps])

SOURCES = ('Vdc', 'Vac', 'Vper', 'Idc', 'Iac', 'Iper')
def is_source(c): return c['kind'] in SOURCES
def src_w(c): return 0.0 if c['kind'] in ('Vdc', 'Idc') else float(c['w'])
def is_periodic(c): return c['kind'] in ('Vper', 'Iper')
def is_lossy(c): return (c.get('R', 0) or 0) > 0 or (c.get('G', 0) or 0) > 0
def is_voltage(c): return c['kind'] in ('Vdc', 'Vac', 'Vper')

def pretty(comps):
    out = []
    for c in comps:
        extra = ''.join(f' {k}={c[k]}' for k in ('w', 'phi', 'wave', 'R', 'G') if c.get(k))
        out.append(f"{c['id']}:{c['kind']}{tuple(c['nodes'])}={c.get('v', '')}{extra}")
    return out

DYADIC_W = [0.5, 1.0, 1.5, 2.0, 3.0, 4.0, 0.25, 0.75, 6.0]
PHASES = [0.0, 0.0, math.pi / 2, -math.pi / 3, 1.0, 2.5]
WAVES = ['rect', 'tri', 'saw', 'cos', 'sin']

def random_source(rng, kind, nodes, idx, w_pool):
    c = dict(kind=kind, id=f'{kind}{idx}', nodes=list(nodes), v=rng.choice([1.0, 2.0, 0.5, -1.0, 3.0]))
    if kind in ('Vac', 'Iac', 'Vper', 'Iper'):
        c['w'] = rng.choice(w_pool); c['phi'] = rng.choice(PHASES)
    if kind in ('Vper', 'Iper'):
        c['wave'] = rng.choice(WAVES)
    if kind in ('Vdc', 'Vac') and rng.random() < 0.25: c['R'] = rng.choice([1.0, 2.0])
    if kind in ('Idc', 'Iac') and rng.random() < 0.25: c['G'] = rng.choice([0.5, 1.0])
    return c

def random_circuit(rng, w_pool=DYADIC_W, n_src=None, kinds=SOURCES):
    """connected RLC network; every voltage source sits in series with a resistor, every
    current source in parallel with one (keeps most circuits well-posed at every frequency)"""
    n = rng.randint(2, 4)
    nodes = [f'n{k}' for k in range(n)]
    comps = []; i = 0
    edges = [(nodes[rng.randrange(k)], nodes[k]) for k in range(1, n)]
    for _ in range(rng.randint(0, 2)):
        edges.append(tuple(rng.sample(nodes, 2)))
    for a, b in edges:
        i += 1
        if rng.random() < 0.5: a, b = b, a
        k = rng.choice(['R', 'R', 'R', 'L', 'C'])
        comps.append(dict(kind=k, id=f'{k}{i}', nodes=[a, b], v=rng.choice([1.0, 2.0, 0.5, 4.0, 0.25])))
        if k != 'R' and rng.random() < 0.7:     # keep DC and AC well-posed
            i += 1
            comps.append(dict(kind='R', id=f'R{i}', nodes=[a, b], v=rng.choice([1.0, 2.0, 8.0])))
    for s in range(n_src if n_src is not None else rng.randint(1, 3)):
        i += 1
        kind = rng.choice(kinds)
        a, b = rng.sample(nodes, 2)
        if kind.startswith('V'):
            mid = f'm{i}'
            comps.append(random_source(rng, kind, (a, mid), i, w_pool))
            comps.append(dict(kind='R', id=f'Rs{i}', nodes=[mid, b], v=rng.choice([1.0, 2.0, 0.5])))
        else:
            comps.append(random_source(rng, kind, (a, b), i, w_pool))
            comps.append(dict(kind='R', id=f'Rp{i}', nodes=[a, b], v=rng.choice([1.0, 2.0, 4.0])))
    rng.shuffle(comps)
    comps.append(dict(kind='gnd', id='gnd', nodes=[rng.choice(nodes)]))
    return comps

# --------------------------------------------------------------------------- facts about an input (canon)

def exact_listed(comps, w_max):
    """the frequencies the property demands, computed with exact rationals"""
    want = set()
    for c in comps:
        if not is_source(c): continue
        w = Fraction(src_w(c))
        if is_periodic(c):
            if w <= 0: continue
            k = 0
            while k * w <= Fraction(w_max):
                want.add(k * w); k += 1
        else:
            want.add(w)
    return sorted(want)

def source_frequencies(comps, upto):
    """the frequencies the sources contain (harmonics up to `upto`), as floats"""
    S = set()
    for c in comps:
        if not is_source(c): continue
        w = src_w(c)
        if is_periodic(c):
            if w <= 0: continue
            k = 0
            while k * w <= upto + W_RES and k < 10000:
                S.add(k * w); k += 1
        else:
            S.add(w)
    return sorted(S)

def near_coincident(S):
    """two source frequencies that differ but lie within the resolution of each other"""
    return any(0 < b - a <= W_RES for a, b in zip(S, S[1:]))

def chain_within_resolution(S):
    """"within the resolution" is not transitive on the source frequencies: some frequency lies
    within the resolution of two others that are farther apart than the resolution"""
    for f in S:
        near = [g for g in S if abs(g - f) <= W_RES]
        if near and max(near) - min(near) > W_RES: return True
    return False

def lossy_other_frequency(comps, ws):
    """a source with internal resistance / conductance that is inactive at some listed frequency"""
    for c in comps:
        if is_source(c) and is_lossy(c) and not is_periodic(c):
            if any(abs(w - src_w(c)) > W_RES for w in ws): return True
    return False

def harmonic_beyond_wmax_listed(comps, ws, w_max):
    """a periodic source is active at a listed frequency that is one of its harmonics *above*
    w_max (the frequency is listed because of another source): the full circuit then contains a
    harmonic that the same source alone, truncated at w_max, does not — truncation, not a defect"""
    for c in comps:
        if is_periodic(c) and src_w(c) > 0:
            w0 = src_w(c)
            for w in ws:
                n = round(w / w0)
                if n * w0 > w_max and abs(w / w0 - n) <= W_RES / w0: return True
    return False

def facts(comps, ws):
    S = source_frequencies(comps, max(ws) if ws else 0.0)
    return dict(near_coincident=bool(near_coincident(S)), chain_within_resolution=bool(chain_within_resolution(S)),
                lossy_other_frequency=bool(lossy_other_frequency(comps, ws)))

# --------------------------------------------------------------------------- frequency list

def fcomp_json(c):
    comp = mk_component(c)
    w = comp.value.get('w', None)
    return dict(ty=comp.type, w=None if w is None else core.q(float(w)))

def check_freqs(ctx, out, comps, w_max, exact):
    from CircuitCalculator.Circuit.circuit import frequency_components
    drv = ctx.driver
    out.evaluations += 1
    case = dict(kind='freqs', comps=comps, w_max=w_max, exact=exact)
    P = dict(circuit=pretty(comps), w_max=w_max)
    try:
        impl = ('ok', [float(x) for x in frequency_components(mk_circuit(comps), w_max)])
    except Exception as e:
        impl = ('err', tag(e))
    # tie margin of floor(w_max / w0)
    tie = False
    for c in comps:
        if is_periodic(c) and src_w(c) != 0:
            if math.floor(float(w_max) / src_w(c)) != math.floor(Fraction(float(w_max)) / Fraction(src_w(c))): tie = True
    if tie:
        out.skip('tie_margin_floor'); return impl
    if drv is not None:
        m = drv.call('freq_components', comps=[fcomp_json(c) for c in comps], wmax=core.q(float(w_max)), wres=core.q(W_RES))
        out.traces_validated += 1
        if 'err' in m:
            if impl != ('err', m['err']): out.disagree('frequency_components', P, impl, m)
            else: out.count('freq_error:' + m['err'])
        elif impl[0] == 'err':
            out.disagree('frequency_components', P, impl, m)
        else:
            mv = [Fraction(x) for x in m['ok']]
            iv = [Fraction(x) for x in impl[1]]
            if exact:
                if mv != iv: out.disagree('frequency_components', P, impl, m)
                else: out.count('freqs_bit_exact')
            else:
                if len(mv) != len(iv): out.skip('tie_margin_rounded_product')
                elif not all(abs(float(a) - float(b)) <= 1e-12 * (1 + abs(float(a))) for a, b in zip(mv, iv)):
                    out.disagree('frequency_components', P, impl, m)
    if impl[0] == 'err':
        return impl
    # ---- oracle: the list the property demands
    ws = impl[1]
    f = facts(comps, ws)
    out.nontrivial(('freqs', len(ws), sum(1 for c in comps if is_source(c)), sum(1 for c in comps if is_periodic(c)), f['near_coincident']))
    if any(b <= a for a, b in zip(ws, ws[1:])):
        out.spec_fail(dict(op='frequency_components', symptom='not_strictly_increasing', **f), 'frequency list is not strictly increasing', P, impl=dict(w=ws), case=case)
        return impl
    want = [float(x) for x in exact_listed(comps, w_max)]
    if exact:
        extra = [w for w in ws if w not in want]
        miss = [w for w in want if not any(abs(w - k) <= W_RES for k in ws)]
        if extra or miss:
            out.spec_fail(dict(op='frequency_components', symptom='wrong_list', missing=bool(miss), extra=bool(extra), **f),
                          f'frequency list vs source frequencies ∪ harmonics ≤ w_max: not represented {miss}, not a source frequency {extra}', P,
                          impl=dict(w=ws), spec=dict(w=want), case=case)
            return impl
    close_pair = next(((a, b) for a, b in zip(ws, ws[1:]) if b - a <= W_RES), None)
    if close_pair is not None:
        out.spec_fail(dict(op='frequency_components', symptom='frequency_listed_twice', **f),
                      f'frequencies {close_pair[0]!r} and {close_pair[1]!r} lie within the resolution {W_RES} of each other but are analysed separately', P,
                      impl=dict(w=ws), case=case)
        return impl
    twice = next((w for w in want if sum(1 for k in ws if abs(w - k) <= W_RES) > 1), None)
    if twice is not None:
        out.spec_fail(dict(op='frequency_components', symptom='source_frequency_in_two_windows', **f),
                      f'source frequency {twice!r} lies within the resolution {W_RES} of two analysed frequencies '
                      f'{[k for k in ws if abs(twice - k) <= W_RES]}: it is counted at both', P, impl=dict(w=ws), case=case)
    else:
        out.count('freqs_spec_ok')
    return impl

# --------------------------------------------------------------------------- gates

def check_gates(ctx, out, comps, ws):
    from CircuitCalculator.Circuit.circuit import transform_circuit
    drv = ctx.driver
    if drv is None or not ws: return
    srcs = [c for c in comps if is_source(c)]
    if not srcs: return
    out.evaluations += 1
    circuit = mk_circuit(comps)
    impl = []
    for c in srcs:
        row = []
        for w in ws:
            b = transform_circuit(circuit, w)[c['id']]
            row.append(b.element.type not in ('short_circuit', 'open_circuit'))
        impl.append(row)
    m = drv.call('active_index', srcs=[dict(periodic=is_periodic(c), w=core.q(src_w(c))) for c in srcs],
                 ws=[core.q(w) for w in ws], wres=core.q(W_RES))
    out.traces_validated += 1
    for c, ri, rm in zip(srcs, impl, m):
        for w, a, b in zip(ws, ri, rm):
            if a != (b is not None):
                # tie margin: the float quotient w/w0 is rounded
                if is_periodic(c):
                    x = Fraction(w) / Fraction(src_w(c)); d = abs(x - round(x)); lim = Fraction(W_RES) / Fraction(src_w(c))
                    if abs(d - lim) <= Fraction(1, 10 ** 12) * lim: out.skip('tie_margin_gate'); continue
                out.disagree('source_gate', dict(circuit=pretty(comps), source=c['id'], w=w), a, b)
    out.count('gates_compared', sum(len(r) for r in impl))

# --------------------------------------------------------------------------- solutions

def wellposed_everywhere(ctx, comps, ws):
    """every per-frequency network is well-posed (exactly) and well-conditioned"""
    from CircuitCalculator.Circuit.circuit import transform_circuit
    from CircuitCalculator.Network.NodalAnalysis import node_analysis as na
    circuit = mk_circuit(comps)
    for w in ws:
        N = transform_circuit(circuit, w)
        if ctx.driver is not None:
            if not ctx.driver.call('wellposed', net=gen_net.impl_to_json(N))['wellposed']: return False
        A = na.nodal_analysis_coefficient_matrix(N)
        if A.size and not (np.linalg.cond(A) < 1e7): return False
    return True

def quantities(comps):
    ids = [c['id'] for c in comps if c['kind'] != 'gnd']
    nodes = sorted({n for c in comps for n in c['nodes']})
    return ids, nodes

def check_lines_and_time(ctx, out, comps, w_max, rng):
    """spectral lines = ComplexSolution(peak) per frequency; time function = Σ Re(X_k e^{j w_k t})"""
    from CircuitCalculator.Circuit.solution import TimeDomainSolution, FrequencyDomainSolution, ComplexSolution
    drv = ctx.driver
    circuit = mk_circuit(comps)
    out.evaluations += 1
    P = dict(circuit=pretty(comps), w_max=w_max)
    case = dict(kind='solution', comps=comps, w_max=w_max)
    fd = FrequencyDomainSolution(circuit, w_max=w_max)
    td = TimeDomainSolution(circuit, w_max=w_max)
    ws = [float(w) for w in fd.w]
    f = facts(comps, ws)
    ids, nodes = quantities(comps)
    ts = [0.0] + [rng.uniform(0, 20) for _ in range(3)]
    scale = 1.0
    for kind, names in (('voltage', ids), ('current', ids), ('potential', nodes)):
        for name in names:
            w_arr, X = getattr(fd, 'get_' + kind)(name)
            X = [complex(x) for x in X]
            scale = max([scale] + [abs(x) for x in X])
            # C09_line: the line at w_k is the single-frequency peak phasor
            for wk, xk in zip(ws, X):
                ref = complex(getattr(ComplexSolution(circuit, w=wk, peak_values=True), 'get_' + kind)(name))
                if xk != ref and not core.close(xk, ref, 0.0, 1e-12):
                    out.spec_fail(dict(op='spectral_line', symptom='line_differs_from_phasor', **f),
                                  f'{kind} line of {name} at w={wk} is {xk}, ComplexSolution(peak) gives {ref}', P,
                                  impl=dict(line=xk), spec=dict(phasor=ref), case=case)
                    return None
            if [float(w) for w in w_arr] != ws:
                out.spec_fail(dict(op='spectral_line', symptom='frequency_axis', **f), 'frequency axis differs from frequency_components', P, case=case)
                return None
            # time function against the model's sum, fed with these lines
            fn = getattr(td, 'get_' + kind)(name)
            for t in ts:
                v = float(fn(t))
                direct = sum((x * cmath.exp(1j * wk * t)).real for wk, x in zip(ws, X))
                if not core.close(v, direct, scale, 1e-9):
                    out.spec_fail(dict(op='time_function', symptom='not_sum_of_lines', **f),
                                  f'{kind} of {name} at t={t}: {v}, Σ Re(X_k e^(j w_k t)) = {direct}', P, impl=dict(v=v), spec=dict(v=direct), case=case)
                    return None
                if drv is not None:
                    m = drv.call('time_value', lines=[[core.qc(x), core.q(math.cos(wk * t)), core.q(math.sin(wk * t))] for wk, x in zip(ws, X)])
                    mv = float(Fraction(m['value']))
                    out.traces_validated += 1
                    if not core.close(v, mv, scale, 1e-9):
                        out.disagree('time_function', dict(P, quantity=f'{kind}:{name}', t=t), v, mv)
                        return None
    out.count('lines_and_time_ok')
    return td, ws, scale

def check_kcl(ctx, out, comps, w_max, td, ws, scale, rng):
    """Kirchhoff's current law for the time functions at random instants"""
    out.evaluations += 1
    f = facts(comps, ws)
    P = dict(circuit=pretty(comps), w_max=w_max)
    case = dict(kind='solution', comps=comps, w_max=w_max)
    ids, nodes = quantities(comps)
    ts = [rng.uniform(0, 20) for _ in range(4)]
    cur = {}
    for c in comps:
        if c['kind'] == 'gnd': continue
        fn = td.get_current(c['id'])
        # reported currents: first→second terminal; linear (lossy) sources report in generator direction
        sign = -1.0 if (is_source(c) and is_lossy(c)) else 1.0
        cur[c['id']] = [sign * float(fn(t)) for t in ts]
    iscale = max([1.0] + [abs(x) for v in cur.values() for x in v])
    out.nontrivial(('kcl', len(comps), len(ws), f['near_coincident'], f['chain_within_resolution'], f['lossy_other_frequency']))
    for n in nodes:
        for k, t in enumerate(ts):
            s = 0.0
            for c in comps:
                if c['kind'] == 'gnd': continue
                if c['nodes'][0] == n: s += cur[c['id']][k]
                if c['nodes'][1] == n: s -= cur[c['id']][k]
            if abs(s) > 1e-8 * iscale * len(comps):
                out.spec_fail(dict(op='time_domain_kcl', symptom='kcl_residual', **f),
                              f'Σ currents at node {n} at t={t} is {s}', P, impl=dict(residual=s, node=n, t=t), case=case)
                return
    out.count('kcl_ok')

def alone(comps, keep_id):
    """the circuit with every other source replaced by its internal immittance"""
    out = []
    for c in comps:
        if not is_source(c) or c['id'] == keep_id:
            out.append(c); continue
        if is_voltage(c):
            R = c.get('R', 0) or 0
            out.append(dict(kind='R', id=c['id'], nodes=c['nodes'], v=R) if R > 0 else dict(kind='short', id=c['id'], nodes=c['nodes']))
        else:
            G = c.get('G', 0) or 0
            if G > 0: out.append(dict(kind='R', id=c['id'], nodes=c['nodes'], v=1 / G))
            # G = 0: an open circuit — the component is simply absent
    return out

def check_superposition(ctx, out, comps, w_max, td, ws, scale, rng):
    from CircuitCalculator.Circuit.solution import TimeDomainSolution
    srcs = [c for c in comps if is_source(c)]
    if len(srcs) < 2: return
    if harmonic_beyond_wmax_listed(comps, ws, w_max):
        out.skip('superposition_truncation_differs'); return
    out.evaluations += 1
    f = facts(comps, ws)
    P = dict(circuit=pretty(comps), w_max=w_max)
    case = dict(kind='solution', comps=comps, w_max=w_max)
    singles = []
    for s in srcs:
        cs = alone(comps, s['id'])
        try:
            singles.append((cs, TimeDomainSolution(mk_circuit(cs), w_max=w_max)))
        except Exception as e:
            out.count('single_source_error:' + tag(e)); return
    ts = [0.0] + [rng.uniform(0, 20) for _ in range(3)]
    tol = 1e-8
    if f['near_coincident']:
        # sources within the resolution are analysed at one common frequency: their own frequency is
        # replaced by one at most w_resolution away, which shifts cos(w t + φ) by up to w_resolution·t —
        # compare at small t only (t ≤ 1: the shift is below the tolerance)
        ts = [0.0, 0.5, 1.0]; tol = 3e-3
    passive = [c['id'] for c in comps if not is_source(c) and c['kind'] != 'gnd']
    _, nodes = quantities(comps)
    out.nontrivial(('superpose', len(srcs), len(ws), f['near_coincident'], f['chain_within_resolution'], f['lossy_other_frequency']))
    for kind, names in (('voltage', passive), ('current', passive), ('potential', nodes)):
        for name in names:
            full = getattr(td, 'get_' + kind)(name)
            parts = [getattr(t1, 'get_' + kind)(name) for _, t1 in singles]
            for t in ts:
                a = float(full(t)); b = sum(float(p(t)) for p in parts)
                if not core.close(a, b, scale, tol):
                    out.spec_fail(dict(op='superposition', symptom='sum_of_single_source_responses_differs', **f),
                                  f'{kind} of {name} at t={t}: full response {a}, sum over the sources alone {b}', P,
                                  impl=dict(full=a, parts=[float(p(t)) for p in parts]), case=case)
                    return
    out.count('superposition_ok')

def check_two_sided(ctx, out, comps, w_max):
    from CircuitCalculator.Circuit.solution import FrequencyDomainSolution
    drv = ctx.driver
    out.evaluations += 1
    circuit = mk_circuit(comps)
    P = dict(circuit=pretty(comps), w_max=w_max)
    case = dict(kind='two_sided', comps=comps, w_max=w_max)
    one = FrequencyDomainSolution(circuit, w_max=w_max)
    ws = [float(w) for w in one.w]
    f = facts(comps, ws)
    ids, _ = quantities(comps)
    name = ids[0]
    X = [complex(x) for x in one.get_voltage(name)[1]]
    try:
        two = FrequencyDomainSolution(circuit, w_max=w_max, one_sided=False)
        w2, X2 = two.get_voltage(name)
        impl = ('ok', [float(w) for w in w2], [complex(x) for x in X2])
    except Exception as e:
        impl = ('err', tag(e))
    if drv is not None:
        m = drv.call('two_sided', ws=[core.q(w) for w in ws], X=[core.qc(x) for x in X])
        out.traces_validated += 1
        mw = [float(Fraction(w)) for w in m['w']]; mX = [core.cfloat(x) for x in m['X']]
        if impl[0] == 'err' or impl[1] != mw or len(impl[2]) != len(mX) or \
                not all(core.close(a, b, 0.0, 1e-12) for a, b in zip(impl[2], mX)):
            out.disagree('two_sided', P, impl, dict(w=mw, X=mX))
    if not ws: return
    out.nontrivial(('two_sided', len(ws), ws[0] == 0))
    if impl[0] == 'err':
        out.spec_fail(dict(op='two_sided', symptom='raises', exc=impl[1]),
                      f'FrequencyDomainSolution(one_sided=False) raises {impl[1]}', P, impl=dict(error=impl[1]), case=case)
        return
    want_w = [-w for w in ws[:0:-1]] + ws
    want_X = [x.conjugate() / 2 for x in X[:0:-1]] + [X[0] if ws[0] == 0 else X[0] / 2] + [x / 2 for x in X[1:]]
    if ws[0] != 0:
        want_w = [-w for w in ws[::-1]] + ws
        want_X = [x.conjugate() / 2 for x in X[::-1]] + [x / 2 for x in X]
    if impl[1] != want_w or len(impl[2]) != len(want_X) or not all(core.close(a, b, 0.0, 1e-12) for a, b in zip(impl[2], want_X)):
        out.spec_fail(dict(op='two_sided', symptom='not_the_mirror', dc_listed=ws[0] == 0),
                      'two-sided spectrum is not c(−w)=conj c(w), c(±w_k)=X_k/2, c(0)=X_0', P,
                      impl=dict(w=impl[1], X=impl[2]), spec=dict(w=want_w, X=want_X), case=case)

def check_reconstruction(ctx, out, wave, V, w0, phi, w_max):
    """an ideal periodic source's own voltage: truncated Fourier sum, mean-square distance to the waveform"""
    from CircuitCalculator.Circuit.solution import TimeDomainSolution
    from CircuitCalculator.SignalProcessing.periodic_functions import periodic_function, fourier_series
    out.evaluations += 1
    comps = [dict(kind='Vper', id='Vp', nodes=['a', 'g'], v=V, w=w0, phi=phi, wave=wave),
             dict(kind='R', id='R', nodes=['a', 'g'], v=2.0), dict(kind='gnd', id='gnd', nodes=['g'])]
    P = dict(circuit=pretty(comps), w_max=w_max)
    case = dict(kind='reconstruction', wave=wave, V=V, w0=w0, phi=phi, w_max=w_max)
    td = TimeDomainSolution(mk_circuit(comps), w_max=w_max)
    fn = td.get_voltage('Vp')
    pf = periodic_function(wave)(period=2 * np.pi / w0, amplitude=V, phase=phi)
    fs = fourier_series(pf)
    K = int(math.floor(w_max / w0))
    T = 2 * np.pi / w0
    t = (np.arange(2048) + 0.37) * (T / 2048)
    got = np.array(fn(t), dtype=float)
    partial = sum(fs.amplitude(k) * np.cos(k * w0 * t + fs.phase(k)) for k in range(0, K + 1))
    out.nontrivial(('reconstruction', wave, K))
    if not np.allclose(got, partial, rtol=0, atol=1e-9 * (1 + abs(V))):
        out.spec_fail(dict(op='source_reconstruction', symptom='not_truncated_fourier_sum', wave=wave),
                      f'voltage of the periodic source differs from Σ_k≤{K} amp(k)·cos(k w0 t + phase(k)) by {np.max(np.abs(got - partial))}', P, case=case)
        return
    true = np.array(pf.time_function(t), dtype=float)
    tail = sum(fs.amplitude(k) ** 2 / 2 for k in range(K + 1, 4000))
    err2 = float(np.mean((got - true) ** 2))
    if err2 > 1.3 * tail + 2e-3 * V * V:
        out.spec_fail(dict(op='source_reconstruction', symptom='mean_square_error_exceeds_truncation', wave=wave),
                      f'mean-square distance to the waveform {err2} exceeds the Parseval tail {tail}', P, impl=dict(err2=err2), spec=dict(tail=tail), case=case)
        return
    out.count('reconstruction_ok')

def check_harmonic_lines(ctx, out, kind, wave, A, w0, phi, n_harm, extra=None):
    """every retained harmonic of an ideal periodic source: the spectral line of the source's own
    voltage (current) at the listed frequency that represents k·w0 equals amplitude(k)·exp(j·phase(k)) of the
    implementation's own fourier_series object; the reconstructed waveform projects onto every retained
    harmonic with that coefficient.  `extra`: a second (sinusoidal) source, e.g. one that coincides with a
    harmonic within the resolution."""
    from CircuitCalculator.Circuit.solution import TimeDomainSolution, FrequencyDomainSolution
    from CircuitCalculator.SignalProcessing.periodic_functions import periodic_function, fourier_series
    out.evaluations += 1
    w_max = w0 * (n_harm + 0.5)
    if kind == 'Vper':
        comps = [dict(kind='Vper', id='P', nodes=['a', 'g'], v=A, w=w0, phi=phi, wave=wave),
                 dict(kind='R', id='R', nodes=['a', 'b'], v=2.0), dict(kind='R', id='R2', nodes=['b', 'g'], v=1.0)]
    else:
        comps = [dict(kind='Iper', id='P', nodes=['g', 'a'], v=A, w=w0, phi=phi, wave=wave),
                 dict(kind='R', id='R', nodes=['a', 'b'], v=2.0), dict(kind='R', id='R2', nodes=['b', 'g'], v=1.0),
                 dict(kind='R', id='R3', nodes=['a', 'g'], v=4.0)]
    if extra is not None:
        if extra['kind'] == 'Vac':   # in series inside the R–R2 branch
            comps[2] = dict(kind='R', id='R2', nodes=['b', 'c'], v=1.0)
            comps.append(dict(extra, id='E', nodes=['c', 'g']))
        else:
            comps.append(dict(extra, id='E', nodes=['g', 'b']))
    comps.append(dict(kind='gnd', id='gnd', nodes=['g']))
    P = dict(circuit=pretty(comps), w_max=w_max)
    case = dict(kind='harmonic_lines', src=kind, wave=wave, A=A, w0=w0, phi=phi, n_harm=n_harm, extra=extra)
    circuit = mk_circuit(comps)
    fd = FrequencyDomainSolution(circuit, w_max=w_max)
    ws = [float(w) for w in fd.w]
    f = facts(comps, ws)
    getter = fd.get_voltage if kind == 'Vper' else fd.get_current
    X = [complex(x) for x in getter('P')[1]]
    fs = fourier_series(periodic_function(wave)(period=2 * np.pi / w0, amplitude=A, phase=phi))
    canon = dict(op='harmonic_line', source=kind, wave=wave, dyadic_w0=Fraction(w0).denominator <= 2 ** 20, second_source=extra is not None, **f)
    out.nontrivial(('harmonic_lines', kind, wave, extra is not None, round(math.log10(w0))))
    # every retained harmonic must be represented by a listed frequency
    seen = set()
    for wk, xk in zip(ws, X):
        q = Fraction(wk) / Fraction(w0)
        k = int(math.floor(q + Fraction(1, 2)))
        if abs(Fraction(wk) - k * Fraction(w0)) > Fraction(W_RES):
            want = 0j; k = None          # not a harmonic of this source: replaced by a short / an open circuit
        else:
            want = fs.amplitude(k) * cmath.exp(1j * fs.phase(k)); seen.add(k)
        if not core.close(xk, want, abs(A), 1e-9):
            out.spec_fail(dict(canon, symptom='line_differs_from_harmonic'),
                          f'{"voltage" if kind == "Vper" else "current"} line of the periodic source at w={wk!r} (harmonic {k} of w0={w0!r}) is {xk}, '
                          f'fourier_series gives amplitude·exp(j·phase) = {want}', P, impl=dict(line=xk, w=wk), spec=dict(k=k, harmonic=want), case=case)
            return
    missing = [k for k in range(0, n_harm + 1) if k not in seen]
    if missing:
        out.spec_fail(dict(canon, symptom='harmonic_not_analysed'), f'harmonics {missing[:5]} ≤ w_max are represented by no analysed frequency', P,
                      impl=dict(w=ws[:8]), case=case)
        return
    # projection of the reconstructed waveform on every retained harmonic (single periodic source only)
    if extra is None:
        td = TimeDomainSolution(circuit, w_max=w_max)
        fn = td.get_voltage('P') if kind == 'Vper' else td.get_current('P')
        N = 4 * (n_harm + 2)
        t = np.arange(N) * (2 * np.pi / w0 / N)
        v = np.array(fn(t), dtype=float)
        for k in range(0, n_harm + 1):
            c = np.sum(v * np.exp(-1j * k * w0 * t)) / N * (1 if k == 0 else 2)
            want = fs.amplitude(k) * cmath.exp(1j * fs.phase(k))
            if k == 0: want = want.real
            if not core.close(c, want, abs(A), 1e-8):
                out.spec_fail(dict(canon, symptom='projection_differs_from_harmonic'),
                              f'projection of the reconstructed waveform on harmonic {k} of w0={w0!r} is {c}, fourier_series gives {want}', P,
                              impl=dict(c=c), spec=dict(k=k, harmonic=want), case=case)
                return
    out.count('harmonic_lines_ok')

C09_SCALES = [1e-9, 1e-6, 1e-3, 1e3, 1e6, 1e9]

def scale_comps(comps, k):
    """all impedances × k (R·k, L·k, C/k, internal R·k, internal G/k), current sources ÷ k: every voltage and
    potential of the circuit stays what it was, every current is divided by k"""
    out = []
    for c in comps:
        c = dict(c); kind = c['kind']
        if kind in ('R', 'L'): c['v'] = c['v'] * k
        elif kind == 'C': c['v'] = c['v'] / k
        elif kind in ('Idc', 'Iac', 'Iper'):
            c['v'] = c['v'] / k
            if c.get('G'): c['G'] = c['G'] / k
        elif kind in ('Vdc', 'Vac', 'Vper') and c.get('R'): c['R'] = c['R'] * k
        out.append(c)
    return out

def _equil_cond(A):
    A = np.array(A, dtype=complex)
    if not A.size: return 1.0
    try:
        for _ in range(6):
            r = np.sqrt(np.max(np.abs(A), axis=1)); c = np.sqrt(np.max(np.abs(A), axis=0))
            r[r == 0] = 1; c[c == 0] = 1
            A = A / r[:, None] / c[None, :]
        v = float(np.linalg.cond(A))
        return v if math.isfinite(v) else float('inf')
    except Exception:
        return float('inf')

def check_scale_invariance(ctx, out, comps, w_max, k, rng):
    """unit scales: the same circuit in other units (impedances × k, current sources ÷ k) must report the same
    spectral lines and time functions for potentials and voltages and 1/k times the currents — compared purely
    relatively, guarded by the condition number of the equilibrated per-frequency systems"""
    from CircuitCalculator.Circuit.solution import FrequencyDomainSolution, TimeDomainSolution
    from CircuitCalculator.Circuit.circuit import transform_circuit
    from CircuitCalculator.Network.NodalAnalysis import node_analysis as na
    out.evaluations += 1
    c2 = scale_comps(comps, k)
    P = dict(circuit=pretty(c2), w_max=w_max, impedance_scale=k)
    case = dict(kind='scale', comps=comps, w_max=w_max, k=k)
    try:
        f1 = FrequencyDomainSolution(mk_circuit(comps), w_max=w_max); f2 = FrequencyDomainSolution(mk_circuit(c2), w_max=w_max)
        t1 = TimeDomainSolution(mk_circuit(comps), w_max=w_max); t2 = TimeDomainSolution(mk_circuit(c2), w_max=w_max)
    except Exception as e:
        out.count('scaled_solution_error:' + tag(e)); return
    ws = [float(w) for w in f1.w]
    if [float(w) for w in f2.w] != ws:
        out.spec_fail(dict(op='unit_scale', symptom='frequency_list_changes', impedance_scale='small' if k < 1 else 'large'),
                      'the analysed frequencies depend on the unit of impedance', P, case=case); return
    for circ in (mk_circuit(comps), mk_circuit(c2)):
        for w in ws:
            if not (_equil_cond(na.nodal_analysis_coefficient_matrix(transform_circuit(circ, w))) < 1e6):
                out.skip('ill_conditioned'); return
    ids, nodes = quantities(comps)
    f = facts(comps, ws)
    out.nontrivial(('unit_scale', k, len(ws), len(comps)))
    t = rng.uniform(0, 5)
    # natural magnitudes of the original circuit: an exact zero is reported as rounding noise of that size
    vmax = max([abs(complex(x)) for n in ids for x in f1.get_voltage(n)[1]] + [abs(complex(x)) for n in nodes for x in f1.get_potential(n)[1]] + [1e-300])
    imax = max([abs(complex(x)) for n in ids for x in f1.get_current(n)[1]] + [1e-300])
    rs = [c['v'] for c in comps if c['kind'] == 'R'] or [1.0]
    ref_v = max(vmax, imax * max(rs)); ref_i = max(imax, vmax / min(rs))
    for kind, names, factor in (('potential', nodes, 1.0), ('voltage', ids, 1.0), ('current', ids, k)):
        lines1 = {n: [complex(x) for x in getattr(f1, 'get_' + kind)(n)[1]] for n in names}
        lines2 = {n: [complex(x) * factor for x in getattr(f2, 'get_' + kind)(n)[1]] for n in names}
        ref = ref_i if kind == 'current' else ref_v
        for n in names:
            for wk, a, b in zip(ws, lines1[n], lines2[n]):
                if not (abs(a - b) <= 1e-6 * ref):
                    out.spec_fail(dict(op='unit_scale', symptom='line_depends_on_unit', quantity=kind, impedance_scale='small' if k < 1 else 'large', **f),
                                  f'{kind} line of {n} at w={wk}: {a} in the original units, {b} (rescaled) with impedances ×{k:g}', P,
                                  impl=dict(a=a, b=b), case=case)
                    return
            a = float(getattr(t1, 'get_' + kind)(n)(t)); b = float(getattr(t2, 'get_' + kind)(n)(t)) * factor
            if not (abs(a - b) <= 1e-6 * ref * max(1, len(ws))):
                out.spec_fail(dict(op='unit_scale', symptom='time_function_depends_on_unit', quantity=kind, impedance_scale='small' if k < 1 else 'large', **f),
                              f'{kind} of {n} at t={t}: {a} in the original units, {b} (rescaled) with impedances ×{k:g}', P, impl=dict(a=a, b=b), case=case)
                return
    out.count('unit_scale_ok')

# --------------------------------------------------------------------------- driver of the cases

def run_solution_case(ctx, out, comps, w_max, rng):
    from CircuitCalculator.Circuit.circuit import frequency_components
    try:
        ws = [float(w) for w in frequency_components(mk_circuit(comps), w_max)]
    except Exception:
        return
    if len(ws) > 14: return
    check_gates(ctx, out, comps, ws)
    try:
        ok = wellposed_everywhere(ctx, comps, ws)
        for s in [c for c in comps if is_source(c)]:
            ok = ok and wellposed_everywhere(ctx, alone(comps, s['id']), ws)
    except Exception as e:
        out.count('transform_error:' + tag(e)); return
    if not ok:
        out.count('illposed_at_some_frequency'); return
    r = check_lines_and_time(ctx, out, comps, w_max, rng)
    if r is None: return
    td, ws, scale = r
    check_kcl(ctx, out, comps, w_max, td, ws, scale, rng)
    check_superposition(ctx, out, comps, w_max, td, ws, scale, rng)
    check_two_sided(ctx, out, comps, w_max)
    for k in rng.sample(C09_SCALES, 2):
        check_scale_invariance(ctx, out, comps, w_max, k, rng)

EPS = 2.0 ** -20      # < w_resolution, exactly representable next to the dyadic pool
D1, D2 = 7 / 8192, 9 / 8192     # 1, 1+D1, 1+D2: D1 and D2-D1 are within the resolution, D2 is not — a chain
# high absolute frequencies a few rad/s apart (beat set-ups): far outside the absolute resolution, far inside any
# tolerance that is relative to the frequency (added after seeded change C09-5A, np.isclose with its default rtol)
HIGH_W = [2.0 ** 17, 2.0 ** 17 + 0.5, 2.0 ** 17 + 2.0, 2.0 ** 17 - 1.0, 2.0 ** 20, 2.0 ** 20 + 1.0, 2.0 ** 20 + 0.25, 2.0 ** 14 + 0.125]

CORPUS = [
    # DESIGN §6: sources at w and w + 1e-9
    ([dict(kind='Vac', id='V1', nodes=['1', '0'], v=1.0, w=1.0), dict(kind='Vac', id='V2', nodes=['2', '1'], v=1.0, w=1.0 + 1e-9),
      dict(kind='R', id='R', nodes=['2', '0'], v=1.0), dict(kind='gnd', id='gnd', nodes=['0'])], 10.0),
    # a sinusoidal source on a harmonic of a periodic one: 3·0.1 ≠ 0.3 in binary64
    ([dict(kind='Vper', id='Vp', nodes=['1', '0'], v=1.0, w=0.1, wave='rect'), dict(kind='Vac', id='V2', nodes=['2', '1'], v=1.0, w=0.3),
      dict(kind='R', id='R', nodes=['2', '0'], v=1.0), dict(kind='gnd', id='gnd', nodes=['0'])], 0.45),
    # chain: 1.0, 1.0009, 1.0011 — the middle source lies within the resolution of both kept frequencies
    ([dict(kind='Vac', id='V1', nodes=['1', '0'], v=1.0, w=1.0), dict(kind='Vac', id='V2', nodes=['2', '1'], v=1.0, w=1.0009),
      dict(kind='Vac', id='V3', nodes=['3', '2'], v=1.0, w=1.0011), dict(kind='R', id='R', nodes=['3', '0'], v=1.0),
      dict(kind='gnd', id='gnd', nodes=['0'])], 10.0),
    # sinusoid on harmonic 3 of w0 = 0.7 (3·0.7 = 2.0999999999999996 in binary64), rect with a phase so that t = 0 is not a zero
    ([dict(kind='Vper', id='Vp', nodes=['1', '0'], v=1.0, w=0.7, wave='rect', phi=1.0), dict(kind='Iac', id='I2', nodes=['0', '2'], v=1.0, w=2.1, phi=0.5),
      dict(kind='R', id='R', nodes=['2', '1'], v=1.0), dict(kind='R', id='R0', nodes=['2', '0'], v=2.0), dict(kind='gnd', id='gnd', nodes=['0'])], 3.0),
    # bit-equal coincidence: merged
    ([dict(kind='Vper', id='Vp', nodes=['1', '0'], v=1.0, w=2.0, wave='saw', phi=1.0), dict(kind='Iac', id='I2', nodes=['2', '0'], v=1.0, w=4.0),
      dict(kind='R', id='R1', nodes=['2', '1'], v=1.0), dict(kind='R', id='R2', nodes=['2', '0'], v=2.0), dict(kind='C', id='C', nodes=['2', '0'], v=0.5),
      dict(kind='gnd', id='gnd', nodes=['0'])], 9.0),
    # DC + AC + periodic
    ([dict(kind='Vdc', id='V0', nodes=['1', '0'], v=2.0), dict(kind='R', id='R1', nodes=['1', '2'], v=1.0), dict(kind='L', id='L', nodes=['2', '3'], v=0.5),
      dict(kind='R', id='R2', nodes=['3', '0'], v=2.0), dict(kind='Iac', id='I1', nodes=['0', '3'], v=1.0, w=1.5, phi=1.0),
      dict(kind='gnd', id='gnd', nodes=['0'])], 5.0),
]

def run(ctx, out):
    out.rule = ('RLC circuits with 1–3 sources (DC, sinusoidal, periodic rect/tri/saw/cos/sin; ideal and with internal resistance / '
                'conductance; frequencies dyadic so that harmonics are exact, including bit-equal coincidences, coincidences within the '
                'resolution that are not bit-equal, w_max on / off harmonics, negative and zero w_max, w0 = 0); a case is non-trivial '
                'when the frequency list is non-empty and every per-frequency network is well-posed; distinct by (check, list length, '
                'number of sources, periodic sources, near-coincidence, lossy source at a foreign frequency)')
    rng = ctx.rng('c09')
    for comps, w_max in CORPUS:
        exact = all(Fraction(src_w(c)).denominator < 2 ** 12 for c in comps if is_source(c))
        check_freqs(ctx, out, comps, w_max, exact)
        run_solution_case(ctx, out, comps, w_max, rng)
    # frequency lists: many, cheap
    for k in range(300 if ctx.quick else 5000):
        r = rng.random()
        pool = DYADIC_W + ([1.0 + EPS, 2.0 + EPS, 3.0 - EPS] if r < 0.3 else [1.0 + D1, 1.0 + D2, 1.0 + D1, 1.0 + D2] if r < 0.4 else [])
        if 0.4 <= r < 0.55: pool = HIGH_W + [1.0]
        comps = random_circuit(rng, w_pool=pool, kinds=[k_ for k_ in SOURCES if k_ not in ('Vper', 'Iper')] if 0.4 <= r < 0.55 else SOURCES)
        # (a periodic source with fundamental w = 0 is rejected at construction since fix 149a545 — property C19
        #  judges that; it is no valid input of C09 any more)
        if rng.random() < 0.1:
            comps.insert(0, dict(kind='Vcx', id='Vcx', nodes=['n0', 'x'], v=complex(1, 1)))
            comps.insert(0, dict(kind='R', id='Rx', nodes=['x', 'n0'], v=1.0))
        w_max = rng.choice([0.0, -1.0, 1.0, 2.0, 3.0, 4.5, 6.0, 7.75, 9.0, 12.0, 0.25])
        if 0.4 <= r < 0.55: w_max = rng.choice([2.0 ** 21, 2.0 ** 17 + 1.0, 1.0]); out.count('freqs_high_close')
        check_freqs(ctx, out, comps, w_max, True)
    # non-dyadic frequencies (tolerance tier)
    for k in range(60 if ctx.quick else 1000):
        comps = random_circuit(rng, w_pool=[0.1, 0.2, 0.3, 0.7, 1.1, 50.0, 100.0, 314.1592653589793])
        check_freqs(ctx, out, comps, rng.choice([0.35, 1.0, 2.5, 350.0, 1000.0]), False)
    # solutions
    n_sol = 40 if ctx.quick else 800
    for k in range(n_sol):
        if ctx.time_left() < 20: out.notes.append(f'stopped after {k} solution cases (budget)'); break
        r = rng.random()
        pool = DYADIC_W + ([1.0 + EPS, 2.0 + EPS] if r < 0.2 else [1.0 + D1, 1.0 + D2, 1.0 + D1, 1.0 + D2, 1.0] if r < 0.3 else [])
        hi = 0.3 <= r < 0.42
        if hi: pool = HIGH_W[:4]; out.count('solution_high_close')
        comps = random_circuit(rng, w_pool=pool, kinds=['Vac', 'Iac', 'Vdc', 'Vac', 'Iac'] if hi else SOURCES, n_src=rng.choice([2, 3]) if hi else None)
        run_solution_case(ctx, out, comps, 2.0 ** 21 if hi else rng.choice([0.0, 2.0, 4.5, 6.0]), rng)
    # harmonics of periodic sources with non-dyadic fundamentals, ≥ 50 harmonics each
    FUND = [2 * math.pi * 50, 2 * math.pi * 60, 0.7, 0.1, 0.3, 1 / 3, 1e3 * math.pi, 2.0, 0.75]
    rngh = ctx.rng('harmonics')
    funds = FUND + [round(rngh.uniform(0.05, 50), 3) for _ in range(4 if ctx.quick else 60)] + \
        [float(f'{rngh.uniform(1, 9.99):.3g}') * 10.0 ** rngh.randint(-2, 4) for _ in range(3 if ctx.quick else 60)]
    for i, w0 in enumerate(funds):
        if ctx.time_left() < 15: break
        for kind in ('Vper', 'Iper'):
            wave = WAVES[(i + (kind == 'Iper')) % len(WAVES)] if ctx.quick else rngh.choice(WAVES)
            check_harmonic_lines(ctx, out, kind, wave, rngh.choice([1.0, -2.0, 0.5]), w0, rngh.choice(PHASES), rngh.randint(50, 60))
    # a sinusoidal source that coincides with a harmonic within the resolution (from below / above / exactly)
    for w0, k in [(0.1, 3), (0.7, 3), (0.1, 7), (2 * math.pi * 50, 15), (1 / 3, 3), (0.3, 41)]:
        for kind in ('Vper', 'Iper'):
            for wx in (float(Fraction(k) * Fraction(w0)), k * w0, float(Fraction(str(round(k * w0, 6))))):
                ex = dict(kind=rngh.choice(['Vac', 'Iac']), v=1.0, w=wx, phi=0.5)
                check_harmonic_lines(ctx, out, kind, rngh.choice(['rect', 'saw', 'tri']), 1.0, w0, 0.25, max(k + 2, 12), extra=ex)
    # a sinusoidal source at a frequency that is NOT a harmonic: there the periodic source must be inert — a voltage source a
    # short (own voltage 0), a current source an open (own current 0)
    for w0, q in [(0.7, 2.5), (2.0, 1.25), (0.1, 3.5), (2 * math.pi * 50, 0.4)]:
        for kind in ('Vper', 'Iper'):
            for exk in ('Vac', 'Iac'):
                ex = dict(kind=exk, v=1.5, w=q * w0, phi=0.5)
                check_harmonic_lines(ctx, out, kind, rngh.choice(['rect', 'saw', 'tri', 'sin']), 1.0, w0, 0.25, 6, extra=ex)
    # reconstruction of periodic waveforms
    for wave in WAVES:
        for (V, w0, phi, w_max) in [(1.0, 2.0, 0.0, 41.0), (-2.0, 0.5, 1.0, 30.0)] if ctx.quick else \
                [(1.0, 2.0, 0.0, 41.0), (-2.0, 0.5, 1.0, 30.0), (0.5, 1.0, -2.0, 8.5), (3.0, 4.0, 2.5, 100.0)]:
            check_reconstruction(ctx, out, wave, V, w0, phi, w_max)

def replay(ctx, out, rp):
    case = rp.get('case')
    if not case:
        raise SystemExit('replay file carries no case')
    k = case['kind']
    rng = ctx.rng('replay')
    if k == 'freqs':
        check_freqs(ctx, out, case['comps'], case['w_max'], case.get('exact', True))
    elif k in ('solution', 'two_sided'):
        check_freqs(ctx, out, case['comps'], case['w_max'], False)
        run_solution_case(ctx, out, case['comps'], case['w_max'], rng)
    elif k == 'scale':
        check_scale_invariance(ctx, out, case['comps'], case['w_max'], case['k'], rng)
    elif k == 'harmonic_lines':
        check_harmonic_lines(ctx, out, case['src'], case['wave'], case['A'], case['w0'], case['phi'], case['n_harm'], extra=case.get('extra'))
    elif k == 'reconstruction':
        check_reconstruction(ctx, out, case['wave'], case['V'], case['w0'], case['phi'], case['w_max'])
