"""
extract_solution.py — translator for the accessor formulas of the solution classes
(tie of property C05 to the source):

  Network/NodalAnalysis/solution.py  NodalAnalysisSolution.get_voltage / get_power
  Circuit/solution.py                DCSolution, ComplexSolution, TimeDomainSolution,
                                     FrequencyDomainSolution (_series + getters), TransientSolution.get_power
      ─▶ lean/CC/Gen/Solution.lean   (Mathlib-free; generic over a type K with notation classes)

Each method body is translated expression by expression.  What a method obtains from elsewhere
becomes a parameter of the generated definition:
  self._solution.get_voltage/current/potential(..)  ↦  v, i, phi        (the network solution's values)
  [solution.get_X(..) for solution in self._solutions] ↦ vs, is_, phis (one value per frequency), self.w ↦ ws
  self.get_voltage(..)[1] / self.get_current(..)[1] of TransientSolution ↦ vser, iser (sample series)
  x.real / x.imag ↦ re x / im x;  np.conj(x), x.conjugate() ↦ conj x;  np.sqrt(2) ↦ r2;
  np.abs / np.angle / np.cos / np.sin ↦ abs / angle / cos / sin;  self.peak_values ↦ peak : Bool;
  an integer literal n ↦ ((n : Nat) : K).
Anything else raises ExtractError.

TransientSolution getters (tie of C19 / C12 to the source): every getter `get_potential / get_voltage /
get_current / get_power` must be `def g(self, <p>): return <time>, <E>` — one statement, no decorator, no
default — and `<E>` is translated into the expression tree `TExpr` (generated `transientTable`, one row per getter):
  self._x ↦ .x;  self._u ↦ .u;  self._ssm.<m>(<name>) ↦ .ssm "<m>" "<name>";  self.get_*(<name>)[1] ↦ .series "get_*" "<name>";
  a @ b ↦ .matmul;  a + b ↦ .add;  a - b ↦ .sub;  a * b ↦ .mul;  -a ↦ .neg;  a.T ↦ .transpose;
  np.reshape(a, (-1,)) ↦ .flatten.
A getter that wraps the row call (try/except, if, a local, a default for unknown ids) is outside the grammar: refusal.
`self._ssm` must be assigned exactly once in the class, in `__post_init__`, from a call of `nodal_state_space_model`
imported from `..Network.NodalAnalysis.state_space_model` (generated `transientSsm`).

Method bodies as trees (tie of C09 / C12 to the source; generated `methodTable : List PMethod`): `__post_init__`, `_series`
and the four getters of TimeDomainSolution / FrequencyDomainSolution and `__post_init__` of TransientSolution are
translated statement by statement into `PStmt` / `PExpr` (a small Python AST, see PEXPR_LEAN for the grammar):
  x = E / self.a = E / a, b, c = E ↦ .assign;  E ↦ .expr;  return E ↦ .ret;  `if C: return E` ↦ .ifReturn;  `if C: E` ↦ .ifExpr;
  `x = {…dict comprehension…}` ↦ .verbatim x "<source text>" (recorded, not translated);
  names, self.a, e.a, non-negative integers, True/False/None, f(args, k=v) with f a bare or `np.`-dotted name ↦ .call,
  any other callee ↦ .apply, lists, tuples, one-generator list comprehensions without `if`, one-argument lambdas,
  + - * / @, unary minus, e[i], slices, `a if c else b`, single comparisons, two-operand `and`.
Everything else (loops, nested defs, generator expressions, try, with, augmented assignment, decorators, defaults,
strings, floats, `or`, starred arguments, an extra or missing method in one of the three classes) raises ExtractError.
"""
from __future__ import annotations
import ast
from extract import generator, parse, ExtractError

def refuse(rel, node, msg):
    raise ExtractError(f'{rel}:{getattr(node, "lineno", "?")}: {msg}')

def dotted(e):
    if isinstance(e, ast.Name): return e.id
    if isinstance(e, ast.Attribute):
        b = dotted(e.value)
        return None if b is None else f'{b}.{e.attr}'
    return None

def classes(tree):
    return {st.name: st for st in tree.body if isinstance(st, ast.ClassDef)}

def methods(cls):
    return {st.name: st for st in cls.body if isinstance(st, ast.FunctionDef)}

ROLE = {'get_voltage': 'v', 'get_current': 'i', 'get_potential': 'phi'}
FUN1 = {'np.abs': 'abs', 'np.angle': 'angle', 'np.cos': 'cos', 'np.sin': 'sin', 'np.conj': 'conj'}
OPS = {ast.Add: '+', ast.Sub: '-', ast.Mult: '*', ast.Div: '/'}

class Ctx:
    """translation context of one class"""
    def __init__(self, rel, prefix, params, prim, own):
        self.rel = rel
        self.prefix = prefix          # lean name prefix of the class
        self.params = params          # parameter list (lean binder text, argument text)
        self.prim = prim              # python expression text -> lean term (parameters)
        self.own = own                # method names of the class that are generated (callable)
        self.env = {}                 # local names

    def call_own(self, name):
        return f'({self.prefix}_{name} {self.params[1]})'

def tr(e, cx: Ctx) -> str:
    R = cx.rel
    u = ast.unparse(e)
    if u in cx.prim:
        return cx.prim[u]
    if isinstance(e, ast.Name):
        if e.id in cx.env: return cx.env[e.id]
        refuse(R, e, f'unknown name {e.id}')
    if isinstance(e, ast.Constant) and isinstance(e.value, int) and not isinstance(e.value, bool) and e.value >= 0:
        return f'(({e.value} : Nat) : K)'
    if isinstance(e, ast.BinOp) and type(e.op) in OPS:
        return f'({tr(e.left, cx)} {OPS[type(e.op)]} {tr(e.right, cx)})'
    if isinstance(e, ast.UnaryOp) and isinstance(e.op, ast.USub):
        return f'(-{tr(e.operand, cx)})'
    if isinstance(e, ast.Attribute) and e.attr in ('real', 'imag'):
        return f'({"re" if e.attr == "real" else "im"} {tr(e.value, cx)})'
    if isinstance(e, ast.Call):
        f = dotted(e.func)
        if f == 'np.sqrt' and len(e.args) == 1 and ast.unparse(e.args[0]) == '2' and not e.keywords:
            return 'r2'
        if f in FUN1 and len(e.args) == 1 and not e.keywords:
            return f'({FUN1[f]} {tr(e.args[0], cx)})'
        if f == 'np.array' and len(e.args) == 1 and not e.keywords:
            return tr(e.args[0], cx)
        if isinstance(e.func, ast.Attribute) and e.func.attr == 'conjugate' and not e.args and not e.keywords:
            return f'(conj {tr(e.func.value, cx)})'
        if f is not None and f.startswith('self.') and f[5:] in cx.own and not e.keywords:
            return cx.call_own(f[5:])
        if f == 'np.sum' and len(e.args) == 1 and isinstance(e.args[0], ast.ListComp) and not e.keywords:
            lc = e.args[0]
            if len(lc.generators) != 1 or lc.generators[0].ifs or lc.generators[0].is_async:
                refuse(R, e, 'comprehension outside the grammar')
            g = lc.generators[0]
            if not (isinstance(g.iter, ast.Call) and dotted(g.iter.func) == 'zip' and len(g.iter.args) == 2
                    and isinstance(g.target, ast.Tuple) and len(g.target.elts) == 2
                    and all(isinstance(x, ast.Name) for x in g.target.elts)):
                refuse(R, e, 'sum is not over `for a, b in zip(xs, ys)`')
            xs, ys = tr(g.iter.args[0], cx), tr(g.iter.args[1], cx)
            a, b = g.target.elts[0].id, g.target.elts[1].id
            saved = dict(cx.env)
            cx.env[a] = 'x.1'; cx.env[b] = 'x.2'
            body = tr(lc.elt, cx)
            cx.env = saved
            return f'(((List.zip {xs} {ys}).map fun x => {body}).sum)'
    refuse(R, e, f'expression outside the grammar: {u}')

REQUIRE = {'_require_component': ('component', 'component_id'), '_require_node': ('node', 'node_id')}
REQUIRE_BODIES = {
    '_require_component': "if component_id not in [component.id for component in circuit.components if component.type != 'ground']:\n    raise KeyError(component_id)",
    '_require_node': "if node_id not in [node for component in circuit.components for node in component.nodes]:\n    raise KeyError(node_id)",
}

def strip_requires(fn: ast.FunctionDef, rel: str):
    """leading `_require_component(self.circuit, component_id)` / `_require_node(self.circuit, node_id)`
    statements: returns (remaining statements, kind or None)"""
    stmts = list(fn.body)
    kind = None
    while stmts and isinstance(stmts[0], ast.Expr) and isinstance(stmts[0].value, ast.Call) \
            and dotted(stmts[0].value.func) in REQUIRE:
        c = stmts[0].value
        k, arg = REQUIRE[dotted(c.func)]
        if [ast.unparse(a) for a in c.args] != ['self.circuit', arg] or c.keywords:
            refuse(rel, stmts[0], 'identifier check is not `_require_*(self.circuit, <id>)`')
        kind = k
        stmts.pop(0)
    return stmts, kind

def guard_kind(fn: ast.FunctionDef, rel: str, guarded_own: dict):
    """how the getter validates its identifier before doing anything else: 'component' / 'node'
    (direct `_require_*` call, or its first statement calls a getter of the same class that does), or 'none'"""
    stmts, kind = strip_requires(fn, rel)
    if kind is not None:
        return kind
    if stmts and isinstance(stmts[0], ast.Assign) and isinstance(stmts[0].value, ast.Call):
        f = dotted(stmts[0].value.func) or ''
        if f.startswith('self.') and guarded_own.get(f[5:], 'none') != 'none' and len(stmts[0].value.args) == 1 \
                and isinstance(stmts[0].value.args[0], ast.Name):
            return guarded_own[f[5:]]
    return 'none'

def body_expr(fn: ast.FunctionDef, cx: Ctx) -> str:
    """straight-line body: local assignments, an optional `if self.peak_values: return A`, a final return"""
    cx.env = {}
    stmts = list(fn.body)
    pre = []
    while stmts and isinstance(stmts[0], ast.Assign):
        st = stmts.pop(0)
        if len(st.targets) != 1 or not isinstance(st.targets[0], ast.Name):
            refuse(cx.rel, st, 'assignment outside the grammar')
        cx.env[st.targets[0].id] = tr(st.value, cx)
    if len(stmts) == 2 and isinstance(stmts[0], ast.If) and ast.unparse(stmts[0].test) == 'self.peak_values' \
            and not stmts[0].orelse and len(stmts[0].body) == 1 and isinstance(stmts[0].body[0], ast.Return) \
            and isinstance(stmts[1], ast.Return):
        return f'if peak then {tr(stmts[0].body[0].value, cx)} else {tr(stmts[1].value, cx)}'
    if len(stmts) == 1 and isinstance(stmts[0], ast.Return):
        return tr(stmts[0].value, cx)
    refuse(cx.rel, fn, f'body of {fn.name} outside the grammar')

def lambda_body(fn: ast.FunctionDef, cx: Ctx) -> str:
    """TimeDomainSolution: assignments, then `return np.vectorize(lambda t: E)` or `return lambda t: E`"""
    cx.env = {}
    stmts, _ = strip_requires(fn, cx.rel)
    while stmts and isinstance(stmts[0], ast.Assign):
        st = stmts.pop(0)
        if len(st.targets) != 1 or not isinstance(st.targets[0], ast.Name):
            refuse(cx.rel, st, 'assignment outside the grammar')
        u = ast.unparse(st.value)
        if u in cx.prim:
            cx.env[st.targets[0].id] = cx.prim[u]
        elif isinstance(st.value, ast.Call) and (dotted(st.value.func) or '').startswith('self.') \
                and dotted(st.value.func)[5:] in cx.own:
            # a time function of the same class: applied to the lambda's argument below
            cx.env[st.targets[0].id] = ('fn', dotted(st.value.func)[5:])
        else:
            refuse(cx.rel, st, f'assignment outside the grammar: {u}')
    if len(stmts) != 1 or not isinstance(stmts[0], ast.Return):
        refuse(cx.rel, fn, f'body of {fn.name} outside the grammar')
    v = stmts[0].value
    if isinstance(v, ast.Call) and dotted(v.func) == 'np.vectorize' and len(v.args) == 1 and not v.keywords:
        v = v.args[0]
    if not (isinstance(v, ast.Lambda) and len(v.args.args) == 1 and not v.args.defaults):
        refuse(cx.rel, stmts[0], 'time function is not `lambda t: …`')
    t = v.args.args[0].arg
    env2 = {}
    for k, val in cx.env.items():
        env2[k] = val
    cx.env = {k: val for k, val in env2.items() if not isinstance(val, tuple)}
    cx.env[t] = 't'
    fns = {k: val[1] for k, val in env2.items() if isinstance(val, tuple)}
    # applications f(t) of the time functions bound above
    class App(ast.NodeTransformer):
        def visit_Call(s, node):
            s.generic_visit(node)
            if isinstance(node.func, ast.Name) and node.func.id in fns and len(node.args) == 1 \
                    and isinstance(node.args[0], ast.Name) and node.args[0].id == t:
                return ast.Name(id=f'__fn_{fns[node.func.id]}', ctx=ast.Load())
            return node
    body = App().visit(v.body)
    for name in set(fns.values()):
        cx.env[f'__fn_{name}'] = f'({cx.prefix}_{name} {cx.params[1]} t)'
    return f'fun t => {tr(body, cx)}'

# ---- TransientSolution: the getters as a table of expression trees
TR_GETTERS = ('get_potential', 'get_voltage', 'get_current', 'get_power')
TR_BIN = {ast.MatMult: 'matmul', ast.Add: 'add', ast.Sub: 'sub', ast.Mult: 'mul'}

TEXPR_LEAN = '''/-- the value a `TransientSolution` getter returns, as an expression tree (translated from the Python AST):
`x` / `u` = `self._x` / `self._u`; `ssm m a` = `self._ssm.m(a)` (`a` a bare name); `series g a` = `self.g(a)[1]`;
`matmul` = `@`, `add` / `sub` / `mul` = numpy `+` / `-` / `*`, `neg` = unary minus, `transpose` = `.T`,
`flatten a` = `np.reshape(a, (-1,))` -/
inductive TExpr where
  | x
  | u
  | ssm (accessor arg : String)
  | series (getter arg : String)
  | matmul (a b : TExpr)
  | add (a b : TExpr)
  | sub (a b : TExpr)
  | mul (a b : TExpr)
  | neg (a : TExpr)
  | transpose (a : TExpr)
  | flatten (a : TExpr)
deriving DecidableEq, Repr

/-- one getter `def getter(self, param): return time, value` of `TransientSolution` -/
structure TransientRow where
  getter : String
  param : String
  time : String
  value : TExpr
deriving DecidableEq, Repr
'''

def texpr(e, rel) -> str:
    """value expression of a TransientSolution getter ↦ `TExpr` term; refuses outside the grammar"""
    u = ast.unparse(e)
    if u == 'self._x': return '.x'
    if u == 'self._u': return '.u'
    if isinstance(e, ast.BinOp) and type(e.op) in TR_BIN:
        return f'(.{TR_BIN[type(e.op)]} {texpr(e.left, rel)} {texpr(e.right, rel)})'
    if isinstance(e, ast.UnaryOp) and isinstance(e.op, ast.USub):
        return f'(.neg {texpr(e.operand, rel)})'
    if isinstance(e, ast.Attribute) and e.attr == 'T':
        return f'(.transpose {texpr(e.value, rel)})'
    def one_name(c):
        return len(c.args) == 1 and not c.keywords and isinstance(c.args[0], ast.Name)
    if isinstance(e, ast.Call):
        f = dotted(e.func) or ''
        if f == 'np.reshape' and len(e.args) == 2 and not e.keywords and ast.unparse(e.args[1]) == '(-1,)':
            return f'(.flatten {texpr(e.args[0], rel)})'
        if f.startswith('self._ssm.') and f.count('.') == 2 and one_name(e):
            return f'(.ssm "{f[len("self._ssm."):]}" "{e.args[0].id}")'
    if isinstance(e, ast.Subscript) and ast.unparse(e.slice) == '1' and isinstance(e.value, ast.Call):
        f = dotted(e.value.func) or ''
        if f.startswith('self.') and f[5:] in TR_GETTERS and one_name(e.value):
            return f'(.series "{f[5:]}" "{e.value.args[0].id}")'
    refuse(rel, e, f'TransientSolution getter expression outside the grammar: {u}')

def transient_rows(cls: ast.ClassDef, rel: str) -> list[str]:
    ms = methods(cls)
    if sum(1 for st in cls.body if isinstance(st, ast.FunctionDef) and st.name in TR_GETTERS) != len(TR_GETTERS):
        refuse(rel, cls, 'TransientSolution does not define each of its four getters exactly once')
    for st in cls.body:
        if not isinstance(st, (ast.FunctionDef, ast.AnnAssign, ast.Expr)) or \
                (isinstance(st, ast.Expr) and not isinstance(st.value, ast.Constant)):
            refuse(rel, st, 'TransientSolution: class-level statement outside the grammar (a getter could be rebound)')
        if isinstance(st, ast.FunctionDef) and st.name in ('__getattr__', '__getattribute__'):
            refuse(rel, st, 'TransientSolution intercepts attribute access')
    rows = []
    for name in TR_GETTERS:
        fn = ms[name]
        a = fn.args
        if fn.decorator_list or a.posonlyargs or a.vararg or a.kwonlyargs or a.kwarg or a.defaults or a.kw_defaults \
                or len(a.args) != 2 or a.args[0].arg != 'self':
            refuse(rel, fn, f'TransientSolution.{name} is not a plain `def {name}(self, <id>)`')
        if len(fn.body) != 1 or not isinstance(fn.body[0], ast.Return) or not isinstance(fn.body[0].value, ast.Tuple) \
                or len(fn.body[0].value.elts) != 2:
            refuse(rel, fn, f'TransientSolution.{name} is not the single statement `return <time>, <series>` '
                            '(a guard, a try/except or a default around the row accessors is outside the grammar)')
        t, v = fn.body[0].value.elts
        if not (isinstance(t, ast.Attribute) and dotted(t) is not None):
            refuse(rel, t, f'TransientSolution.{name}: time axis is not an attribute of self')
        rows.append(f'{{ getter := "{name}", param := "{a.args[1].arg}", time := "{dotted(t)}",\n    value := {texpr(v, rel)} }}')
    return rows

def transient_ssm(tree: ast.Module, cls: ast.ClassDef, rel: str) -> str:
    """where `self._ssm` comes from: (constructor, module it is imported from, arguments)"""
    hits = []
    for fn in cls.body:
        if not isinstance(fn, ast.FunctionDef): continue
        for node in ast.walk(fn):
            targets = node.targets if isinstance(node, ast.Assign) else [node.target] if isinstance(node, (ast.AugAssign, ast.AnnAssign)) else \
                [node.optional_vars] if isinstance(node, ast.withitem) and node.optional_vars is not None else \
                [node.target] if isinstance(node, (ast.For, ast.NamedExpr)) else node.targets if isinstance(node, ast.Delete) else []
            for tg in targets:
                for sub in ast.walk(tg):
                    if isinstance(sub, ast.Attribute) and dotted(sub) == 'self._ssm':
                        hits.append((fn.name, node))
            if isinstance(node, ast.Call) and dotted(node.func) in ('setattr', 'object.__setattr__', 'delattr'):
                refuse(rel, node, 'TransientSolution rebinds attributes dynamically')
    if len(hits) != 1 or hits[0][0] != '__post_init__' or not isinstance(hits[0][1], ast.Assign) or len(hits[0][1].targets) != 1 \
            or not isinstance(hits[0][1].value, ast.Call) or not isinstance(hits[0][1].value.func, ast.Name):
        refuse(rel, cls, 'TransientSolution._ssm is not assigned exactly once, in __post_init__, from a constructor call')
    call = hits[0][1].value
    ctor = call.func.id
    mods = [(st.level, st.module) for st in tree.body if isinstance(st, ast.ImportFrom)
            for al in st.names if (al.asname or al.name) == ctor]
    bound_elsewhere = [st for st in tree.body if isinstance(st, (ast.FunctionDef, ast.ClassDef)) and st.name == ctor] + \
        [st for st in tree.body if isinstance(st, ast.Assign) and any(isinstance(t, ast.Name) and t.id == ctor for t in st.targets)]
    if len(mods) != 1 or bound_elsewhere or mods[0][0] != 2:
        refuse(rel, hits[0][1], f'{ctor} is not bound by exactly one `from ..<module> import`')
    args = [ast.unparse(x) for x in call.args] + [f'{k.arg}={ast.unparse(k.value)}' for k in call.keywords]
    return f'("{ctor}", "{mods[0][1]}", [' + ', '.join(f'"{x}"' for x in args) + '])'


# ---- method bodies as trees (generic small Python AST)
PEXPR_LEAN = """/-- a Python expression as a tree (translated node by node from the Python AST):
`name n` = a local / global name; `self a` = `self.a`; `attr e a` = `e.a`; `nat n` = integer literal; `tt`/`ff`/`none_` = `True`/`False`/`None`;
`call f args` = `f(args)` for a bare or `np.`-dotted callee name `f`; `apply f args` = `f(args)` for any other callee expression;
argument / element chains: `nil`, `pos e rest` (positional / element), `kw k e rest` (`k=e`);
`list es` = `[…]`, `tuple es` = `(…)`; `comp elt target iter` = `[elt for target in iter]`; `lam v body` = `lambda v: body`;
`bin op a b` for op ∈ + - * / @; `neg a` = `-a`; `index e i` = `e[i]`; `slice lo hi step` = `lo:hi:step` (`none_` = absent);
`ifexp c a b` = `a if c else b`; `cmp op a b` = `a op b` (one comparison); `and_ a b` = `a and b` -/
inductive PExpr where
  | name (n : String)
  | self (a : String)
  | attr (e : PExpr) (a : String)
  | nat (n : Nat)
  | tt
  | ff
  | none_
  | call (f : String) (args : PExpr)
  | apply (f : PExpr) (args : PExpr)
  | nil
  | pos (e rest : PExpr)
  | kw (k : String) (e rest : PExpr)
  | list (elts : PExpr)
  | tuple (elts : PExpr)
  | comp (elt target iter : PExpr)
  | lam (v : String) (body : PExpr)
  | bin (op : String) (a b : PExpr)
  | neg (a : PExpr)
  | index (e i : PExpr)
  | slice (lo hi step : PExpr)
  | ifexp (c a b : PExpr)
  | cmp (op : String) (a b : PExpr)
  | and_ (a b : PExpr)
deriving DecidableEq, Repr

/-- a statement of a method body: `assign t v` = `t = v` (`t` a name, `self.a` or a tuple of these); `expr e` = the expression
statement `e`; `ret e` = `return e`; `ifReturn c e` = `if c: return e`; `ifExpr c e` = `if c: e`;
`verbatim x text` = `x = <dict comprehension>` recorded as source text -/
inductive PStmt where
  | assign (target value : PExpr)
  | expr (e : PExpr)
  | ret (e : PExpr)
  | ifReturn (c e : PExpr)
  | ifExpr (c e : PExpr)
  | verbatim (target text : String)
deriving DecidableEq, Repr

/-- `def name(self, params…): body` of class `cls` -/
structure PMethod where
  cls : String
  name : String
  params : List String
  body : List PStmt
deriving DecidableEq, Repr
"""

P_BIN = {ast.Add: '+', ast.Sub: '-', ast.Mult: '*', ast.Div: '/', ast.MatMult: '@'}
P_CMP = {ast.Eq: '==', ast.NotEq: '!=', ast.Lt: '<', ast.LtE: '<=', ast.Gt: '>', ast.GtE: '>=', ast.In: 'in', ast.NotIn: 'not in'}

def lstr(s: str) -> str:
    return '"' + s.replace('\\', '\\\\').replace('"', '\\"').replace('\n', '\\n') + '"'

def pchain(items, rel) -> str:
    """argument / element chain; items: list of (keyword or None, ast expr)"""
    out = '.nil'
    for k, e in reversed(items):
        out = f'(.pos {pexpr(e, rel)} {out})' if k is None else f'(.kw {lstr(k)} {pexpr(e, rel)} {out})'
    return out

def pexpr(e, rel) -> str:
    """Python expression ↦ `PExpr` term; refuses outside the grammar"""
    if isinstance(e, ast.Name):
        return f'(.name {lstr(e.id)})'
    if isinstance(e, ast.Constant):
        if e.value is True: return '.tt'
        if e.value is False: return '.ff'
        if e.value is None: return '.none_'
        if isinstance(e.value, int) and e.value >= 0: return f'(.nat {e.value})'
        refuse(rel, e, f'constant outside the grammar: {ast.unparse(e)}')
    if isinstance(e, ast.Attribute):
        if isinstance(e.value, ast.Name) and e.value.id == 'self':
            return f'(.self {lstr(e.attr)})'
        if isinstance(e.value, ast.Name) and e.value.id == 'np':
            refuse(rel, e, f'numpy attribute outside a call: {ast.unparse(e)}')
        return f'(.attr {pexpr(e.value, rel)} {lstr(e.attr)})'
    if isinstance(e, ast.Call):
        if any(isinstance(a, ast.Starred) for a in e.args) or any(k.arg is None for k in e.keywords):
            refuse(rel, e, 'starred arguments')
        args = pchain([(None, a) for a in e.args] + [(k.arg, k.value) for k in e.keywords], rel)
        f = e.func
        if isinstance(f, ast.Name):
            return f'(.call {lstr(f.id)} {args})'
        if isinstance(f, ast.Attribute) and isinstance(f.value, ast.Name) and f.value.id == 'np':
            return f'(.call {lstr("np." + f.attr)} {args})'
        return f'(.apply {pexpr(f, rel)} {args})'
    if isinstance(e, ast.List):
        return f'(.list {pchain([(None, x) for x in e.elts], rel)})'
    if isinstance(e, ast.Tuple):
        return f'(.tuple {pchain([(None, x) for x in e.elts], rel)})'
    if isinstance(e, ast.ListComp):
        if len(e.generators) != 1 or e.generators[0].ifs or e.generators[0].is_async:
            refuse(rel, e, 'comprehension outside the grammar (one `for`, no `if`)')
        g = e.generators[0]
        def target(t):
            if isinstance(t, ast.Name): return f'(.name {lstr(t.id)})'
            if isinstance(t, ast.Tuple): return '(.tuple ' + pchain_t(t.elts) + ')'
            refuse(rel, t, 'comprehension target outside the grammar')
        def pchain_t(ts):
            out = '.nil'
            for t in reversed(ts): out = f'(.pos {target(t)} {out})'
            return out
        return f'(.comp {pexpr(e.elt, rel)} {target(g.target)} {pexpr(g.iter, rel)})'
    if isinstance(e, ast.Lambda):
        a = e.args
        if a.posonlyargs or a.vararg or a.kwonlyargs or a.kwarg or a.defaults or a.kw_defaults or len(a.args) != 1:
            refuse(rel, e, 'lambda outside the grammar (one plain argument)')
        return f'(.lam {lstr(a.args[0].arg)} {pexpr(e.body, rel)})'
    if isinstance(e, ast.BinOp) and type(e.op) in P_BIN:
        return f'(.bin {lstr(P_BIN[type(e.op)])} {pexpr(e.left, rel)} {pexpr(e.right, rel)})'
    if isinstance(e, ast.UnaryOp) and isinstance(e.op, ast.USub):
        return f'(.neg {pexpr(e.operand, rel)})'
    if isinstance(e, ast.Subscript):
        return f'(.index {pexpr(e.value, rel)} {pexpr(e.slice, rel)})'
    if isinstance(e, ast.Slice):
        opt = lambda x: '.none_' if x is None else pexpr(x, rel)
        return f'(.slice {opt(e.lower)} {opt(e.upper)} {opt(e.step)})'
    if isinstance(e, ast.IfExp):
        return f'(.ifexp {pexpr(e.test, rel)} {pexpr(e.body, rel)} {pexpr(e.orelse, rel)})'
    if isinstance(e, ast.Compare) and len(e.ops) == 1 and type(e.ops[0]) in P_CMP:
        return f'(.cmp {lstr(P_CMP[type(e.ops[0])])} {pexpr(e.left, rel)} {pexpr(e.comparators[0], rel)})'
    if isinstance(e, ast.BoolOp) and isinstance(e.op, ast.And) and len(e.values) == 2:
        return f'(.and_ {pexpr(e.values[0], rel)} {pexpr(e.values[1], rel)})'
    refuse(rel, e, f'expression outside the grammar of method trees: {ast.unparse(e)}')

def ptarget(t, rel) -> str:
    if isinstance(t, ast.Name): return f'(.name {lstr(t.id)})'
    if isinstance(t, ast.Attribute) and isinstance(t.value, ast.Name) and t.value.id == 'self': return f'(.self {lstr(t.attr)})'
    if isinstance(t, ast.Tuple):
        out = '.nil'
        for x in reversed(t.elts): out = f'(.pos {ptarget(x, rel)} {out})'
        return f'(.tuple {out})'
    refuse(rel, t, f'assignment target outside the grammar: {ast.unparse(t)}')

def pstmt(st, rel) -> str:
    if isinstance(st, ast.Assign) and len(st.targets) == 1:
        if isinstance(st.targets[0], ast.Name) and isinstance(st.value, ast.DictComp):
            return f'.verbatim {lstr(st.targets[0].id)} {lstr(ast.unparse(st.value))}'
        return f'.assign {ptarget(st.targets[0], rel)} {pexpr(st.value, rel)}'
    if isinstance(st, ast.Expr) and not isinstance(st.value, ast.Constant):
        return f'.expr {pexpr(st.value, rel)}'
    if isinstance(st, ast.Return) and st.value is not None:
        return f'.ret {pexpr(st.value, rel)}'
    if isinstance(st, ast.If) and not st.orelse and len(st.body) == 1:
        b = st.body[0]
        if isinstance(b, ast.Return) and b.value is not None:
            return f'.ifReturn {pexpr(st.test, rel)} {pexpr(b.value, rel)}'
        if isinstance(b, ast.Expr) and not isinstance(b.value, ast.Constant):
            return f'.ifExpr {pexpr(st.test, rel)} {pexpr(b.value, rel)}'
    refuse(rel, st, f'statement outside the grammar of method trees: {ast.unparse(st).splitlines()[0]}')

TREE_METHODS = {
    'TimeDomainSolution': (['__post_init__', 'get_voltage', 'get_current', 'get_potential', 'get_power'], []),
    'FrequencyDomainSolution': (['__post_init__', '_series', 'get_voltage', 'get_current', 'get_potential', 'get_power'], []),
    # of TransientSolution only __post_init__ becomes a tree (the getters are `transientTable`); `t` is the property returning `self._tout`
    'TransientSolution': (['__post_init__'], ['t', 'get_potential', 'get_voltage', 'get_current', 'get_power']),
}

def method_trees(cs: dict, rel: str) -> list[str]:
    rows = []
    for cname, (wanted, others) in TREE_METHODS.items():
        cls = cs[cname]
        defs = [st for st in cls.body if isinstance(st, (ast.FunctionDef, ast.AsyncFunctionDef, ast.ClassDef))]
        names = [d.name for d in defs]
        if sorted(names) != sorted(wanted + others):
            refuse(rel, cls, f'{cname}: the methods are not exactly {sorted(wanted + others)} (found {sorted(names)})')
        for st in cls.body:
            if not isinstance(st, (ast.FunctionDef, ast.AnnAssign, ast.Expr)) or \
                    (isinstance(st, ast.Expr) and not isinstance(st.value, ast.Constant)):
                refuse(rel, st, f'{cname}: class-level statement outside the grammar')
        ms = methods(cls)
        for name in wanted:
            fn = ms[name]
            a = fn.args
            if fn.decorator_list or a.posonlyargs or a.vararg or a.kwonlyargs or a.kwarg or a.defaults or a.kw_defaults \
                    or not a.args or a.args[0].arg != 'self':
                refuse(rel, fn, f'{cname}.{name} is not a plain `def {name}(self, …)`')
            body = [st for st in fn.body if not (isinstance(st, ast.Expr) and isinstance(st.value, ast.Constant))]
            params = ', '.join(lstr(x.arg) for x in a.args[1:])
            stmts = ',\n      '.join(pstmt(st, rel) for st in body)
            rows.append(f'{{ cls := {lstr(cname)}, name := {lstr(name)}, params := [{params}],\n    body := [\n      {stmts}] }}')
    return rows

SERIES_BODY = '''if self.one_sided:
    return (np.array(self.w), values)
ac = slice(1, None) if len(self.w) > 0 and self.w[0] == 0 else slice(0, None)
w = np.concatenate((-self.w[ac][::-1], self.w))
return (w, np.concatenate((np.conj(values[ac][::-1]) / 2, values[:len(self.w) - len(self.w[ac])], values[ac] / 2)))'''

SERIES_LEAN = '''/-- `FrequencyDomainSolution._series` (rigid template: the source text is compared verbatim).
`acDrop` = 1 when the list of frequencies starts with 0 (the DC line is kept once), else 0 -/
def fd_acDrop [DecidableEq K] (w : List K) : Nat := if 0 < w.length ∧ w.head? = some 0 then 1 else 0

def fd_series [DecidableEq K] (conj : K → K) (oneSided : Bool) (w values : List K) : List K × List K :=
  if oneSided then (w, values)
  else
    (((w.drop (fd_acDrop w)).reverse.map fun x => -x) ++ w,
     ((values.drop (fd_acDrop w)).reverse.map fun x => conj x / ((2 : Nat) : K))
       ++ values.take (w.length - (w.drop (fd_acDrop w)).length)
       ++ ((values.drop (fd_acDrop w)).map fun x => x / ((2 : Nat) : K)))
'''

@generator('Solution.lean')
def gen_solution(src) -> str:
    out = ['/- GENERATED by harness/extract_solution.py from /repo/src — do not edit. -/\n',
           'namespace CC.Gen.Sol\nsection\n',
           'variable {K : Type} [Zero K] [Add K] [Mul K] [Neg K] [Sub K] [Div K] [NatCast K]\n\n']
    # ---- Network/NodalAnalysis/solution.py
    rel = 'Network/NodalAnalysis/solution.py'
    cls = classes(parse(src, rel)).get('NodalAnalysisSolution')
    if cls is None: raise ExtractError(f'{rel}: class NodalAnalysisSolution not found')
    ms = methods(cls)
    cx = Ctx(rel, 'net', ('(conj : K → K) (phi1 phi2 i : K)', 'conj phi1 phi2 i'),
             {'self.get_potential(self.network[branch_id].node1)': 'phi1',
              'self.get_potential(self.network[branch_id].node2)': 'phi2',
              'self.get_current(branch_id)': 'i'}, ['get_voltage', 'get_power'])
    out.append('/-! ### NodalAnalysisSolution (phi1, phi2 = potentials of the branch\'s first / second node; i = its current) -/\n\n')
    for name in ('get_voltage', 'get_power'):
        if name not in ms: refuse(rel, cls, f'method {name} missing')
        out.append(f'def net_{name} {cx.params[0]} : K :=\n  {body_expr(ms[name], cx)}\n\n')
    # ---- Circuit/solution.py
    rel = 'Circuit/solution.py'
    cs = classes(parse(src, rel))
    def need(c):
        if c not in cs: raise ExtractError(f'{rel}: class {c} not found')
        return methods(cs[c])
    sol = {f'self._solution.{m}({a})': r for m, r in ROLE.items() for a in ('component_id', 'node_id')}
    # DCSolution
    ms = need('DCSolution')
    cx = Ctx(rel, 'dc', ('(re im : K → K) (v i phi : K)', 're im v i phi'), dict(sol),
             ['get_voltage', 'get_current', 'get_potential', 'get_power'])
    out.append('/-! ### DCSolution (v, i, phi = values of the network solution at w = 0) -/\n\n')
    for name in cx.own:
        if name not in ms: refuse(rel, cs['DCSolution'], f'method {name} missing')
        out.append(f'def dc_{name} {cx.params[0]} : K :=\n  {body_expr(ms[name], cx)}\n\n')
    # ComplexSolution
    ms = need('ComplexSolution')
    cx = Ctx(rel, 'cx', ('(conj : K → K) (r2 : K) (peak : Bool) (v i phi : K)', 'conj r2 peak v i phi'), dict(sol),
             ['get_voltage', 'get_current', 'get_potential', 'get_power'])
    out.append('/-! ### ComplexSolution (r2 = np.sqrt(2), peak = peak_values) -/\n\n')
    for name in cx.own:
        if name not in ms: refuse(rel, cs['ComplexSolution'], f'method {name} missing')
        out.append(f'def cx_{name} {cx.params[0]} : K :=\n  {body_expr(ms[name], cx)}\n\n')
    # TimeDomainSolution
    ms = need('TimeDomainSolution')
    prim = {'self.w': 'ws'}
    for m, r in (('get_voltage', 'vs'), ('get_current', 'is_'), ('get_potential', 'phis')):
        for a in ('component_id', 'node_id'):
            prim[f'[solution.{m}({a}) for solution in self._solutions]'] = r
    cx = Ctx(rel, 'td', ('(abs angle cos sin : K → K) (vs is_ phis ws : List K)', 'abs angle cos sin vs is_ phis ws'), prim,
             ['get_voltage', 'get_current', 'get_potential', 'get_power'])
    out.append('/-! ### TimeDomainSolution (vs, is_, phis = one phasor per listed frequency, ws = the frequencies) -/\n\n')
    for name in cx.own:
        if name not in ms: refuse(rel, cs['TimeDomainSolution'], f'method {name} missing')
        out.append(f'def td_{name} {cx.params[0]} : K → K :=\n  {lambda_body(ms[name], cx)}\n\n')
    # TransientSolution.get_power
    ms = need('TransientSolution')
    fn = ms.get('get_power')
    if fn is None or len(fn.body) != 1 or not isinstance(fn.body[0], ast.Return) or not isinstance(fn.body[0].value, ast.Tuple) \
            or len(fn.body[0].value.elts) != 2 or ast.unparse(fn.body[0].value.elts[0]) != 'self._tout':
        refuse(rel, fn or cs['TransientSolution'], 'TransientSolution.get_power is not `return self._tout, <series>`')
    e = fn.body[0].value.elts[1]
    names = {'self.get_voltage(component_id)[1]': 'vser', 'self.get_current(component_id)[1]': 'iser'}
    def series(e):
        u = ast.unparse(e)
        if u in names: return names[u]
        if isinstance(e, ast.BinOp) and type(e.op) in OPS:
            return f'(List.zipWith (fun a b => a {OPS[type(e.op)]} b) {series(e.left)} {series(e.right)})'
        refuse(rel, e, f'series expression outside the grammar: {u}')
    out.append('/-! ### TransientSolution.get_power (vser, iser = sampled voltage / current; numpy `*` is elementwise) -/\n\n')
    out.append(f'def tr_get_power (vser iser : List K) : List K :=\n  {series(e)}\n\n')
    # FrequencyDomainSolution
    ms = need('FrequencyDomainSolution')
    fn = ms.get('_series')
    if fn is None or '\n'.join(ast.unparse(st) for st in fn.body) != SERIES_BODY:
        refuse(rel, fn or cs['FrequencyDomainSolution'], 'FrequencyDomainSolution._series differs from the template the translator knows')
    for m, var in (('get_voltage', 'voltages'), ('get_current', 'currents'), ('get_potential', 'potentials'), ('get_power', 'power')):
        g = ms.get(m)
        arg = 'node_id' if m == 'get_potential' else 'component_id'
        want = f'{var} = np.array([solution.{m}({arg}) for solution in self._solutions])\nreturn self._series({var})'
        if g is None or '\n'.join(ast.unparse(st) for st in strip_requires(g, rel)[0]) != want:
            refuse(rel, g or cs['FrequencyDomainSolution'], f'FrequencyDomainSolution.{m} is not `_series` of the per-frequency values')
    out.append('/-! ### FrequencyDomainSolution -/\n\n')
    out.append(SERIES_LEAN)
    out.append('\n/-- every getter is `_series` of the per-frequency peak values of ComplexSolution -/\n')
    out.append('def fd_get [DecidableEq K] (conj : K → K) (oneSided : Bool) (w values : List K) : List K × List K :=\n'
               '  fd_series conj oneSided w values\n')
    # ---- identifier validation of the getters that iterate over a (possibly empty) list of solutions
    tree = parse(src, rel)
    fns = {st.name: st for st in tree.body if isinstance(st, ast.FunctionDef)}
    defined = []
    for name, want in REQUIRE_BODIES.items():
        f = fns.get(name)
        if f is not None:
            if [a.arg for a in f.args.args] != ['circuit', REQUIRE[name][1]] or '\n'.join(ast.unparse(st) for st in f.body) != want:
                refuse(rel, f, f'{name} is not the membership test the model assumes')
            defined.append(name)
    rows = []
    for cname in ('TimeDomainSolution', 'FrequencyDomainSolution'):
        ms = need(cname)
        guarded = {}
        for m in ('get_voltage', 'get_current', 'get_potential', 'get_power'):
            guarded[m] = guard_kind(ms[m], rel, guarded)
            rows.append(f'("{cname}", "{m}", "{guarded[m]}")')
    out.append('\n/-! ### identifier validation (`_require_component`: id of a non-ground component, else KeyError;\n'
               '`_require_node`: a terminal of some component, else KeyError) before the getter touches its list of solutions -/\n\n')
    out.append('def requireDefined : List String := [' + ', '.join(f'"{d}"' for d in defined) + ']\n\n')
    out.append('def requireTable : List (String × String × String) := [\n  ' + ',\n  '.join(rows) + ']\n')
    # ---- TransientSolution: getter table
    tcls = cs['TransientSolution']
    rows = transient_rows(tcls, rel)
    out.append('\n/-! ### TransientSolution getters (which row accessor of `self._ssm` each getter evaluates, with which argument,\n'
               'and how the rows are combined with the simulated state `self._x` and the input samples `self._u`) -/\n\n')
    out.append(TEXPR_LEAN)
    out.append('\ndef transientTable : List TransientRow := [\n  ' + ',\n  '.join(rows) + ']\n')
    out.append('\n/-- `self._ssm = <constructor>(<arguments>)` in `__post_init__`: (constructor, module it is imported from, arguments) -/\n')
    out.append(f'def transientSsm : String × String × List String :=\n  {transient_ssm(tree, tcls, rel)}\n')
    # ---- method bodies as trees (fresh parse: `lambda_body` above rewrites the tree it translates)
    out.append('\n/-! ### method bodies as trees: `__post_init__`, `_series` and the getters of TimeDomainSolution / FrequencyDomainSolution,\n'
               '`__post_init__` of TransientSolution (reading: CC/Model/SolutionEval.lean) -/\n\n')
    out.append(PEXPR_LEAN)
    out.append('\ndef methodTable : List PMethod := [\n  ' + ',\n  '.join(method_trees(classes(parse(src, rel)), rel)) + ']\n')
    out.append('\nend\nend CC.Gen.Sol\n')
    return ''.join(out)
