"""
gen_state.py — generators, adapters and oracles shared by the checks of group State
(C10 state-space realisation, C11 passivity, C12 transient simulation).

A *description* is
    dict(ground=<label>, comps=[dict(kind, id, n1, n2, val), ...])
with kind in R, C, L, V (ideal dc voltage source), I (ideal dc current source), and the two
special kinds I0 (dc current source of value 0) and Iac (ac current source, w != 0) used only
by the corpus.  `build_circuit` constructs the real `Circuit` through the repository's own
component constructors; `phasor_net` writes — independently of the repository's transformer —
the phasor network of the same circuit at complex frequency s = jw with one source of unit
amplitude and every other source set to zero (the Spec side of C10).
"""
from __future__ import annotations
import copy
import itertools, math
from fractions import Fraction
import numpy as np
import core, gen_net

REACTIVE = ('C', 'L')
SOURCES = ('V', 'I')

def Fr(x) -> Fraction:
    return x if isinstance(x, Fraction) else Fraction(*float(x).as_integer_ratio())

# --------------------------------------------------------------------------- names

CS_SAFE = ['A1', 'B', 'Ia', 'I1', 'Is', 'Iq', '0i', '1', 'I_', 'H9']           # all sort before 'J'
VL_SAFE_V = ['Vs', 'Vq', 'U1', 'K', 'V1', 'u', 'v0', 'Ve', 'W']                # all sort after 'J'
VL_SAFE_L = ['L', 'L1', 'L2', 'La', 'M', 'N3', 'l', 'm1', 'Lz', 'X']           #   "
ANY_POOL = ['R1', 'R2', 'C', 'C1', 'C2', 'a', 'Z', '9', 'Rx', 'Ca', 'D', 'Jc', 'c', 'r', 'Zz', 'E5', '00', 'k',
            'R10', 'R9', 'Cb', 'G', 'T', 'é', 'Ω', '_', 'b2']
ADV_POOL = ['A', 'M', 'Z', 'a', 'm', 'z', 'B2', 'N', 'Y', '1', '10', '9', 'L', 'Is', 'Vs', 'C', 'R', 'Q', 'K0', 'k0',
            'é', 'Ω', '_', 'V', 'I', 'x', 'W', 'D', 'h', 'S']

def pick_distinct(rng, pool, n, used):
    cand = [p for p in pool if p not in used]
    rng.shuffle(cand)
    out = []
    for c in cand[:n]:
        out.append(c); used.add(c)
    k = 0
    while len(out) < n:                      # pool exhausted: derive fresh names
        nm = f'{pool[k % len(pool)]}{k}'
        k += 1
        if nm not in used:
            out.append(nm); used.add(nm)
    return out

# --------------------------------------------------------------------------- generator

def random_desc(rng, n_reactive=None, safe=True, max_nodes=5, n_sources=None, n_res=None, zero_v=False):
    """connected multigraph, 1-5 reactive elements, 1-2 ideal sources, resistors; dyadic values.
    safe=True: every current-source id sorts before every voltage-source / inductor id and the
    inductors are listed alphabetically (the naming regime in which the implementation's
    column selection is right); everything else (capacitor / resistor names, node labels,
    capacitor listing order, terminal order) stays adversarial."""
    nr = rng.choice([1, 1, 2, 2, 2, 3, 3, 4, 5]) if n_reactive is None else n_reactive
    ns = rng.choice([1, 1, 2]) if n_sources is None else n_sources
    nres = rng.randint(1, 4) if n_res is None else n_res
    nb = nr + ns + nres
    n = rng.randint(2, max(2, min(max_nodes, nb)))
    pool = list(rng.choice(gen_net.LABEL_POOLS)); rng.shuffle(pool)
    labels = pool[:n]
    edges = [(labels[rng.randrange(k)], labels[k]) for k in range(1, n)]
    while len(edges) < nb:
        a, b = rng.sample(labels, 2)
        edges.append((a, b))
    rng.shuffle(edges)
    kinds = []
    for _ in range(nr): kinds.append(rng.choice(['C', 'L']))
    for _ in range(ns): kinds.append(rng.choice(['V', 'I']))
    kinds += ['R'] * nres
    rng.shuffle(kinds)
    used = set()
    ids = [None] * nb
    if safe:
        for kind, poolk in (('I', CS_SAFE), ('V', VL_SAFE_V), ('L', VL_SAFE_L)):
            idx = [i for i, k in enumerate(kinds) if k == kind]
            for i, nm in zip(idx, pick_distinct(rng, poolk, len(idx), used)): ids[i] = nm
        idx = [i for i, k in enumerate(kinds) if k in ('R', 'C')]
        for i, nm in zip(idx, pick_distinct(rng, ANY_POOL, len(idx), used)): ids[i] = nm
    else:
        for i, nm in enumerate(pick_distinct(rng, ADV_POOL, nb, used)): ids[i] = nm
    comps = []
    for (a, b), kind, cid in zip(edges, kinds, ids):
        if rng.random() < 0.5: a, b = b, a
        if kind == 'R': val = 2.0 ** rng.randint(-2, 3)
        elif kind in ('C', 'L'): val = 2.0 ** rng.randint(-3, 2)
        else: val = 0.0 if (zero_v and kind == 'V' and rng.random() < 0.5) else rng.choice([1.0, 2.0, 0.5, 3.0, -1.0, -2.0, 4.0])
        comps.append(dict(kind=kind, id=cid, n1=a, n2=b, val=val))
    if safe:                                  # inductors listed alphabetically
        slots = [i for i, c in enumerate(comps) if c['kind'] == 'L']
        srt = sorted((comps[i] for i in slots), key=lambda c: c['id'])
        for i, c in zip(slots, srt): comps[i] = c
    return dict(ground=rng.choice(labels), comps=comps, ground_pos=rng.randint(0, nb))

def wide_desc(rng):
    """corners of the domain the ordinary generator does not visit: no source at all, three or four sources, no
    reactive element (state dimension 0), no resistor (lossless LC), up to nine nodes, dc voltage sources of value 0"""
    corner = rng.choice(['no_source', 'many_sources', 'no_reactive', 'no_resistor', 'many_nodes', 'zero_volt'])
    kw = dict(safe=rng.random() < 0.4)
    if corner == 'no_source': kw.update(n_sources=0)
    elif corner == 'many_sources': kw.update(n_sources=rng.choice([3, 4]))
    elif corner == 'no_reactive': kw.update(n_reactive=0, n_res=rng.randint(2, 5))
    elif corner == 'no_resistor': kw.update(n_res=0, n_reactive=rng.choice([2, 3, 4]))
    elif corner == 'many_nodes': kw.update(max_nodes=9, n_res=rng.randint(4, 8), n_reactive=rng.choice([2, 3, 4]))
    else: kw.update(zero_v=True, n_sources=rng.choice([1, 2]))
    d = random_desc(rng, **kw)
    d['corner'] = corner
    return d

def permute_reactive(rng, desc, keep_inductors_sorted):
    """another listing order of the reactive elements (same circuit)"""
    comps = list(desc['comps'])
    slots = [i for i, c in enumerate(comps) if c['kind'] in REACTIVE]
    items = [comps[i] for i in slots]
    rng.shuffle(items)
    for i, c in zip(slots, items): comps[i] = c
    if keep_inductors_sorted:
        ls = [i for i, c in enumerate(comps) if c['kind'] == 'L']
        srt = sorted((comps[i] for i in ls), key=lambda c: c['id'])
        for i, c in zip(ls, srt): comps[i] = c
    return dict(desc, comps=comps)

VARY_FACTORS = [2.0, 0.5, 4.0, 0.25, 8.0, 1.5, 0.75, 3.0, 0.125, 6.0, 0.375, 16.0]

def with_int_values(rng, desc):
    """the same topology with integral R, C, L values handed over as integer-typed numbers (all of them: one float
    among the reactive values would hide an integer-dtype slip)"""
    d = copy.deepcopy(desc)
    for c in d['comps']:
        if c['kind'] in ('R', 'C', 'L'):
            c['val'] = float(rng.choice([1, 2, 3, 4, 2, 3]))
    d['int_values'] = rng.choice(['int', 'int', 'int64', 'int32'])
    return d

def vary_values(rng, desc, kinds=('R', 'C', 'L')):
    """the same description (ids, nodes, listing order, source values) with every element of the given
    kinds multiplied by a distinct dyadic factor — what a process-level cache keyed without values would
    confuse.  kinds=('C','L') leaves the w = 0 network (capacitors open, inductors shorted) untouched."""
    fs = list(VARY_FACTORS); rng.shuffle(fs)
    comps = []
    k = 0
    for c in desc['comps']:
        c = dict(c)
        if c['kind'] in kinds:
            c['val'] = c['val'] * fs[k % len(fs)]; k += 1
        comps.append(c)
    return dict(desc, comps=comps)

def with_lossy_sources(rng, desc):
    """the same circuit with LINEAR (lossy) sources: dc / ac (w = 0) voltage sources with an internal resistance,
    current sources with an internal conductance"""
    comps = []
    for c in desc['comps']:
        c = dict(c)
        if c['kind'] == 'V':
            c['src'] = dict(type=rng.choice(['dc', 'ac']), w=0.0, phi=rng.choice([0.0, math.pi]), Ri=2.0 ** rng.randint(-2, 3))
        elif c['kind'] == 'I':
            c['src'] = dict(type=rng.choice(['dc', 'ac']), w=0.0, phi=rng.choice([0.0, math.pi]), Gi=2.0 ** rng.randint(-3, 2))
        comps.append(c)
    return dict(desc, comps=comps)

# --------------------------------------------------------------------------- SI-unit scales

SI_DECADES = [-9, -6, -3, 0, 3, 6, 9]

def scale_desc(desc, k: float, s: float):
    """impedance level × k and time scale × s of the same circuit: R ↦ k·R, L ↦ k·s·L, C ↦ s·C/k
    (every time constant is multiplied by s, every impedance by k; source values unchanged)"""
    comps = []
    for c in desc['comps']:
        c = dict(c)
        if c['kind'] == 'R': c['val'] = c['val'] * k
        elif c['kind'] == 'L': c['val'] = c['val'] * k * s
        elif c['kind'] == 'C': c['val'] = c['val'] * s / k
        comps.append(c)
    return dict(desc, comps=comps, si=dict(k=k, s=s))

def si_desc(rng, desc, exact=True):
    """an ordinary generated circuit in realistic SI units: exact decade scalings (impedance level and
    time scale from SI_DECADES, kept inside R ∈ [1 mΩ, 1 GΩ], C ∈ [1 pF, 1 F], L ∈ [1 nH, 1 H] as far as
    possible) or, exact=False, log-uniform levels with a per-element log-uniform jitter of ± one decade"""
    for _ in range(60):
        if exact:
            k = 10.0 ** rng.choice(SI_DECADES); s = 10.0 ** rng.choice(SI_DECADES)
            d = scale_desc(desc, k, s)
        else:
            k = 10.0 ** rng.uniform(-2, 8); s = 10.0 ** rng.uniform(-9, 0)
            d = scale_desc(desc, k, s)
            for c in d['comps']:
                if c['kind'] in ('R', 'C', 'L'):
                    c['val'] = float(f"{c['val'] * 10.0 ** rng.uniform(-1, 1):.3g}")
        ok = True
        for c in d['comps']:
            lo, hi = {'R': (1e-3, 1e10), 'C': (1e-12, 1.0), 'L': (1e-9, 10.0)}.get(c['kind'], (None, None))
            if lo is not None and not (lo <= c['val'] <= hi): ok = False
        if ok: return d
    return scale_desc(desc, 1e3, 1e-5)           # kΩ, µs … ms: always inside the ranges for dyadic base values

def unit_scales(desc, exp):
    """magnitudes by physical kind of a set of expected outputs: (voltage scale, current scale), each
    floored by what the other implies through the largest / smallest resistance of the circuit"""
    rs = [c['val'] for c in desc['comps'] if c['kind'] == 'R'] or [1.0]
    sv = max([abs(v) for (kind, _), v in exp.items() if kind in ('pot', 'v')] + [0.0])
    si = max([abs(v) for (kind, _), v in exp.items() if kind == 'i'] + [0.0])
    return max(sv, si * min(rs)), max(si, sv / max(rs))

def run_sequence(out, extra_canon, descs, check):
    """run `check` on the descriptions in order (same process) with the canon flag
    `same_ids_different_values`; every failure found carries the whole sequence for the replay"""
    n0 = len(out.spec_failures)
    extra_canon['same_ids_different_values'] = True
    try:
        for d in descs:
            check(d)
    finally:
        extra_canon.clear()
    for sf in out.spec_failures[n0:]:
        sf['sequence'] = list(descs)

def all_reactive_orders(desc):
    comps = desc['comps']
    slots = [i for i, c in enumerate(comps) if c['kind'] in REACTIVE]
    for perm in itertools.permutations([comps[i] for i in slots]):
        cs = list(comps)
        for i, c in zip(slots, perm): cs[i] = c
        yield dict(desc, comps=cs)

# --------------------------------------------------------------------------- structure facts (canon)

def facts(desc) -> dict:
    cs = sorted(c['id'] for c in desc['comps'] if c['kind'] == 'I')
    vs = sorted(c['id'] for c in desc['comps'] if c['kind'] in ('V', 'L'))
    ls = [c['id'] for c in desc['comps'] if c['kind'] == 'L']
    return dict(
        names_interleave=(sorted(cs + vs) != cs + vs),
        inductors_listed_alphabetically=(ls == sorted(ls)),
        has_inductor=bool(ls),
        n_reactive=sum(1 for c in desc['comps'] if c['kind'] in REACTIVE),
        zero_valued_current_source=any(c['kind'] in ('I0', 'Iac') for c in desc['comps']),
        **({'lossy_source': True} if any(is_lossy_source(c) for c in desc['comps']) else {}),
        **({'zero_resistance': True} if any(c['kind'] == 'R' and c['val'] == 0 for c in desc['comps']) else {}),
    )

def shape(desc):
    ks = tuple(sorted(c['kind'] for c in desc['comps']))
    nodes = {c['n1'] for c in desc['comps']} | {c['n2'] for c in desc['comps']}
    f = facts(desc)
    return (len(nodes), ks, f['names_interleave'], f['inductors_listed_alphabetically'])

def _src_str(c):
    if 'src' not in c: return ''
    sr = c['src']
    return '[' + ' '.join(f'{k}={sr[k]:.6g}' if isinstance(sr[k], float) else f'{k}={sr[k]}' for k in sorted(sr)) + ']'

def pretty(desc):
    return dict(ground=desc['ground'], **({'si': desc['si']} if 'si' in desc else {}),
                **({'grid': desc['grid']} if 'grid' in desc else {}), **({'maps': desc['maps']} if 'maps' in desc else {}),
                **({'corner': desc['corner']} if 'corner' in desc else {}),
                comps=[f"{c['kind']}:{c['id']}({c['n1']},{c['n2']})={c['val']}{_src_str(c)}" for c in desc['comps']])

# --------------------------------------------------------------------------- source kinds

PHASES = [0.0, math.pi / 3, math.pi / 2, 2 * math.pi / 3, math.pi, -3 * math.pi / 4, -math.pi / 2, -math.pi / 6]

def is_lossy_source(c) -> bool:
    return c['kind'] in ('V', 'I') and (c.get('src', {}).get('Ri', 0.0) != 0 or c.get('src', {}).get('Gi', 0.0) != 0)

def has_lossy_source(desc) -> bool:
    return any(is_lossy_source(c) for c in desc['comps'])

def dc_value(c) -> float:
    """what DCSolution takes as the value of a source: real part of the phasor at w = 0"""
    sr = c.get('src')
    if sr is None or sr['type'] in ('dc', 'complex'): return c['val']
    if sr['type'] == 'ac': return c['val'] * math.cos(sr['phi']) if sr['w'] == 0 else 0.0
    return 0.0                                    # periodic sin / tri / rect: zero mean

def with_source_kinds(rng, desc, lossy=False):
    """the same circuit with other SOURCE KINDS the state-space builder accepts: ac voltage sources (w = 0
    or w ≠ 0) and periodic voltage sources, ac current sources with w = 0, phases in all quadrants; with
    lossy=True also internal resistances / conductances (outside the domain of C10 / C12 — 'ideal sources' —
    but the unforced dynamics, C11, do not depend on what a source is driven with)"""
    comps = []
    for c in desc['comps']:
        c = dict(c)
        if c['kind'] == 'V':
            t = rng.choice(['ac0', 'ac0', 'acw', 'periodic', 'complex'])
            phi = rng.choice(PHASES)
            if t == 'complex' and not lossy:
                c['src'] = dict(type='complex', imag=rng.choice([0.0, 1.5, -0.75]))
            elif t == 'periodic':
                c['src'] = dict(type='periodic', wavetype=rng.choice(['sin', 'tri', 'rect']), w=2.0 ** rng.randint(-2, 3), phi=phi)
            else:
                c['src'] = dict(type='ac', w=0.0 if t == 'ac0' else 2.0 ** rng.randint(-2, 3), phi=phi)
            if lossy and rng.random() < 0.7: c['src']['Ri'] = 2.0 ** rng.randint(-2, 3)
        elif c['kind'] == 'I':
            c['src'] = dict(type='ac', w=0.0, phi=rng.choice(PHASES))
            if lossy and rng.random() < 0.7: c['src']['Gi'] = 2.0 ** rng.randint(-3, 2)
        comps.append(c)
    return dict(desc, comps=comps)

def labels_of(desc):
    out = []
    for c in desc['comps']:
        for n in (c['n1'], c['n2']):
            if n not in out: out.append(n)
    if desc['ground'] not in out: out.append(desc['ground'])
    return out

# --------------------------------------------------------------------------- implementation side

def build_circuit(desc):
    from CircuitCalculator.Circuit.circuit import Circuit
    from CircuitCalculator.Circuit import components as cmp
    comps = []
    ity = {'int': int, 'int64': np.int64, 'int32': np.int32}.get(desc.get('int_values'))
    def tv(x):
        # integer-TYPED passive values (Python int / numpy integer) where the value is integral: the same circuit,
        # but integer division / integer dtypes in the builder now bite (seeded change C11-5B)
        return ity(int(x)) if ity is not None and float(x) == int(x) else x
    for c in desc['comps']:
        k, nodes = c['kind'], (c['n1'], c['n2'])
        if k == 'R': comps.append(cmp.resistor(c['id'], nodes, R=tv(c['val'])))
        elif k == 'C': comps.append(cmp.capacitor(c['id'], nodes, C=tv(c['val'])))
        elif k == 'L': comps.append(cmp.inductance(c['id'], nodes, L=tv(c['val'])))
        elif k == 'V' and 'src' in c:
            sr = c['src']
            if sr['type'] == 'ac':
                comps.append(cmp.ac_voltage_source(c['id'], nodes, V=c['val'], R=sr.get('Ri', 0.0), w=sr['w'], phi=sr['phi']))
            elif sr['type'] == 'dc':
                comps.append(cmp.dc_voltage_source(c['id'], nodes, V=c['val'], R=sr.get('Ri', 0.0)))
            elif sr['type'] == 'complex':
                comps.append(cmp.complex_voltage_source(c['id'], nodes, V=complex(c['val'], sr['imag'])))
            else:
                comps.append(cmp.periodic_voltage_source(c['id'], nodes, wavetype=sr['wavetype'], V=c['val'], w=sr['w'],
                                                         phi=sr['phi'], R=sr.get('Ri', 0.0)))
        elif k == 'I' and 'src' in c:
            sr = c['src']
            if sr['type'] == 'dc':
                comps.append(cmp.dc_current_source(c['id'], nodes, I=c['val'], G=sr.get('Gi', 0.0)))
            else:
                comps.append(cmp.ac_current_source(c['id'], nodes, I=c['val'], G=sr.get('Gi', 0.0), w=sr['w'], phi=sr['phi']))
        elif k == 'V': comps.append(cmp.dc_voltage_source(c['id'], nodes, V=c['val']))
        elif k == 'I': comps.append(cmp.dc_current_source(c['id'], nodes, I=c['val']))
        elif k == 'I0': comps.append(cmp.dc_current_source(c['id'], nodes, I=0.0))
        elif k == 'Iac': comps.append(cmp.ac_current_source(c['id'], nodes, I=c['val'], w=5.0))
        else: raise ValueError(k)
    gid = 'gnd'
    while gid in {c['id'] for c in desc['comps']}: gid += '_'
    comps.insert(min(desc.get('ground_pos', len(comps)), len(comps)), cmp.ground(id=gid, nodes=(desc['ground'],)))
    return Circuit(comps)

class Impl:
    """everything the implementation produces for one description"""
    pass

def flat(a):
    return np.asarray(a, dtype=float).reshape(-1)

def permuted_mapper(base, seed):
    """a valid non-default index map: the library's own map with its indices permuted; enumeration order = index
    order (the shape of the library's maps; maps whose key order differs from the index order are not supported by
    current_source_vector / constants_vector either and are outside the domain)"""
    from CircuitCalculator.Network.NodalAnalysis import label_mapping as lm
    def mapper(network):
        keys = list(base(network).keys)
        if seed == 'reversed': keys = keys[::-1]
        else: core.Rng(seed, 'perm', len(keys)).shuffle(keys)
        return lm.LabelMapping({k: j for j, k in enumerate(keys)})
    return mapper

def mapper_kwargs(desc) -> dict:
    """keyword arguments of nodal_state_space_model for a description with `maps` = dict(node=, vs=, cs=) seeds"""
    from CircuitCalculator.Network.NodalAnalysis import label_mapping as lm
    mp = desc.get('maps') or {}
    kw = {}
    if mp.get('node') is not None: kw['node_index_mapper'] = permuted_mapper(lm.default_node_mapper, mp['node'])
    if mp.get('vs') is not None: kw['voltage_source_index_mapper'] = permuted_mapper(lm.alphabetic_voltage_source_mapper, mp['vs'])
    if mp.get('cs') is not None: kw['current_source_index_mapper'] = permuted_mapper(lm.alphabetic_current_source_mapper, mp['cs'])
    return kw

def with_maps(rng, desc):
    """the same description assembled with non-default, order-consistent index maps: one, two or all three of the
    public mapper keyword arguments"""
    which = rng.choice([('node',), ('vs',), ('cs',), ('node', 'vs'), ('node', 'cs'), ('vs', 'cs'), ('node', 'vs', 'cs'), ('node', 'vs', 'cs')])
    return dict(desc, maps={k: rng.randrange(1 << 30) for k in which})

def impl_model(desc) -> Impl:
    """nodal_state_space_model of the real code on the real translation of the circuit, with
    the two numpy inverses captured"""
    from CircuitCalculator.Circuit.circuit import transform_circuit
    from CircuitCalculator.Network.NodalAnalysis.state_space_model import nodal_state_space_model
    im = Impl()
    im.circuit = build_circuit(desc)
    im.network = transform_circuit(im.circuit, w=0)
    # (integer-typed stream: the dictionaries carry the numbers as the caller typed them — `dict[str, float]` admits ints)
    cast = (lambda x: x) if desc.get('int_values') else float
    im.cvals = {c.id: cast(c.value['C']) for c in im.circuit.components if c.type == 'capacitor'}
    im.lvals = {c.id: cast(c.value['L']) for c in im.circuit.components if c.type == 'inductance'}
    captured = []
    orig = np.linalg.inv
    def spy(a):
        r = orig(a)
        captured.append((np.array(a, copy=True), np.array(r, copy=True)))
        return r
    np.linalg.inv = spy
    try:
        im.ssm = nodal_state_space_model(im.network, c_values=im.cvals, l_values=im.lvals, **mapper_kwargs(desc))
    finally:
        np.linalg.inv = orig
    im.inverses = captured
    return im

def impl_rows(ssm, labels, ids):
    def tryrow(f, x):
        try:
            return dict(ok=flat(f(x)))
        except Exception as e:
            return dict(err=gen_tag(e))
    pot = {n: dict(c=tryrow(ssm.c_row_for_potential, n), d=tryrow(ssm.d_row_for_potential, n)) for n in labels}
    el = {i: dict(vc=tryrow(ssm.c_row_voltage, i), vd=tryrow(ssm.d_row_voltage, i),
                  ic=tryrow(ssm.c_row_current, i), id_=tryrow(ssm.d_row_current, i)) for i in ids}
    return pot, el

EXC = {'KeyError': 'KeyError', 'IndexError': 'KeyError', 'ValueError': 'ValueError', 'LinAlgError': 'LinAlgError',
       'FloatingGroundNode': 'FloatingGroundNode', 'AmbiguousBranchIDs': 'AmbiguousIDs', 'TypeError': 'TypeError',
       'ZeroDivisionError': 'ZeroDivisionError', 'AttributeError': 'AttributeError'}

def gen_tag(e):
    return EXC.get(type(e).__name__, type(e).__name__)

def qmat(M):
    M = np.asarray(M, dtype=float)
    if M.ndim == 1: M = M.reshape(1, -1)
    return [[core.q(x) for x in row] for row in M]

def qvec(v):
    return [core.q(x) for x in flat(v)]

def dict_items(d):
    return [[k, core.q(v)] for k, v in d.items()]

# --------------------------------------------------------------------------- spec side (phasor network)

def _cq(z_re, z_im):
    return [core.q(Fr(z_re)), core.q(Fr(z_im))]

def phasor_net(desc, w: Fraction, active=None, mode='jw'):
    """driver JSON of the phasor network at s = j·w (mode 'jw'), or of the two limit networks
    that decide non-degeneracy: mode 'dc' (capacitor open, inductor short) and mode 'inf'
    (capacitor short, inductor open).  Source `active` has amplitude 1, every other source 0."""
    w = Fr(w)
    brs = []
    for c in desc['comps']:
        k, v = c['kind'], Fr(c['val']) if c['kind'] not in ('I0',) else Fraction(0)
        one = Fraction(1) if c['id'] == active else Fraction(0)
        if k == 'R': e = dict(k='N', a=_cq(v, 0), b=_cq(0, 0))
        elif k == 'C':
            if mode == 'inf': e = dict(k='N', a=_cq(0, 0), b=_cq(0, 0))
            elif mode == 'dc': e = dict(k='T', a=_cq(0, 0), b=_cq(0, 0))
            else: e = dict(k='T', a=_cq(0, w * v), b=_cq(0, 0))
        elif k == 'L':
            if mode == 'inf': e = dict(k='T', a=_cq(0, 0), b=_cq(0, 0))
            elif mode == 'dc': e = dict(k='N', a=_cq(0, 0), b=_cq(0, 0))
            else: e = dict(k='N', a=_cq(0, w * v), b=_cq(0, 0))
        elif k == 'V': e = dict(k='N', a=_cq(c.get('src', {}).get('Ri', 0.0), 0), b=_cq(one, 0))
        elif k in ('I', 'I0', 'Iac'): e = dict(k='T', a=_cq(c.get('src', {}).get('Gi', 0.0) if k == 'I' else 0, 0), b=_cq(one, 0))
        else: raise ValueError(k)
        brs.append(dict(n1=c['n1'], n2=c['n2'], id=c['id'], ty=k, e=e))
    return dict(branches=brs, zero=desc['ground'])

def spec_solve_np(net):
    """numpy fallback of the driver's `wellposed` (used only when the driver did not build):
    sparse tableau of the spec, solved in binary64"""
    labels = []
    for b in net['branches']:
        for n in (b['n1'], b['n2']):
            if n not in labels and n != net['zero']: labels.append(n)
    nl, nb = len(labels), len(net['branches'])
    A = np.zeros((nl + nb, nl + nb), dtype=complex); rhs = np.zeros(nl + nb, dtype=complex)
    def inc(b, n): return (1 if b['n1'] == n else 0) - (1 if b['n2'] == n else 0)
    for r, n in enumerate(labels):
        for k, b in enumerate(net['branches']): A[r, nl + k] = inc(b, n)
    for k, b in enumerate(net['branches']):
        a = core.cfloat(b['e']['a']); s = core.cfloat(b['e']['b'])
        pc = lambda c: [c * inc(b, n) for n in labels]
        r = nl + k
        if b['e']['k'] == 'N':
            if a == 0: A[r, :nl] = pc(1); rhs[r] = s
            else: A[r, :nl] = pc(1); A[r, nl + k] = -a; rhs[r] = 0
        else:
            if a == 0: A[r, nl + k] = 1; rhs[r] = s
            else: A[r, :nl] = pc(-a); A[r, nl + k] = 1; rhs[r] = 0
    if np.linalg.matrix_rank(A) < nl + nb:
        return dict(wellposed=False)
    x = np.linalg.solve(A, rhs)
    pot = {net['zero']: 0j}; pot.update({n: x[i] for i, n in enumerate(labels)})
    return dict(wellposed=True, potc=pot, ic={b['id']: x[nl + k] for k, b in enumerate(net['branches'])})

def spec_solve(drv, net):
    """exact phasor solution (driver op `wellposed`) as complex floats"""
    if drv is None:
        return spec_solve_np(net)
    r = drv.call('wellposed', net=net)
    if not r['wellposed']:
        return r
    return dict(wellposed=True, potc={n: core.cfloat(v) for n, v in r['pot'].items()},
                ic={n: core.cfloat(v) for n, v in r['i'].items()})

def nondegenerate(drv, desc) -> tuple[bool, str]:
    """the domain of C10-C12, decided exactly on the Spec side: the DC network (capacitors open,
    inductors shorted: no natural frequency at s = 0) and the infinite-frequency network
    (capacitors shorted, inductors open: characteristic polynomial of full degree — no
    capacitor/voltage-source loop, no inductor/current-source cutset) are both well-posed"""
    if not spec_solve(drv, phasor_net(desc, 0, mode='dc'))['wellposed']:
        return False, 'root_at_zero'
    if not spec_solve(drv, phasor_net(desc, 0, mode='inf'))['wellposed']:
        return False, 'degree_deficient'
    return True, ''

def expected_outputs(desc, sol):
    """what each output of the model must be, from a Spec solution"""
    exp = {}
    for n in labels_of(desc):
        exp[('pot', n)] = sol['potc'].get(n, 0j)
    for c in desc['comps']:
        exp[('v', c['id'])] = sol['potc'][c['n1']] - sol['potc'][c['n2']]
        exp[('i', c['id'])] = sol['ic'][c['id']]
    return exp

# --------------------------------------------------------------------------- frequencies

def decay_rate(lam) -> float:
    """slowest decay rate min|Re λ| of a set of natural frequencies, or 0.0 when some mode is (numerically) undamped:
    a real part below 1e-9·|λ| is rounding noise of a lossless mode, never a time constant"""
    lam = np.asarray(lam, dtype=complex)
    if lam.size == 0: return 0.0
    top = float(np.max(np.abs(lam)))
    if top == 0 or np.any(np.abs(lam.real) < 1e-9 * np.maximum(np.abs(lam), 1e-3 * top)): return 0.0
    return float(np.min(np.abs(lam.real)))

def dyadic_near(x: float) -> Fraction:
    """a dyadic rational within 1/16 relative of x > 0"""
    if x <= 0: return Fraction(0)
    e = math.floor(math.log2(x))
    m = round(x / 2.0 ** e * 16)
    return Fraction(m, 16) * (Fraction(2) ** e)

def frequencies(A, quick=True):
    """rational w >= 0 spread over all time constants of A (eigenvalue moduli, a quarter and four
    times each), plus 0"""
    ws = {Fraction(0)}
    try:
        lam = np.linalg.eigvals(np.asarray(A, dtype=float)) if np.size(A) else []
    except Exception:
        lam = []
    top = max([abs(l) for l in lam if np.isfinite(l)] + [0.0])
    mods = sorted({abs(l) for l in lam if np.isfinite(l) and abs(l) > 1e-12 * top and abs(l) > 0})
    if not mods: mods = [1.0]
    picks = [mods[0] / 4, mods[0], mods[-1], mods[-1] * 4] + mods[1:-1]
    for x in picks:
        ws.add(dyadic_near(x * 1.0625))          # off the exact modulus (undamped resonances)
    ws = sorted(ws)
    return ws[:5] if quick else ws

# --------------------------------------------------------------------------- comparisons

def model_mat(M):
    return [[core.cfloat(x) for x in row] for row in M]

def mat_agree(impl, model, tol=1e-9):
    """entrywise |impl - model| <= tol (1 + max|.|); shapes compared when both are non-empty"""
    I = np.asarray(impl, dtype=complex)
    if I.ndim == 1: I = I.reshape(1, -1)
    Mm = model_mat(model)
    r = len(Mm); c = len(Mm[0]) if r else None
    if I.shape[0] != r: return False
    if r == 0 or I.shape[1] == 0 and c == 0: return True
    if I.shape[1] != c: return False
    Mn = np.asarray(Mm, dtype=complex)
    if not np.all(np.isfinite(I)): return False
    sc = max(1.0, float(np.max(np.abs(Mn))) if Mn.size else 1.0)
    return bool(np.all(np.abs(I - Mn) <= tol * sc))

def vec_agree(impl, model, tol=1e-9):
    return mat_agree(np.asarray(impl).reshape(1, -1), [model], tol)
