#!/venv/bin/python
"""
check.py — one check = one property.

  check.py --property C01 --tier quick|thorough
  check.py --replay /verif/replays/C01/<hash>.json

Decision procedure (DESIGN.md §3):
  1. translator: regenerate lean/CC/Gen from /repo's current sources;
  2. `lake build` (theorems are re-checked against the regenerated definitions);
  3. audit: forbidden-token grep + `#print axioms` on every property theorem;
  4. correspondence: model (Lean driver) vs implementation (real code, in-process);
  5. spec oracle on the implementation's outputs (failing-input search);
  6. known findings, evidence, exit code.
Exit 0: property held on everything explored.  Exit 1: a line
`VIOLATION property=<id> replay=<path>` was printed.  Exit 2: infrastructure failure
(time-out, missing tool) — never a verdict.
"""
from __future__ import annotations
import argparse, importlib, json, os, sys, time, traceback
from pathlib import Path

HERE = Path(__file__).resolve().parent
sys.path.insert(0, str(HERE))
import core

class Ctx:
    def __init__(self, prop, tier, seed, driver, build):
        self.prop = prop; self.tier = tier; self.seed = seed
        self.driver = driver; self.build = build
        self.t0 = time.time()
        self.budget_s = float(os.environ.get('VERIF_BUDGET_S', 150 if tier == 'quick' else 1500))
    def rng(self, *names):
        return core.Rng(self.seed, self.prop, *names)
    def time_left(self):
        return self.budget_s - (time.time() - self.t0)
    @property
    def quick(self):
        return self.tier == 'quick'

class Outcome:
    """what a property module reports"""
    def __init__(self):
        self.evaluations = 0
        self.nontrivial_keys: set = set()
        self.rule = ''
        self.samples: list = []
        self.distribution: dict = {}
        self.traces_validated = 0
        self.skipped: dict = {}
        self.disagreements: list[dict] = []     # model vs implementation differ
        self.spec_failures: list[dict] = []     # property false on the implementation (concrete input)
        self.notes: list[str] = []
        self.assumptions: list[str] = []
        self.extra: dict = {}
        self._canon_counts: dict = {}
    def count(self, key, n=1):
        self.distribution[key] = self.distribution.get(key, 0) + n
    def skip(self, key, n=1):
        self.skipped[key] = self.skipped.get(key, 0) + n
    def nontrivial(self, key):
        self.nontrivial_keys.add(key if isinstance(key, (str, int, tuple)) else json.dumps(key, sort_keys=True, default=str))
    def sample(self, s, cap=4):
        if len(self.samples) < cap:
            self.samples.append(s)
    def disagree(self, op, inp, impl, model, **kw):
        if len(self.disagreements) < 25:
            self.disagreements.append(dict(op=op, input=inp, impl=impl, model=model, **kw))
        else:
            self.extra['disagreements_dropped'] = self.extra.get('disagreements_dropped', 0) + 1
    def spec_fail(self, canon: dict, what: str, inp, impl=None, spec=None, **kw):
        """a concrete input on which the implementation violates the property; at most three
        are kept per distinct canonical form, every distinct canonical form is kept"""
        key = json.dumps(canon, sort_keys=True, default=str)
        n = self._canon_counts.get(key, 0)
        self._canon_counts[key] = n + 1
        if n < 3:
            self.spec_failures.append(dict(canon=canon, what=what, input=inp, impl=impl, spec=spec, **kw))

def load_prop(prop: str):
    return importlib.import_module(f'props.{prop.lower()}')

def run_check(prop: str, tier: str, seed: int) -> int:
    t0 = time.time()
    mod = load_prop(prop)
    print(f'[{prop}] tier={tier} seed={seed}')
    # 1-2. translator + build
    build = core.ensure_build()
    if not build.extract_ok:
        print(f'[{prop}] translator refused the current sources: {build.extract_msg}')
    if build.gen_changed:
        print(f'[{prop}] regenerated: {", ".join(build.gen_changed)}')
    print(f'[{prop}] lake build rc={build.lake_rc} ({build.wall:.1f}s)' +
          (f' failed: {build.failed_modules}' if build.failed_modules else ''))
    # 3. obligations + audit
    theorems = list(getattr(mod, 'THEOREMS', []))
    lean_module = getattr(mod, 'LEAN_MODULE', f'CC.Properties.{prop}')
    lean_modules = [lean_module] + list(getattr(mod, 'LEAN_MODULE_EXTRA', []))
    # source guard (harness/extract_guard.py): constructs that change a function's meaning from outside its body
    guard_module = f'CC.Properties.Guard.{prop}'
    if (core.LEAN / 'CC' / 'Properties' / 'Guard' / f'{prop}.lean').exists():
        lean_modules.append(guard_module)
        theorems.append(f'CC.{prop}_source_guard')
    mod_ok = build.lake_rc == 0 or all(core.build_target(m)[0] for m in lean_modules)
    forbidden = core.grep_forbidden()
    if mod_ok:
        axioms = core.audit_axioms(lean_modules, theorems)
    else:
        # audit module by module, so that one broken module does not hide the theorems that still compile
        axioms = {t: None for t in theorems}
        for m_ in lean_modules:
            if core.build_target(m_)[0]:
                for t, ax in core.audit_axioms([m_], theorems).items():
                    if ax is not None:
                        axioms[t] = ax
    undischarged = []
    for t in theorems:
        ax = axioms.get(t)
        if ax is None:
            why = 'does not compile against the regenerated model'
            if t.endswith('_source_guard'):
                try:
                    gl = next(l for l in (core.LEAN / 'CC' / 'Gen' / 'SourceGuard.lean').read_text().splitlines() if l.startswith(f'def unknown_{prop} '))
                    why = 'constructs in the anchor files that the models were not written against: ' + gl.split(':=', 1)[1].strip()[:1500]
                except Exception:
                    pass
            undischarged.append((t, why))
        elif not set(ax) <= core.ALLOWED_AXIOMS:
            undischarged.append((t, f'uses axioms {sorted(set(ax) - core.ALLOWED_AXIOMS)}'))
    if forbidden:
        undischarged.append(('<audit>', 'forbidden tokens: ' + '; '.join(forbidden[:5])))
    leanchecker = None
    if tier == 'thorough' and mod_ok and theorems:
        # independent re-check of the compiled .olean files of the property modules
        import subprocess
        try:
            lc = subprocess.run(['lake', 'env', 'leanchecker'] + lean_modules, cwd=core.LEAN, capture_output=True, text=True, timeout=1800)
            leanchecker = dict(rc=lc.returncode, tail=(lc.stdout + lc.stderr)[-300:])
            if lc.returncode != 0:
                undischarged.append(('<leanchecker>', leanchecker['tail']))
        except Exception as e:
            leanchecker = dict(rc=None, tail=f'{type(e).__name__}: {e}')
        print(f'[{prop}] leanchecker: {leanchecker}')
    # a translator refusal breaks exactly the properties whose Lean modules import the refused
    # Gen file: those modules do not build, so their theorems are already undischarged above
    if not build.extract_ok and undischarged:
        undischarged.append(('<translator>', build.extract_msg))
    discharged = len(theorems) - len([u for u in undischarged if not u[0].startswith('<')])
    print(f'[{prop}] obligations={len(theorems)} discharged={discharged}')
    # 4-5. correspondence + oracle
    driver = None
    if build.driver_ok:
        try:
            driver = core.Driver()
        except core.DriverError as e:
            print(f'[{prop}] driver unavailable: {e}')
    elif build.driver_baseline is not None:
        print(f'[{prop}] driver does not build against the regenerated definitions; failing-input search uses the last good driver (baseline model)')
        try:
            driver = core.Driver(build.driver_baseline)
        except core.DriverError as e:
            print(f'[{prop}] baseline driver unavailable: {e}')
    else:
        print(f'[{prop}] driver did not build; correspondence skipped, oracle runs on the implementation only')
    ctx = Ctx(prop, tier, seed, driver, build)
    out = Outcome()
    infra_error = None
    try:
        core.import_repo()
        mod.run(ctx, out)
    except core.DriverError as e:
        infra_error = f'driver: {e}'
    except Exception as e:
        tb = traceback.extract_tb(e.__traceback__)
        in_repo = [fr for fr in tb if str(fr.filename).startswith(str(core.SRC.resolve())) or str(fr.filename).startswith(str(core.SRC))]
        if isinstance(e, core.NonFiniteValue):
            # the implementation reported inf / nan for an input the property module considered in-domain
            # (every module filters ill-posed / ill-conditioned inputs before encoding values)
            out.spec_fail(dict(op='non_finite_reported_value'),
                          'implementation reported a non-finite value (inf / nan) on a generated in-domain input',
                          ''.join(traceback.format_exception(type(e), e, e.__traceback__))[-3000:])
        elif in_repo:
            # an exception out of the implementation that no oracle of the property module anticipated:
            # the property is no longer shown to hold on an input the generators reached
            fr = in_repo[-1]
            out.spec_fail(dict(op='uncaught_implementation_exception', exc=type(e).__name__),
                          f'implementation raised {type(e).__name__} at {Path(fr.filename).name}:{fr.lineno} ({fr.name}) on a generated input',
                          ''.join(traceback.format_exception(type(e), e, e.__traceback__))[-3000:])
        else:
            infra_error = f'{type(e).__name__}: {e}'
        traceback.print_exc()
    finally:
        if driver: driver.close()
    # 6. verdict
    findings = [f for f in core.load_known_findings() if f['property'] == prop]
    open_f = [f for f in findings if f.get('status') == 'open']
    reproduced = {}
    new_failures = []
    for sf in out.spec_failures:
        hit = next((f for f in open_f if core.matches(f['matcher'], sf['canon'])), None)
        if hit is not None:
            reproduced.setdefault(hit['what'], 0)
            reproduced[hit['what']] += 1
        else:
            new_failures.append(sf)
    import re as _re
    for what, n in reproduced.items():
        print(f'KNOWN-FINDING: property={prop} ' + _re.sub(r'^(open|fixed): property=C\d+ ', '', what))
    violations = 0
    replay_base = dict(property=prop, tier=tier, seed=seed,
                       replay_cmd=f'bin/check --replay <this file>')
    if new_failures:
        sf = new_failures[0]
        path = core.write_replay(prop, dict(replay_base, kind='counterexample', **sf,
                                            others=len(new_failures) - 1,
                                            broken_obligations=[list(u) for u in undischarged],
                                            disagreements=out.disagreements[:3]))
        print(f'VIOLATION property={prop} replay={path}')
        violations = len(new_failures)
    elif undischarged or out.disagreements:
        kind = 'broken-obligation' if undischarged else 'correspondence'
        path = core.write_replay(prop, dict(replay_base, kind=kind,
                                            obligation=[list(u) for u in undischarged],
                                            correspondence=out.disagreements[:5],
                                            lake_output_tail=build.lake_out[-3000:] if undischarged else '',
                                            searched=dict(evaluations=out.evaluations,
                                                          note='spec oracle found no input on which the implementation violates the property')))
        print(f'VIOLATION property={prop} replay={path} no-failing-input-found')
        violations = 1
    wall = time.time() - t0
    level = getattr(mod, 'LEVEL', 'proof')
    cov = dict(
        obligations=len(theorems), discharged=discharged,
        checker_cmd=f'cd lean && lake build {lean_module} && lake env lean <#print axioms of the {len(theorems)} theorems>',
        trusted_base=sorted({a for ax in axioms.values() if ax for a in ax}) +
                     ['Lean 4.33 kernel', 'harness/extract.py (translator)', 'correspondence harness + ccdriver'],
        theorems={t: axioms.get(t) for t in theorems},
        open_statements=list(getattr(mod, 'OPEN_STATEMENTS', [])),
        evaluations=out.evaluations, distinct_nontrivial=len(out.nontrivial_keys), rule=out.rule,
        samples=out.samples or [dict(theorem=t) for t in theorems[:3]],
        traces_validated_against_impl=out.traces_validated,
        distribution=out.distribution, skipped=out.skipped,
        disagreements=len(out.disagreements), spec_failures=len(out.spec_failures),
        known_findings_reproduced=reproduced, gen_changed=build.gen_changed, leanchecker=leanchecker,
        notes=out.notes, **out.extra)
    if infra_error:
        cov['infrastructure_error'] = infra_error
    ev = dict(property_id=prop, tier=tier, seed=seed, level=level, coverage=cov,
              assumptions=list(getattr(mod, 'ASSUMPTIONS', [])) + out.assumptions,
              wall_s=round(wall, 2), violations=violations)
    core.write_evidence(prop, ev)
    print(f'[{prop}] evaluations={out.evaluations} nontrivial={len(out.nontrivial_keys)} '
          f'disagreements={len(out.disagreements)} spec_failures={len(out.spec_failures)} '
          f'known={sum(reproduced.values())} wall={wall:.1f}s')
    if infra_error and not violations:
        print(f'[{prop}] infrastructure error: {infra_error}')
        return 2
    return 1 if violations else 0

def run_replay(path: str) -> int:
    rp = core.json_revive(json.loads(Path(path).read_text()))
    prop = rp['property']
    mod = load_prop(prop)
    build = core.ensure_build()
    driver = core.Driver() if build.driver_ok else (core.Driver(build.driver_baseline) if build.driver_baseline is not None else None)
    core.import_repo()
    ctx = Ctx(prop, rp.get('tier', 'quick'), rp.get('seed', 0), driver, build)
    out = Outcome()
    if not hasattr(mod, 'replay'):
        print(f'[{prop}] no replay entry point; re-running the check with the recorded seed')
        return run_check(prop, ctx.tier, ctx.seed)
    mod.replay(ctx, out, rp)
    if driver: driver.close()
    for sf in out.spec_failures:
        print(f'[{prop}] replay: property fails: {sf["what"]}')
    for d in out.disagreements:
        print(f'[{prop}] replay: model and implementation disagree on {d["op"]}')
    if out.spec_failures or out.disagreements:
        print(f'VIOLATION property={prop} replay={path}')
        return 1
    print(f'[{prop}] replay: no failure reproduced')
    return 0

def main():
    ap = argparse.ArgumentParser()
    ap.add_argument('--property')
    ap.add_argument('--tier', default=os.environ.get('VERIF_TIER', 'quick'))
    ap.add_argument('--replay')
    a = ap.parse_args()
    seed = int(os.environ.get('VERIF_SEED', '0'))
    if a.replay:
        sys.exit(run_replay(a.replay))
    sys.exit(run_check(a.property, a.tier, seed))

if __name__ == '__main__':
    main()
