"""
extract_fourier.py — translator for property C08.

  /repo/src/CircuitCalculator/SignalProcessing/periodic_functions.py  →  lean/CC/Gen/Fourier.lean

Translated, expression by expression, from the Python AST (grammar: DESIGN.md Appendix A):
  * the wave classes (dataclass fields, `wavetype` default, `time_function` body),
  * the harmonic classes (`_amplitude_coefficient`, `_phase_coefficient` bodies),
  * `AbstractHarmonicCoefficients.{amplitude, phase, a, b, c}`,
  * `fourier_series_mapping`, `periodic_functions`, `fourier_series`, `periodic_function`.

Typing discipline of the expression translator (Python's numeric tower, as far as it occurs):
  int   harmonic index `n`, integer literals; `-`, `%` (positive literal divisor) stay in `Int`
  real  everything else; an int meeting a real (or any `/`) is cast `((e : Int) : K)`
  imag  `1j * real`  (only as the argument of `np.exp`)
  cx    `np.exp(imag)` = `expj cos sin θ`, `real * cx` = `rsmul r z`   (pairs `(re, im)`)
`np.pi` is the parameter `π`, `np.cos`/`np.sin` the parameters `cos`/`sin`, float `%`/`np.mod` the
parameter `fmod`.  Anything outside the grammar raises ExtractError.
"""
from __future__ import annotations
import ast
from extract import generator, parse, lean_str, ExtractError

REL = 'SignalProcessing/periodic_functions.py'
WAVE_FIELDS = ['period', 'amplitude', 'phase', 'offset']
BASE = 'AbstractHarmonicCoefficients'
COEFFS = ['_amplitude_coefficient', '_phase_coefficient']
LEAN_NAME = {'_amplitude_coefficient': 'amplitudeCoefficient', '_phase_coefficient': 'phaseCoefficient',
             'time_function': 'timeFunction'}

def refuse(node, msg):
    raise ExtractError(f'{REL}:{getattr(node, "lineno", "?")}: {msg}')

def lname(py):
    return LEAN_NAME.get(py, py)

# --------------------------------------------------------------------------- expressions

def cast(e, ty):
    """coerce a translated expression to `real`"""
    s, t = e
    if t == 'real':
        return s
    if t == 'int':
        return f'(({s} : Int) : K)'
    raise ExtractError(f'cannot use a value of kind {t} as a real number: {s}')

class Tr:
    """expression translator; `env` maps local names to 'int' | 'real' | 'fun' (real → real),
    `fields` are the attributes of `self`, `methods` maps callable methods of `self` to their
    Lean parameter prefix"""
    def __init__(self, env, fields, methods, selfname='self'):
        self.env = dict(env); self.fields = fields; self.methods = methods; self.selfname = selfname
        self.uses = set()          # 'pi', 'trig', 'fmod', 'lt'

    def is_np(self, node, attr):
        return (isinstance(node, ast.Attribute) and isinstance(node.value, ast.Name)
                and node.value.id == 'np' and node.attr == attr)

    def expr(self, e):
        if isinstance(e, ast.Constant):
            if isinstance(e.value, bool) or e.value is None or e.value is Ellipsis:
                refuse(e, f'constant {e.value!r} outside the grammar')
            if isinstance(e.value, int):
                return (f'{e.value}', 'int')
            if isinstance(e.value, complex) and e.value.real == 0 and e.value.imag == int(e.value.imag):
                return (f'(({int(e.value.imag)} : Int) : K)', 'imag')
            refuse(e, f'literal {e.value!r} outside the grammar (only integer and integer-imaginary literals)')
        if isinstance(e, ast.Name):
            if e.id in self.env and self.env[e.id] in ('int', 'real'):
                return (e.id, self.env[e.id])
            refuse(e, f'unknown name {e.id!r}')
        if isinstance(e, ast.Attribute):
            if self.is_np(e, 'pi'):
                self.uses.add('pi'); return ('π', 'real')
            if isinstance(e.value, ast.Name) and e.value.id == self.selfname:
                if e.attr in self.fields:
                    return (f'self.{e.attr}', 'real')
                refuse(e, f'self.{e.attr} is not a data field')
            refuse(e, f'attribute {ast.unparse(e)} outside the grammar')
        if isinstance(e, ast.UnaryOp):
            if not isinstance(e.op, ast.USub):
                refuse(e, 'unary operator outside the grammar')
            s, t = self.expr(e.operand)
            if t in ('int', 'real', 'imag'):
                return (f'(-{s})', t)
            refuse(e, f'negation of a {t}')
        if isinstance(e, ast.BinOp):
            return self.binop(e)
        if isinstance(e, ast.IfExp):
            c = self.cond(e.test)
            a = cast(self.expr(e.body), 'real'); b = cast(self.expr(e.orelse), 'real')
            return (f'(if {c} then {a} else {b})', 'real')
        if isinstance(e, ast.Call):
            return self.call(e)
        refuse(e, f'expression {type(e).__name__} outside the grammar')

    def binop(self, e):
        l = self.expr(e.left); r = self.expr(e.right)
        op = e.op
        if isinstance(op, (ast.Add, ast.Sub, ast.Mult)):
            sym = {'Add': '+', 'Sub': '-', 'Mult': '*'}[type(op).__name__]
            if l[1] == 'int' and r[1] == 'int':
                return (f'({l[0]} {sym} {r[0]})', 'int')
            if isinstance(op, ast.Mult):
                if l[1] == 'imag' and r[1] in ('int', 'real'):
                    return (f'({l[0]} * {cast(r, "real")})', 'imag')
                if r[1] == 'imag' and l[1] in ('int', 'real'):
                    return (f'({cast(l, "real")} * {r[0]})', 'imag')
                if l[1] in ('int', 'real') and r[1] == 'cx':
                    return (f'(CC.Fourier.rsmul {cast(l, "real")} {r[0]})', 'cx')
            if l[1] in ('int', 'real') and r[1] in ('int', 'real'):
                return (f'({cast(l, "real")} {sym} {cast(r, "real")})', 'real')
            refuse(e, f'operator {sym} on kinds {l[1]}, {r[1]}')
        if isinstance(op, ast.Div):
            if l[1] in ('int', 'real') and r[1] in ('int', 'real'):
                return (f'({cast(l, "real")} / {cast(r, "real")})', 'real')   # Python 3 true division
            refuse(e, f'division on kinds {l[1]}, {r[1]}')
        if isinstance(op, ast.Mod):
            if l[1] == 'int' and r[1] == 'int':
                if not (isinstance(e.right, ast.Constant) and isinstance(e.right.value, int) and e.right.value > 0):
                    refuse(e, 'integer % with a divisor that is not a positive literal')
                return (f'({l[0]} % {r[0]})', 'int')     # Int.emod = Python % for a positive divisor
            if l[1] in ('int', 'real') and r[1] in ('int', 'real'):
                self.uses.add('fmod')
                return (f'(fmod {cast(l, "real")} {cast(r, "real")})', 'real')
            refuse(e, f'% on kinds {l[1]}, {r[1]}')
        refuse(e, f'operator {type(op).__name__} outside the grammar')

    def call(self, e):
        f = e.func
        if e.keywords:
            refuse(e, 'keyword arguments outside the grammar')
        if self.is_np(f, 'cos') or self.is_np(f, 'sin'):
            if len(e.args) != 1: refuse(e, 'arity')
            self.uses.add('trig')
            return (f'({f.attr} {cast(self.expr(e.args[0]), "real")})', 'real')
        if self.is_np(f, 'exp'):
            if len(e.args) != 1: refuse(e, 'arity')
            s, t = self.expr(e.args[0])
            if t != 'imag':
                refuse(e, 'np.exp of anything but a purely imaginary argument')
            self.uses.add('trig')
            return (f'(CC.Fourier.expj cos sin {s})', 'cx')
        if self.is_np(f, 'mod'):
            if len(e.args) != 2: refuse(e, 'arity')
            self.uses.add('fmod')
            a = cast(self.expr(e.args[0]), 'real'); b = cast(self.expr(e.args[1]), 'real')
            return (f'(fmod {a} {b})', 'real')
        if self.is_np(f, 'ones'):
            # np.ones(t.shape): the array of ones of the argument's shape — pointwise the number 1
            a = e.args
            if (len(a) == 1 and isinstance(a[0], ast.Attribute) and a[0].attr == 'shape'
                    and isinstance(a[0].value, ast.Name) and self.env.get(a[0].value.id) == 'real'):
                return ('((1 : Int) : K)', 'real')
            refuse(e, 'np.ones of anything but <argument>.shape')
        if isinstance(f, ast.Name) and self.env.get(f.id) == 'fun':
            if len(e.args) != 1: refuse(e, 'arity')
            return (f'({f.id} {cast(self.expr(e.args[0]), "real")})', 'real')
        if isinstance(f, ast.Attribute) and isinstance(f.value, ast.Name) and f.value.id == self.selfname \
                and f.attr in self.methods:
            if len(e.args) != 1: refuse(e, 'arity')
            s, t = self.expr(e.args[0])
            if t != 'int':
                refuse(e, f'harmonic index of kind {t}')
            m = self.methods[f.attr]
            self.uses |= m['uses']
            return (f'(self.{lname(f.attr)}{m["prefix"]} {s})', m['ret'])
        refuse(e, f'call {ast.unparse(f)} outside the grammar')

    def cond(self, c):
        if isinstance(c, ast.Compare) and len(c.ops) == 1:
            l = self.expr(c.left); r = self.expr(c.comparators[0]); op = c.ops[0]
            if l[1] == 'int' and r[1] == 'int':
                sym = {'Eq': '=', 'NotEq': '≠', 'Lt': '<', 'LtE': '≤', 'Gt': '>', 'GtE': '≥'}.get(type(op).__name__)
                if sym is None: refuse(c, 'comparison outside the grammar')
                return f'{l[0]} {sym} {r[0]}'
            if l[1] in ('int', 'real') and r[1] in ('int', 'real'):
                if not isinstance(op, ast.Lt):
                    refuse(c, 'comparison of reals other than strict <')
                self.uses.add('lt')
                return f'{cast(l, "real")} < {cast(r, "real")}'
        refuse(c, 'condition outside the grammar')

# --------------------------------------------------------------------------- statements

def guarded_returns(tr: Tr, body, want):
    """chain of `if <cond>: return <e>` ending in `return <e>`  →  nested if-then-else"""
    body = [s for s in body if not (isinstance(s, ast.Expr) and isinstance(s.value, ast.Constant) and isinstance(s.value.value, str))]
    if not body:
        refuse(None, 'empty body')
    out = []
    for s in body[:-1]:
        if not (isinstance(s, ast.If) and not s.orelse and len(s.body) == 1 and isinstance(s.body[0], ast.Return)
                and s.body[0].value is not None):
            refuse(s, 'statement outside the guarded-return grammar')
        out.append((tr.cond(s.test), conv(tr, s.body[0].value, want)))
    last = body[-1]
    if not (isinstance(last, ast.Return) and last.value is not None):
        refuse(last, 'body does not end in `return <expr>`')
    res = conv(tr, last.value, want)
    for c, v in reversed(out):
        res = f'if {c} then {v} else {res}'
    return res

def conv(tr, e, want):
    s, t = tr.expr(e)
    if want == 'real':
        return cast((s, t), 'real')
    if t != want:
        refuse(e, f'expression of kind {t} where {want} is expected')
    return s

def dataclass_fields(cls: ast.ClassDef):
    """annotated assignments of a class body: name -> default (ast or None)"""
    f = {}
    for s in cls.body:
        if isinstance(s, ast.AnnAssign) and isinstance(s.target, ast.Name):
            f[s.target.id] = s.value
    return f

def methods_of(cls: ast.ClassDef):
    return {s.name: s for s in cls.body if isinstance(s, ast.FunctionDef)}

def is_dataclass(cls):
    return any(isinstance(d, ast.Name) and d.id == 'dataclass' for d in cls.decorator_list)

def prefix(uses, kind):
    p = ' π'
    if kind == 'harm':
        return p + (' cos sin' if 'trig' in uses else '')
    return p + ' cos sin fmod'

def binders(uses, kind):
    b = '(π : K)'
    if kind == 'harm':
        return b + (' (cos sin : K → K)' if 'trig' in uses else '')
    return b + ' (cos sin : K → K) (fmod : K → K → K)'

# --------------------------------------------------------------------------- the generator

@generator('Fourier.lean')
def gen_fourier(src):
    mod = parse(src, REL)
    classes = {s.name: s for s in mod.body if isinstance(s, ast.ClassDef)}
    funcs = {s.name: s for s in mod.body if isinstance(s, ast.FunctionDef)}
    L = []
    w = L.append
    w('/- GENERATED by harness/extract_fourier.py from')
    w(f'   src/CircuitCalculator/{REL} — do not edit. -/')
    w('import CC.Model.FourierBase')
    w('set_option linter.unusedVariables false')
    w('namespace CC.Gen.Fourier')
    w('')

    # ---- class inventory
    if BASE not in classes:
        refuse(None, f'class {BASE} not found')
    base = classes[BASE]
    harm_fields = list(dataclass_fields(base).keys())
    if harm_fields != ['amplitude0', 'phase0', 'offset0'] or not is_dataclass(base):
        refuse(base, f'{BASE} is not the dataclass (amplitude0, phase0, offset0): {harm_fields}')
    harms = [c for c in classes.values()
             if any(isinstance(b, ast.Name) and b.id == BASE for b in c.bases)]
    waves = [c for c in classes.values()
             if 'time_function' in methods_of(c) and not any(isinstance(b, ast.Name) and b.id == 'Protocol' for b in c.bases)]
    if not harms or not waves:
        refuse(None, 'no harmonic classes / wave classes found')
    for c in harms:
        if len(c.bases) != 1 or c.decorator_list:
            refuse(c, f'{c.name}: bases/decorators outside the grammar')
        extra = [s for s in c.body if not (isinstance(s, ast.FunctionDef) and s.name in COEFFS)]
        if extra or sorted(methods_of(c)) != sorted(COEFFS):
            refuse(c, f'{c.name} must define exactly {COEFFS} (found {sorted(methods_of(c))}'
                      f'{" and other statements" if extra else ""})')
    wave_defaults = {}
    for c in waves:
        if not is_dataclass(c) or c.bases:
            refuse(c, f'{c.name}: not a plain dataclass')
        f = dataclass_fields(c)
        if list(f.keys()) != WAVE_FIELDS + ['wavetype']:
            refuse(c, f'{c.name}: fields {list(f.keys())} ≠ {WAVE_FIELDS + ["wavetype"]}')
        wt = f['wavetype']
        if not (isinstance(wt, ast.Constant) and isinstance(wt.value, str)):
            refuse(c, f'{c.name}.wavetype default is not a string literal')
        extra = [s for s in c.body if not isinstance(s, ast.AnnAssign) and not (isinstance(s, ast.FunctionDef) and s.name == 'time_function')]
        if extra:
            refuse(extra[0], f'{c.name}: statement outside the grammar')
        wave_defaults[c.name] = wt.value

    def inductive(name, cs):
        w(f'inductive {name} where')
        for c in cs:
            w(f'  | {c.name}')
        w('  deriving DecidableEq, Repr')
        w('')
        w(f'def {name}.all : List {name} := [{", ".join("." + c.name for c in cs)}]')
        w(f'def {name}.name : {name} → String')
        for c in cs:
            w(f'  | .{c.name} => {lean_str(c.name)}')
        w('')
    inductive('Wave', waves)
    inductive('Harm', harms)
    w('/-- class attribute `wavetype` (dataclass default) -/')
    w('def Wave.wavetype : Wave → String')
    for c in waves:
        w(f'  | .{c.name} => {lean_str(wave_defaults[c.name])}')
    w('')
    w('structure WaveObj (K : Type) where')
    w('  cls : Wave')
    for f in WAVE_FIELDS:
        w(f'  {f} : K')
    w('')
    w('structure HarmObj (K : Type) where')
    w('  cls : Harm')
    for f in harm_fields:
        w(f'  {f} : K')
    w('')

    # ---- fourier_series_mapping
    tbl = None
    for s in mod.body:
        tgt = None
        if isinstance(s, ast.AnnAssign) and isinstance(s.target, ast.Name): tgt, val = s.target.id, s.value
        elif isinstance(s, ast.Assign) and len(s.targets) == 1 and isinstance(s.targets[0], ast.Name): tgt, val = s.targets[0].id, s.value
        if tgt == 'fourier_series_mapping':
            if not isinstance(val, ast.Dict):
                refuse(s, 'fourier_series_mapping is not a dictionary literal')
            tbl = []
            for k, v in zip(val.keys, val.values):
                if not (isinstance(k, ast.Name) and isinstance(v, ast.Name)):
                    refuse(s, 'fourier_series_mapping entry is not Class: Class')
                if k.id not in [c.name for c in waves]:
                    refuse(k, f'mapping key {k.id} is not a wave class')
                if v.id not in [c.name for c in harms]:
                    refuse(v, f'mapping value {v.id} is not a harmonic class')
                tbl.append((k.id, v.id))
            if len({k for k, _ in tbl}) != len(tbl):
                # a dict literal keeps the last duplicate; refuse instead of modelling that
                refuse(s, 'duplicate key in fourier_series_mapping')
        if tgt == 'periodic_functions':
            if ast.dump(val) != ast.dump(ast.parse('list(fourier_series_mapping.keys())', mode='eval').body):
                refuse(s, 'periodic_functions is not list(fourier_series_mapping.keys())')
    if tbl is None:
        refuse(None, 'fourier_series_mapping not found')
    w('def fourierSeriesMapping : List (Wave × Harm) :=')
    w('  [' + ', '.join(f'(.{k}, .{v})' for k, v in tbl) + ']')
    w('')
    w('/-- `periodic_functions = list(fourier_series_mapping.keys())` -/')
    w('def periodicFunctions : List Wave := fourierSeriesMapping.map (·.1)')
    w('')

    # ---- fourier_series
    fs = funcs.get('fourier_series')
    if fs is None or [a.arg for a in fs.args.args] != ['time_function']:
        refuse(fs, 'fourier_series(time_function) not found')
    ok = (len(fs.body) == 1 and isinstance(fs.body[0], ast.Try) and len(fs.body[0].body) == 1
          and isinstance(fs.body[0].body[0], ast.Return) and len(fs.body[0].handlers) == 1
          and not fs.body[0].orelse and not fs.body[0].finalbody)
    if not ok:
        refuse(fs, 'fourier_series: body outside the grammar')
    h = fs.body[0].handlers[0]
    if not (isinstance(h.type, ast.Name) and h.type.id == 'KeyError' and len(h.body) == 1 and isinstance(h.body[0], ast.Raise)
            and isinstance(h.body[0].exc, ast.Call) and isinstance(h.body[0].exc.func, ast.Name)):
        refuse(h, 'fourier_series: handler outside the grammar')
    fs_exc = h.body[0].exc.func.id
    call = fs.body[0].body[0].value
    want_callee = ast.dump(ast.parse('fourier_series_mapping[type(time_function)]', mode='eval').body)
    if not (isinstance(call, ast.Call) and ast.dump(call.func) == want_callee and not call.args):
        refuse(call, 'fourier_series: not fourier_series_mapping[type(time_function)](…)')
    bind = {}
    for kw in call.keywords:
        v = kw.value
        if not (isinstance(v, ast.Attribute) and isinstance(v.value, ast.Name) and v.value.id == 'time_function'
                and v.attr in WAVE_FIELDS):
            refuse(kw.value, f'fourier_series: argument {kw.arg} is not time_function.<field>')
        bind[kw.arg] = v.attr
    if sorted(bind) != sorted(harm_fields):
        refuse(call, f'fourier_series: keyword arguments {sorted(bind)} ≠ {sorted(harm_fields)}')
    w('def fourierSeries {K : Type} (time_function : WaveObj K) : Except String (HarmObj K) :=')
    w('  match fourierSeriesMapping.lookup time_function.cls with')
    w('  | some H => .ok { cls := H, ' + ', '.join(f'{f} := time_function.{bind[f]}' for f in harm_fields) + ' }')
    w(f'  | none => .error {lean_str(fs_exc)}')
    w('')

    # ---- periodic_function
    pf = funcs.get('periodic_function')
    if pf is None or [a.arg for a in pf.args.args] != ['wavetype']:
        refuse(pf, 'periodic_function(wavetype) not found')
    tmpl = ast.parse(
        'def periodic_function(wavetype):\n'
        '    try:\n'
        '        return [pf for pf in periodic_functions if pf.wavetype == wavetype][0]\n'
        '    except IndexError:\n'
        '        raise X(m)\n').body[0]
    try:
        got_try = pf.body[0]
        same = (len(pf.body) == 1 and isinstance(got_try, ast.Try)
                and ast.dump(got_try.body[0]) == ast.dump(tmpl.body[0].body[0]) and len(got_try.body) == 1
                and len(got_try.handlers) == 1 and not got_try.orelse and not got_try.finalbody
                and isinstance(got_try.handlers[0].type, ast.Name) and got_try.handlers[0].type.id == 'IndexError'
                and len(got_try.handlers[0].body) == 1 and isinstance(got_try.handlers[0].body[0], ast.Raise)
                and isinstance(got_try.handlers[0].body[0].exc, ast.Call)
                and isinstance(got_try.handlers[0].body[0].exc.func, ast.Name))
    except (IndexError, AttributeError):
        same = False
    if not same:
        refuse(pf, 'periodic_function: body outside the grammar')
    pf_exc = got_try.handlers[0].body[0].exc.func.id
    w('def periodicFunction (wavetype : String) : Except String Wave :=')
    w('  match periodicFunctions.filter (fun pf => pf.wavetype == wavetype) with')
    w('  | pf :: _ => .ok pf')
    w(f'  | [] => .error {lean_str(pf_exc)}')
    w('')

    # ---- harmonic classes
    w('section')
    w('variable {K : Type} [Add K] [Mul K] [Neg K] [Sub K] [Div K] [IntCast K]')
    w('')
    coeff_uses = {m: set() for m in COEFFS}
    per_class = []
    for c in harms:
        for mname in COEFFS:
            m = methods_of(c)[mname]
            args = [a.arg for a in m.args.args]
            if len(args) != 2 or args[0] != 'self' or m.args.vararg or m.args.kwarg or m.args.kwonlyargs or m.decorator_list:
                refuse(m, f'{c.name}.{mname}: signature outside the grammar')
            n = args[1]
            tr = Tr({n: 'int'} if n != '_' else {}, set(harm_fields), {})
            body = guarded_returns(tr, m.body, 'real')
            if 'fmod' in tr.uses or 'lt' in tr.uses:
                refuse(m, f'{c.name}.{mname}: float modulo / comparison in a coefficient')
            coeff_uses[mname] |= tr.uses
            per_class.append((c.name, mname, n if n != '_' else '_n', body, m.lineno))
    for cname, mname, n, body, line in per_class:
        u = coeff_uses[mname]
        w(f'/-- {cname}.{mname} ({REL.split("/")[-1]}:{line}) -/')
        w(f'def {cname}.{lname(mname)} {binders(u, "harm")} (self : HarmObj K) ({n} : Int) : K :=')
        w(f'  {body}')
        w('')
    methods = {}
    for mname in COEFFS:
        u = coeff_uses[mname]
        w(f'/-- virtual dispatch of `self.{mname}` -/')
        w(f'def HarmObj.{lname(mname)} {binders(u, "harm")} (self : HarmObj K) (n : Int) : K :=')
        w('  match self.cls with')
        for c in harms:
            w(f'  | .{c.name} => {c.name}.{lname(mname)}{prefix(u, "harm")} self n')
        w('')
        methods[mname] = dict(uses=set(u) | {'pi'}, prefix=prefix(u, 'harm'), ret='real')

    # ---- AbstractHarmonicCoefficients: amplitude, phase, a, b, c
    bm = methods_of(base)
    for mname in COEFFS:
        m = bm.get(mname)
        if m is None or not (len(m.body) == 1 and isinstance(m.body[0], ast.Expr) and isinstance(m.body[0].value, ast.Constant)
                             and m.body[0].value.value is Ellipsis):
            refuse(m or base, f'{BASE}.{mname} is not an abstract stub')
    order = [s.name for s in base.body if isinstance(s, ast.FunctionDef) and s.name not in COEFFS]
    if sorted(order) != ['a', 'amplitude', 'b', 'c', 'phase']:
        refuse(base, f'{BASE}: methods {order} ≠ amplitude, phase, a, b, c')
    other = [s for s in base.body if not isinstance(s, (ast.FunctionDef, ast.AnnAssign))]
    if other:
        refuse(other[0], f'{BASE}: statement outside the grammar')
    pending = list(order)
    progress = True
    while pending and progress:       # emit in dependency order
        progress = False
        for mname in list(pending):
            m = bm[mname]
            args = [a.arg for a in m.args.args]
            if len(args) != 2 or args[0] != 'self' or m.decorator_list:
                refuse(m, f'{BASE}.{mname}: signature outside the grammar')
            calls = {x.func.attr for x in ast.walk(m) if isinstance(x, ast.Call) and isinstance(x.func, ast.Attribute)
                     and isinstance(x.func.value, ast.Name) and x.func.value.id == 'self'}
            if not calls <= set(methods):
                if not calls <= set(methods) | set(pending):
                    refuse(m, f'{BASE}.{mname}: calls unknown methods {sorted(calls - set(methods) - set(pending))}')
                continue
            want = 'cx' if mname == 'c' else 'real'
            tr = Tr({args[1]: 'int'}, set(harm_fields), methods)
            body = guarded_returns(tr, m.body, want)
            if 'fmod' in tr.uses or 'lt' in tr.uses:
                refuse(m, f'{BASE}.{mname}: float modulo / comparison')
            ret = 'K × K' if want == 'cx' else 'K'
            w(f'/-- {BASE}.{mname} ({REL.split("/")[-1]}:{m.lineno}) -/')
            w(f'def HarmObj.{mname} {binders(tr.uses, "harm")} (self : HarmObj K) ({args[1]} : Int) : {ret} :=')
            w(f'  {body}')
            w('')
            methods[mname] = dict(uses=set(tr.uses) | {'pi'}, prefix=prefix(tr.uses, 'harm'), ret=want)
            pending.remove(mname); progress = True
    if pending:
        refuse(base, f'{BASE}: cyclic method dependencies {pending}')
    w('end')
    w('')

    # ---- time functions
    w('section')
    w('variable {K : Type} [Add K] [Mul K] [Neg K] [Sub K] [Div K] [IntCast K] [LT K] [DecidableLT K]')
    w('')
    for c in waves:
        m = methods_of(c)['time_function']
        if not (len(m.decorator_list) == 1 and isinstance(m.decorator_list[0], ast.Name) and m.decorator_list[0].id == 'property'
                and [a.arg for a in m.args.args] == ['self']):
            refuse(m, f'{c.name}.time_function is not a property of self')
        env = {}
        lets = []
        tr = Tr(env, set(WAVE_FIELDS), {})
        stmts = list(m.body)
        for s in stmts[:-1]:
            if not (isinstance(s, ast.Assign) and len(s.targets) == 1 and isinstance(s.targets[0], ast.Name)):
                refuse(s, f'{c.name}.time_function: statement outside the grammar')
            nm = s.targets[0].id
            if nm in tr.env or nm in ('self', 'np', 'π', 'cos', 'sin', 'fmod', 't'):
                refuse(s, f'{c.name}.time_function: rebinding of {nm}')
            if isinstance(s.value, ast.Lambda):
                la = s.value
                if len(la.args.args) != 1 or la.args.defaults or la.args.vararg or la.args.kwarg:
                    refuse(s, 'lambda signature outside the grammar')
                p = la.args.args[0].arg
                inner = Tr({**tr.env, p: 'real'}, tr.fields, {})
                bs = cast(inner.expr(la.body), 'real')
                tr.uses |= inner.uses
                lets.append(f'let {nm} := fun ({p} : K) => {bs}')
                tr.env[nm] = 'fun'
            else:
                lets.append(f'let {nm} : K := {cast(tr.expr(s.value), "real")}')
                tr.env[nm] = 'real'
        last = stmts[-1]
        if not isinstance(last, ast.Return) or last.value is None:
            refuse(last, f'{c.name}.time_function does not end in return')
        v = last.value
        if isinstance(v, ast.Call) and tr.is_np(v.func, 'vectorize') and len(v.args) == 1 and not v.keywords:
            v = v.args[0]          # np.vectorize(f): f applied pointwise
        if not (isinstance(v, ast.Lambda) and len(v.args.args) == 1 and not v.args.defaults
                and not v.args.vararg and not v.args.kwarg):
            refuse(last, f'{c.name}.time_function does not return a one-argument lambda')
        p = v.args.args[0].arg
        if p in tr.env:
            refuse(last, f'lambda parameter {p} shadows a local')
        inner = Tr({**tr.env, p: 'real'}, tr.fields, {})
        bs = cast(inner.expr(v.body), 'real')
        w(f'/-- {c.name}.time_function ({REL.split("/")[-1]}:{m.lineno}) -/')
        w(f'def {c.name}.timeFunction {binders(set(), "wave")} (self : WaveObj K) ({p} : K) : K :=')
        for l in lets:
            w(f'  {l}')
        w(f'  {bs}')
        w('')
    w('/-- dispatch of `<wave object>.time_function` on the class -/')
    w(f'def WaveObj.timeFunction {binders(set(), "wave")} (self : WaveObj K) (t : K) : K :=')
    w('  match self.cls with')
    for c in waves:
        w(f'  | .{c.name} => {c.name}.timeFunction π cos sin fmod self t')
    w('')
    w('end')
    w('')
    w('end CC.Gen.Fourier')
    return '\n'.join(L) + '\n'
