"""
extract_transformers.py — translator for Network/transformers.py  →  lean/CC/Gen/Transformers.lean

Every function of the file is translated statement by statement into a Lean `def` over the data
types of CC/Model/Net.lean, using the generated core (CC/Gen/Core.lean: element properties,
`is_*` predicates, `impedance`/`admittance`, `Network.post_init`, `Network.getitem`) and the idioms of
CC/Model/CoreBase.lean + CC/Model/TransformersBase.lean (namespace `CC.Py`).
CC/Properties/C16Gen.lean proves each generated definition equal to the hand-written model
CC/Model/Transform.lean that the C16 / C04 theorems are about.

Kinds (typing discipline of the translator):
  net, branch, elt (element object = (name, type, record)), label (`L`), id (`String`), bool,
  num (`K`), xval (element property that may be inf/nan; `.toNum` where passed as a number),
  list T, pair (label × label), fn
Effects: `network[id]` (KeyError), `Network(…)` (its __post_init__), `l.remove(x)` (ValueError) and
calls of functions containing them.  Such functions live in `Except Err`; an effect is bound where it
occurs, in Python's evaluation order.  Effects inside a comprehension or a nested helper are refused.

Grammar (anything else raises ExtractError with file:line):
  def f(p: T, …, keep: list[…] = []) -> Network
  name = expr            l.remove(expr)            return expr
  for a, b in <list of pairs>: <assignments to exactly one name that is live before the loop>   (a left fold)
  for k in range(len(<list>)): <assignments `name = expr` / `a, b = <pair>`>   (a left fold over 0 … len-1, the length taken
        once before the loop; accumulator = the assigned names that are live before the loop, in order of first assignment;
        the other assigned names are local to one pass and unknown after the loop; `l[k]` may raise → the fold is monadic)
  nested  def g(x: Branch) -> Branch|bool:  guarded-return chain  `if c: return e … return e`
  expr: names, network.branches, network.node_zero_label, network.is_zero_node(x), network[x], b.node1, b.node2,
        b.element, b.element.name, b.element.Z/Y/V/I, list(x), Branch(a, b, el), Network(bs, zero) (positional or
        keyword), impedance(name, Z), admittance(name, Y), is_*(el), calls of functions of this file (keyword or
        positional), calls of nested helpers, [E for x in L if C] (one generator), (a, b), A if C else B,
        b.id, ==, !=, in, not in, not, and, or, True, False, 0, 1, len(l) (only as the bound of a loop), l[k] (k a loop
        index; IndexError bound like the other effects), [E for a, b in <list of pairs> if C]
"""
from __future__ import annotations
import ast
from pathlib import Path
from extract import generator, parse, lean_str, ExtractError

F_TRF = 'Network/transformers.py'
F_NET = 'Network/network.py'
F_ELM = 'Network/elements.py'

def refuse(rel, node, msg):
    raise ExtractError(f'{rel}:{getattr(node, "lineno", "?")}: {msg}')

def lean_ty(t):
    if isinstance(t, tuple) and t[0] == 'list':
        return f'List ({lean_ty(t[1])})'
    return {'net': 'Net L K', 'branch': 'Branch L K', 'elt': 'Py.Elt K', 'label': 'L', 'id': 'String', 'bool': 'Bool',
            'num': 'K', 'xval': 'Py.XVal K', 'pair': 'L × L', 'nat': 'Nat'}[t]

# parameters whose annotation `str` is a node label, resp. a branch id (the only configuration)
STR_KIND = {('switch_ground_node', 'new_ground'): 'label', ('remove_element', 'element'): 'id'}
PREDICATES = ['is_current_source', 'is_voltage_source', 'is_short_circuit', 'is_open_circuit',
              'is_ideal_voltage_source', 'is_ideal_current_source', 'is_active']
FACTORIES = {'impedance': ['name', 'Z'], 'admittance': ['name', 'Y']}
ELEM_PROPS = ['Z', 'Y', 'V', 'I']

class Sig:
    def __init__(self, name, params, ret, monadic, defaults):
        self.name, self.params, self.ret, self.monadic, self.defaults = name, params, ret, monadic, defaults

class FnTr:
    """translator of one function body (top-level or nested helper)"""
    def __init__(self, gen, fname, env, monadic, helpers=None):
        self.g, self.fname, self.env, self.monadic = gen, fname, dict(env), monadic
        self.helpers = dict(helpers or {})      # nested helper name -> Sig
        self.lines, self.counter = [], 0
        self.in_pure_context = 0                 # > 0 inside a comprehension / lambda / helper: effects refused

    def fresh(self, stem):
        self.counter += 1
        return f'{stem}{self.counter}'

    def bind(self, code, stem, node):
        if self.in_pure_context or not self.monadic:
            refuse(F_TRF, node, 'an operation that may raise occurs where it cannot be sequenced (comprehension / helper)')
        v = self.fresh(stem)
        self.lines.append(f'let {v} ← {code}')
        return v

    # ------------------------------------------------------------------ expressions
    def ann_kind(self, ann, pname=None):
        if isinstance(ann, ast.Name):
            if ann.id == 'Network': return 'net'
            if ann.id == 'Branch': return 'branch'
            if ann.id == 'bool': return 'bool'
            if ann.id == 'str':
                k = STR_KIND.get((self.fname, pname))
                if k: return k
        if isinstance(ann, ast.Subscript) and isinstance(ann.value, ast.Name) and ann.value.id == 'list' \
                and isinstance(ann.slice, ast.Name) and ann.slice.id == 'NortenTheveninElement':
            return ('list', 'elt')
        refuse(F_TRF, ann, f'annotation of {pname!r} outside the grammar')

    def call_args(self, node, names):
        """positional / keyword arguments of a call -> expressions in parameter order"""
        if len(node.args) > len(names) or any(isinstance(a, ast.Starred) for a in node.args):
            refuse(F_TRF, node, 'too many / starred arguments')
        out = dict(zip(names, node.args))
        for k in node.keywords:
            if k.arg is None or k.arg not in names or k.arg in out:
                refuse(F_TRF, node, f'keyword argument {k.arg!r} outside the signature')
            out[k.arg] = k.value
        return out

    def expr(self, e):
        """-> (lean code, kind)"""
        if isinstance(e, ast.Constant) and isinstance(e.value, bool):
            return ('true' if e.value else 'false'), 'bool'
        if isinstance(e, ast.Constant) and isinstance(e.value, int) and not isinstance(e.value, bool) and e.value in (0, 1):
            return f'({e.value} : K)', 'num'
        if isinstance(e, ast.Name):
            if e.id in self.env:
                return self.env[e.id]
            refuse(F_TRF, e, f'unknown name {e.id!r}')
        if isinstance(e, ast.Attribute):
            # b.element.<x>
            if isinstance(e.value, ast.Attribute) and e.value.attr == 'element':
                b, kb = self.expr(e.value.value)
                if kb != 'branch': refuse(F_TRF, e, '.element of a non-branch')
                if e.attr == 'name': return f'{b}.id', 'id'
                if e.attr in ELEM_PROPS: return f'(Elem.{e.attr} {b}.e)', 'xval'
                refuse(F_TRF, e, f'element attribute {e.attr!r} outside the grammar')
            v, k = self.expr(e.value)
            if k == 'net' and e.attr == 'branches': return f'{v}.branches', ('list', 'branch')
            if k == 'net' and e.attr == 'node_zero_label': return f'{v}.zero', 'label'
            if k == 'branch' and e.attr == 'node1': return f'{v}.n1', 'label'
            if k == 'branch' and e.attr == 'node2': return f'{v}.n2', 'label'
            if k == 'branch' and e.attr == 'element': return f'(Py.element {v})', 'elt'
            if k == 'branch' and e.attr == 'id': return f'{v}.id', 'id'          # Branch.id = element.name (checked below)
            refuse(F_TRF, e, f'attribute {e.attr!r} of a {k} outside the grammar')
        if isinstance(e, ast.Subscript):
            v, k = self.expr(e.value)
            i, ki = self.expr(e.slice)
            if k == 'net' and ki == 'id':
                return self.bind(f'Network.getitem {v} {i}', 'd', e), 'branch'
            if isinstance(k, tuple) and k[0] == 'list' and ki == 'nat':
                return self.bind(f'Py.listIndex {v} {i}', 'd', e), k[1]       # l[k], k ≥ 0: IndexError iff k ≥ len(l)
            refuse(F_TRF, e, 'subscript outside the grammar (only network[id] and list[loop index])')
        if isinstance(e, ast.Tuple):
            if len(e.elts) != 2: refuse(F_TRF, e, 'only pairs')
            (a, ka), (b, kb) = self.expr(e.elts[0]), self.expr(e.elts[1])
            if (ka, kb) != ('label', 'label'): refuse(F_TRF, e, 'only pairs of node labels')
            return f'({a}, {b})', 'pair'
        if isinstance(e, ast.IfExp):
            c, kc = self.expr(e.test)
            (a, ka), (b, kb) = self.expr(e.body), self.expr(e.orelse)
            if kc != 'bool' or ka != kb: refuse(F_TRF, e, 'conditional expression with mismatching kinds')
            return f'(if {c} then {a} else {b})', ka
        if isinstance(e, ast.UnaryOp) and isinstance(e.op, ast.Not):
            a, ka = self.expr(e.operand)
            if ka != 'bool': refuse(F_TRF, e, '`not` of a non-boolean')
            return f'(!{a})', 'bool'
        if isinstance(e, ast.BoolOp):
            parts = [self.expr(v) for v in e.values]
            if any(k != 'bool' for _, k in parts): refuse(F_TRF, e, 'and/or of non-booleans')
            op = ' && ' if isinstance(e.op, ast.And) else ' || '
            return '(' + op.join(p for p, _ in parts) + ')', 'bool'
        if isinstance(e, ast.Compare):
            if len(e.ops) != 1: refuse(F_TRF, e, 'chained comparison')
            (a, ka), (b, kb) = self.expr(e.left), self.expr(e.comparators[0])
            op = e.ops[0]
            if isinstance(op, (ast.Eq, ast.NotEq)):
                if ka != kb or ka not in ('label', 'id'): refuse(F_TRF, e, f'==/!= on {ka} and {kb}')
                return f'(decide ({a} {"=" if isinstance(op, ast.Eq) else "≠"} {b}))', 'bool'
            if isinstance(op, (ast.In, ast.NotIn)):
                if kb != ('list', ka) or ka != 'elt': refuse(F_TRF, e, f'membership of a {ka} in a {kb}')
                return f'(decide ({a} {"∈" if isinstance(op, ast.In) else "∉"} {b}))', 'bool'
            refuse(F_TRF, e, 'comparison operator outside the grammar')
        if isinstance(e, ast.ListComp):
            if len(e.generators) != 1 or e.generators[0].is_async:
                refuse(F_TRF, e, 'comprehension with more than one generator')
            g = e.generators[0]
            src, ks = self.expr(g.iter)
            if not (isinstance(ks, tuple) and ks[0] == 'list'): refuse(F_TRF, e, 'comprehension over a non-list')
            if isinstance(g.target, ast.Name):
                x, bound, pre = g.target.id, [(g.target.id, ks[1])], ''
            elif isinstance(g.target, ast.Tuple) and len(g.target.elts) == 2 and all(isinstance(t, ast.Name) for t in g.target.elts) \
                    and ks[1] == 'pair' and g.target.elts[0].id != g.target.elts[1].id:
                # `for a, b in <list of pairs>`: the pair is bound to a fresh name, its components to a and b
                x = self.fresh('p')
                if x in self.env: refuse(F_TRF, e, f'name clash with the generated name {x}')
                ta, tb = g.target.elts[0].id, g.target.elts[1].id
                bound = [(ta, 'label'), (tb, 'label')]
                pre = f'let {ta} : L := {x}.1; let {tb} : L := {x}.2; '
            else:
                refuse(F_TRF, e, 'comprehension target outside the grammar (a name, or `a, b` over a list of pairs)')
            saved = {n: self.env.get(n) for n, _ in bound}
            for n, kn in bound:
                self.env[n] = (n, kn)
            self.in_pure_context += 1
            out = src
            if g.ifs:
                conds = [self.expr(c) for c in g.ifs]
                if any(k != 'bool' for _, k in conds): refuse(F_TRF, e, 'non-boolean comprehension condition')
                out = f'({out}.filter fun ({x} : {lean_ty(ks[1])}) => {pre}{" && ".join(c for c, _ in conds)})'
            el, kel = self.expr(e.elt)
            if not (isinstance(e.elt, ast.Name) and isinstance(g.target, ast.Name) and e.elt.id == x):
                out = f'({out}.map fun ({x} : {lean_ty(ks[1])}) => {pre}{el})'
            self.in_pure_context -= 1
            for n, v in saved.items():
                if v is None: del self.env[n]
                else: self.env[n] = v
            return out, ('list', kel)
        if isinstance(e, ast.Call):
            return self.call(e)
        refuse(F_TRF, e, f'expression {type(e).__name__} outside the grammar')

    def as_num(self, code, kind, node):
        if kind == 'num': return code
        if kind == 'xval': return f'(Py.XVal.toNum {code})'
        refuse(F_TRF, node, f'a {kind} where a number is expected')

    def call(self, e):
        f = e.func
        # network.is_zero_node(x)
        if isinstance(f, ast.Attribute):
            v, k = self.expr(f.value)
            if k == 'net' and f.attr == 'is_zero_node' and len(e.args) == 1 and not e.keywords:
                a, ka = self.expr(e.args[0])
                if ka != 'label': refuse(F_TRF, e, 'is_zero_node of a non-label')
                return f'(Network.is_zero_node {v} {a})', 'bool'
            refuse(F_TRF, e, f'method call .{f.attr} outside the grammar')
        if not isinstance(f, ast.Name):
            refuse(F_TRF, e, 'call of a computed function')
        n = f.id
        if n == 'list' and len(e.args) == 1 and not e.keywords:
            a, ka = self.expr(e.args[0])
            if not (isinstance(ka, tuple) and ka[0] == 'list'): refuse(F_TRF, e, 'list(x) of a non-list')
            return a, ka                                       # value semantics: a copy is the value
        if n == 'len' and len(e.args) == 1 and not e.keywords:
            a, ka = self.expr(e.args[0])
            if not (isinstance(ka, tuple) and ka[0] == 'list'): refuse(F_TRF, e, 'len(x) of a non-list')
            return f'{a}.length', 'nat'
        if n == 'Branch':
            a = self.call_args(e, ['node1', 'node2', 'element'])
            if len(a) != 3: refuse(F_TRF, e, 'Branch(…) needs three arguments')
            (n1, k1), (n2, k2), (el, k3) = self.expr(a['node1']), self.expr(a['node2']), self.expr(a['element'])
            if (k1, k2, k3) != ('label', 'label', 'elt'): refuse(F_TRF, e, f'Branch({k1}, {k2}, {k3})')
            return f'(Py.mkBranch {n1} {n2} {el})', 'branch'
        if n == 'Network':
            a = self.call_args(e, self.g.network_fields)
            if 'branches' not in a: refuse(F_TRF, e, 'Network(…) without branches')
            bs, kb = self.expr(a['branches'])
            if kb != ('list', 'branch'): refuse(F_TRF, e, 'Network(branches=…) is not a list of branches')
            if 'node_zero_label' in a:
                z, kz = self.expr(a['node_zero_label'])
                if kz != 'label': refuse(F_TRF, e, 'node_zero_label is not a label')
            else:
                refuse(F_TRF, e, "Network(…) with the default reference label '0' is outside the grammar (labels are abstract)")
            return self.bind(f'Py.construct Network.post_init {bs} {z}', 'net', e), 'net'
        if n in FACTORIES:
            a = self.call_args(e, self.g.factory_params[n])
            if len(a) != 2: refuse(F_TRF, e, f'{n}(…) needs two arguments')
            p_name, p_val = self.g.factory_params[n]
            nm, kn = self.expr(a[p_name])
            val, kv = self.expr(a[p_val])
            if kn != 'id': refuse(F_TRF, e, f'{n}: name is a {kn}')
            return f'({n} {nm} {self.as_num(val, kv, e)})', 'elt'
        if n in PREDICATES:
            if len(e.args) != 1 or e.keywords: refuse(F_TRF, e, f'{n}(…) needs one positional argument')
            a = e.args[0]
            # is_*(b.element): the predicates of Gen.Core take the record
            if isinstance(a, ast.Attribute) and a.attr == 'element':
                b, kb = self.expr(a.value)
                if kb == 'branch': return f'({n} {b}.e)', 'bool'
            el, kel = self.expr(a)
            if kel != 'elt': refuse(F_TRF, e, f'{n} of a {kel}')
            return f'({n} {el}.2.2)', 'bool'
        if n in self.helpers:
            s = self.helpers[n]
            a = self.call_args(e, [p for p, _ in s.params])
            args = []
            for p, k in s.params:
                if p not in a: refuse(F_TRF, e, f'{n}: missing argument {p}')
                c, kc = self.expr(a[p])
                if kc != k: refuse(F_TRF, e, f'{n}: argument {p} is a {kc}, expected {k}')
                args.append(c)
            return f'({n} {" ".join(args)})', s.ret
        if n in self.g.sigs:
            s = self.g.sigs[n]
            a = self.call_args(e, [p for p, _ in s.params])
            args = []
            for p, k in s.params:
                if p not in a:
                    if p in s.defaults:
                        args.append(s.defaults[p]); continue
                    refuse(F_TRF, e, f'{n}: missing argument {p}')
                c, kc = self.expr(a[p])
                if kc != k: refuse(F_TRF, e, f'{n}: argument {p} is a {kc}, expected {k}')
                args.append(c)
            code = f'{n} {" ".join(args)}'
            if s.monadic:
                return self.bind(code, 'r', e), s.ret
            return f'({code})', s.ret
        refuse(F_TRF, e, f'call of {n!r} outside the grammar')

    # ------------------------------------------------------------------ statements
    def assigned_names(self, stmts):
        """names assigned by the statements of a loop body (`name = expr` or `a, b = expr`), in order of first assignment"""
        out = []
        for st in stmts:
            if isinstance(st, ast.Assign) and len(st.targets) == 1 and isinstance(st.targets[0], ast.Name):
                ns = [st.targets[0].id]
            elif isinstance(st, ast.Assign) and len(st.targets) == 1 and isinstance(st.targets[0], ast.Tuple) \
                    and len(st.targets[0].elts) == 2 and all(isinstance(t, ast.Name) for t in st.targets[0].elts) \
                    and st.targets[0].elts[0].id != st.targets[0].elts[1].id:
                ns = [t.id for t in st.targets[0].elts]
            else:
                refuse(F_TRF, st, 'loop body statement outside the grammar (only `name = expr` and `a, b = <pair>`)')
            for n in ns:
                if n not in out: out.append(n)
        return out

    def block(self, stmts, tail=True):
        """translate statements; returns True when the block ended in a return"""
        for i, st in enumerate(stmts):
            last = i == len(stmts) - 1
            if isinstance(st, ast.FunctionDef):
                self.helper(st)
            elif isinstance(st, ast.Assign):
                if len(st.targets) != 1 or not isinstance(st.targets[0], ast.Name):
                    refuse(F_TRF, st, 'assignment target outside the grammar')
                c, k = self.expr(st.value)
                x = st.targets[0].id
                self.lines.append(f'let {x} : {lean_ty(k)} := {c}')
                self.env[x] = (x, k)
            elif isinstance(st, ast.Expr) and isinstance(st.value, ast.Call) and isinstance(st.value.func, ast.Attribute) \
                    and st.value.func.attr == 'remove' and isinstance(st.value.func.value, ast.Name):
                x = st.value.func.value.id
                if x not in self.env or not isinstance(self.env[x][1], tuple) or x in self.g.param_names(self.fname):
                    refuse(F_TRF, st, '.remove on something that is not a local list')
                if len(st.value.args) != 1 or st.value.keywords: refuse(F_TRF, st, '.remove needs one argument')
                a, ka = self.expr(st.value.args[0])
                if ('list', ka) != self.env[x][1]: refuse(F_TRF, st, f'.remove of a {ka} from a {self.env[x][1]}')
                if not self.monadic: refuse(F_TRF, st, '.remove (may raise) in a pure function')
                self.lines.append(f'let {x} ← Py.listRemove {a} {self.env[x][0]}')
            elif isinstance(st, ast.For):
                self.for_loop(st)
            elif isinstance(st, ast.If):
                # guarded return: `if c: return e`
                if st.orelse or len(st.body) != 1 or not isinstance(st.body[0], ast.Return) or self.monadic:
                    refuse(F_TRF, st, 'if statement outside the grammar (only `if c: return e` in a helper)')
                c, kc = self.expr(st.test)
                v, kv = self.expr(st.body[0].value)
                if kc != 'bool': refuse(F_TRF, st, 'non-boolean guard')
                self.lines.append(f'if {c} then {v} else')
            elif isinstance(st, ast.Return):
                if not last: refuse(F_TRF, st, 'statements after return')
                # a monadic call in tail position is the result itself
                n0 = len(self.lines)
                c, k = self.expr(st.value)
                if self.monadic:
                    if len(self.lines) > n0 and self.lines[-1].startswith(f'let {c} ← '):
                        self.lines[-1] = self.lines[-1][len(f'let {c} ← '):]
                    else:
                        self.lines.append(f'pure {c}')
                else:
                    self.lines.append(c)
                return k
            else:
                refuse(F_TRF, st, f'statement {type(st).__name__} outside the grammar')
        refuse(F_TRF, stmts[-1] if stmts else None, 'function does not end in a return')

    def for_loop(self, st):
        if st.orelse: refuse(F_TRF, st, 'for … else')
        it = st.iter
        if isinstance(it, ast.Call) and isinstance(it.func, ast.Name) and it.func.id == 'range' and len(it.args) == 1 and not it.keywords \
                and 'range' not in self.env:
            return self.for_range(st)
        src, ks = self.expr(st.iter)
        if ks != ('list', 'pair') or not (isinstance(st.target, ast.Tuple) and len(st.target.elts) == 2
                                          and all(isinstance(t, ast.Name) for t in st.target.elts)):
            refuse(F_TRF, st, 'for loop outside the grammar (only `for a, b in <list of label pairs>` and `for k in range(len(<list>))`)')
        a, b = st.target.elts[0].id, st.target.elts[1].id
        if any(isinstance(s.targets[0], ast.Tuple) for s in st.body if isinstance(s, ast.Assign) and len(s.targets) == 1):
            refuse(F_TRF, st, 'pair assignment in a `for a, b in …` loop')
        names = self.assigned_names(st.body)
        if len(names) != 1 or names[0] not in self.env:
            refuse(F_TRF, st, 'the loop must update exactly one variable that exists before it (left fold)')
        acc = names[0]
        kacc = self.env[acc][1]
        inner = FnTr(self.g, self.fname, self.env, False, self.helpers)
        inner.env[a] = (a, 'label'); inner.env[b] = (b, 'label')
        inner.in_pure_context = 1
        for s in st.body:
            c, k = inner.expr(s.value)
            if k != kacc: refuse(F_TRF, s, f'loop changes the kind of {acc}')
            inner.lines.append(f'let {acc} : {lean_ty(k)} := {c}')
        body = '\n'.join('      ' + l for l in inner.lines)
        self.lines.append(f'let {acc} : {lean_ty(kacc)} := {src}.foldl (fun ({acc} : {lean_ty(kacc)}) (p : L × L) =>\n'
                          f'      let {a} : L := p.1\n      let {b} : L := p.2\n{body}\n      {acc}) {self.env[acc][0]}')

    def for_range(self, st):
        """`for k in range(len(l)):` — `range(…)` is evaluated once, before the first pass: a left fold over
        `List.range l.length` in `Except Err` (the body may index a list).  State of the fold = the names assigned in the
        body that exist before the loop; every other assigned name is local to a pass (it must be assigned before it is used
        in the pass, and it is unknown after the loop — a use would be refused as an unknown name)."""
        if not self.monadic or self.in_pure_context:
            refuse(F_TRF, st, 'indexed loop inside a helper')
        if not isinstance(st.target, ast.Name):
            refuse(F_TRF, st, 'indexed loop: the target is not a single name')
        kname = st.target.id
        bound, kb = self.expr(st.iter.args[0])
        if kb != 'nat': refuse(F_TRF, st, 'range(…) of something that is not len(<list>)')
        names = self.assigned_names(st.body)
        if kname in self.env or kname in names:
            refuse(F_TRF, st, f'the loop index {kname!r} is also a variable of the function')
        accs = [n for n in names if n in self.env]
        if not accs: refuse(F_TRF, st, 'the loop updates no variable that exists before it')
        kinds = [self.env[n][1] for n in accs]
        def proj(i):
            if len(accs) == 1: return 'acc'
            return 'acc' + '.2' * i + ('.1' if i < len(accs) - 1 else '')
        inner = FnTr(self.g, self.fname, self.env, True, self.helpers)
        inner.counter = self.counter
        for n in names:
            if n not in accs and n in inner.env: del inner.env[n]
        inner.env[kname] = (kname, 'nat')
        for i, (n, kn) in enumerate(zip(accs, kinds)):
            inner.lines.append(f'let {n} : {lean_ty(kn)} := {proj(i)}')
        for s in st.body:
            c, k = inner.expr(s.value)
            tg = s.targets[0]
            if isinstance(tg, ast.Name):
                if tg.id in accs and k != self.env[tg.id][1]: refuse(F_TRF, s, f'loop changes the kind of {tg.id}')
                inner.lines.append(f'let {tg.id} : {lean_ty(k)} := {c}')
                inner.env[tg.id] = (tg.id, k)
            else:
                if k != 'pair': refuse(F_TRF, s, f'`a, b = …` of a {k}')
                t = inner.fresh('t')
                if t in inner.env: refuse(F_TRF, s, f'name clash with the generated name {t}')
                inner.lines.append(f'let {t} : L × L := {c}')
                for j, x in enumerate(tg.elts):
                    if x.id in accs: refuse(F_TRF, s, f'loop changes the kind of {x.id}')
                    inner.lines.append(f'let {x.id} : L := {t}.{j + 1}')
                    inner.env[x.id] = (x.id, 'label')
        self.counter = inner.counter
        tup = accs[0] if len(accs) == 1 else '(' + ', '.join(accs) + ')'
        tty = lean_ty(kinds[0]) if len(accs) == 1 else ' × '.join(f'({lean_ty(k)})' for k in kinds)
        inner.lines.append(f'pure {tup}')
        body = '\n'.join('      ' + l for l in inner.lines)
        r = self.fresh('acc')
        if r in self.env: refuse(F_TRF, st, f'name clash with the generated name {r}')
        self.lines.append(f'let {r} ← (List.range {bound}).foldlM (fun (acc : {tty}) ({kname} : Nat) => do\n{body}) '
                          f'{"(" + ", ".join(self.env[n][0] for n in accs) + ")" if len(accs) > 1 else self.env[accs[0]][0]}')
        for i, (n, kn) in enumerate(zip(accs, kinds)):
            self.lines.append(f'let {n} : {lean_ty(kn)} := {r}{proj(i)[3:]}')
            self.env[n] = (n, kn)

    def helper(self, fn):
        """nested `def g(x: T) -> R:` with a guarded-return chain; free variables are those of the enclosing function"""
        a = fn.args
        if a.vararg or a.kwarg or a.kwonlyargs or a.posonlyargs or a.defaults:
            refuse(F_TRF, fn, f'helper {fn.name}: parameters outside the grammar')
        h = FnTr(self.g, self.fname, self.env, False, self.helpers)
        h.in_pure_context = 1
        params = []
        for p in a.args:
            k = h.ann_kind(p.annotation, p.arg)
            params.append((p.arg, k)); h.env[p.arg] = (p.arg, k)
        ret = h.ann_kind(fn.returns, 'return')
        k = h.block(fn.body)
        if k != ret: refuse(F_TRF, fn, f'helper {fn.name} returns a {k}, annotated {ret}')
        body = '\n'.join('      ' + l for l in h.lines)
        ps = ' '.join(f'({p} : {lean_ty(k)})' for p, k in params)
        self.lines.append(f'let {fn.name} : {" → ".join(lean_ty(k) for _, k in params)} → {lean_ty(ret)} := fun {ps} =>\n{body}')
        self.helpers[fn.name] = Sig(fn.name, params, ret, False, {})

class Gen:
    def __init__(self, src: Path):
        self.mod = parse(src, F_TRF)
        self.net = parse(src, F_NET)
        self.elm = parse(src, F_ELM)
        self.sigs = {}
        self.check_imports()
        self.check_network()
        self.check_factories()

    def check_imports(self):
        need = set(PREDICATES) | set(FACTORIES) | {'Network', 'Branch'}
        have = set()
        for st in self.mod.body:
            if isinstance(st, ast.ImportFrom):
                mod = st.module
                for n in st.names:
                    if n.asname: refuse(F_TRF, st, 'renaming import')
                    if n.name in ('Network', 'Branch') and mod != 'network': refuse(F_TRF, st, f'{n.name} imported from {mod}')
                    if (n.name in PREDICATES or n.name in FACTORIES) and mod != 'elements': refuse(F_TRF, st, f'{n.name} imported from {mod}')
                    have.add(n.name)
            elif isinstance(st, ast.FunctionDef):
                if st.name in need: refuse(F_TRF, st, f'{st.name} is redefined locally')
            else:
                refuse(F_TRF, st, 'module-level statement outside the grammar')
        self.imported = have

    def check_network(self):
        """Network / Branch are the dataclasses the idioms were written for; is_zero_node is translated here"""
        cls = {c.name: c for c in self.net.body if isinstance(c, ast.ClassDef)}
        def fields(c):
            return [(s.target.id, s.value) for s in c.body if isinstance(s, ast.AnnAssign) and isinstance(s.target, ast.Name)]
        if 'Network' not in cls or [f for f, _ in fields(cls['Network'])] != ['branches', 'node_zero_label']:
            refuse(F_NET, None, 'class Network(branches, node_zero_label) not found')
        if 'Branch' not in cls or [f for f, _ in fields(cls['Branch'])] != ['node1', 'node2', 'element']:
            refuse(F_NET, None, 'class Branch(node1, node2, element) not found')
        self.network_fields = ['branches', 'node_zero_label']
        bid = {f.name: f for f in cls['Branch'].body if isinstance(f, ast.FunctionDef)}.get('id')
        if not (bid is not None and len(bid.body) == 1 and isinstance(bid.body[0], ast.Return)
                and ast.unparse(bid.body[0].value) == 'self.element.name'):
            refuse(F_NET, cls['Branch'], 'Branch.id is not `self.element.name`')
        m = {f.name: f for f in cls['Network'].body if isinstance(f, ast.FunctionDef)}
        if '__post_init__' not in m or '__getitem__' not in m:
            refuse(F_NET, cls['Network'], 'Network.__post_init__ / __getitem__ not found')
        z = m.get('is_zero_node')
        ok = (z is not None and [a.arg for a in z.args.args] == ['self', 'node'] and len(z.body) == 1 and isinstance(z.body[0], ast.Return)
              and isinstance(z.body[0].value, ast.Compare) and len(z.body[0].value.ops) == 1)
        if not ok: refuse(F_NET, z or cls['Network'], 'Network.is_zero_node(self, node) is not a single comparison')
        c = z.body[0].value
        def side(n):
            if isinstance(n, ast.Name) and n.id == 'node': return 'node'
            if isinstance(n, ast.Attribute) and isinstance(n.value, ast.Name) and n.value.id == 'self' and n.attr == 'node_zero_label': return 'self.zero'
            refuse(F_NET, z, 'is_zero_node compares something else than node and self.node_zero_label')
        op = '=' if isinstance(c.ops[0], ast.Eq) else '≠' if isinstance(c.ops[0], ast.NotEq) else refuse(F_NET, z, 'is_zero_node: operator')
        self.is_zero_node = f'(decide ({side(c.left)} {op} {side(c.comparators[0])}))', z.lineno

    def check_factories(self):
        fns = {f.name: f for f in self.elm.body if isinstance(f, ast.FunctionDef)}
        self.factory_params = {}
        for n, want in FACTORIES.items():
            if n not in fns or [a.arg for a in fns[n].args.args] != want:
                refuse(F_ELM, fns.get(n), f'{n}({", ".join(want)}) not found')
            self.factory_params[n] = want
        for p in PREDICATES:
            if p not in fns or [a.arg for a in fns[p].args.args] != ['element']:
                refuse(F_ELM, fns.get(p), f'{p}(element) not found')

    def param_names(self, fname):
        return [p for p, _ in self.sigs[fname].params] if fname in self.sigs else []

    def translate(self):
        out = []
        for fn in [s for s in self.mod.body if isinstance(s, ast.FunctionDef)]:
            a = fn.args
            if a.vararg or a.kwarg or a.kwonlyargs or a.posonlyargs:
                refuse(F_TRF, fn, f'{fn.name}: parameters outside the grammar')
            tr = FnTr(self, fn.name, {}, True)
            params, defaults = [], {}
            dflt = dict(zip([x.arg for x in a.args][len(a.args) - len(a.defaults):], a.defaults))
            for p in a.args:
                k = tr.ann_kind(p.annotation, p.arg)
                params.append((p.arg, k)); tr.env[p.arg] = (p.arg, k)
                if p.arg in dflt:
                    d = dflt[p.arg]
                    if not (isinstance(d, ast.List) and not d.elts and isinstance(k, tuple)):
                        refuse(F_TRF, fn, f'{fn.name}: default of {p.arg} is not []')
                    defaults[p.arg] = '[]'
            if tr.ann_kind(fn.returns, 'return') != 'net':
                refuse(F_TRF, fn, f'{fn.name} does not return a Network')
            self.sigs[fn.name] = Sig(fn.name, params, 'net', True, defaults)     # known before the body: no recursion in the file
            body = [s for s in fn.body if not (isinstance(s, ast.Expr) and isinstance(s.value, ast.Constant))]
            k = tr.block(body)
            if k != 'net': refuse(F_TRF, fn, f'{fn.name} returns a {k}')
            ps = ' '.join(f'({p} : {lean_ty(kk)}{" := " + defaults[p] if p in defaults else ""})' for p, kk in params)
            out.append(f'/-- {fn.name} (transformers.py:{fn.lineno}) -/')
            out.append(f'def {fn.name} {ps} : Except Err (Net L K) := do')
            for l in tr.lines:
                out.append('  ' + l)
            out.append('')
        return out

@generator('Transformers.lean')
def gen_transformers(src: Path) -> str:
    g = Gen(src)
    body = g.translate()
    zc, zl = g.is_zero_node
    L = []
    L.append('/- GENERATED by harness/extract_transformers.py from src/CircuitCalculator/Network/transformers.py')
    L.append('   (and `Network.is_zero_node` of network.py) — do not edit. -/')
    L.append('import CC.Gen.Core')
    L.append('import CC.Model.TransformersBase')
    L.append('set_option linter.unusedVariables false')
    L.append('namespace CC.Gen.Transformers')
    L.append('open CC CC.Gen.Core')
    L.append('')
    L.append('section')
    L.append('variable {L K : Type} [DecidableEq L] [LabelOrd L]')
    L.append('variable [Zero K] [One K] [Add K] [Mul K] [Neg K] [Sub K] [Inv K] [Div K] [DecidableEq K]')
    L.append('')
    L.append(f'/-- is_zero_node (network.py:{zl}) -/')
    L.append('def Network.is_zero_node (self : Net L K) (node : L) : Bool :=')
    L.append('  ' + zc)
    L.append('')
    L += body
    L.append('end')
    L.append('end CC.Gen.Transformers')
    return '\n'.join(L) + '\n'
