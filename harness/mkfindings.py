#!/venv/bin/python
"""mkfindings.py — rebuild known_findings.json from the per-group records notes/*_known_findings.json
(lead = C01/C03/C04/C05/C16; state, circuit, port, fmt, load, draw).  The checks never write this file."""
import json
from pathlib import Path
ROOT = Path(__file__).resolve().parent.parent
out = []
for p in sorted((ROOT / 'notes').glob('*_known_findings.json')):
    g = p.name.split('_')[0]
    for e in json.loads(p.read_text()):
        e = dict(e); e.setdefault('group', g)
        assert {'property', 'status', 'what', 'matcher'} <= set(e), (p, e)
        out.append(e)
out.sort(key=lambda e: (e['group'] != 'lead', e['group'], e['property'], e['status']))
(ROOT / 'known_findings.json').write_text(json.dumps(out, indent=1, ensure_ascii=False) + '\n')
print(len(out), 'findings:', sum(e['status'] == 'open' for e in out), 'open')
