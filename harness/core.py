"""
core.py — shared machinery of the checks: repository import guard, exact-rational
encoding, the Lean driver client, build orchestration (translator + `lake build`),
axiom audit, replay / evidence writers, known-findings handling.
"""
from __future__ import annotations
import os, sys, json, time, subprocess, fcntl, hashlib, random, re, math, cmath, traceback
from fractions import Fraction
from pathlib import Path

VERIF = Path(__file__).resolve().parent.parent
LEAN = VERIF / 'lean'
REPO = Path(os.environ.get('CC_REPO', '/repo'))
SRC = REPO / 'src'
DRIVER_BIN = LEAN / '.lake' / 'build' / 'bin' / 'ccdriver'
ALLOWED_AXIOMS = {'propext', 'Classical.choice', 'Quot.sound'}
GUARD_ENV = 'CIRCUITCALCULATOR_VERIF'

# --------------------------------------------------------------------------- repo

_repo_loaded = False

def import_repo():
    """Put /repo/src first on sys.path and assert that is what gets imported
    (the installed wheel in site-packages is a different code base)."""
    global _repo_loaded
    if _repo_loaded:
        return
    os.environ.setdefault('MPLBACKEND', 'Agg')
    os.environ[GUARD_ENV] = '1'
    sys.path.insert(0, str(SRC))
    for m in [m for m in sys.modules if m == 'CircuitCalculator' or m.startswith('CircuitCalculator.')]:
        del sys.modules[m]
    import warnings
    warnings.filterwarnings('ignore')
    import CircuitCalculator
    f = Path(CircuitCalculator.__file__).resolve()
    if not str(f).startswith(str(SRC.resolve())):
        raise RuntimeError(f'CircuitCalculator imported from {f}, not from {SRC}')
    import numpy as np
    np.seterr(all='ignore')
    _repo_loaded = True

def src_hash() -> str:
    h = hashlib.sha256()
    for p in sorted(SRC.rglob('*.py')):
        h.update(str(p.relative_to(SRC)).encode())
        h.update(p.read_bytes())
    return h.hexdigest()[:16]

# --------------------------------------------------------------------------- numbers

class NonFiniteValue(ValueError):
    """a value handed to the exact-rational encoder is inf / nan"""

def q(x) -> str:
    """exact rational string of a float / int / Fraction"""
    if isinstance(x, Fraction):
        fr = x
    elif isinstance(x, bool):
        fr = Fraction(int(x))
    elif isinstance(x, int):
        fr = Fraction(x)
    else:
        x = float(x)
        if not math.isfinite(x):
            raise NonFiniteValue(f'non-finite number {x}')
        fr = Fraction(*x.as_integer_ratio())
    return str(fr.numerator) if fr.denominator == 1 else f'{fr.numerator}/{fr.denominator}'

def qc(z) -> list:
    """exact complex encoding [re, im]"""
    if isinstance(z, (tuple, list)):
        return [q(z[0]), q(z[1])]
    z = complex(z)
    return [q(z.real), q(z.imag)]

def unq(s) -> Fraction:
    return Fraction(s)

def unqc(p) -> tuple:
    return (Fraction(p[0]), Fraction(p[1]))

def cfloat(p) -> complex:
    return complex(float(Fraction(p[0])), float(Fraction(p[1])))

def close(a: complex, b: complex, scale: float = 0.0, tol: float = 1e-9) -> bool:
    a = complex(a); b = complex(b)
    if not (cmath.isfinite(a) and cmath.isfinite(b)):
        return False
    return abs(a - b) <= tol * (1.0 + max(scale, abs(a), abs(b)))

def rclose(a: complex, b: complex, scale: float, tol: float = 1e-9) -> bool:
    """purely relative agreement: |a − b| ≤ tol · max(scale, |a|, |b|) — no absolute floor,
    so networks with pico-ampere sources are judged as strictly as ordinary ones"""
    a = complex(a); b = complex(b)
    if not (cmath.isfinite(a) and cmath.isfinite(b)):
        return False
    return abs(a - b) <= tol * max(scale, abs(a), abs(b))

# --------------------------------------------------------------------------- rng

class Rng(random.Random):
    """all random choices of a check derive from (VERIF_SEED, property, stream)"""
    def __init__(self, seed: int, *names):
        key = hashlib.sha256(('|'.join([str(seed)] + [str(n) for n in names])).encode()).digest()
        super().__init__(int.from_bytes(key[:8], 'big'))

# --------------------------------------------------------------------------- driver

class DriverError(Exception):
    pass


class Driver:
    """client of lean/.lake/build/bin/ccdriver (line protocol)"""
    def __init__(self, path: Path = DRIVER_BIN):
        self.path = path
        if not path.exists():
            raise DriverError(f'driver binary {path} missing')
        self.p = subprocess.Popen([str(path)], stdin=subprocess.PIPE, stdout=subprocess.PIPE,
                                  text=True, bufsize=1)
        self.calls = 0

    def call(self, op: str, **args):
        req = dict(args); req['op'] = op
        line = json.dumps(req, separators=(',', ':'))
        try:
            self.p.stdin.write(line + '\n'); self.p.stdin.flush()
            out = self.p.stdout.readline()
        except BrokenPipeError:
            raise DriverError('driver died')
        if not out:
            raise DriverError(f'driver closed the stream on op {op}')
        self.calls += 1
        r = json.loads(out)
        if isinstance(r, dict) and 'driver_error' in r:
            raise DriverError(f"{op}: {r['driver_error']}")
        return r

    def close(self):
        try:
            self.p.stdin.close(); self.p.wait(timeout=5)
        except Exception:
            self.p.kill()

# --------------------------------------------------------------------------- build

class BuildStatus:
    def __init__(self):
        self.extract_ok = True
        self.extract_msg = ''
        self.gen_changed: list[str] = []
        self.lake_rc = 0
        self.lake_out = ''
        self.failed_modules: list[str] = []
        self.driver_ok = False
        self.driver_baseline = None
        self.wall = 0.0

    def module_ok(self, mod: str) -> bool:
        return mod not in self.failed_modules and self.lake_rc == 0 or self._target_ok(mod)

    def _target_ok(self, mod: str) -> bool:
        r = subprocess.run(['lake', 'build', mod], cwd=LEAN, capture_output=True, text=True)
        return r.returncode == 0

def _lock():
    lk = open(VERIF / '.build.lock', 'w')
    fcntl.flock(lk, fcntl.LOCK_EX)
    return lk

def ensure_build(verbose: bool = False) -> BuildStatus:
    """Regenerate CC/Gen from /repo's current sources (translator), then `lake build`
    everything (library, property theorems, driver).  Serialised by a file lock."""
    st = BuildStatus()
    t0 = time.time()
    lk = _lock()
    try:
        try:
            from . import extract
        except ImportError:
            import extract
        try:
            st.gen_changed = extract.generate(SRC, LEAN / 'CC' / 'Gen')
        except Exception as e:
            st.extract_ok = False
            st.extract_msg = f'{type(e).__name__}: {e}'
        r = subprocess.run(['lake', 'build'], cwd=LEAN, capture_output=True, text=True)
        st.lake_rc = r.returncode
        st.lake_out = r.stdout + r.stderr
        st.failed_modules = sorted(set(re.findall(r'^- (CC[\w.]*|Driver|ccdriver[\w:]*)$', st.lake_out, re.M))
                                   | set(re.findall(r'✖ \[\d+/\d+\] (?:Building|Running) ([\w.:]+)', st.lake_out)))
        if r.returncode != 0:
            # build the independent targets that can still be built
            r2 = subprocess.run(['lake', 'build', 'ccdriver'], cwd=LEAN, capture_output=True, text=True)
            st.driver_ok = r2.returncode == 0 and DRIVER_BIN.exists()
        else:
            st.driver_ok = DRIVER_BIN.exists()
        # keep the last driver that built: if a regenerated definition breaks the driver's
        # build, the spec oracle (failing-input search) still runs on that baseline driver
        good = DRIVER_BIN.with_name('ccdriver.good')
        if st.driver_ok and st.lake_rc == 0:
            try:
                if not good.exists() or good.stat().st_mtime < DRIVER_BIN.stat().st_mtime:
                    import shutil; shutil.copy2(DRIVER_BIN, good)
            except OSError:
                pass
        elif not st.driver_ok and good.exists():
            st.driver_baseline = good
    finally:
        lk.close()
    st.wall = time.time() - t0
    if verbose and st.lake_rc != 0:
        print(st.lake_out[-4000:])
    return st

def build_target(mod: str) -> tuple[bool, str]:
    lk = _lock()
    try:
        r = subprocess.run(['lake', 'build', mod], cwd=LEAN, capture_output=True, text=True)
    finally:
        lk.close()
    return r.returncode == 0, r.stdout + r.stderr

# --------------------------------------------------------------------------- audit

FORBIDDEN = re.compile(r'\bsorry\b|\badmit\b|^\s*axiom\s|native_decide|bv_decide|implemented_by|\bunsafe\s|maxHeartbeats\s+0\b')

def _strip_comments(text: str) -> str:
    text = re.sub(r'/-.*?-/', lambda m: '\n' * m.group(0).count('\n'), text, flags=re.S)
    return re.sub(r'--.*', '', text)

def grep_forbidden() -> list[str]:
    hits = []
    for p in sorted((LEAN / 'CC').rglob('*.lean')) + [LEAN / 'Driver.lean']:
        body = _strip_comments(p.read_text())
        for i, line in enumerate(body.split('\n'), 1):
            if FORBIDDEN.search(line):
                hits.append(f'{p.relative_to(LEAN)}:{i}: {line.strip()}')
    return hits

def audit_axioms(module, theorems: list[str]) -> dict:
    """`#print axioms` for every theorem; returns name -> list of axioms, or
    name -> None when the theorem does not exist / the module does not build."""
    res = {t: None for t in theorems}
    if not theorems:
        return res
    modules = [module] if isinstance(module, str) else list(module)
    src = ''.join(f'import {m}\n' for m in modules) + ''.join(f'#print axioms {t}\n' for t in theorems)
    f = LEAN / '.audit' / f'Audit_{modules[0].replace(".", "_")}_{os.getpid()}.lean'
    f.parent.mkdir(exist_ok=True)
    f.write_text(src)
    try:
        r = subprocess.run(['lake', 'env', 'lean', str(f)], cwd=LEAN, capture_output=True, text=True)
    finally:
        try: f.unlink()
        except OSError: pass
    out = r.stdout + r.stderr
    if 'environment already contains' in out and len(modules) > 1:
        # two modules of the list define a declaration of the same name (helper lemmas of different groups):
        # they cannot be imported into one file — audit module by module and merge
        for m_ in modules:
            for t, ax in audit_axioms([m_], theorems).items():
                if ax is not None:
                    res[t] = ax
        return res
    for t in theorems:
        m = re.search(r"'" + re.escape(t) + r"' depends on axioms: \[([^\]]*)\]", out, re.S)
        if m:
            res[t] = [a.strip() for a in m.group(1).replace('\n', ' ').split(',') if a.strip()]
        elif re.search(r"'" + re.escape(t) + r"' does not depend on any axioms", out):
            res[t] = []
    return res

# --------------------------------------------------------------------------- findings / replay / evidence

def load_known_findings() -> list[dict]:
    p = VERIF / 'known_findings.json'
    if not p.exists():
        return []
    return json.loads(p.read_text())

def matches(matcher: dict, canon: dict) -> bool:
    """conjunction of equalities / membership tests on the canonical failing input"""
    for k, v in matcher.items():
        if k not in canon:
            return False
        if isinstance(v, list):
            if canon[k] not in v:
                return False
        elif canon[k] != v:
            return False
    return True

def _json_default(o):
    if isinstance(o, complex):
        return {'__complex__': [o.real, o.imag]}
    if isinstance(o, Fraction):
        return str(o)
    try:
        import numpy as np
        if isinstance(o, np.generic):
            return _json_default(o.item()) if isinstance(o.item(), complex) else o.item()
        if isinstance(o, np.ndarray):
            return o.tolist()
    except ImportError:
        pass
    return str(o)

def json_revive(o):
    """inverse of _json_default for complex values"""
    if isinstance(o, dict):
        if set(o.keys()) == {'__complex__'}:
            return complex(o['__complex__'][0], o['__complex__'][1])
        return {k: json_revive(v) for k, v in o.items()}
    if isinstance(o, list):
        return [json_revive(v) for v in o]
    return o

def write_replay(prop: str, payload: dict) -> Path:
    d = VERIF / 'replays' / prop
    d.mkdir(parents=True, exist_ok=True)
    body = json.dumps(payload, indent=1, sort_keys=True, default=_json_default)
    h = hashlib.sha256(body.encode()).hexdigest()[:12]
    p = d / f'{h}.json'
    p.write_text(body)
    return p

def write_evidence(prop: str, ev: dict):
    d = Path(os.environ.get('VERIF_EVIDENCE_DIR') or (VERIF / 'evidence'))   # seeded-change runs write elsewhere
    d.mkdir(parents=True, exist_ok=True)
    (d / f'{prop}.json').write_text(json.dumps(ev, indent=1, default=_json_default))
