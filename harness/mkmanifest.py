#!/venv/bin/python
"""mkmanifest.py — regenerate MANIFEST.json from the property modules that exist."""
import json, sys, importlib
from pathlib import Path
HERE = Path(__file__).resolve().parent
sys.path.insert(0, str(HERE))
ROOT = HERE.parent
props = [json.loads(l) for l in (ROOT / 'properties.jsonl').read_text().splitlines() if l.strip()]
checks = []; na = []
for p in props:
    pid = p['id']
    f = HERE / 'props' / f'{pid.lower()}.py'
    pending = (HERE / 'pending.txt').read_text().split() if (HERE / 'pending.txt').exists() else []
    if not f.exists() or pid in pending:
        na.append(dict(property_id=pid, reason='check not built yet in this round (planned in DESIGN.md §5); nothing is claimed for it'))
        continue
    m = importlib.import_module(f'props.{pid.lower()}')
    checks.append(dict(
        property_id=pid,
        quick_cmd=f'bin/check --property {pid} --tier quick',
        thorough_cmd=f'bin/check --property {pid} --tier thorough',
        evidence_file=f'evidence/{pid}.json',
        replay_cmd_template='bin/check --replay {path}',
        engine='lean-cc',
        level_claimed=dict(category=getattr(m, 'LEVEL', 'proof'),
                           text=getattr(m, 'LEVEL_TEXT', (m.__doc__ or '').strip().split('\n\n')[0]),
                           design_ref=f'DESIGN.md §5 {pid}'),
        level_note='; '.join(getattr(m, 'ASSUMPTIONS', [])) or 'see DESIGN.md §7',
        technique=getattr(m, 'TECHNIQUE', 'Lean 4 theorems over a model of the code (kernel-checked, axioms audited) + translator-regenerated definitions + model/implementation correspondence check + spec oracle on the implementation'),
    ))
man = dict(
    version=1,
    setup_cmd='bin/setup',
    hooks=dict(guard='CIRCUITCALCULATOR_VERIF', enable='checks set CIRCUITCALCULATOR_VERIF=1 and import /repo/src in-process; no source hooks are needed (all observation points are public functions)',
               baseline_off_cmd='cd /repo && /venv/bin/python -m pytest -ra -q -p no:cacheprovider --timeout=900 --continue-on-collection-errors',
               source_commits=[], add_only=True),
    engines=[dict(name='lean-cc', path='lean/', serves_properties=[c['property_id'] for c in checks],
                  kind_free_text='Lean 4.33 + Mathlib lake project CC (model, spec, theorems, generated definitions) with native driver ccdriver; Python harness in harness/ (translator extract*.py, correspondence + oracle props/*.py)')],
    checks=checks,
    notes='See DESIGN.md. Genuine defects repaired by fix: commits in /repo and open findings are listed in known_findings.json.',
    not_applicable=na,
)
(ROOT / 'MANIFEST.json').write_text(json.dumps(man, indent=1, ensure_ascii=False) + '\n')
print(f'{len(checks)} checks, {len(na)} not claimed')
