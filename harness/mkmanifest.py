#!/venv/bin/python
"""mkmanifest.py — regenerate MANIFEST.json from the property modules that exist."""
import json, sys, importlib
from pathlib import Path
HERE = Path(__file__).resolve().parent
sys.path.insert(0, str(HERE))
ROOT = HERE.parent
props = [json.loads(l) for l in (ROOT / 'properties.jsonl').read_text().splitlines() if l.strip()]
checks = []; na = []

def level_text(m):
    doc = ' '.join((m.__doc__ or '').split())
    ths = [t.split('.')[-1] for t in getattr(m, 'THEOREMS', [])]
    txt = (f"Machine-checked proof: {len(ths)} Lean 4 theorems ({', '.join(ths[:12])}{', …' if len(ths) > 12 else ''}) about a model of the anchored code, "
           f"quantified over all inputs / sizes / histories, kernel-checked on every run against definitions regenerated from /repo's sources where a translator exists, "
           f"axioms audited (⊆ propext, Classical.choice, Quot.sound). The model is tied to the implementation by a correspondence check (same inputs through the native Lean driver "
           f"and the real code), and the property itself is decided on the implementation's outputs by the Spec oracle, which supplies the concrete replay when something breaks. ")
    return getattr(m, 'LEVEL_TEXT', txt + doc[:900])

def level_note(m):
    parts = list(getattr(m, 'ASSUMPTIONS', []))
    op = getattr(m, 'OPEN_STATEMENTS', [])
    if op:
        parts.append('planned statements not yet proved (covered per instance by the oracle only): ' + '; '.join(op))
    return ' | '.join(parts) or 'see DESIGN.md §7'

for p in props:
    pid = p['id']
    f = HERE / 'props' / f'{pid.lower()}.py'
    pending = (HERE / 'pending.txt').read_text().split() if (HERE / 'pending.txt').exists() else []
    if not f.exists() or pid in pending:
        na.append(dict(property_id=pid, reason=('check temporarily withdrawn while its Lean model follows a repair (fix: commit) of /repo; nothing is claimed for it until model, theorems and correspondence are re-established'
                                                 if f.exists() else 'check not built; nothing is claimed for it')))
        continue
    m = importlib.import_module(f'props.{pid.lower()}')
    checks.append(dict(
        property_id=pid,
        quick_cmd=f'bin/check --property {pid} --tier quick',
        thorough_cmd=f'bin/check --property {pid} --tier thorough',
        evidence_file=f'evidence/{pid}.json',
        replay_cmd_template='bin/check --replay {path}',
        engine='lean-cc',
        level_claimed=dict(category=getattr(m, 'LEVEL', 'proof'),
                           text=level_text(m),
                           design_ref=f'DESIGN.md §5 {pid}, §10'),
        level_note=level_note(m),
        technique=getattr(m, 'TECHNIQUE', 'Lean 4 theorems over a model of the code (kernel-checked, axioms audited) + translator-regenerated definitions + model/implementation correspondence check + spec oracle on the implementation'),
    ))
man = dict(
    version=1,
    setup_cmd='bin/setup',
    hooks=dict(guard='CIRCUITCALCULATOR_VERIF', enable='checks set CIRCUITCALCULATOR_VERIF=1 and import /repo/src in-process; no source hooks are needed (all observation points are public functions)',
               baseline_off_cmd='cd /repo && /venv/bin/python -m pytest -ra -q -p no:cacheprovider --timeout=900 --continue-on-collection-errors',
               source_commits=[], add_only=True),
    engines=[dict(name='lean-cc', path='lean/', serves_properties=[c['property_id'] for c in checks],
                  kind_free_text='Lean 4.33 + Mathlib lake project CC (model, spec, theorems, generated definitions) with native driver ccdriver; Python harness in harness/ (translator extract*.py, correspondence + oracle props/*.py)')],
    checks=checks,
    notes='See DESIGN.md. Genuine defects repaired by fix: commits in /repo and open findings are listed in known_findings.json.',
    not_applicable=na,
)
(ROOT / 'MANIFEST.json').write_text(json.dumps(man, indent=1, ensure_ascii=False) + '\n')
print(f'{len(checks)} checks, {len(na)} not claimed')
