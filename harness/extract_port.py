"""
extract_port.py — translator part of group Port (C06).

`Gen/PortImports.lean`: for the two modules that only re-export / wrap the port analysis
(`Network/equivalent_sources.py`, `Circuit/impedance.py`), every `from .X import name`
statement is resolved against the top-level bindings of module `X` in the *current* sources.
A name that is not bound there makes the import — and with it the whole module — fail at
run time (`ImportError`); the list of such names is generated into Lean and compared with the
observed import outcome by harness/props/c06.py.

`Gen/Port.lean`: `open_circuit_impedance` (with its nested helper `isolated`) and
`element_impedance` of Network/NodalAnalysis/node_analysis.py, translated statement by statement
with the machinery of extract_core.py (class Tr / Gen; the functions they call are the generated
ones of Gen/Core.lean and Gen/Transformers.lean).  New statement / expression shapes (class PortTr;
idioms in CC/Model/PortBase.lean, namespace CC.Py):
  any([...])                       Py.anyL            int(<count>)                 identity on a count
  network.is_zero_node(x)          Gen.Transformers.Network.is_zero_node
  trf.<function>(…)                the generated function of Gen/Transformers.lean
  M[:, j]                          Py.Mat.col         v.any()                      Py.vecAny
  M.any(axis=0)                    Py.Mat.anyAxis0    np.count_nonzero(mask)       Py.countNonzero
  mask[:n]                         Py.sliceTo         M[np.ix_(mask, mask)]        Py.Mat.ix
  np.zeros(n, dtype=complex)       Py.zerosVec        v[i] = x  (statement)        Py.setItem  (IndexError)
  np.linalg.solve(A, b)            Py.linalgSolve solve   (the solver is a PARAMETER; LinAlgError when it has no answer)
  v[i]                             Py.getItem  (IndexError)
  if c: a, b = b, a / if c: a = E  the new values under c, the old ones otherwise
  if a or b: …; return X           `if a: …; return X` then `if b: …; return X` (b evaluated only when a is false)
  def helper(...) nested           a separate definition whose free variable `network` is a parameter, passed where the
                                   helper is CALLED (Python closures read the variable at call time)
CC/Properties/C06Gen.lean proves the generated definitions equal to the hand-written model
CC/Model/Port.lean.  Anything else in the two functions raises ExtractError.

Also into `Gen/Port.lean`: `open_circuit_voltage` and `short_circuit_current` of
Network/NodalAnalysis/bias_point_analysis.py (PortGen.bias; idioms in CC/Model/PortBase2.lean):
  solution = NodalAnalysisBiasPointSolution(network)   the object is (network, Solution.solution_vector solve anyNan network) of Gen/Core.lean
  solution.get_potential(node_id=…)                    Solution.get_potential of Gen/Core.lean
  return <integer literal>                             Py.Scalar.pyInt        return phi1 - phi2 (two get_potential results)   Py.Scalar.npy
  V / Z  (V from open_circuit_voltage, Z from open_circuit_impedance)          Py.divScalar  (ZeroDivisionError / NonFinite / V/inf = 0)
CC/Properties/C06Gen2.lean proves them equal to Net.openCircuitVoltage / Net.shortCircuitCurrent.
"""
from __future__ import annotations
import ast, copy
from pathlib import Path
import extract
import extract_core as core
import extract_transformers as trfm

def _top_level_names(tree: ast.Module) -> set[str]:
    names: set[str] = set()
    def targets(t):
        if isinstance(t, ast.Name): names.add(t.id)
        elif isinstance(t, (ast.Tuple, ast.List)):
            for e in t.elts: targets(e)
    for node in tree.body:
        if isinstance(node, (ast.FunctionDef, ast.AsyncFunctionDef, ast.ClassDef)):
            names.add(node.name)
        elif isinstance(node, ast.Assign):
            for t in node.targets: targets(t)
        elif isinstance(node, (ast.AnnAssign, ast.AugAssign)):
            targets(node.target)
        elif isinstance(node, ast.Import):
            for a in node.names: names.add((a.asname or a.name).split('.')[0])
        elif isinstance(node, ast.ImportFrom):
            for a in node.names: names.add(a.asname or a.name)
        elif isinstance(node, (ast.If, ast.Try, ast.With, ast.For, ast.While)):
            raise extract.ExtractError(f'line {node.lineno}: conditional top-level binding is outside the grammar')
    return names

def _resolve(src: Path, rel: str):
    """unresolved and all `from . import` names of CircuitCalculator/<rel>"""
    pkg_root = src / 'CircuitCalculator'
    path = pkg_root / rel
    tree = ast.parse(path.read_text(), filename=rel)
    unresolved, allnames = [], []
    for node in tree.body:
        if not isinstance(node, ast.ImportFrom) or node.level == 0:
            continue
        base = path.parent
        for _ in range(node.level - 1):
            base = base.parent
        parts = node.module.split('.') if node.module else []
        target = base.joinpath(*parts)
        modname = '.' * node.level + (node.module or '')
        if target.with_suffix('.py').is_file():
            bound = _top_level_names(ast.parse(target.with_suffix('.py').read_text()))
            submods: set[str] = set()
        elif target.is_dir():
            init = target / '__init__.py'
            bound = _top_level_names(ast.parse(init.read_text())) if init.is_file() else set()
            submods = {p.stem for p in target.glob('*.py')} | {p.name for p in target.iterdir() if p.is_dir()}
        else:
            for a in node.names:
                allnames.append((modname, a.name)); unresolved.append((modname, a.name))
            continue
        for a in node.names:
            allnames.append((modname, a.name))
            if a.name == '*':
                raise extract.ExtractError(f'{rel}:{node.lineno}: star import is outside the grammar')
            if a.name not in bound and a.name not in submods:
                unresolved.append((modname, a.name))
    return unresolved, allnames

def _pairs(l):
    return '[' + ', '.join(f'({extract.lean_str(m)}, {extract.lean_str(n)})' for m, n in l) + ']'

@extract.generator('PortImports.lean')
def port_imports(src: Path) -> str:
    u1, a1 = _resolve(src, 'Network/equivalent_sources.py')
    u2, a2 = _resolve(src, 'Circuit/impedance.py')
    return f'''/- GENERATED by harness/extract_port.py from /repo/src — do not edit.
   Relative imports of the modules that wrap the port analysis, resolved against the
   top-level bindings of the imported modules. -/
namespace CC.Gen

/-- `from <module> import <name>` in Network/equivalent_sources.py with `<name>` not bound in `<module>` -/
def equivalentSourcesUnresolved : List (String × String) := {_pairs(u1)}

def equivalentSourcesImports : List (String × String) := {_pairs(a1)}

/-- the same for Circuit/impedance.py -/
def circuitImpedanceUnresolved : List (String × String) := {_pairs(u2)}

def circuitImpedanceImports : List (String × String) := {_pairs(a2)}

end CC.Gen
'''

# -------------------------------------------------------------------------------------------
# Gen/Port.lean
# -------------------------------------------------------------------------------------------

F_NA = core.F_NA
F_BP = core.F_BP
F_TRF = trfm.F_TRF

MASK = ('list', 'bool')          # a boolean ndarray

# kind 'scalar': a returned number with its run-time class (Py.Scalar of CC/Model/PortBase2.lean)
_core_lean_ty = core.lean_ty
def _lean_ty(t):
    if t == 'scalar': return 'Py.Scalar K'
    if isinstance(t, tuple) and t[0] == 'sol': raise extract.ExtractError('a solution object is used as a value (outside the grammar)')
    return _core_lean_ty(t)
core.lean_ty = _lean_ty

# nested helpers of open_circuit_impedance the translator knows the parameter kinds of
# (both `str` parameters of `isolated` are node labels)
NESTED = {'isolated': ([('node', 'label'), ('ground', 'label')], 'bool')}

class PortTr(core.Tr):
    """core.Tr plus the statement / expression shapes of the two port functions (idioms of
    CC/Model/PortBase.lean).  Look-ups are never shared between two occurrences (a name may be
    re-bound between them), every effect is bound where it occurs, in Python's evaluation order."""

    def bind(self, code, stem, key=None):
        return super().bind(code, stem, None)

    # ---- expressions
    def ex(self, e):
        # V / Z for a returned number V (with its class) and the value Z of open_circuit_impedance
        if isinstance(e, ast.BinOp) and isinstance(e.left, ast.Name) and e.left.id in self.env and self.env[e.left.id][1] == 'scalar':
            if not (isinstance(e.op, ast.Div) and isinstance(e.right, ast.Name) and e.right.id in self.env and self.env[e.right.id][1] == 'xval'):
                self.no(e, 'arithmetic with the result of open_circuit_voltage outside the grammar (only V / Z with Z the result of open_circuit_impedance)')
            return (self.bind(f'Py.divScalar {self.env[e.left.id][0]} {self.env[e.right.id][0]}', 'q'), 'num')
        return super().ex(e)

    def emit_ret(self, e):
        if self.want == 'scalar':
            if isinstance(e, ast.Constant) and isinstance(e.value, int) and not isinstance(e.value, bool):
                v, k = self.ex(e)
                self.lines.append(f'RET Py.Scalar.pyInt {v}'); return
            if isinstance(e, ast.BinOp) and isinstance(e.op, (ast.Sub, ast.Add)) and all(
                    isinstance(x, ast.Name) and x.id in self.potentials for x in (e.left, e.right)):
                v, k = self.ex(e)
                if k != 'num': self.no(e, f'returns a {k}')
                self.lines.append(f'RET Py.Scalar.npy {v}'); return
            self.no(e, 'return value outside the grammar (an integer literal, or a sum / difference of two get_potential results)')
        return super().emit_ret(e)

    potentials = frozenset()

    def call(self, e):
        f = e.func
        if isinstance(f, ast.Attribute) and isinstance(f.value, ast.Name) and f.value.id in self.env \
                and isinstance(self.env[f.value.id][1], tuple) and self.env[f.value.id][1][0] == 'sol':
            x, (_, net) = self.env[f.value.id]
            if f.attr not in self.g.sol_methods: self.no(e, f'solution.{f.attr}(…) outside the grammar')
            return self.apply(self.g.sol_methods[f.attr], e, e.args, prefix=f'{net} {x}')
        if isinstance(f, ast.Name):
            n = f.id
            if n == 'any' and n not in self.env and len(e.args) == 1 and not e.keywords:
                x, k = self.ex(e.args[0])
                if k != MASK: self.no(e, f'any(…) of a {k} (only a list of booleans)')
                return (f'(Py.anyL {x})', 'bool')
            if n == 'int' and n not in self.env and len(e.args) == 1 and not e.keywords:
                x, k = self.ex(e.args[0])
                if k != 'nat': self.no(e, f'int(…) of a {k} (only a count)')
                return (x, 'nat')
            if n in self.env and isinstance(self.env[n][1], tuple) and self.env[n][1][0] == 'fn':
                fn = self.env[n][1][1]
                # a nested helper reads the enclosing function's variables when it is CALLED
                for c in fn.closure:
                    if c not in self.env or self.env[c][1] != fn.closure[c]:
                        self.no(e, f'{n} is called where its free variable {c} is not a {fn.closure[c]}')
                fn.extra = ' '.join(self.env[c][0] for c in fn.closure)
                return self.apply(fn, e, e.args)
        if isinstance(f, ast.Attribute):
            if isinstance(f.value, ast.Name) and f.value.id == 'trf' and 'trf' not in self.env:
                return self.apply(self.g.trf_fn(f.attr, e), e, e.args)
            if core.is_np(f, 'count_nonzero') and len(e.args) == 1 and not e.keywords:
                x, k = self.ex(e.args[0])
                if k != MASK: self.no(e, f'np.count_nonzero of a {k} (only a boolean array)')
                return (f'(Py.countNonzero {x})', 'nat')
            if f.attr == 'solve' and core.is_np(f.value, 'linalg'):
                if len(e.args) != 2 or e.keywords: self.no(e, 'np.linalg.solve(A, b) with other arguments')
                a, ak = self.ex(e.args[0]); b, bk = self.ex(e.args[1])
                if (ak, bk) != ('mat', 'vec'): self.no(e, f'np.linalg.solve of a {ak} and a {bk}')
                self.g.uses_solve = True
                return (self.bind(f'Py.linalgSolve solve {a} {b}', 'x'), 'vec')
            if f.attr == 'any' and not (isinstance(f.value, ast.Name) and f.value.id == 'np'):
                b, k = self.ex(f.value)
                if k == 'vec' and not e.args and not e.keywords:
                    return (f'(Py.vecAny {b})', 'bool')
                if k == 'mat' and not e.args and len(e.keywords) == 1 and e.keywords[0].arg == 'axis' \
                        and isinstance(e.keywords[0].value, ast.Constant) and e.keywords[0].value.value == 0 \
                        and not isinstance(e.keywords[0].value.value, bool):
                    return (f'(Py.Mat.anyAxis0 {b})', MASK)
                self.no(e, f'.any(…) of a {k} outside the grammar (only vector.any() and matrix.any(axis=0))')
            if f.attr == 'is_zero_node':
                b, k = self.ex(f.value)
                if k != 'net' or len(e.args) != 1 or e.keywords: self.no(e, '.is_zero_node outside the grammar')
                a, ak = self.ex(e.args[0])
                if ak != 'label': self.no(e, 'is_zero_node of a non-label')
                return (f'({self.g.is_zero_node} {b} {a})', 'bool')
        return super().call(e)

    def np_call(self, e):
        if e.func.attr == 'zeros' and e.keywords:
            for kw in e.keywords:
                if not (kw.arg == 'dtype' and isinstance(kw.value, ast.Name) and kw.value.id == 'complex' and 'complex' not in self.env):
                    self.no(e, 'np.zeros keyword outside the grammar (only dtype=complex)')
            e = copy.copy(e); e.keywords = []
        return super().np_call(e)

    def subscript(self, e):
        s = e.slice
        if (isinstance(e.value, ast.Attribute) and e.value.attr == 'shape') or isinstance(e.value, ast.DictComp):
            return super().subscript(e)
        b, k = self.ex(e.value)
        # M[:, j]
        if isinstance(s, ast.Tuple):
            if not (len(s.elts) == 2 and isinstance(s.elts[0], ast.Slice) and s.elts[0].lower is None
                    and s.elts[0].upper is None and s.elts[0].step is None and k == 'mat'):
                self.no(e, 'index tuple outside the grammar (only matrix[:, column])')
            j, jk = self.ex(s.elts[1])
            if jk != 'nat': self.no(e, f'column index is a {jk}')
            return (f'(Py.Mat.col {b} {j})', 'vec')
        # M[np.ix_(r, c)]
        if isinstance(s, ast.Call) and core.is_np(s.func, 'ix_'):
            if k != 'mat' or len(s.args) != 2 or s.keywords: self.no(e, 'np.ix_ outside the grammar (only matrix[np.ix_(mask, mask)])')
            r, rk = self.ex(s.args[0]); c, ck = self.ex(s.args[1])
            if rk != MASK or ck != MASK: self.no(e, f'np.ix_ of a {rk} and a {ck} (only boolean arrays)')
            return (f'(Py.Mat.ix {b} {r} {c})', 'mat')
        if isinstance(s, ast.Slice):
            if s.step is not None or s.lower is not None or s.upper is None:
                self.no(e, 'slice outside the grammar (only x[:n])')
            u, uk = self.ex(s.upper)
            if uk != 'nat': self.no(e, 'slice bound is not a count')
            if k == MASK: return (f'(Py.sliceTo {b} {u})', MASK)
            if k == 'vec': return (f'(Py.sliceTo {b} {u})', 'vec')
            self.no(e, f'slice of a {k}')
        i, ik = self.ex(s)
        if k == 'net' and ik == 'id':
            return (self.bind(f'{self.g.fn_getitem.lean} {b} {i}', 'b'), 'branch')
        if isinstance(k, tuple) and k[0] == 'map' and ik == k[1]:
            return (self.bind(f'({b}).getitem {i}', 'k'), 'nat')
        if k == 'vec' and ik == 'nat':
            return (self.bind(f'Py.getItem {b} {i}', 'z'), 'num')          # IndexError when out of range
        self.no(e, f'subscript of a {k} by a {ik} outside the grammar')

    # ---- statements
    def pure_ex(self, e, what):
        n0 = len(self.lines)
        r = self.ex(e)
        if len(self.lines) != n0: self.no(e, f'{what} contains an operation that may raise')
        return r

    def block(self, stmts):
        if stmts:
            s, rest = stmts[0], stmts[1:]
            if isinstance(s, ast.FunctionDef):
                if s.name not in self.g.nested: self.no(s, f'nested function {s.name} outside the grammar')
                self.env[s.name] = (s.name, ('fn', self.g.nested[s.name]))
                return self.block(rest)
            if isinstance(s, ast.If) and not s.orelse:
                returns = any(isinstance(x, (ast.Return, ast.Raise)) for b in s.body for x in ast.walk(b))
                if returns and isinstance(s.test, ast.BoolOp) and isinstance(s.test.op, ast.Or) and isinstance(s.body[-1], ast.Return):
                    # `if a or b: …; return X`  ≡  `if a: …; return X` followed by `if b: …; return X`
                    # (b is evaluated only when a is false: short-circuit order of effects kept)
                    split = [ast.copy_location(ast.If(test=v, body=s.body, orelse=[]), s) for v in s.test.values]
                    return self.block(split + rest)
                if not returns:
                    self.cond_assign(s)
                    return self.block(rest)
            if isinstance(s, ast.Assign) and len(s.targets) == 1 and isinstance(s.targets[0], ast.Subscript):
                self.set_item(s)
                return self.block(rest)
            if isinstance(s, ast.Assign) and len(s.targets) == 1 and isinstance(s.targets[0], ast.Name):
                v, n = s.value, s.targets[0].id
                if isinstance(v, ast.Call) and isinstance(v.func, ast.Name) and v.func.id == 'NodalAnalysisBiasPointSolution' \
                        and v.func.id not in self.env:
                    self.new_solution(s)
                    return self.block(rest)
                self.potentials = self.potentials - {n}
                if isinstance(v, ast.Call) and isinstance(v.func, ast.Attribute) and v.func.attr == 'get_potential' \
                        and isinstance(v.func.value, ast.Name) and v.func.value.id in self.env \
                        and isinstance(self.env[v.func.value.id][1], tuple) and self.env[v.func.value.id][1][0] == 'sol':
                    self.potentials = self.potentials | {n}
        return super().block(stmts)

    def new_solution(self, s):
        """`solution = NodalAnalysisBiasPointSolution(network)`: the object is (network, solution vector); the vector is
        `Solution.solution_vector` of Gen/Core.lean (the class's `__post_init__`, default mappers)"""
        if not getattr(self.g, 'allow_solution', False): self.no(s, 'NodalAnalysisBiasPointSolution(…) outside the grammar here')
        v, n = s.value, s.targets[0].id
        if len(v.args) != 1 or v.keywords: self.no(s, 'NodalAnalysisBiasPointSolution(…) with other arguments than the network (mappers are fixed to their defaults)')
        if n in self.env: self.no(s, f'{n!r} is bound before')
        net, k = self.pure_ex(v.args[0], 'constructor argument')
        if k != 'net': self.no(s, f'NodalAnalysisBiasPointSolution of a {k}')
        self.lines.append(f'let {n}_network : Net L K := {net}')
        self.lines.append(f'let {n} ← Solution.solution_vector solve anyNan {n}_network')
        self.monadic = True
        self.g.uses_solve = True
        self.env[n] = (n, ('sol', f'{n}_network'))

    def cond_assign(self, s):
        """`if c: a, b = E1, E2`  /  `if c: a = E` for names bound before: the new values under c, the old ones otherwise"""
        c = self.cond(s.test, 'prop')
        if len(s.body) != 1 or not isinstance(s.body[0], ast.Assign) or len(s.body[0].targets) != 1:
            self.no(s, 'if-statement outside the grammar (`if c: return …`, `if c: raise …`, `if c: <one assignment>`)')
        a = s.body[0]; tg = a.targets[0]
        if isinstance(tg, ast.Name):
            names, values = [tg.id], [a.value]
        elif isinstance(tg, ast.Tuple) and isinstance(a.value, ast.Tuple) and len(tg.elts) == len(a.value.elts) == 2 \
                and all(isinstance(t, ast.Name) for t in tg.elts) and tg.elts[0].id != tg.elts[1].id:
            names, values = [t.id for t in tg.elts], list(a.value.elts)
        else:
            self.no(s, 'conditional assignment outside the grammar (a name, or `a, b = E1, E2`)')
        for n in names:
            if n not in self.env or isinstance(self.env[n][1], tuple) and self.env[n][1][0] in ('fn', 'mapper'):
                self.no(s, f'conditional assignment to {n!r}, which is not a variable bound before')
        new = [self.pure_ex(v, 'conditional assignment') for v in values]      # right-hand sides first (tuple semantics)
        old = [self.env[n] for n in names]
        for n, (vc, vk), (oc, ok) in zip(names, new, old):
            if vk != ok: self.no(s, f'conditional assignment changes the kind of {n!r} ({ok} → {vk})')
        if len(names) == 1:
            ln = self.local_name(names[0])
            self.lines.append(f'let {ln} : {core.lean_ty(old[0][1])} := if {c} then {new[0][0]} else {old[0][0]}')
            self.env[names[0]] = (ln, old[0][1])
            return
        t = self.fresh('t')
        if t in self.env: self.no(s, f'name clash with the generated name {t}')
        ty = ' × '.join(f'({core.lean_ty(k)})' for _, k in old)
        self.lines.append(f'let {t} : {ty} := if {c} then ({new[0][0]}, {new[1][0]}) else ({old[0][0]}, {old[1][0]})')
        for j, n in enumerate(names):
            ln = self.local_name(n)
            self.lines.append(f'let {ln} : {core.lean_ty(old[j][1])} := {t}.{j + 1}')
            self.env[n] = (ln, old[j][1])

    def set_item(self, s):
        """`x[i] = v` on a local 1-d array"""
        tg = s.targets[0]
        if not (isinstance(tg.value, ast.Name) and tg.value.id in self.env and self.env[tg.value.id][1] == 'vec'):
            self.no(s, 'item assignment outside the grammar (only vector[index] = number)')
        v = self.num(self.pure_ex(s.value, 'item assignment'), s)
        x = self.env[tg.value.id][0]
        i, ik = self.pure_ex(tg.slice, 'item assignment')
        if ik != 'nat': self.no(s, f'item assignment at a {ik}')
        self.lines.append(f'let {x} ← Py.setItem {x} {i} {v}')
        self.monadic = True


def _assigned(stmts):
    out = set()
    for st in stmts:
        for x in ast.walk(st):
            if isinstance(x, ast.Name) and isinstance(x.ctx, (ast.Store, ast.Del)): out.add(x.id)
            if isinstance(x, (ast.Global, ast.Nonlocal)): out.update(x.names)
    return out

class PortGen(core.Gen):
    def __init__(self, src):
        super().__init__(src)
        self.run()                      # the core tables (fns, Network methods, mappers); a refusal of the core is ours too
        self.out = []
        self.TR = PortTr
        self.nested = {}
        self.uses_solve = False
        t = trfm.Gen(src)               # checks Network / Branch / is_zero_node against the text Gen/Transformers.lean is written for
        t.translate()
        self.trf_sigs = t.sigs
        self.is_zero_node = 'Gen.Transformers.Network.is_zero_node'
        self.check_imports()

    def check_imports(self):
        """the module aliases the two functions use must be the ones the translator reads them as"""
        want = {'np': ('import', 'numpy'), 'map': ('from', '', 'label_mapping', 1), 'trf': ('from', '', 'transformers', 2),
                'is_ideal_voltage_source': ('from', 'elements', 'is_ideal_voltage_source', 2)}
        have = {}
        for st in self.trees[F_NA].body:
            if isinstance(st, ast.Import):
                for a in st.names: have[a.asname or a.name] = ('import', a.name)
            elif isinstance(st, ast.ImportFrom):
                for a in st.names: have[a.asname or a.name] = ('from', st.module or '', a.name, st.level)
            elif isinstance(st, (ast.FunctionDef, ast.ClassDef)):
                if st.name in want: core.refuse(F_NA, st, f'{st.name} is redefined locally')
            elif isinstance(st, ast.Assign):
                for x in ast.walk(st):
                    if isinstance(x, ast.Name) and isinstance(x.ctx, ast.Store) and x.id in want:
                        core.refuse(F_NA, st, f'{x.id} is re-bound at module level')
        for n, w in want.items():
            if have.get(n) != w: core.refuse(F_NA, None, f'module name {n!r} is bound to {have.get(n)}, the translator reads it as {w}')

    def trf_fn(self, name, node):
        if name not in self.trf_sigs: core.refuse(F_NA, node, f'trf.{name} is not a function of transformers.py')
        s = self.trf_sigs[name]
        if s.defaults: core.refuse(F_NA, node, f'trf.{name}: a function with an exemption list is outside the grammar here')
        fn = core.Fn(f'Gen.Transformers.{name}', list(s.params), s.ret, s.monadic)
        fn.mappers = {}
        return fn

    def port(self):
        w = self.w
        ta = self.trees[F_NA]
        fd = core.find(ta, 'open_circuit_impedance', ast.FunctionDef)
        if fd is None: core.refuse(F_NA, ta, 'open_circuit_impedance not found')
        PLAIN = [('network', 'net'), ('node1', 'label'), ('node2', 'label')]
        self.sig(F_NA, fd, [p for p, _ in PLAIN])
        ms = self.mappers_of(F_NA, fd, len(PLAIN))
        if fd.decorator_list: core.refuse(F_NA, fd, 'decorated function')
        enclosing = {a.arg for a in fd.args.args} | _assigned([s for s in fd.body if not isinstance(s, ast.FunctionDef)])
        for nd in [s for s in fd.body if isinstance(s, ast.FunctionDef)]:
            if nd.name not in NESTED: core.refuse(F_NA, nd, f'nested function {nd.name} outside the grammar')
            if nd.name in self.nested or nd.name in enclosing: core.refuse(F_NA, nd, f'{nd.name} is bound more than once')
            nparams, nret = NESTED[nd.name]
            self.sig(F_NA, nd, [p for p, _ in nparams])
            if len(nd.args.args) != len(nparams) or nd.args.defaults or nd.decorator_list:
                core.refuse(F_NA, nd, f'{nd.name}: signature outside the grammar')
            own = {a.arg for a in nd.args.args} | _assigned(nd.body)
            used = {x.id for b in nd.body for x in ast.walk(b) if isinstance(x, ast.Name)}
            free = sorted((used - own) & enclosing)
            for c in free:
                if c != 'network' and c not in ms:
                    core.refuse(F_NA, nd, f'{nd.name} reads the variable {c!r} of the enclosing function (only network and the mapper parameter)')
            closure = {'network': 'net'} if 'network' in free else {}
            nf = self.translate(F_NA, nd, nd.name, nparams, nret, closure={c: (c, k) for c, k in closure.items()}, mappers=ms,
                                prefix_binders=' '.join(f'({c} : {core.lean_ty(k)})' for c, k in closure.items()),
                                doc=f'{nd.name}, nested in open_circuit_impedance (node_analysis.py:{nd.lineno}); its free variable '
                                    f'`network` is a parameter, passed where the helper is called')
            nf.closure = closure
            self.nested[nd.name] = nf
        SOLVE = '(solve : Py.Mat K → List K → Option (List K))'
        f = self.translate(F_NA, fd, 'open_circuit_impedance', PLAIN, 'xval', mappers=ms, prefix_binders=SOLVE, want_x=True,
                           force_monadic=True,
                           doc=f'open_circuit_impedance (node_analysis.py:{fd.lineno}): `np.linalg.solve` is the parameter `solve`; '
                               f'`return 0` is `fin 0`, `return np.inf` is `inf`')
        f.extra = 'solve'
        self.fns['open_circuit_impedance'] = f
        self.nested = {}
        fe = core.find(ta, 'element_impedance', ast.FunctionDef)
        if fe is None: core.refuse(F_NA, ta, 'element_impedance not found')
        PLAIN2 = [('network', 'net'), ('element', 'id')]
        self.sig(F_NA, fe, [p for p, _ in PLAIN2])
        if fe.decorator_list: core.refuse(F_NA, fe, 'decorated function')
        if any(isinstance(s, ast.FunctionDef) for s in fe.body): core.refuse(F_NA, fe, 'element_impedance: nested function')
        ms2 = self.mappers_of(F_NA, fe, len(PLAIN2))
        self.translate(F_NA, fe, 'element_impedance', PLAIN2, 'xval', mappers=ms2, prefix_binders=SOLVE, want_x=True, force_monadic=True,
                       doc=f'element_impedance (node_analysis.py:{fe.lineno})')
        self.bias()
        body = self.out
        head = ['/- GENERATED by harness/extract_port.py from `open_circuit_impedance` and `element_impedance` of',
                '   src/CircuitCalculator/Network/NodalAnalysis/node_analysis.py, `open_circuit_voltage` and `short_circuit_current`',
                '   of src/CircuitCalculator/Network/NodalAnalysis/bias_point_analysis.py — do not edit.',
                '   Idioms: CC/Model/CoreBase.lean, TransformersBase.lean, PortBase.lean (namespace CC.Py); the functions they',
                '   call are the generated ones of CC/Gen/Core.lean and CC/Gen/Transformers.lean. -/',
                'import CC.Gen.Transformers', 'import CC.Model.PortBase', 'import CC.Model.PortBase2', 'set_option linter.unusedVariables false',
                'namespace CC.Gen.Port', 'open CC CC.Gen.Core', '', 'section',
                'variable {L K : Type} [DecidableEq L] [LabelOrd L]',
                'variable [Zero K] [One K] [Add K] [Mul K] [Neg K] [Sub K] [Inv K] [Div K] [DecidableEq K]', '']
        return '\n'.join(head + body + ['end', '', 'end CC.Gen.Port']) + '\n'

    def check_bias_imports(self):
        """names the two functions of bias_point_analysis.py use: bound once, to what the translator reads them as"""
        tb = self.trees[F_BP]
        want = {'open_circuit_impedance': ('from', 'node_analysis', 'open_circuit_impedance', 1)}
        defs = {'NodalAnalysisBiasPointSolution': 0, 'open_circuit_voltage': 0, 'short_circuit_current': 0}
        have = {}
        for st in tb.body:
            if isinstance(st, ast.Import):
                for a in st.names: have[a.asname or a.name] = ('import', a.name)
            elif isinstance(st, ast.ImportFrom):
                for a in st.names: have[a.asname or a.name] = ('from', st.module or '', a.name, st.level)
            elif isinstance(st, (ast.FunctionDef, ast.ClassDef)):
                if st.name in want: core.refuse(F_BP, st, f'{st.name} is redefined locally')
                if st.name in defs: defs[st.name] += 1
            elif isinstance(st, (ast.Assign, ast.AnnAssign, ast.AugAssign)):
                for x in ast.walk(st):
                    if isinstance(x, ast.Name) and isinstance(x.ctx, ast.Store) and (x.id in want or x.id in defs):
                        core.refuse(F_BP, st, f'{x.id} is re-bound at module level')
            else:
                core.refuse(F_BP, st, f'top-level statement {type(st).__name__} outside the grammar')
        for n, w in want.items():
            if have.get(n) != w: core.refuse(F_BP, None, f'module name {n!r} is bound to {have.get(n)}, the translator reads it as {w}')
        for n, c in defs.items():
            if c != 1 or n in have: core.refuse(F_BP, None, f'{n} is bound {c} times / imported in bias_point_analysis.py')

    def bias(self):
        """open_circuit_voltage, short_circuit_current (bias_point_analysis.py)"""
        self.check_bias_imports()
        tb = self.trees[F_BP]
        PLAIN = [('network', 'net'), ('node1', 'label'), ('node2', 'label')]
        SOLVE = '(solve : Py.Mat K → List K → Option (List K)) (anyNan : List K → Bool)'
        fds = {}
        for name in ('open_circuit_voltage', 'short_circuit_current'):
            fd = core.find(tb, name, ast.FunctionDef)
            if fd is None: core.refuse(F_BP, tb, f'{name} not found')
            self.sig(F_BP, fd, [p for p, _ in PLAIN])
            if len(fd.args.args) != len(PLAIN) or fd.args.defaults or fd.args.kwonlyargs or fd.args.vararg or fd.args.kwarg or fd.decorator_list:
                core.refuse(F_BP, fd, f'{name}: signature outside the grammar')
            if any(isinstance(x, (ast.FunctionDef, ast.Lambda, ast.ClassDef, ast.Global, ast.Nonlocal)) for b in fd.body for x in ast.walk(b)):
                core.refuse(F_BP, fd, f'{name}: nested definition')
            fds[name] = fd
        self.allow_solution = True
        fd = fds['open_circuit_voltage']
        f = self.translate(F_BP, fd, 'open_circuit_voltage', PLAIN, 'scalar', prefix_binders=SOLVE, force_monadic=True,
                           doc=f'open_circuit_voltage (bias_point_analysis.py:{fd.lineno}): `NodalAnalysisBiasPointSolution(network)` is '
                               f'`Solution.solution_vector` of Gen/Core.lean (`np.linalg.solve`, `np.any(np.isnan(·))` are the parameters '
                               f'`solve`, `anyNan`); `return <integer literal>` is `Scalar.pyInt`, a difference of potentials `Scalar.npy`')
        f.extra = 'solve anyNan'
        self.allow_solution = False
        self.fns['open_circuit_voltage'] = f
        fd = fds['short_circuit_current']
        self.translate(F_BP, fd, 'short_circuit_current', PLAIN, 'num', prefix_binders=SOLVE, force_monadic=True,
                       doc=f'short_circuit_current (bias_point_analysis.py:{fd.lineno}): `V / Z` is `Py.divScalar`')

@extract.generator('Port.lean')
def gen_port(src: Path) -> str:
    return PortGen(src).port()
