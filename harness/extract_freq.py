"""
extract_freq.py — translator for `frequency_components` (tie of properties C09 and C03 to the source):

  Circuit/circuit.py   frequency_components (with its nested helper `frequencies`)
      ─▶ lean/CC/Gen/Freq.lean   (Mathlib-free; over `CC.FComp`, `Rat`, `Except CC.Err`, the types of the
                                  hand model CC/Model/MultiFreq.lean; idioms in CC/Model/FreqBase.lean)

The function decides which angular frequencies a multi-frequency analysis examines.  Its
EXPRESSIONS are translated generically, node by node:

  names (parameters and locals) ↦ the Lean binder of the same name;  int / float literals ↦ exact `Rat`
  (or `Nat` next to a `len`);  string literals;  `<component>.type` ↦ `.ty`;  `<circuit>.components` ↦ `components`;
  `a + b`, `a - b`, `a * b`, `-a` on floats ↦ the same on `Rat`;
  `a / b` ↦ `a / b` behind the guard `b == 0 → ZeroDivisionError`;
  `>`, `>=`, `<`, `<=` ↦ `decide (a > b)` …;  `==`, `!=` ↦ `==`, `!=`;  `or`, `and`, `not` ↦ `||`, `&&`, `!`
  (short-circuit: the guards of the right operand are raised only when the left one lets it be evaluated);
  `len(xs)` ↦ `xs.length`;  `xs[-1]` ↦ `pyLast xs` behind the guard `xs.length == 0 → IndexError`;
  `abs(x)`, `np.abs(x)` ↦ `mfAbsQ x`;  `np.floor(x)`, `np.ceil(x)` ↦ `npFloor x`, `npCeil x` (exact — tie margin);
  `np.arange(x)` ↦ `npArange x`;  `[]`, `[e, …]`;  `[e for n in xs]` ↦ `xs.map fun n => e`;  `sorted(xs)` ↦ `sortQ xs`.

Its STATEMENTS are matched structurally (every other shape raises ExtractError — a refusal is a
broken obligation of every theorem that imports the generated file):

  nested helper    def f(component): <block>            a block is a sequence of
      try: NAME = float(component.value['w'])           ↦ match component.w with | none => <handler> | some NAME => <rest>
      except KeyError: <block ending in return>
      if COND: <block ending in return>                 ↦ if COND then … else <rest>
      NAME = EXPR                                       ↦ let NAME := EXPR
      return EXPR                                       ↦ .ok EXPR           (each behind the guards of its expression)
  main body        ACC : list[float] = []
                   for X in PURE([ELT for c in <circuit>.components for y in f(c)]):
                       if COND: ACC.append(EXPR)        ↦ pyForM step [] (PURE (pyFlatMapM f components))
                   return ACC

`transform` / `transform_circuit` of the same file are tied by harness/extract_circuit.py (verbatim
templates → CC/Gen/CircuitTables.lean).
"""
from __future__ import annotations
import ast
from extract import generator, parse, lean_str, ExtractError
from extract_circuit import lean_rat, dotted, functions, _default_of

REL = 'Circuit/circuit.py'
FLAT = "flat'"      # Lean name of the flattened list (no Python name contains a prime)

def refuse(node, msg):
    raise ExtractError(f'{REL}:{getattr(node, "lineno", "?")}: {msg}')

ARITH = {ast.Add: '+', ast.Sub: '-', ast.Mult: '*'}
ORDER = {ast.Gt: '>', ast.GtE: '≥', ast.Lt: '<', ast.LtE: '≤'}
EQ = {ast.Eq: '==', ast.NotEq: '!='}
FUN_RAT = {'abs': 'mfAbsQ', 'np.abs': 'mfAbsQ', 'np.floor': 'npFloor', 'np.ceil': 'npCeil'}

# A translated expression is (lean term, type, guards).  Types: 'rat' 'nat' 'num' (a bare literal,
# takes the type of its neighbour) 'bool' 'str' 'list' (List Rat) 'comp' (FComp) 'comps' (List FComp).
# A guard is (Bool term, Err constructor): "when the term is true, evaluation raises".

class Env:
    def __init__(self, circuit):
        self.circuit = circuit       # name of the circuit parameter
        self.vars = {}               # python name -> (lean term, type)
    def child(self):
        e = Env(self.circuit); e.vars = dict(self.vars); return e

def lit(e, ty):
    """literal `e` (type 'num') as a term of type `ty`"""
    v = e.value
    if ty == 'nat':
        if not (isinstance(v, int) and v >= 0):
            refuse(e, f'literal {v!r} next to a length')
        return f'({v} : Nat)'
    return lean_rat(v)

def unify(a, b, node):
    """bring two numeric operands to one type; returns (term a, term b, type)"""
    (ta, ya, _), (tb, yb, _) = a, b
    if ya == 'num' and yb == 'num':
        return lit(ta, 'rat'), lit(tb, 'rat'), 'rat'
    if ya == 'num': return lit(ta, yb), tb, yb
    if yb == 'num': return ta, lit(tb, ya), ya
    if ya == yb: return ta, tb, ya
    if {ya, yb} == {'nat', 'rat'}:
        return (f'(({ta} : Nat) : Rat)' if ya == 'nat' else ta), (f'(({tb} : Nat) : Rat)' if yb == 'nat' else tb), 'rat'
    refuse(node, f'operands of types {ya} and {yb}: {ast.unparse(node)}')

def as_rat(x, node):
    t, y, g = x
    if y == 'num': return lit(t, 'rat')
    if y == 'rat': return t
    if y == 'nat': return f'(({t} : Nat) : Rat)'
    refuse(node, f'a number is expected, found {y}: {ast.unparse(node)}')

def tr(e, env: Env):
    u = ast.unparse(e)
    if isinstance(e, ast.Name):
        if e.id in env.vars:
            t, y = env.vars[e.id]
            return t, y, []
        refuse(e, f'unknown name {e.id}')
    if isinstance(e, ast.Constant):
        v = e.value
        if isinstance(v, bool): refuse(e, 'boolean literal')
        if isinstance(v, (int, float)): return e, 'num', []
        if isinstance(v, str): return lean_str(v), 'str', []
        refuse(e, f'literal outside the grammar: {u}')
    if isinstance(e, ast.Attribute):
        if isinstance(e.value, ast.Name) and e.value.id == env.circuit and e.value.id not in env.vars and e.attr == 'components':
            return 'components', 'comps', []
        t, y, g = tr(e.value, env)
        if y == 'comp' and e.attr == 'type':
            return f'{t}.ty', 'str', g
        refuse(e, f'attribute outside the grammar: {u}')
    if isinstance(e, ast.Subscript):
        t, y, g = tr(e.value, env)
        if y == 'list' and ast.unparse(e.slice) == '-1':
            return f'(pyLast {t})', 'rat', g + [(f'({t}.length == (0 : Nat))', '.keyError')]
        refuse(e, f'subscript outside the grammar: {u}')
    if isinstance(e, ast.UnaryOp):
        x = tr(e.operand, env)
        if isinstance(e.op, ast.Not):
            if x[1] != 'bool': refuse(e, f'`not` of a {x[1]}')
            return f'(!{x[0]})', 'bool', x[2]
        if isinstance(e.op, ast.USub):
            return f'(-{as_rat(x, e)})', 'rat', x[2]
        refuse(e, f'operator outside the grammar: {u}')
    if isinstance(e, ast.BinOp):
        a, b = tr(e.left, env), tr(e.right, env)
        if type(e.op) in ARITH:
            ta, tb, y = unify(a, b, e)
            if y not in ('rat', 'nat') or (y == 'nat' and isinstance(e.op, ast.Sub)):
                refuse(e, f'arithmetic on {y}: {u}')
            return f'({ta} {ARITH[type(e.op)]} {tb})', y, a[2] + b[2]
        if isinstance(e.op, ast.Div):
            ta, tb = as_rat(a, e.left), as_rat(b, e.right)
            return f'({ta} / {tb})', 'rat', a[2] + b[2] + [(f'({tb} == (0 : Rat))', '.zeroDivision')]
        refuse(e, f'operator outside the grammar: {u}')
    if isinstance(e, ast.Compare):
        if len(e.ops) != 1: refuse(e, f'chained comparison: {u}')
        a, b = tr(e.left, env), tr(e.comparators[0], env)
        op = type(e.ops[0])
        if a[1] == 'str' and b[1] == 'str' and op in EQ:
            return f'({a[0]} {EQ[op]} {b[0]})', 'bool', a[2] + b[2]
        if op in EQ or op in ORDER:
            ta, tb, y = unify(a, b, e)
            if y not in ('rat', 'nat'): refuse(e, f'comparison of {y}: {u}')
            if op in EQ:
                return f'({ta} {EQ[op]} {tb})', 'bool', a[2] + b[2]
            return f'(decide ({ta} {ORDER[op]} {tb}))', 'bool', a[2] + b[2]
        refuse(e, f'comparison outside the grammar: {u}')
    if isinstance(e, ast.BoolOp):
        xs = [tr(v, env) for v in e.values]
        if any(x[1] != 'bool' for x in xs): refuse(e, f'`and`/`or` of non-booleans: {u}')
        is_or = isinstance(e.op, ast.Or)
        term, guards = xs[0][0], list(xs[0][2])
        for x in xs[1:]:
            reach = f'(!{term})' if is_or else term         # the operand is evaluated only then
            guards += [(f'({reach} && {g})', err) for g, err in x[2]]
            term = f'({term} {"||" if is_or else "&&"} {x[0]})'
        return term, 'bool', guards
    if isinstance(e, ast.Call):
        f = dotted(e.func)
        if e.keywords or f is None or f in env.vars:
            refuse(e, f'call outside the grammar: {u}')
        if f == 'len' and len(e.args) == 1:
            t, y, g = tr(e.args[0], env)
            if y not in ('list', 'comps'): refuse(e, f'len of a {y}')
            return f'{t}.length', 'nat', g
        if f in FUN_RAT and len(e.args) == 1:
            x = tr(e.args[0], env)
            return f'({FUN_RAT[f]} {as_rat(x, e.args[0])})', 'rat', x[2]
        if f == 'np.arange' and len(e.args) == 1:
            x = tr(e.args[0], env)
            return f'(npArange {as_rat(x, e.args[0])})', 'list', x[2]
        if f == 'sorted' and len(e.args) == 1:
            t, y, g = tr(e.args[0], env)
            if y != 'list': refuse(e, f'sorted of a {y}')
            return f'(sortQ {t})', 'list', g
        refuse(e, f'call outside the grammar: {u}')
    if isinstance(e, ast.List):
        xs = [tr(v, env) for v in e.elts]
        return '[' + ', '.join(as_rat(x, v) for x, v in zip(xs, e.elts)) + ']', 'list', [g for x in xs for g in x[2]]
    if isinstance(e, ast.ListComp):
        if len(e.generators) != 1: refuse(e, f'comprehension outside the grammar: {u}')
        gen = e.generators[0]
        if gen.ifs or gen.is_async or not isinstance(gen.target, ast.Name):
            refuse(e, f'comprehension outside the grammar: {u}')
        t, y, g = tr(gen.iter, env)
        if y != 'list': refuse(e, f'comprehension over a {y}')
        inner = env.child(); inner.vars[gen.target.id] = (gen.target.id, 'rat')
        x = tr(e.elt, inner)
        if x[2]: refuse(e, f'element of a comprehension can raise: {u}')
        return f'({t}.map fun {gen.target.id} => {as_rat(x, e.elt)})', 'list', g
    refuse(e, f'expression outside the grammar: {u}')

def guarded(guards, body, ind):
    """`body` behind the guards, in evaluation order"""
    return ''.join(f'{ind}if {g} then .error {err} else\n' for g, err in guards) + body

# --------------------------------------------------------------------------- the nested helper

def ends_in_return(stmts):
    return bool(stmts) and isinstance(stmts[-1], ast.Return)

def block(stmts, env: Env, ind: str, comp: str) -> str:
    """a block of the nested helper (must end in `return`) as a term of type Except Err (List Rat)"""
    if not stmts:
        refuse(None, 'a path of the nested helper does not end in `return`')
    st, rest = stmts[0], stmts[1:]
    if isinstance(st, ast.Return):
        if rest: refuse(rest[0], 'statement after `return`')
        if st.value is None: refuse(st, 'bare `return`')
        t, y, g = tr(st.value, env)
        if y != 'list': refuse(st, f'the helper returns a {y}, not a list of floats')
        return guarded(g, f'{ind}.ok {t}', ind)
    if isinstance(st, ast.Try):
        # try: NAME = float(component.value['w'])   except KeyError: <block>
        ok = (len(st.body) == 1 and isinstance(st.body[0], ast.Assign) and len(st.body[0].targets) == 1
              and isinstance(st.body[0].targets[0], ast.Name)
              and ast.unparse(st.body[0].value) == f"float({comp}.value['w'])"
              and env.vars.get(comp, (None, None))[1] == 'comp'
              and len(st.handlers) == 1 and dotted(st.handlers[0].type) == 'KeyError' and st.handlers[0].name is None
              and not st.orelse and not st.finalbody)
        if not ok:
            refuse(st, "try statement is not `try: NAME = float(<component>.value['w'])  except KeyError: …`")
        if not ends_in_return(st.handlers[0].body):
            refuse(st.handlers[0], 'the KeyError handler does not end in `return`')
        name = st.body[0].targets[0].id
        inner = env.child(); inner.vars[name] = (name, 'rat')
        return (f'{ind}match {env.vars[comp][0]}.w with\n'
                f'{ind}| none =>\n{block(st.handlers[0].body, env, ind + "  ", comp)}\n'
                f'{ind}| some {name} =>\n{block(rest, inner, ind + "  ", comp)}')
    if isinstance(st, ast.If):
        if st.orelse or not ends_in_return(st.body):
            refuse(st, '`if` of the nested helper has an `else` or does not end in `return`')
        t, y, g = tr(st.test, env)
        if y != 'bool': refuse(st, f'condition is a {y}')
        return guarded(g, f'{ind}if {t} then\n{block(st.body, env.child(), ind + "  ", comp)}\n{ind}else\n'
                          f'{block(rest, env, ind, comp)}', ind)
    if isinstance(st, ast.Assign):
        if len(st.targets) != 1 or not isinstance(st.targets[0], ast.Name):
            refuse(st, 'assignment outside the grammar')
        name = st.targets[0].id
        t, y, g = tr(st.value, env)
        if y == 'num': t, y = lit(t, 'rat'), 'rat'
        if y not in ('rat', 'list'): refuse(st, f'local of type {y}')
        inner = env.child(); inner.vars[name] = (name, y)
        return guarded(g, f'{ind}let {name} := {t}\n{block(rest, inner, ind, comp)}', ind)
    refuse(st, f'statement outside the grammar: {ast.unparse(st).splitlines()[0]}')

# --------------------------------------------------------------------------- frequency_components

@generator('Freq.lean')
def gen_freq(src) -> str:
    fns = functions(parse(src, REL))
    fn = fns.get('frequency_components')
    if fn is None:
        raise ExtractError(f'{REL}: function frequency_components not found')
    a = fn.args
    if fn.decorator_list or a.vararg or a.kwarg or a.kwonlyargs or a.posonlyargs or len(a.args) < 1:
        refuse(fn, 'signature of frequency_components outside the grammar')
    circuit = a.args[0].arg
    params = [x.arg for x in a.args[1:]]
    if len(set(params + [circuit])) != len(params) + 1 or 'components' in params:
        refuse(fn, 'parameter names clash')
    defaults = {p: _default_of(fn, p, REL) for p in params}
    if _default_of(fn, circuit, REL) is not None:
        refuse(fn, 'the circuit parameter has a default')
    env = Env(circuit)
    for p in params:
        if defaults[p] is not None and (isinstance(defaults[p], bool) or not isinstance(defaults[p], (int, float))):
            refuse(fn, f'default of {p} is not a number')
        env.vars[p] = (p, 'rat')
    pbind = ''.join(f' ({p} : Rat)' for p in params)
    pargs = ''.join(f' {p}' for p in params)

    body = list(fn.body)
    if body and isinstance(body[0], ast.Expr) and isinstance(body[0].value, ast.Constant) and isinstance(body[0].value.value, str):
        body.pop(0)                                   # docstring
    if len(body) != 4:
        refuse(fn, 'body of frequency_components is not  def helper / ACC = [] / for … / return ACC')
    helper, init, loop, ret = body

    # ---- nested helper
    if not (isinstance(helper, ast.FunctionDef) and not helper.decorator_list and len(helper.args.args) == 1
            and not helper.args.defaults and not helper.args.vararg and not helper.args.kwarg
            and not helper.args.kwonlyargs and not helper.args.posonlyargs):
        refuse(helper, 'first statement is not a one-argument nested helper')
    hname, comp = helper.name, helper.args.args[0].arg
    if comp in params or comp == circuit or hname in params or hname == circuit:
        refuse(helper, 'names of the nested helper clash with the parameters')
    for node in ast.walk(helper):
        if isinstance(node, (ast.Nonlocal, ast.Global, ast.Yield, ast.YieldFrom, ast.Lambda, ast.NamedExpr)) \
                or (isinstance(node, ast.FunctionDef) and node is not helper):
            refuse(node, 'construct outside the grammar in the nested helper')
    henv = env.child(); henv.vars[comp] = (comp, 'comp')
    hbody = list(helper.body)
    if hbody and isinstance(hbody[0], ast.Expr) and isinstance(hbody[0].value, ast.Constant) and isinstance(hbody[0].value.value, str):
        hbody.pop(0)
    helper_lean = block(hbody, henv, '  ', comp)

    # ---- ACC = []
    tgt = init.target if isinstance(init, ast.AnnAssign) else (init.targets[0] if isinstance(init, ast.Assign) and len(init.targets) == 1 else None)
    if not (isinstance(tgt, ast.Name) and isinstance(init.value, ast.List) and not init.value.elts):
        refuse(init, 'second statement is not `ACC = []`')
    acc = tgt.id
    if acc in params or acc in (circuit, hname, comp):
        refuse(init, 'name of the accumulator clashes')

    # ---- for X in PURE([ELT for c in circuit.components for y in helper(c)]):  if COND: ACC.append(EXPR)
    if not (isinstance(loop, ast.For) and isinstance(loop.target, ast.Name) and not loop.orelse and len(loop.body) == 1):
        refuse(loop, 'third statement is not a `for` loop with a single statement')
    x = loop.target.id
    if x in (acc, circuit, hname):
        refuse(loop, 'loop variable clashes')
    # the two-generator comprehension, found under pure list functions
    hole = []
    class Find(ast.NodeTransformer):
        def visit_ListComp(s, node):
            if len(node.generators) == 2:
                hole.append(node)
                return ast.Name(id=FLAT, ctx=ast.Load())
            return s.generic_visit(node)
    it = Find().visit(ast.parse(ast.unparse(loop.iter), mode='eval').body)
    if len(hole) != 1:
        refuse(loop, 'the loop does not run over one flattening comprehension `[… for c in <circuit>.components for y in helper(c)]`')
    lc = hole[0]
    g1, g2 = lc.generators
    if not (isinstance(g1.target, ast.Name) and isinstance(g2.target, ast.Name) and not g1.ifs and not g2.ifs
            and not g1.is_async and not g2.is_async
            and ast.unparse(g1.iter) == f'{circuit}.components'
            and ast.unparse(g2.iter) == f'{hname}({g1.target.id})'
            and g1.target.id not in (hname, circuit)):
        refuse(loop, f'flattening comprehension outside the grammar: {ast.unparse(lc)}')
    eenv = env.child(); eenv.vars[g2.target.id] = (g2.target.id, 'rat')
    if g1.target.id != g2.target.id: eenv.vars.pop(g1.target.id, None)
    elt = tr(lc.elt, eenv)
    if elt[2]: refuse(lc, 'element of the flattening comprehension can raise')
    ienv = env.child(); ienv.vars[FLAT] = (f'({FLAT}.map fun {g2.target.id} => {as_rat(elt, lc.elt)})', 'list')
    it_t, it_y, it_g = tr(it, ienv)
    if it_y != 'list' or it_g:
        refuse(loop, 'the iterable of the loop is not a list of floats / can raise')
    # loop body
    st = loop.body[0]
    if not (isinstance(st, ast.If) and not st.orelse and len(st.body) == 1 and isinstance(st.body[0], ast.Expr)
            and isinstance(st.body[0].value, ast.Call) and ast.unparse(st.body[0].value.func) == f'{acc}.append'
            and len(st.body[0].value.args) == 1 and not st.body[0].value.keywords):
        refuse(st, 'the loop body is not `if COND: ACC.append(EXPR)`')
    senv = env.child(); senv.vars[acc] = (acc, 'list'); senv.vars[x] = (x, 'rat')
    cond = tr(st.test, senv)
    if cond[1] != 'bool': refuse(st, f'condition is a {cond[1]}')
    app = tr(st.body[0].value.args[0], senv)
    step = guarded(cond[2], f'  if {cond[0]} then\n'
                   + guarded(app[2], f'    .ok ({acc} ++ [{as_rat(app, st)}])', '    ')
                   + f'\n  else\n    .ok {acc}', '  ')

    # ---- return ACC
    if not (isinstance(ret, ast.Return) and isinstance(ret.value, ast.Name) and ret.value.id == acc):
        refuse(ret, 'last statement is not `return ACC`')

    out = ['/- GENERATED by harness/extract_freq.py from /repo/src — do not edit. -/\n',
           'import CC.Model.FreqBase\nset_option linter.unusedVariables false\nnamespace CC.Gen.Freq\nopen CC CC.FreqBase\n\n']
    for p in params:
        if defaults[p] is not None:
            out.append(f'/-- default of parameter `{p}` of `frequency_components` (exact binary64 value) -/\n'
                       f'def default_{p} : Rat := {lean_rat(defaults[p])}\n\n')
    out.append(f'/-- nested helper `{hname}({comp})` of `frequency_components`: the frequencies one component contributes -/\n'
               f'def {hname}{pbind} ({comp} : FComp) : Except Err (List Rat) :=\n{helper_lean}\n\n')
    out.append(f'/-- one pass of the loop body `if …: {acc}.append(…)` -/\n'
               f'def loop_step{pbind} ({acc} : List Rat) ({x} : Rat) : Except Err (List Rat) :=\n{step}\n\n')
    out.append(f'/-- `frequency_components({circuit}, {", ".join(params)})`; `components` = `{circuit}.components` -/\n'
               f'def frequency_components (components : List FComp){pbind} : Except Err (List Rat) :=\n'
               f'  match pyFlatMapM (fun {g1.target.id} => {hname}{pargs} {g1.target.id}) components with\n'
               f"  | .error e' => .error e'\n"
               f'  | .ok {FLAT} => pyForM (loop_step{pargs}) [] {it_t}\n')
    out.append('\nend CC.Gen.Freq\n')
    return ''.join(out)

if __name__ == '__main__':
    import sys
    from pathlib import Path
    print(gen_freq(Path(sys.argv[1] if len(sys.argv) > 1 else '/repo/src')), end='')
