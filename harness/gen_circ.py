"""
gen_circ.py — structured generators of component circuits (Circuit layer), shared by the
lead's checks (C03, C05).  A description is a list of component dicts
    {kind, id, nodes: [a, b], args: {...}}
with kind a constructor name of Circuit/components.py.
"""
from __future__ import annotations
import math
import gen_net

PASSIVE = ['resistor', 'capacitor', 'inductance', 'impedance', 'lamp']
SOURCES = ['dc_voltage_source', 'ac_voltage_source', 'dc_current_source', 'ac_current_source', 'complex_voltage_source']

def pos(rng):
    return float(2.0 ** rng.randint(-3, 3)) if rng.random() < 0.6 else float(rng.randint(1, 20)) / 4.0

def gen_args(rng, kind, w_pool):
    if kind == 'resistor': return dict(R=pos(rng))
    if kind == 'capacitor': return dict(C=pos(rng))
    if kind == 'inductance': return dict(L=pos(rng))
    if kind == 'impedance': return dict(Z=complex(pos(rng), rng.choice([0.0, pos(rng), -pos(rng)])))
    if kind == 'lamp': return dict(P=pos(rng), V_ref=pos(rng))
    if kind == 'dc_voltage_source': return dict(V=rng.choice([1, -1]) * pos(rng), R=rng.choice([0.0, pos(rng)]))
    if kind == 'dc_current_source': return dict(I=rng.choice([1, -1]) * pos(rng), G=rng.choice([0.0, pos(rng)]))
    if kind == 'ac_voltage_source': return dict(V=pos(rng), R=rng.choice([0.0, pos(rng)]), w=rng.choice(w_pool), phi=rng.choice([0.0, 0.5, -1.25, 2.0]))
    if kind == 'ac_current_source': return dict(I=pos(rng), G=rng.choice([0.0, pos(rng)]), w=rng.choice(w_pool), phi=rng.choice([0.0, 0.75, -2.0]))
    if kind == 'complex_voltage_source': return dict(V=complex(pos(rng), -pos(rng)), Z=complex(rng.choice([0.0, pos(rng)]), 0.0))
    raise ValueError(kind)

def random_circuit(rng, n_nodes=None, kinds=None, sources=None, w_pool=(0.0, 1.0, 2.0), with_ground=True, n_sources=None):
    """connected circuit: a resistive spanning tree (keeps every frequency well-posed) plus
    extra components of random kinds; at least one source"""
    n = n_nodes or rng.randint(2, 5)
    pool = list(rng.choice(gen_net.LABEL_POOLS)); rng.shuffle(pool)
    labels = pool[:n]
    idf = rng.choice(gen_net.ID_POOLS)
    comps = []
    k = 0
    for j in range(1, n):
        a, b = labels[rng.randrange(j)], labels[j]
        if rng.random() < 0.5: a, b = b, a
        comps.append(dict(kind='resistor', id=idf('re', k), nodes=[a, b], args=gen_args(rng, 'resistor', w_pool))); k += 1
    kinds = kinds or PASSIVE
    sources = sources or SOURCES
    for _ in range(rng.randint(1, n + 2)):
        a, b = rng.sample(labels, 2)
        kind = rng.choice(kinds)
        comps.append(dict(kind=kind, id=idf(kind[:2], k), nodes=[a, b], args=gen_args(rng, kind, w_pool))); k += 1
    for _ in range(n_sources if n_sources is not None else rng.randint(1, 2)):
        a, b = rng.sample(labels, 2)
        kind = rng.choice(sources)
        args = gen_args(rng, kind, w_pool)
        # ideal voltage sources in parallel / in loops make the circuit singular: give them a series resistance mostly
        if kind in ('dc_voltage_source', 'ac_voltage_source') and rng.random() < 0.7:
            args['R'] = pos(rng)
        comps.append(dict(kind=kind, id=idf(kind[:2], k), nodes=[a, b], args=args)); k += 1
    rng.shuffle(comps)
    seen = set()
    for c in comps:
        while c['id'] in seen: c['id'] += "'"
        seen.add(c['id'])
    if with_ground:
        comps.insert(rng.randrange(len(comps) + 1), dict(kind='ground', id='gnd', nodes=[rng.choice(labels)], args={}))
    return comps

def to_impl(comps):
    from CircuitCalculator.Circuit import components as ccp
    from CircuitCalculator.Circuit.circuit import Circuit
    out = []
    for c in comps:
        f = getattr(ccp, c['kind'])
        if c['kind'] == 'ground':
            out.append(f(id=c['id'], nodes=(gen_net.fresh(c['nodes'][0]),)))
        else:
            out.append(f(id=c['id'], nodes=(gen_net.fresh(c['nodes'][0]), gen_net.fresh(c['nodes'][1])), **c['args']))
    return Circuit(out)

def pretty(comps):
    return [f"{c['id']}:{c['kind']}({','.join(c['nodes'])}){c['args']}" for c in comps]

def wellposed_at(drv, circ, w):
    """is the circuit's phasor network at angular frequency w well-posed (exact, spec tableau)?
    Uses the implementation's own transform_circuit only to obtain the network to test."""
    import numpy as np
    from CircuitCalculator.Circuit.circuit import transform_circuit
    if drv is None:
        return True
    try:
        net = transform_circuit(circ, w)
        for b in net.branches:
            vals = [b.element.Z, b.element.V] if type(b.element).__name__ == 'NortenElement' else [b.element.Y, b.element.I]
            if not all(np.isfinite(complex(x)) for x in vals):
                return False
        return bool(drv.call('wellposed', net=gen_net.impl_to_json(net))['wellposed'])
    except Exception:
        return False
