#!/venv/bin/python
"""
seedkeep.py — confirm a seeded change and file it under /verif/seeded/<name>/.

  seedkeep.py <name> <property> <patch.diff> <demo.py> "<what it needs to manifest>" [--checks C01,C03]

Confirms, in a scratch git worktree of /repo's HEAD: (1) the demonstration passes without
the change and fails with it; (2) the package still imports; (3) the pinned baseline test
command gives the same passed/failed counts with the change as without.  Then runs the
named checks against the changed tree (CC_REPO) and records which of them report a
VIOLATION.  Nothing is ever applied to /repo itself.
"""
import argparse, json, os, re, shutil, subprocess, sys, tempfile
from pathlib import Path
ROOT = Path(__file__).resolve().parent.parent

def sh(cmd, **kw):
    return subprocess.run(cmd, shell=True, capture_output=True, text=True, **kw)

def pytest_counts(wt):
    r = sh(f'cd {wt} && /venv/bin/python -m pytest -q -p no:cacheprovider --timeout=900 --continue-on-collection-errors 2>&1 | tail -1')
    return re.sub(r'\s+in [0-9.]+s.*$', '', r.stdout.strip()).strip('= ')

def main():
    ap = argparse.ArgumentParser()
    ap.add_argument('name'); ap.add_argument('prop'); ap.add_argument('patch'); ap.add_argument('demo'); ap.add_argument('needs')
    ap.add_argument('--checks', default='')
    ap.add_argument('--verif', default=str(ROOT), help='copy of /verif to run bin/check from (metas are filed under the tree this file is in)')
    a = ap.parse_args()
    checks = [c for c in a.checks.split(',') if c] or [a.prop]
    wt = Path(tempfile.mkdtemp(prefix='seedkeep_')); shutil.rmtree(wt)
    import time as _t
    for _try in range(8):
        if sh(f'git -C /repo worktree add -q --detach {wt} HEAD').returncode == 0: break
        _t.sleep(2 + _try)
    meta = dict(name=a.name, property=a.prop, needs=a.needs, repo_head=sh('git -C /repo rev-parse --short HEAD').stdout.strip())
    try:
        meta['demo_without_change_rc'] = sh(f'MPLBACKEND=Agg /venv/bin/python {a.demo} {wt}/src').returncode
        meta['tests_without_change'] = pytest_counts(wt)
        ap_ = sh(f'git -C {wt} apply {Path(a.patch).resolve()}')
        if ap_.returncode:
            print('patch does not apply to the current HEAD:', ap_.stderr); meta['applies'] = False
        else:
            meta['applies'] = True
            meta['imports_with_change'] = sh(f'/venv/bin/python -c "import sys; sys.path.insert(0, \'{wt}/src\'); import CircuitCalculator.Circuit.solution, CircuitCalculator.SimpleCircuit.Elements"').returncode == 0
            meta['demo_with_change_rc'] = sh(f'MPLBACKEND=Agg /venv/bin/python {a.demo} {wt}/src').returncode
            meta['tests_with_change'] = pytest_counts(wt)
            env = dict(os.environ, CC_REPO=str(wt), VERIF_SEED='0', VERIF_EVIDENCE_DIR=tempfile.mkdtemp(prefix='seed_ev_'))
            meta['checks'] = {}
            for p in checks:
                c = subprocess.run([str(Path(a.verif) / 'bin' / 'check'), '--property', p, '--tier', 'quick'], capture_output=True, text=True, env=env)
                vio = [l for l in c.stdout.splitlines() if l.startswith('VIOLATION')]
                info = dict(rc=c.returncode, line=vio[0] if vio else '')
                m = re.search(r'replay=(\S+)', vio[0]) if vio else None
                if m and Path(m.group(1)).exists():
                    rp = json.loads(Path(m.group(1)).read_text())
                    info['replay_kind'] = rp.get('kind'); info['what'] = rp.get('what') or [o[0] for o in rp.get('obligation', [])][:4]
                meta['checks'][p] = info
                print(p, info)
    finally:
        sh(f'git -C /repo worktree remove --force {wt}')
        sh(f'/venv/bin/python {a.verif}/harness/extract.py /repo/src')
        subprocess.run(['lake', 'build'], cwd=Path(a.verif) / 'lean', capture_output=True)
    meta['confirmed'] = bool(meta.get('applies') and meta.get('demo_without_change_rc') == 0 and meta.get('demo_with_change_rc', 0) != 0
                             and meta.get('tests_with_change') == meta.get('tests_without_change') and meta.get('imports_with_change'))
    meta['ran'] = ['demo with/without the change in a scratch worktree', 'pinned baseline pytest command with/without the change (summary line compared)',
                   'bin/check --tier quick for ' + ','.join(checks) + ' with CC_REPO=<scratch worktree>']
    print(json.dumps(meta, indent=1))
    if meta['confirmed']:
        d = ROOT / 'seeded' / a.name
        d.mkdir(parents=True, exist_ok=True)
        shutil.copy(a.patch, d / 'patch.diff'); shutil.copy(a.demo, d / 'demo.py')
        (d / 'meta.json').write_text(json.dumps(meta, indent=1))
        print('kept as', d)
    else:
        print('NOT confirmed; not kept')

if __name__ == '__main__':
    main()
