"""Mutation runner used by group Port (see notes/port.md).  usage: port_mutations.py C06|C09 [name ...]
Copies /repo to $MUT_REPO (default /tmp/mut_repo_port), applies one textual mutation at a time, runs the check of
the verif root given by $VERIF_ROOT (default: the root this file lives in) with CC_REPO pointing at the mutated copy."""
import subprocess, sys, os, shutil, re
MUT_REPO = os.environ.get('MUT_REPO', '/tmp/mut_repo_port')
ROOT = os.environ.get('VERIF_ROOT', os.path.dirname(os.path.dirname(os.path.abspath(__file__))))
MUTS = {
 'C06': [
  ('m1_no_swap_when_node1_is_reference', 'Network/NodalAnalysis/node_analysis.py', "    if network.is_zero_node(node1):\n        node1, node2 = node2, node1\n", "    if network.is_zero_node(node2):\n        node1, node2 = node2, node1\n"),
  ('m2_offdiag_index', 'Network/NodalAnalysis/node_analysis.py', "    return np.linalg.solve(A, unit_current)[i1]", "    return np.linalg.solve(A, unit_current)[i1-1]"),
  ('m12_keep_mask_isclose', 'Network/NodalAnalysis/node_analysis.py', "    keep = A.any(axis=0)\n", "    keep = ~np.isclose(A, 0).all(axis=0)\n"),
  ('m9_unpruned_index_again', 'Network/NodalAnalysis/node_analysis.py', "    i1 = int(np.count_nonzero(keep[:node_index_mapper(network)[node1]]))", "    i1 = node_index_mapper(network)[node1]"),
  ('m10_admittance_matrix_instead_of_mna', 'Network/NodalAnalysis/node_analysis.py', "    A = nodal_analysis_coefficient_matrix(network, node_mapper=node_index_mapper)\n    keep", "    A = node_admittance_matrix(network, node_index_mapper=node_index_mapper)\n    keep"),
  ('m3_voc_sign', 'Network/NodalAnalysis/bias_point_analysis.py', "    return phi1-phi2", "    return phi2-phi1"),
  ('m4_isc_formula', 'Network/NodalAnalysis/bias_point_analysis.py', "    return V/Z", "    return V*Z"),
  ('m5_sweep_ignores_frequency', 'Circuit/impedance.py', "ntw_imp.open_circuit_impedance(transform_circuit(circuit, w0), node1, node2) for w0 in w", "ntw_imp.open_circuit_impedance(transform_circuit(circuit, 0), node1, node2) for w0 in w"),
  ('m6_remove_wrong_element', 'Network/transformers.py', "    branches.remove(network[element])", "    branches.pop(0)"),
  ('m7_early_return_dropped', 'Network/NodalAnalysis/node_analysis.py', "    if any([is_ideal_voltage_source(b.element) for b in network.branches_between(node1, node2)]):\n        return 0\n", ""),
  ('m8_dc_resistance_imag', 'Circuit/impedance.py', "return element_impedance(circuit, element_id, w=np.array([0]))[0].real", "return element_impedance(circuit, element_id, w=np.array([0]))[0].imag"),
 ],
 'C09': [
  ('m1_last_harmonic_dropped', 'Circuit/circuit.py', "np.arange(n_max+1)", "np.arange(n_max)"),
  ('m2_dc_harmonic_dropped', 'Circuit/circuit.py', "np.arange(n_max+1)", "np.arange(1, n_max+1)"),
  ('m3_phase_sign', 'Circuit/solution.py', "return np.vectorize(lambda t: np.array(np.sum([np.abs(V)*np.cos(w*t+np.angle(V)) for V, w in zip(voltages, self.w)])))", "return np.vectorize(lambda t: np.array(np.sum([np.abs(V)*np.cos(w*t-np.angle(V)) for V, w in zip(voltages, self.w)])))"),
  ('m4_harmonic_floor', 'Circuit/transformers.py', "    n = np.round(w/w0)\n    delta_n = np.abs(w/w0 - n)\n    if delta_n > w_resolution/w0:\n        return ntw.Branch(\n            source.nodes[0],\n            source.nodes[1],\n            elm.short_circuit(source.id))", "    n = np.floor(w/w0) + 1\n    delta_n = np.abs(w/w0 - n)\n    if delta_n > w_resolution/w0:\n        return ntw.Branch(\n            source.nodes[0],\n            source.nodes[1],\n            elm.short_circuit(source.id))"),
  ('m5_rms_lines', 'Circuit/solution.py', "w=w, peak_values=True) for w in self.w])", "w=w, peak_values=False) for w in self.w])"),
  ('m6_current_uses_voltage', 'Circuit/solution.py', "        currents = [solution.get_current(component_id) for solution in self._solutions]\n        return np.vectorize", "        currents = [solution.get_voltage(component_id) for solution in self._solutions]\n        return np.vectorize"),
  ('m7_gate_off_by_factor', 'Circuit/transformers.py', "    if np.abs(w-cs_w) > w_resolution:\n        element = elm.open_circuit(current_source.id)\n    return ntw.Branch(\n        current_source.nodes[0],\n        current_source.nodes[1],\n        element\n    )\n\ndef ac_current_source", "    if np.abs(w-cs_w) > 1000*w_resolution:\n        element = elm.open_circuit(current_source.id)\n    return ntw.Branch(\n        current_source.nodes[0],\n        current_source.nodes[1],\n        element\n    )\n\ndef ac_current_source"),
  ('m8_unsorted', 'Circuit/circuit.py', "    for w in sorted([w for c in circuit.components for w in frequencies(c)]):", "    for w in [w for c in circuit.components for w in frequencies(c)]:"),
  ('m11_harmonic_index_truncated', 'Circuit/transformers.py', "    n = np.round(w/w0)\n    delta_n = np.abs(w/w0 - n)\n    if delta_n > w_resolution/w0:\n        return ntw.Branch(\n            source.nodes[0],\n            source.nodes[1],\n            elm.short_circuit(source.id))", "    n = int(w/w0)\n    delta_n = np.abs(w/w0 - n)\n    if delta_n > w_resolution/w0:\n        return ntw.Branch(\n            source.nodes[0],\n            source.nodes[1],\n            elm.short_circuit(source.id))"),
  ('m9_merge_only_equal', 'Circuit/circuit.py', "w - distinct_frequencies[-1] > w_resolution:", "w - distinct_frequencies[-1] > 0:"),
  ('m10_dc_line_halved', 'Circuit/solution.py', "values[:len(self.w)-len(self.w[ac])], values[ac]/2))", "values[:len(self.w)-len(self.w[ac])]/2, values[ac]/2))"),
 ]}
prop = sys.argv[1]
only = sys.argv[2:] 
for name, rel, old, new in MUTS[prop]:
    if only and name not in only: continue
    subprocess.run(['rsync','-a','--delete','/repo/',MUT_REPO + '/'],check=True)
    p = f'{MUT_REPO}/src/CircuitCalculator/{rel}'
    s = open(p).read()
    if s.count(old) != 1:
        print(name, 'PATTERN COUNT', s.count(old)); continue
    open(p,'w').write(s.replace(old,new))
    env = dict(os.environ, CC_REPO=MUT_REPO)
    r = subprocess.run([ROOT + '/bin/check','--property',prop,'--tier','quick'],env=env,capture_output=True,text=True)
    lines = [l for l in r.stdout.splitlines() if l.startswith('VIOLATION') or 'evaluations=' in l]
    print(name, 'rc=',r.returncode, *lines, sep='\n   ')
    m = re.search(r'replay=(\S+)', r.stdout)
    if m and r.returncode == 1:
        r2 = subprocess.run([ROOT + '/bin/check','--replay',m.group(1)],env=env,capture_output=True,text=True)
        print('   REPLAY rc=',r2.returncode, [l for l in r2.stdout.splitlines() if 'replay' in l][:2])
        import json
        rp=json.load(open(m.group(1)))
        print('   what:', str(rp.get('what'))[:300]); print('   canon:', rp.get('canon'))
subprocess.run(['rsync','-a','--delete','/repo/',MUT_REPO + '/'],check=True)
