/-
  ccdriver — line protocol: one JSON request per line {"op": ..., ...}, one JSON reply
  per line.  Unknown ops and malformed requests answer {"driver_error": "..."}; they are
  never defaulted.
-/
import CC.Driver.D01
import CC.Driver.DSpec
import CC.Driver.DTrans
import CC.Driver.DFmt
import CC.Driver.DFourier
import CC.Driver.DCircuit
import CC.Driver.DLoad
import CC.Driver.DDraw
import CC.Driver.DState
import CC.Driver.DPort
open Lean CC

def allHandlers : List (String × Handler) :=
  handlers01 ++ handlersSpec ++ handlersSpec2 ++ handlersTrans ++ handlersFmt ++ handlersFourier ++ handlersCircuit
  ++ handlersLoad ++ handlersDraw ++ handlersState ++ handlersPort

def handleLine (line : String) : String :=
  match Json.parse line with
  | .error e => (Json.mkObj [("driver_error", s!"parse: {e}")]).compress
  | .ok j =>
    match j.getObjVal? "op" >>= Json.getStr? with
    | .error e => (Json.mkObj [("driver_error", s!"no op: {e}")]).compress
    | .ok op =>
      match allHandlers.lookup op with
      | none => (Json.mkObj [("driver_error", s!"unknown op {op}")]).compress
      | some h =>
        match h j with
        | .ok r => r.compress
        | .error e => (Json.mkObj [("driver_error", e)]).compress

partial def loop (hin hout : IO.FS.Stream) : IO Unit := do
  let line ← hin.getLine
  if line.isEmpty then return ()
  let t := line.trimAscii.toString
  if t.isEmpty then loop hin hout else
  hout.putStrLn (handleLine t)
  hout.flush
  loop hin hout

def main : IO Unit := do
  loop (← IO.getStdin) (← IO.getStdout)
