/-
  CC.Model.StateWrapBase — the idioms that the generated file CC/Gen/StateWrap.lean
  (harness/extract_statewrap.py, from Circuit/state_space_model.py::state_space_model) is written in.
  Mathlib-free.

  * `Py.compValue c k`  — `c.value[k]`: the raw entry of the component's value dictionary
                          (`KeyError` when the key is missing).
  * `Py.toFloat v`      — `float(v)`.  On the exact numbers of the model `float` is the IDENTITY
                          (`.num q ↦ q`); it is kept as an explicit node so that a source that drops the
                          cast yields a different generated term (`Py.noCast`).  `float('abc')` is a
                          `ValueError`, `float(1j)` a `TypeError`; `float('inf')` is outside the model
                          (same convention as `Component.float`, CC/Model/Circuit.lean).
  * `Py.noCast v`       — the value used WITHOUT a cast: what reaches numpy is the object itself.  For
                          a number the exact value is the same as with the cast (the difference is the
                          dtype — an `int` stays an integer array entry, which only the run-time streams
                          see); anything else is no `ValueError`/`TypeError` at this place but an
                          error later inside numpy, reported here as `.other`.
  * `Py.promote q`      — a Python float entering numpy arithmetic with the complex network entries:
                          `(q, 0)`.
-/
import CC.Num
import CC.Model.CircuitBase
namespace CC.Py

/-- `c.value[k]` -/
def compValue (c : Component) (k : String) : Except Err Val :=
  match c.value.lookup k with
  | some v => .ok v
  | none => .error .keyError

/-- `float(v)`: the identity on exact numbers -/
def toFloat : Val → Except Err Rat
  | .num q => .ok q
  | .str _ => .error .valueError
  | .cplx _ _ => .error .typeError
  | .inf => .error (.other "non-finite value outside the model")

/-- a dictionary value used without `float(...)` -/
def noCast : Val → Except Err Rat
  | .num q => .ok q
  | _ => .error (.other "uncast non-number handed to numpy")

/-- a real number among complex array entries -/
def promote (q : Rat) : GQ := GQ.ofRat q

end CC.Py
