/-
  CC.Model.PyLib — the Python constructs that occur in SimpleCircuit/DiagramParser.py, as Lean
  combinators.  The translator (harness/extract_draw.py, generator `DrawParser.lean`) turns every
  statement of the parser into a term over these combinators; CC/Properties/C13Gen.lean proves
  that the generated functions *equal* the hand-written model of CC/Model/Draw.lean.

  Conventions (the same as in the hand model): a Python `set` is a duplicate-free list; the
  iteration order of the two sets the results depend on (`all_nodes`, `unique_nodes`) is the
  parameter `ord`; other sets are iterated in list order (the loops over them are
  order-independent); `while` loops carry fuel that provably suffices (`eqp_closed`,
  `nextFree_fresh`); `set.remove` is applied to present elements only.  Mathlib-free.
-/
import CC.Model.Draw
namespace CC.Draw.Py

section
variable {α β σ : Type} [DecidableEq α]

/-- `{f(x) for x in xs}` applied to the list of the `f(x)` -/
def setOf (l : List α) : List α := toSet l
/-- `s.union({f(x) for x in xs})` -/
def unionList (s l : List α) : List α := l.foldl (fun acc a => sadd a acc) s
/-- `a.union(b)` -/
def union (a b : List α) : List α := unionList a b
/-- `a.intersection(b)` -/
def inter (a b : List α) : List α := a.filter (· ∈ b)
/-- `s.add(x)` -/
def add (x : α) (s : List α) : List α := sadd x s
/-- `s.remove(x)` (of a present element) -/
def remove (x : α) (s : List α) : List α := s.filter (· ≠ x)
/-- `s.pop()` of a non-empty set (first element in list order) -/
def popD [Inhabited α] (s : List α) : α := s.headD default

/-- `for x in xs: body` threading the variables the body assigns -/
def forIn (xs : List β) (init : σ) (body : σ → β → σ) : σ := xs.foldl body init

/-- `while cond: body` with fuel -/
def whileFuel : Nat → (σ → Bool) → (σ → σ) → σ → σ
  | 0, _, _, s => s
  | n + 1, c, b, s => if c s then whileFuel n c b (b s) else s

end

/-- `d[k]` -/
def getItem {κ ν : Type} [DecidableEq κ] (d : List (κ × ν)) (k : κ) : Except Err ν :=
  match d.lookup k with
  | some v => pure v
  | none => throw Err.keyError

/-- `l[0]` -/
def index0 {α : Type} (l : List α) : Except Err α :=
  match l with
  | a :: _ => pure a
  | [] => throw Err.keyError

/-- `elm.get_nodes(e)[0]` / `[1]` for a symbol that carries both anchors -/
def node0 (e : Sym) : Pt := e.n1
def node1 (e : Sym) : Pt := e.n2
/-- `elm.round_node(e.absanchors['start' | 'end'])` -/
def roundedStart (e : Sym) : Pt := roundPt e.start
def roundedEnd (e : Sym) : Pt := roundPt e.stop

/-- `{key(e): val(e) for e in xs}` where evaluating the key may raise -/
def dictCompM {ε κ ν : Type} [DecidableEq κ] (xs : List ε) (key : ε → Except Err κ) (val : ε → ν) :
    Except Err (List (κ × ν)) :=
  xs.foldlM (fun d e => do let k ← key e; pure (dictSet k (val e) d)) []

end CC.Draw.Py
