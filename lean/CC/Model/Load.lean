/-
  CC.Model.Load — hand-written model of
    src/CircuitCalculator/Network/loaders.py   (to_complex, translate_to_complex, the lambdas of
                                                network_branch_translators, load_network)
    src/CircuitCalculator/Circuit/dump_load.py (generate_component, undictify_circuit)
    src/CircuitCalculator/dump_load.py         (dictify/undictify(_all)_complex_values,
                                                serialize, deserialize, dump, load)
  Mathlib-free.  The tables, the factory signatures and the read/pop/copy structure are
  *imported* from CC/Gen/LoadTables.lean (regenerated from the Python AST on every run).

  Conventions
  * A function that can write into its argument returns the argument's post-state next to
    its result: `toComplex : … → Except Err GQ × J`, `loadNetwork : … → Except Err … × J`.
    Purity is then a statement (`(loadNetwork T d).2 = d`), not an assumption.
  * The conversions of dump_load.py build new containers (since fix 2481879); they are plain
    functions `J → Except Err J`.  That they do not touch their argument is not a statement of
    this file but of the generated effect summary (CC/Gen/Effects.lean, C20) and of the
    snapshot oracle of the harness.
  * `cos`, `sin`, the float product `x·(π/180)` and `np.deg2rad` are parameters (`Trig`);
    the harness passes numpy's values.  The (de)serialisers are parameters of
    `serialize`/`deserialize`.
  * Keys of a Python dictionary may be any hashable scalar (YAML mappings: 1, 1.5, true, null).  The
    harness encodes a non-string key injectively into a string with a control-character tag
    (`"\u0001n:<p/q>"` for numbers and booleans — equal keys get equal encodings — and `"\u0001none"`);
    this is faithful because the code looks keys up by string literals and compares key *sets* with sets
    of strings only.  `keyClass` recovers the type class of a key, which matters to `sorted(keys)` only.
  * Domain of the correspondence: keys as above; a `phase` is a JSON number (a `bool`,
    `complex` or list there goes through numpy broadcasting rules that are not modelled —
    the model answers `FileFormatError`/`TypeError`, the harness never generates it).
-/
import CC.Model.LoadBase
import CC.Gen.LoadTables
namespace CC.Load
open CC.Gen.Load

/-! ### Python `dict` operations on `Obj` -/

/-- `d[k]` / `d.get(k)` -/
def Obj.find : Obj → String → Option J
  | [], _ => none
  | (k, v) :: r, key => if k = key then some v else Obj.find r key

/-- `del d[k]` (what `pop` leaves behind) -/
def Obj.del : Obj → String → Obj
  | [], _ => []
  | (k, v) :: r, key => if k = key then Obj.del r key else (k, v) :: Obj.del r key

/-- `d[k] = v`: an existing key keeps its position, a new key goes to the end -/
def Obj.put : Obj → String → J → Obj
  | [], key, v => [(key, v)]
  | (k, x) :: r, key, v => if k = key then (key, v) :: r else (k, x) :: Obj.put r key v

def Obj.has (o : Obj) (k : String) : Bool := (Obj.find o k).isSome

/-- `d[k]` or `d.pop(k)`: the value and what is left of the dictionary -/
def Obj.read (o : Obj) (k : String) (how : KeyRead) : Option (J × Obj) :=
  match Obj.find o k with
  | none => none
  | some v => some (v, match how with | .pop => Obj.del o k | .get => o)

/-- `sorted(list(value.keys())) == sorted([a, b])` for a dictionary (keys are unique) -/
def Obj.keysAre (o : Obj) (a b : String) : Bool :=
  o.length == 2 && Obj.has o a && Obj.has o b

/-! ### numbers -/

/-- library functions that are parameters of the model -/
structure Trig where
  cos : Rat → Rat
  sin : Rat → Rat
  /-- `x ↦ x * (np.pi/180)` as binary64 computes it -/
  rad : Rat → Rat
  /-- `np.deg2rad` -/
  deg2rad : Rat → Rat

/-- what Python accepts as one argument of `complex(a, b)` / as a factor of a complex number -/
def J.asCx : J → Option GQ
  | .num q => some ⟨q, 0⟩
  | .bool b => some (if b then 1 else 0)
  | .cx z => some z
  | _ => none

/-- `complex(a, b)` (`TypeError` ↦ `none`) -/
def pyComplex (a b : J) : Option GQ :=
  match a.asCx, b.asCx with
  | some x, some y => some (x + GQ.j * y)
  | _, _ => none

/-- `complex(z['real'], z['imag'])`; `none` = `KeyError`/`TypeError` -/
def cartesian? (o : Obj) : Option GQ :=
  match Obj.find o "real", Obj.find o "imag" with
  | some r, some i => pyComplex r i
  | _, _ => none

/-- `z['abs']*complex(np.cos(z['phase']), np.sin(z['phase']))`; `none` = `KeyError`/`TypeError` -/
def polar? (T : Trig) (o : Obj) : Option GQ :=
  match Obj.find o "abs", Obj.find o "phase" with
  | some a, some (.num p) =>
    match a.asCx with
    | some a => some (a * ⟨T.cos p, T.sin p⟩)
    | none => none
  | _, _ => none

/-- `to_complex(z, degree)` (loaders.py:9-19) with the post-state of `z` -/
def toComplex (T : Trig) (z : J) (deg : Bool) : Except Err GQ × J :=
  match z with
  | .obj o =>
    match cartesian? o with
    | some c => (.ok c, z)
    | none =>
      if deg then
        match Obj.find o "phase" with
        | some (.num p) =>
          let o' := Obj.put o "phase" (.num (T.rad p))       -- z['phase'] *= np.pi/180
          (match polar? T o' with | some c => .ok c | none => .error .fileFormat,
           if degreeInPlace then .obj o' else z)
        | _ => (.error .fileFormat, z)                        -- KeyError / TypeError before any write
      else
        (match polar? T o with | some c => .ok c | none => .error .fileFormat, z)
  | _ => (.error .fileFormat, z)

/-! ### Network/loaders.py -/

/-- a loaded branch: `Branch(n1, n2, NortenElement|TheveninElement(name, type, a, b))`.
The loader stores whatever the description contains (no validation), hence `J` fields. -/
structure LBranch where
  n1 : J
  n2 : J
  name : J
  ty : String
  norton : Bool
  a : J
  b : J
deriving DecidableEq, Repr

/-- the name of a Python exception class as an `Err` -/
def errOfName (s : String) : Err :=
  if s = "KeyError" then .keyError else if s = "FileExistsError" then .fileExists
  else if s = "TypeError" then .typeError else if s = "ValueError" then .valueError
  else if s = "FileFormatError" then .fileFormat else if s = "AttributeError" then .attributeError
  else .other s

def dupKeys : Obj → Bool
  | [] => false
  | (k, _) :: r => Obj.has r k || dupKeys r

/-- one value per parameter: the keyword, else the default, else `TypeError` (missing argument) -/
def bindParams : List (String × Option Int) → Obj → Except Err Obj
  | [], _ => .ok []
  | (p, d) :: r, kw =>
    match bindParams r kw with
    | .error e => .error e
    | .ok rest =>
      match Obj.find kw p, d with
      | some v, _ => .ok ((p, v) :: rest)
      | none, some n => .ok ((p, J.num n) :: rest)
      | none, none => .error .typeError

/-- Python's binding of keyword arguments to a signature (every failure is a `TypeError`) -/
def bindArgs (params : List (String × Option Int)) (kw : Obj) : Except Err Obj :=
  if dupKeys kw then .error .typeError                                   -- multiple values for a keyword
  else if kw.any (fun p => !(params.any (fun q => q.1 == p.1))) then .error .typeError   -- unexpected keyword
  else bindParams params kw

def Src.eval (bound : Obj) : Src → J
  | .param p => (Obj.find bound p).getD .null
  | .const n => .num n

/-- `elm.<factory>(**kw)` -/
def callElemFactory (f : ElemFactory) (n1 n2 : J) (kw : Obj) : Except Err LBranch :=
  match bindArgs f.params kw with
  | .error e => .error e
  | .ok bound =>
    .ok { n1 := n1, n2 := n2, name := (Obj.find bound "name").getD .null, ty := f.ty, norton := f.norton,
          a := f.a.eval bound, b := f.b.eval bound }

/-- the explicit keywords `P=to_complex(kwargs.pop('K'))` / `P=to_complex(kwargs['K'])`, left to right -/
def evalCxArgs (T : Trig) : List (String × String × KeyRead) → Obj → Except Err (Obj × Obj)
  | [], kw => .ok ([], kw)
  | (p, k, how) :: r, kw =>
    match Obj.read kw k how with
    | none => .error .keyError
    | some (v, kw') =>
      match (toComplex T v false).1 with
      | .error e => .error e
      | .ok c =>
        match evalCxArgs T r kw' with
        | .error e => .error e
        | .ok (ex, kw'') => .ok ((p, J.cx c) :: ex, kw'')

/-- `translate_to_complex(keys, **kwargs)` (loaders.py:21-24) -/
def translateToComplex (T : Trig) : List String → Obj → Except Err Obj
  | [], kw => .ok kw
  | k :: r, kw =>
    match Obj.find kw k with
    | none => .error .keyError
    | some v =>
      match (toComplex T v false).1 with
      | .error e => .error e
      | .ok c => translateToComplex T r (Obj.put kw k (.cx c))

/-- one entry of `network_branch_translators` applied to `**entry` -/
def applyLoader (T : Trig) (L : NetLoader) (n1 n2 : J) (entry : Obj) : Except Err LBranch :=
  match elementFactories.find? (fun f => f.name == L.factory) with
  | none => .error (.other "unknown factory")
  | some f =>
    match evalCxArgs T L.cxArgs entry with
    | .error e => .error e
    | .ok (explicit, kw) =>
      match translateToComplex T L.translateKeys kw with
      | .error e => .error e
      | .ok kw' => callElemFactory f n1 n2 (explicit ++ kw')

def entryRead (what : String) : String × KeyRead :=
  match entryReads.find? (fun r => r.1 == what) with
  | some (_, k, h) => (k, h)
  | none => (what, .get)

/-- `entry_to_branch(entry)` (loaders.py:42-48) on a dictionary, with the dictionary's post-state -/
def entryToBranchObj (T : Trig) (o : Obj) : Except Err LBranch × Obj :=
  match Obj.read o (entryRead "n1").1 (entryRead "n1").2 with
  | none => (.error .keyError, o)
  | some (n1, o1) =>
    match Obj.read o1 (entryRead "n2").1 (entryRead "n2").2 with
    | none => (.error .keyError, o1)
    | some (n2, o2) =>
      match Obj.read o2 (entryRead "name").1 (entryRead "name").2 with
      | none => (.error .keyError, o2)
      | some (id, o3) =>
        let o4 := Obj.put o3 "name" id
        match Obj.read o4 (entryRead "type").1 (entryRead "type").2 with
        | none => (.error .keyError, o4)
        | some (ty, o5) =>
          match ty with
          | .str kind =>
            match networkBranchTranslators.find? (fun L => L.kind == kind) with
            | none => (.error .keyError, o5)
            | some L => (applyLoader T L n1 n2 o5, o5)
          | .arr _ => (.error .typeError, o5)       -- unhashable key
          | .obj _ => (.error .typeError, o5)
          | _ => (.error .keyError, o5)

/-- `dict(x)` for a value that need not be a dictionary (a list that starts with a 2-element
sequence — a genuine key/value pair — is outside the domain of the correspondence and answers
`TypeError`) -/
def pyDict : J → Except Err Obj
  | .obj o => .ok o
  | .arr [] => .ok []
  -- the first element must be a sequence of length 2 (a key/value pair)
  | .arr (.arr l :: _) => if l.length = 2 then .error .typeError else .error .valueError
  | .arr (.obj o :: _) => if o.length = 2 then .error .typeError else .error .valueError
  | .arr (.str s :: _) => if s.length = 2 then .error .typeError else .error .valueError
  | .arr _ => .error .typeError                   -- cannot convert dictionary update sequence element
  | .str s => if s.isEmpty then .ok [] else .error .valueError
  | _ => .error .typeError                        -- not iterable

/-- `entry_to_branch(entry)` for any value, with the post-state of the caller's object.
With `entry = dict(entry)` as first statement (`entryCopied`) the caller's object is never
touched; without it the pops act on the caller's dictionary. -/
def entryToBranch (T : Trig) (e : J) : Except Err LBranch × J :=
  if entryCopied then
    match pyDict e with
    | .error x => (.error x, e)
    | .ok o => ((entryToBranchObj T o).1, e)
  else
    match e with
    | .obj o => let r := entryToBranchObj T o; (r.1, .obj r.2)
    | .arr _ => (.error .typeError, e)              -- list.pop('N1')
    | _ => (.error .attributeError, e)              -- no attribute 'pop'

/-- the list comprehension of `load_network`: stops at the first exception; entries before
it are fully processed, the failing one partially, later ones not at all -/
def loadEntries (T : Trig) : List J → Except Err (List LBranch) × List J
  | [] => (.ok [], [])
  | e :: r =>
    match entryToBranch T e with
    | (.error x, e') => (.error x, e' :: r)
    | (.ok b, e') =>
      match loadEntries T r with
      | (.error x, r') => (.error x, e' :: r')
      | (.ok bs, r') => (.ok (b :: bs), e' :: r')

/-- `Network.__post_init__` for the default reference label `'0'` -/
def checkLoaded (bs : List LBranch) : Except Err (List LBranch) :=
  if !bs.isEmpty && !(bs.any fun b => b.n1 == J.str "0" || b.n2 == J.str "0") then .error .floatingGround
  else if (dedupL (bs.map (·.name))).length ≠ bs.length then .error .ambiguousIds
  else .ok bs

/-- `except KeyError: raise FileExistsError` -/
def mapLoadErr (e : Err) : Err := if e = errOfName loadCaught then errOfName loadRaised else e

/-- the body of `load_network` on the sequence of entries the comprehension iterates over -/
def loadSeq (T : Trig) (es : List J) : Except Err (List LBranch) × List J :=
  match loadEntries T es with
  | (.error x, es') => (.error (mapLoadErr x), es')
  | (.ok bs, es') => (match checkLoaded bs with | .error x => .error (mapLoadErr x) | .ok bs => .ok bs, es')

/-- `load_network(network_dict)` (loaders.py:40-52) with the post-state of `network_dict`.
Iterating a dictionary yields its keys, iterating a string its characters (strings are
immutable: the post-state is the argument). -/
def loadNetwork (T : Trig) (d : J) : Except Err (List LBranch) × J :=
  match d with
  | .arr es => let r := loadSeq T es; (r.1, .arr r.2)
  | .obj kv => ((loadSeq T (kv.map fun p => J.str p.1)).1, d)
  | .str s => ((loadSeq T (s.toList.map fun c => J.str (String.singleton c))).1, d)
  | _ => (.error .typeError, d)                    -- not iterable

/-! ### Circuit/dump_load.py -/

structure Comp where
  ty : String
  id : J
  nodes : J
  value : Obj
deriving DecidableEq, Repr

structure Circ where
  components : List Comp
  ground : J
deriving DecidableEq, Repr

def compRead (var : String) : CompRead :=
  match componentReads.find? (fun r => r.var == var) with
  | some r => r
  | none => { var := var, key := var, read := .get, exc := "KeyError" }

/-- `P < bound` in a constructor guard: `some true` raises `ValueError`, `none` is a `TypeError` -/
def guardLt (v : J) (bound : Int) : Option Bool :=
  match v with
  | .num q => some (decide (q < (bound : Rat)))
  | .bool b => some (decide ((if b then (1 : Rat) else 0) < (bound : Rat)))
  | _ => none

def runGuards (bound : Obj) : List (String × Int) → Except Err Unit
  | [] => .ok ()
  | (p, b) :: r =>
    match guardLt ((Obj.find bound p).getD .null) b with
    | none => .error .typeError
    | some true => .error .valueError
    | some false => runGuards bound r

/-- `P`, `P.real`, `P.imag` or a literal; `none` = `AttributeError` -/
def VSrc.eval (bound : Obj) : VSrc → Option J
  | .param p => some ((Obj.find bound p).getD .null)
  | .const n => some (.num n)
  | .re p => match (Obj.find bound p).getD .null with
    | .num q => some (.num q)
    | .bool b => some (.num (if b then 1 else 0))
    | .cx z => some (.num z.re)
    | _ => none
  | .im p => match (Obj.find bound p).getD .null with
    | .num _ => some (.num 0)
    | .bool _ => some (.num 0)
    | .cx z => some (.num z.im)
    | _ => none

def buildValue (bound : Obj) : List (String × VSrc) → Except Err Obj
  | [] => .ok []
  | (k, s) :: r =>
    match s.eval bound with
    | none => .error .attributeError
    | some v =>
      match buildValue bound r with
      | .error e => .error e
      | .ok o => .ok ((k, v) :: o)

/-- `ccp.<constructor>(id=…, nodes=…, **value)`; a `TypeError` is reported as such here and
translated by the caller -/
def callCompFactory (f : CompFactory) (id nodes : J) (value : J) : Except Err Comp :=
  match value with
  | .obj vo =>
    if Obj.has vo "id" || Obj.has vo "nodes" then .error .typeError
    else
      match bindArgs f.params vo with
      | .error e => .error e
      | .ok bound =>
        match runGuards bound f.guards with
        | .error e => .error e
        | .ok () =>
          match buildValue bound f.value with
          | .error e => .error e
          | .ok v => .ok { ty := f.kind, id := id, nodes := nodes, value := v }
  | _ => .error .typeError                          -- argument after ** must be a mapping

/-- `generate_component` on a dictionary: result and what is left of the working dictionary -/
def generateComponentObj (o : Obj) : Except Err Comp × Obj :=
  let rid := compRead "component_id"
  let rval := compRead "component_value"
  let rty := compRead "component_type"
  let rnodes := compRead "component_nodes"
  match Obj.read o rid.key rid.read with
  | none => (.error (.other rid.exc), o)
  | some (id, o1) =>
    match Obj.read o1 rval.key rval.read with
    | none => (.error (.other rval.exc), o1)
    | some (value, o2) =>
      match Obj.read o2 rty.key rty.read with
      | none => (.error (.other rty.exc), o2)
      | some (ty, o3) =>
        match Obj.read o3 rnodes.key rnodes.read with
        | none => (.error (.other rnodes.exc), o3)
        | some (nodes, o4) =>
          match ty with
          | .arr _ => (.error .typeError, o4)
          | .obj _ => (.error .typeError, o4)
          | .str kind =>
            match circuitComponentTranslators.find? (fun p => p.1 == kind) with
            | none => (.error (.other componentLookupExc), o4)
            | some (_, fname) =>
              match componentFactories.find? (fun f => f.name == fname) with
              | none => (.error (.other "unknown constructor"), o4)
              | some f =>
                match callCompFactory f id nodes value with
                | .error .typeError => (.error (.other componentCallExc), o4)
                | r => (r, o4)
          | _ => (.error (.other componentLookupExc), o4)

/-- `generate_component(component)` (Circuit/dump_load.py:30-55) with the post-state of the
caller's object -/
def generateComponent (c : J) : Except Err Comp × J :=
  match c with
  | .obj o =>
    let r := generateComponentObj o
    (r.1, if componentCopied then c else .obj r.2)
  | .arr _ => (.error .typeError, c)               -- list.copy() works, list['id'] does not
  | _ => (.error (if componentCopied then .attributeError else .typeError), c)   -- no `.copy` / not subscriptable

def genComponents : List J → Except Err (List Comp) × List J
  | [] => (.ok [], [])
  | e :: r =>
    match generateComponent e with
    | (.error x, e') => (.error x, e' :: r)
    | (.ok c, e') =>
      match genComponents r with
      | (.error x, r') => (.error x, e' :: r')
      | (.ok cs, r') => (.ok (c :: cs), e' :: r')

/-- `component.nodes[0]` -/
def firstNode : J → Except Err J
  | .arr (a :: _) => .ok a
  | .arr [] => .error .keyError                      -- IndexError
  | .str s => match s.toList with
    | c :: _ => .ok (.str (String.singleton c))
    | [] => .error .keyError
  | _ => .error .typeError

/-- `Circuit.__post_init__` (Circuit/circuit.py:15-27) -/
def mkCircuit (cs : List Comp) : Except Err Circ :=
  match cs with
  | [] => .ok { components := [], ground := .str "" }
  | c0 :: _ =>
    match (cs.filter (fun c => c.ty == "ground")).mapM (fun c => firstNode c.nodes) with
    | .error e => .error e
    | .ok gs =>
      if gs.length > 1 then .error .multipleGrounds
      else
        match (match gs with | g :: _ => Except.ok g | [] => firstNode c0.nodes) with
        | .error e => .error e
        | .ok g =>
          if (dedupL (cs.map (·.id))).length ≠ cs.length then .error .ambiguousIds
          else .ok { components := cs, ground := g }

/-- `undictify_circuit(circuit)` (Circuit/dump_load.py:57-58) with the post-state of `circuit` -/
def undictifyCircuit (c : J) : Except Err Circ × J :=
  match c with
  | .obj o =>
    match Obj.find o "components" with
    | none => (.error .keyError, c)
    | some (.arr l) =>
      match genComponents l with
      | (.error x, l') => (.error x, .obj (Obj.put o "components" (.arr l')))
      | (.ok cs, l') => (mkCircuit cs, .obj (Obj.put o "components" (.arr l')))
    | some (.obj []) => (mkCircuit [], c)
    | some (.obj _) => (.error .attributeError, c)
    | some (.str s) => if s.isEmpty then (mkCircuit [], c) else (.error .attributeError, c)
    | some _ => (.error .typeError, c)
  | _ => (.error .typeError, c)

/-! ### dump_load.py -/

/-- real factor of a polar value after the check `value['abs'] < 0`:
`Except.error` carries `ValueError` / `TypeError` -/
def absFactor : J → Except Err GQ
  | .num q => if q < 0 then .error .valueError else .ok ⟨q, 0⟩
  | .bool b => .ok (if b then 1 else 0)
  | _ => .error .typeError

/-- type class of a dictionary key under the harness' encoding: 0 string, 1 number / boolean, 2 `None` -/
def keyClass (k : String) : Nat :=
  if k.startsWith "\u0001n:" then 1 else if k = "\u0001none" then 2 else 0

/-- keys of different type classes: `sorted(list(value.keys()))` raises `TypeError` -/
def mixedKeys : Obj → Bool
  | [] => false
  | (k, _) :: r => r.any (fun p => keyClass p.1 != keyClass k)

/-- `_complex_from_notation(value)` (dump_load.py:21-34) for a dictionary `value`; for any
other tree `none` (the callers test `isinstance(value, dict)` first).  The notation is recognised
by the key set; when the generated `notationBySortedKeys` says the code sorts the keys instead, a
mapping with keys of different types raises `TypeError` before anything is compared. -/
def undictifyValue (T : Trig) (v : J) : Except Err (Option J) :=
  match v with
  | .obj vo =>
    if notationBySortedKeys && mixedKeys vo then .error .typeError
    else if Obj.keysAre vo "real" "imag" then
      match pyComplex ((Obj.find vo "real").getD .null) ((Obj.find vo "imag").getD .null) with
      | some c => .ok (some (.cx c))
      | none => .error .typeError
    else if Obj.keysAre vo "abs" "phase" then
      match absFactor ((Obj.find vo "abs").getD .null) with
      | .error e => .error e
      | .ok a =>
        match (Obj.find vo "phase").getD .null with
        | .num p => .ok (some (.cx (a * ⟨T.cos p, T.sin p⟩)))
        | _ => .error .typeError
    else if Obj.keysAre vo "abs" "phase_deg" then
      match absFactor ((Obj.find vo "abs").getD .null) with
      | .error e => .error e
      | .ok a =>
        match (Obj.find vo "phase_deg").getD .null with
        | .num p => .ok (some (.cx (a * ⟨T.cos (T.deg2rad p), T.sin (T.deg2rad p)⟩)))
        | _ => .error .typeError
    else .ok none
  | _ => .ok none

/-- the loop of `dictify_complex_values` on the copy -/
def dictifyCx : Obj → Obj
  | [] => []
  | (k, .cx z) :: r => (k, .obj [("real", .num z.re), ("imag", .num z.im)]) :: dictifyCx r
  | p :: r => p :: dictifyCx r

/-- `dictify_complex_values(data)` (dump_load.py:36-41): a new dictionary -/
def dictifyCxJ (t : J) : Except Err J :=
  match pyDict t with
  | .error e => .error e
  | .ok o => .ok (.obj (dictifyCx o))

/-- the loop of `undictify_complex_values` on the copy; the first exception propagates -/
def undictifyCx (T : Trig) : Obj → Except Err Obj
  | [] => .ok []
  | (k, v) :: r =>
    match undictifyValue T v with
    | .error e => .error e
    | .ok nv =>
      match undictifyCx T r with
      | .error e => .error e
      | .ok r' => .ok ((k, nv.getD v) :: r')

/-- `undictify_complex_values(data)` (dump_load.py:43-50): a new dictionary -/
def undictifyCxJ (T : Trig) (t : J) : Except Err J :=
  match pyDict t with
  | .error e => .error e
  | .ok o =>
    match undictifyCx T o with
    | .error e => .error e
    | .ok o' => .ok (.obj o')

mutual
/-- `dictify_all_complex_values(data)` (dump_load.py:52-59): complex ↦ `{'real','imag'}`,
dictionaries and lists rebuilt recursively, anything else itself; total -/
def dictifyAll : J → J
  | .cx z => .obj [("real", .num z.re), ("imag", .num z.im)]
  | .obj o => .obj (dictifyAllO o)
  | .arr l => .arr (dictifyAllL l)
  | t => t
def dictifyAllO : List (String × J) → List (String × J)
  | [] => []
  | (k, v) :: r => (k, dictifyAll v) :: dictifyAllO r
def dictifyAllL : List J → List J
  | [] => []
  | a :: r => dictifyAll a :: dictifyAllL r
end

mutual
/-- `undictify_all_complex_values(data)` (dump_load.py:61-68): a dictionary has its values
converted first (in order; the first exception propagates) and is then itself replaced by the
number it denotes if it is a notation; lists are rebuilt; anything else is returned as is -/
def undictifyAll (T : Trig) : J → Except Err J
  | .obj o =>
    match undictifyAllO T o with
    | .error e => .error e
    | .ok o' =>
      match undictifyValue T (.obj o') with
      | .error e => .error e
      | .ok (some c) => .ok c
      | .ok none => .ok (.obj o')
  | .arr l =>
    match undictifyAllL T l with
    | .error e => .error e
    | .ok l' => .ok (.arr l')
  | t => .ok t
def undictifyAllO (T : Trig) : List (String × J) → Except Err (List (String × J))
  | [] => .ok []
  | (k, v) :: r =>
    match undictifyAll T v with
    | .error e => .error e
    | .ok v' =>
      match undictifyAllO T r with
      | .error e => .error e
      | .ok r' => .ok ((k, v') :: r')
def undictifyAllL (T : Trig) : List J → Except Err (List J)
  | [] => .ok []
  | a :: r =>
    match undictifyAll T a with
    | .error e => .error e
    | .ok a' =>
      match undictifyAllL T r with
      | .error e => .error e
      | .ok r' => .ok (a' :: r')
end

/-- `Path(file).suffix[1:]` for a plain file name (pathlib of Python 3.12) -/
def pathSuffix (file : String) : String :=
  let name := ((file.splitOn "/").getLast?).getD ""
  let cs := name.toList
  match (cs.reverse.takeWhile (· ≠ '.')) with
  | tail =>
    -- `i = name.rfind('.')`, suffix iff `0 < i < len(name) - 1`
    if tail.length = cs.length then ""               -- no dot
    else if tail.isEmpty then ""                     -- trailing dot
    else if tail.length + 1 = cs.length then ""      -- the only dot is the first character
    else String.ofList tail.reverse

/-- `serialize(data, format)` with the default `dict_processor`; `dumps lib t` is the library
serialiser `lib` (`json.dumps`, `yaml.dump`) applied to the tree `t` -/
def serialize (dumps : String → J → Except Err String) (data : J) (fmt : String) : Except Err String :=
  match serializers.find? (fun p => p.1 == fmt) with
  | none => .error .valueError
  | some (_, lib) => dumps lib (dictifyAll data)

/-- `deserialize(data, format)` with the default `dict_preprocessor` -/
def deserialize (loads : String → String → Except Err J) (T : Trig) (s : String) (fmt : String) :
    Except Err J :=
  match deserializers.find? (fun p => p.1 == fmt) with
  | none => .error .valueError
  | some (_, lib) =>
    match loads lib s with
    | .error e => .error e
    | .ok t => undictifyAll T t

/-- `dump(file, data)`: the text written to `file` -/
def dump (dumps : String → J → Except Err String) (file : String) (data : J) : Except Err String :=
  serialize dumps data (pathSuffix file)

/-- `load(file)` given the file's content -/
def load (loads : String → String → Except Err J) (T : Trig) (file content : String) : Except Err J :=
  deserialize loads T content (pathSuffix file)

/-- `Circuit.dump_load.deserialize = partial(dump_load.deserialize,
dict_preprocessor=lambda data: undictify_circuit(dump_load.undictify_all_complex_values(data)))`:
the complex notations are converted first, then the components are built -/
def deserializeCircuit (loads : String → String → Except Err J) (T : Trig) (s : String) (fmt : String) :
    Except Err Circ :=
  match deserializers.find? (fun p => p.1 == fmt) with
  | none => .error .valueError
  | some (_, lib) =>
    match loads lib s with
    | .error e => .error e
    | .ok t =>
      match undictifyAll T t with
      | .error e => .error e
      | .ok t' => (undictifyCircuit t').1

end CC.Load
