/-
  CC.Model.Circuit — hand-written model of
    Circuit/components.py      constructors (interpreter of the generated `CtorSpec`s)
    Circuit/circuit.py:15-43   Circuit.__post_init__, transform_circuit, transform
    Circuit/transformers.py    translators (interpreter of the generated `TSpec`s)
    Circuit/solution.py:32-80  DCSolution / ComplexSolution wrappers
    Circuit/dump_load.py:30-58 generate_component, undictify_circuit
    Network/elements.py:73-131 factories, `load` (four guards), `complex_value`
    SignalProcessing/periodic_functions.py:249-253  periodic_function (lookup only)
  Mathlib-free.  Reals are `Rat`, complex numbers `GQ`.

  Parameters (external calls become arguments, DESIGN §2.3):
    `trig : Rat → Rat × Rat`   — `(np.cos φ, np.sin φ)`; the harness passes numpy's values
    `harm : Harm`              — `(amplitude(n), phase(n))` of a periodic source (property C08)
    `r2 : Rat`                 — `np.sqrt(2)`
    the solution vector `x`    — `numpy.linalg.solve` (certificate, as in CC.Model.MNA)

  The interpreter is generic in the tables (`Tables`); `Gen.tables` are the ones generated
  from the current sources.  Known simplification: when *several* faults are present in one
  component, the model reports the value-dictionary fault (KeyError/ValueError) before a
  missing terminal (IndexError); Python's order depends on the statement layout.
-/
import CC.Num
import CC.Model.MNA
import CC.Model.CircuitBase
import CC.Gen.CircuitTables
import CC.Gen.Components
import CC.Gen.Transform
namespace CC

/-! ### small numeric helpers over `Rat` -/

def absQ (q : Rat) : Rat := if q < 0 then -q else q

/-- `np.round` on a float: round half to even -/
def roundHalfEven (q : Rat) : Int :=
  let f := q.floor
  let d := q - (f : Rat)
  if d < 1 / 2 then f else if 1 / 2 < d then f + 1 else if f % 2 = 0 then f else f + 1

/-- complex divided by a real (`z / np.sqrt(2)`, `complex(P, Q) / V_ref**2`) -/
def GQ.divR (z : GQ) (r : Rat) : GQ := ⟨z.re / r, z.im / r⟩

/-- real times complex (`X * complex(cos, sin)`, `1/2 * V`) -/
def GQ.smulR (r : Rat) (z : GQ) : GQ := ⟨r * z.re, r * z.im⟩

abbrev Trig := Rat → Rat × Rat
/-- wavetype, amplitude, phase of the periodic source, harmonic index ↦ (amplitude(n), phase(n)) -/
abbrev Harm := String → Rat → Rat → Int → Rat × Rat

/-- `elm.complex_value(X, phi)` for finite `X`: `X * complex(np.cos(phi), np.sin(phi))` -/
def complexValue (trig : Trig) (X phi : Rat) : GQ := ⟨X * (trig phi).1, X * (trig phi).2⟩

def errOfExc (exc : String) : Err :=
  if exc = "ValueError" then .valueError
  else if exc = "TypeError" then .typeError
  else if exc = "AttributeError" then .attributeError
  else if exc = "KeyError" then .keyError
  else .other exc

/-! ### tables -/

structure Tables where
  transformers : List (String × String)
  trans : List TSpec
  ctors : List CtorSpec
  waves : List String
  loaders : List (String × String)      -- circuit_component_translators
  /-- `transform_circuit` skips components whose type is no key of the table (`true`) or hands every
  non-ground component to the table (`false`: an unknown type raises `KeyError`) -/
  dropUnknown : Bool := false

def Gen.tables : Tables :=
  ⟨Gen.transformersTable, Gen.transSpecs, Gen.ctorSpecs, Gen.waveTypes, Gen.componentTranslators, Gen.transformDropsUnknown⟩

def Tables.ctor? (T : Tables) (fn : String) : Option CtorSpec := T.ctors.find? (·.fn = fn)
def Tables.tspec? (T : Tables) (fn : String) : Option TSpec := T.trans.find? (·.fn = fn)

/-! ### components.py : constructors -/

/-- keyword binding of a call `f(id=…, nodes=…, **args)`: unexpected or missing keywords
are Python `TypeError`s -/
def bindParams (params : List (String × PTy × Option Val)) (args : List (String × Val)) :
    Except Err (List (String × Val)) :=
  if args.any (fun a => !(params.any (fun p => p.1 == a.1))) then .error .typeError
  else params.mapM fun p =>
    match args.lookup p.1 with
    | some v => .ok (p.1, v)
    | none => match p.2.2 with
      | some v => .ok (p.1, v)
      | none => .error .typeError

/-- `if p <cmp> bound: raise exc` on the bound arguments -/
def Guard.check (g : Guard) (env : List (String × Val)) : Except Err Unit :=
  match env.lookup g.param with
  | some (.num q) => if g.cmp.holds q g.bound then .error (errOfExc g.exc) else .ok ()
  | some (.str _) => .error .typeError       -- '<' not supported between 'str' and 'int'
  | some (.cplx _ _) => .error .typeError    -- '<' not supported between 'complex' and 'int'
  | some .inf =>                             -- inf compared with a finite bound
    if (match g.cmp with | .gt | .ge | .ne => true | _ => false) then .error (errOfExc g.exc) else .ok ()
  | none => .error (.other "unbound guard parameter")

def VE.eval (env : List (String × Val)) : VE → Except Err Val
  | .param p => match env.lookup p with
    | some v => .ok v
    | none => .error (.other "unbound value parameter")
  | .re p => match env.lookup p with
    | some (.num q) => .ok (.num q)
    | some (.cplx a _) => .ok (.num a)
    | some .inf => .ok .inf
    | some (.str _) => .error .attributeError
    | none => .error (.other "unbound value parameter")
  | .im p => match env.lookup p with
    | some (.num _) => .ok (.num 0)
    | some (.cplx _ b) => .ok (.num b)
    | some .inf => .ok (.num 0)
    | some (.str _) => .error .attributeError
    | none => .error (.other "unbound value parameter")
  | .lit q => .ok (.num q)

/-- `periodic_function(<param>)` inside a constructor: anything that is not the wavetype string
of a known class raises `UnknownWavetype` (a number never equals a wavetype string) -/
def waveCheck (env : List (String × Val)) (pw : String × List String) : Except Err Unit :=
  match env.lookup pw.1 with
  | some (.str s) => if pw.2.contains s then .ok () else .error (.other "UnknownWavetype")
  | some _ => .error (.other "UnknownWavetype")
  | none => .error (.other "unbound wavetype parameter")

/-- one constructor call -/
def CtorSpec.construct (s : CtorSpec) (id : Option String) (nodes : Option (List String))
    (args : List (String × Val)) : Except Err Component := do
  let id ← match id, s.idDefault with
    | some i, _ => pure i
    | none, some i => pure i
    | none, none => throw .typeError
  let nodes ← match nodes, s.nodesDefault with
    | some n, _ => pure n
    | none, some n => pure n
    | none, none => throw .typeError
  let env ← bindParams s.params args
  s.guards.forM (·.check env)
  s.waveChecks.forM (waveCheck env)
  let value ← s.values.mapM fun kv => do pure (kv.1, ← kv.2.eval env)
  pure { kind := s.kind, id := id, nodes := nodes, value := value }

/-! ### elements.py -/

/-- `elm.load(name, P, V_ref, I_ref, Q)` -/
def elmLoad (P Vref Iref Q : Rat) : Except Err (Elem GQ) :=
  if Vref < 0 ∧ Iref < 0 then .error .attributeError
  else if 0 < Vref ∧ 0 < Iref then .error .attributeError
  else if Vref = 0 ∧ Iref < 0 then .error .valueError
  else if Iref ≤ 0 ∧ Vref < 0 then .error .valueError
  else if 0 < Vref then .ok (.thevenin (GQ.divR ⟨P, Q⟩ (Vref * Vref)) 0)
  else if Iref = 0 then .error .zeroDivision
  else .ok (.norton (GQ.divR ⟨P, Q⟩ (Iref * Iref)) 0)

/-! ### transformers.py : translators -/

def Component.get? (c : Component) (k : String) : Option Val := c.value.lookup k

/-- `float(c.value[k])` -/
def Component.float (c : Component) (k : String) : Except Err Rat :=
  match c.get? k with
  | none => .error .keyError
  | some (.num q) => .ok q
  | some (.str _) => .error .valueError     -- could not convert string to float
  | some (.cplx _ _) => .error .typeError
  | some .inf => .error (.other "non-finite value outside the model")   -- see `EE.eval` for the one modelled use

def RE.eval (c : Component) (w wres : Rat) : RE → Except Err Rat
  | .key k => c.float k
  | .w => .ok w
  | .wres => .ok wres
  | .lit q => .ok q
  | .add a b => do pure ((← a.eval c w wres) + (← b.eval c w wres))
  | .sub a b => do pure ((← a.eval c w wres) - (← b.eval c w wres))
  | .mul a b => do pure ((← a.eval c w wres) * (← b.eval c w wres))
  | .div a b => do
    let x ← a.eval c w wres
    let y ← b.eval c w wres
    if y = 0 then throw .zeroDivision else pure (x / y)
  | .neg a => do pure (-(← a.eval c w wres))

def CE.eval (trig : Trig) (c : Component) (w wres : Rat) : CE → Except Err GQ
  | .cart a b => do pure ⟨← a.eval c w wres, ← b.eval c w wres⟩
  | .polar x p => do pure (complexValue trig (← x.eval c w wres) (← p.eval c w wres))
  | .ofReal x => do pure ⟨← x.eval c w wres, 0⟩

/-- element factory call ↦ (`type` string, record) -/
def EE.eval (trig : Trig) (c : Component) (w wres : Rat) : EE → Except Err (String × Elem GQ)
  | .resistor R =>
    -- open switch: `elm.resistor(id, inf)` = `NortenElement(Z=inf, V=0)`.  Its derived values are
    -- `Y = 1/inf = 0`, `I = 0/inf = 0`, `Z = inf`, and every predicate of elements.py answers as for
    -- the record `(Y = 0, I = 0)`: `is_ideal_current_source`, `is_open_circuit` true, all others
    -- false.  The shared `Elem` cannot hold `Z = inf`; the model stores that Thevenin record (the
    -- `type` string stays "resistor").
    if (match R with | .key k => c.get? k == some Val.inf | _ => false) then pure ("resistor", .thevenin 0 0)
    else do pure ("resistor", .norton ⟨← R.eval c w wres, 0⟩ 0)
  | .conductor G => do pure ("conductor", .thevenin ⟨← G.eval c w wres, 0⟩ 0)
  | .impedance Z => do pure ("impedance", .norton (← Z.eval trig c w wres) 0)
  | .admittance Y => do pure ("admittance", .thevenin (← Y.eval trig c w wres) 0)
  | .voltageSource V Z => do
    let v ← V.eval trig c w wres
    let z ← Z.eval trig c w wres
    pure ("voltage_source", .norton z v)
  | .currentSource I Y => do
    let i ← I.eval trig c w wres
    let y ← Y.eval trig c w wres
    pure ("current_source", .thevenin y i)
  | .shortCircuit => pure ("short_circuit", .norton 0 0)
  | .openCircuit => pure ("open_circuit", .thevenin 0 0)
  | .load P V => do
    let p ← P.eval c w wres
    let v ← V.eval c w wres
    pure ("load", ← elmLoad p v (-1) 0)

/-- `c.nodes[i]` -/
def Component.node (c : Component) (i : Nat) : Except Err String :=
  match c.nodes[i]? with
  | some n => .ok n
  | none => .error .keyError      -- IndexError

def mkBranch (s : TSpec) (c : Component) (te : String × Elem GQ) : Except Err (Branch String GQ) := do
  let n1 ← c.node s.n1
  let n2 ← c.node s.n2
  pure { n1 := n1, n2 := n2, id := if s.idSelf then c.id else "", ty := te.1, e := te.2 }

/-- the reads of a translator body, in source order (`str(…)` accepts anything) -/
def preRead (c : Component) (strKeys : List String) (reads : List String) : Except Err Unit :=
  reads.forM fun k =>
    if strKeys.contains k then
      match c.get? k with
      | some _ => .ok ()
      | none => .error .keyError
    else if c.get? k == some Val.inf then .ok ()     -- `float(inf)` succeeds
    else do let _ ← c.float k

/-- translators without recursion: `plain` and `gated` bodies -/
def TSpec.runSimple (s : TSpec) (trig : Trig) (c : Component) (w wres : Rat) :
    Except Err (Branch String GQ) :=
  match s.body with
  | .plain e => do
    preRead c [] s.reads
    mkBranch s c (← e.eval trig c w wres)
  | .gated e ws cmp off => do
    preRead c [] s.reads
    let on ← e.eval trig c w wres
    let wsv ← ws.eval c w wres
    if cmp.holds (absQ (w - wsv)) wres then mkBranch s c (← off.eval trig c w wres)
    else mkBranch s c on
  | .periodic .. => .error (.other "nested periodic translator")

/-- `periodic_function(wavetype)`: first class with that wavetype, else `UnknownWavetype` -/
def periodicFunction (waves : List String) (name : String) : Except Err String :=
  if waves.contains name then .ok name else .error (.other "UnknownWavetype")

def HArg.eval (c : Component) (w amp ph : Rat) : HArg → Except Err Val
  | .w => .ok (.num w)
  | .harmAmp => .ok (.num amp)
  | .harmPhase => .ok (.num ph)
  | .key k => do pure (.num (← c.float k))

def Tables.ctorE (T : Tables) (fn : String) : Except Err CtorSpec :=
  match T.ctor? fn with
  | some cs => .ok cs
  | none => .error (.other "unknown constructor")

def Tables.tspecE (T : Tables) (fn : String) : Except Err TSpec :=
  match T.tspec? fn with
  | some s => .ok s
  | none => .error (.other "unknown translator")

/-- `str(c.value[k])` as a wavetype name: a number prints as a string that is no wavetype -/
def Component.strOf (c : Component) (k : String) : String :=
  match c.get? k with
  | some (.str t) => t
  | _ => "<number>"

/-- the active branch of a periodic translator: build the single-frequency component with
constructor `ctor` and hand it to translator `inner` -/
def periodicActive (T : Tables) (s : TSpec) (trig : Trig) (c : Component) (w wres amp ph : Rat)
    (ctor : String) (ctorArgs : List (String × HArg)) (inner : String) : Except Err (Branch String GQ) := do
  let cs ← T.ctorE ctor
  let n1 ← c.node s.n1
  let n2 ← c.node s.n2
  let args ← ctorArgs.mapM fun a => do pure (a.1, ← a.2.eval c w amp ph)
  let single ← cs.construct (some c.id) (some [n1, n2]) args
  let si ← T.tspecE inner
  si.runSimple trig single w wres

/-- one translator call `transformers[kind](c, w, w_resolution)` -/
def TSpec.run (T : Tables) (s : TSpec) (trig : Trig) (harm : Harm) (c : Component) (w wres : Rat) :
    Except Err (Branch String GQ) :=
  match s.body with
  | .periodic waveKey w0Key ampKey phiKey cmp off ctor ctorArgs inner => do
    preRead c [waveKey] s.reads
    let wt := c.strOf waveKey
    let w0 ← c.float w0Key
    let A ← c.float ampKey
    let phi ← c.float phiKey
    let _ ← periodicFunction T.waves wt
    if w0 = 0 then .error .zeroDivision           -- period = 2*np.pi/w0
    else
      let n := roundHalfEven (w / w0)
      if cmp.holds (absQ (w / w0 - (n : Rat))) (wres / w0) then do
        mkBranch s c (← off.eval trig c w wres)
      else
        periodicActive T s trig c w wres (harm wt A phi n).1 (harm wt A phi n).2 ctor ctorArgs inner
  | _ => s.runSimple trig c w wres

/-- `transformers[c.type](c, w, w_resolution)`; `none` when the kind has no entry -/
def transformComponent (T : Tables) (trig : Trig) (harm : Harm) (c : Component) (w wres : Rat) :
    Option (Except Err (Branch String GQ)) :=
  match T.transformers.lookup c.kind with
  | none => none
  | some fn => match T.tspec? fn with
    | some s => some (s.run T trig harm c w wres)
    | none => some (.error (.other "table entry without function"))

/-! ### circuit.py -/

structure Circuit where
  components : List Component
  ground : String
deriving DecidableEq, Repr

/-- `ground_nodes[0]` if there is one, else `components[0].nodes[0]` -/
def pickGround (c0 : Component) (gs : List String) : Except Err String :=
  match gs with
  | [] => c0.node 0
  | g :: _ => .ok g

/-- `Circuit.__post_init__` (circuit.py:15-27) -/
def Circuit.mk? (cs : List Component) : Except Err Circuit :=
  match cs with
  | [] => .ok ⟨[], ""⟩
  | c0 :: _ => do
    let gs ← (cs.filter (·.kind = "ground")).mapM (·.node 0)
    if gs.length > 1 then .error .multipleGrounds
    else do
      let g ← pickGround c0 gs
      if (dedupL (cs.map (·.id))).length ≠ cs.length then .error .ambiguousIds
      else .ok ⟨cs, g⟩

def Tables.hasKind (T : Tables) (k : String) : Bool := T.transformers.any (·.1 == k)

/-- the `if` of the comprehension in `transform_circuit` -/
def Tables.selects (T : Tables) (c : Component) : Bool :=
  if T.dropUnknown then T.hasKind c.kind else decide (c.kind ≠ "ground")

/-- the comprehension of `transform_circuit` (circuit.py:38): one translator call per selected
component, in list order; `transformers[component.type]` of a type without entry is a `KeyError` -/
def transformBranches (T : Tables) (trig : Trig) (harm : Harm) (cs : List Component) (w wres : Rat) :
    Except Err (List (Branch String GQ)) :=
  (cs.filter T.selects).mapM fun c =>
    match transformComponent T trig harm c w wres with
    | some r => r
    | none => .error .keyError

/-- `transform_circuit` (circuit.py:36-40): the comprehension, then `Network(...)` with its
`__post_init__` checks -/
def transformCircuit (T : Tables) (trig : Trig) (harm : Harm) (C : Circuit) (w wres : Rat) :
    Except Err (Net String GQ) := do
  let bs ← transformBranches T trig harm C.components w wres
  let N : Net String GQ := { branches := bs, zero := C.ground }
  N.check
  pure N

/-- `transform(circuit, w=[…])` -/
def transform (T : Tables) (trig : Trig) (harm : Harm) (C : Circuit) (ws : List Rat) (wres : Rat) :
    Except Err (List (Net String GQ)) :=
  ws.mapM fun w => transformCircuit T trig harm C w wres

/-! ### solution.py : DC and complex wrappers around a network solution `(N, x)` -/

inductive Quantity where
  | potential | voltage | current
deriving DecidableEq, Repr

def Net.quantity (N : Net String GQ) (x : List GQ) (q : Quantity) (id : String) : Except Err GQ :=
  match q with
  | .potential => N.potential x id
  | .voltage => N.voltage x id
  | .current => N.current x id

/-- `DCSolution.get_*` : real part -/
def dcGet (N : Net String GQ) (x : List GQ) (q : Quantity) (id : String) : Except Err Rat := do
  pure (← N.quantity x q id).re

/-- `DCSolution.get_power` -/
def dcPower (N : Net String GQ) (x : List GQ) (id : String) : Except Err Rat := do
  pure ((← dcGet N x .voltage id) * (← dcGet N x .current id))

/-- `ComplexSolution.get_*` -/
def cxGet (peak : Bool) (r2 : Rat) (N : Net String GQ) (x : List GQ) (q : Quantity) (id : String) :
    Except Err GQ := do
  let v ← N.quantity x q id
  pure (if peak then v else GQ.divR v r2)

/-- `ComplexSolution.get_power` -/
def cxPower (peak : Bool) (r2 : Rat) (N : Net String GQ) (x : List GQ) (id : String) :
    Except Err GQ := do
  let v ← cxGet peak r2 N x .voltage id
  let i ← cxGet peak r2 N x .current id
  pure (if peak then GQ.smulR (1 / 2) v * GQ.conj i else v * GQ.conj i)

/-! ### solution.py : identifier validation of the time- and frequency-domain getters

hand-written copies of `_require_component` / `_require_node`; `harness/extract_solution.py` compares the source text of the two
helpers verbatim with the text these definitions were written from, and refuses any other shape -/

/-- `_require_component(circuit, id)`: the id of a non-ground component, else `KeyError` -/
def requireComponent (cs : List Component) (id : String) : Except Err Unit :=
  if id ∈ (cs.filter (·.kind ≠ "ground")).map (·.id) then .ok () else .error .keyError

/-- `_require_node(circuit, id)`: a terminal of some component, else `KeyError` -/
def requireNode (cs : List Component) (n : String) : Except Err Unit :=
  if n ∈ cs.flatMap (·.nodes) then .ok () else .error .keyError

/-! ### dump_load.py : generate_component / undictify_circuit -/

/-- one entry of a circuit description (`None` = key absent) -/
structure Desc where
  id : Option String
  type : Option String
  nodes : Option (List String)
  value : Option (List (String × Val))
deriving DecidableEq, Repr

/-- `generate_component` (dump_load.py:30-55) -/
def generateComponent (T : Tables) (d : Desc) : Except Err Component := do
  let id ← match d.id with
    | some i => pure i
    | none => throw (.other "UnidentifiedComponent")
  let value ← match d.value with
    | some v => pure v
    | none => throw (.other "IncorrectComponentInformation")
  let ty ← match d.type with
    | some t => pure t
    | none => throw (.other "IncorrectComponentInformation")
  let nodes ← match d.nodes with
    | some n => pure n
    | none => throw (.other "IncorrectComponentInformation")
  let fn ← match T.loaders.lookup ty with
    | some f => pure f
    | none => throw .unknownKind
  let cs ← match T.ctor? fn with
    | some cs => pure cs
    | none => throw (.other "table entry without constructor")
  match cs.construct (some id) (some nodes) value with
  | .error .typeError => throw (.other "IncorrectComponentInformation")
  | r => r

/-- `undictify_circuit` -/
def undictifyCircuit (T : Tables) (ds : List Desc) : Except Err Circuit := do
  Circuit.mk? (← ds.mapM (generateComponent T))

end CC
