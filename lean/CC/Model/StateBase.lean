/-
  CC.Model.StateBase — Python / numpy idioms used by the generated state-space model
  (CC/Gen/StateSpace.lean) in addition to those of CC/Model/CoreBase.lean.  Mathlib-free.
  Dense arithmetic (`@`, unary minus, `−`, column selection, `np.diag`) is expressed with the
  list-matrix primitives `CC.Mx.*` of CC/Model/StateSpace.lean, applied at the *shapes the arrays
  carry* (`Py.Mat` keeps `nrows`/`ncols`), so the dimensions are derived, not asserted.
-/
import CC.Model.CoreBase
import CC.Model.StateSpace
namespace CC.Py

namespace Mat
variable {K : Type} [Zero K] [One K] [Add K] [Mul K] [Neg K] [Sub K]

/-- `Q = np.zeros((m.N, m.N)); for i in m.values: Q[i][i] = 1` — the values of an enumerated
mapping are `0 … N−1` -/
def identity (n : Nat) : Mat K := ⟨n, n, Mx.one n⟩
/-- `np.diag(v)` of a vector -/
def diag (d : List K) : Mat K :=
  ⟨d.length, d.length, Mx.ofFn d.length d.length fun i j => if i = j then d.getD i 0 else 0⟩
/-- `np.diag(M)` of a matrix: its main diagonal -/
def diagOf (M : Mat K) : List K := (List.range (min M.nrows M.ncols)).map fun i => Mx.get M.rows i i
/-- `M[:, cols]` -/
def selectCols (M : Mat K) (cols : List Nat) : Mat K := ⟨M.nrows, cols.length, Mx.selectCols M.nrows cols M.rows⟩
/-- `A @ B` -/
def mul (A B : Mat K) : Mat K := ⟨A.nrows, B.ncols, Mx.mul A.nrows A.ncols B.ncols A.rows B.rows⟩
/-- `-A` -/
def neg (A : Mat K) : Mat K := ⟨A.nrows, A.ncols, Mx.neg A.nrows A.ncols A.rows⟩
/-- `A - B` (same shape) -/
def sub (A B : Mat K) : Mat K := ⟨A.nrows, A.ncols, Mx.sub A.nrows A.ncols A.rows B.rows⟩
/-- entrywise function (`A.real`) -/
def map (f : K → K) (A : Mat K) : Mat K := ⟨A.nrows, A.ncols, A.rows.map fun r => r.map f⟩
/-- `M[:][a:b]` — the rows `a … b−1` as a 2-d array -/
def rowSlice (M : Mat K) (a b : Nat) : List (List K) := (M.rows.drop a).take (b - a)
/-- `M[k][:]` — row `k` as a 1-d array -/
def row (M : Mat K) (k : Nat) : List K := M.rows.getD k []
end Mat

/-- an array whose number of dimensions depends on the branch taken (`c_row_current` returns a
1-d row for reactive elements and sources, a `1×n` 2-d array otherwise) -/
inductive Arr (K : Type) where
  | vec (v : List K)
  | mat (rows : List (List K))
deriving Repr

namespace Arr
variable {K : Type} [Zero K] [Sub K] [Div K] [DecidableEq K]
/-- what `np.vstack([acc, a])` appends -/
def toRows : Arr K → List (List K)
  | vec v => [v]
  | mat rows => rows
/-- `a - b` for two 2-d arrays of the same shape -/
def sub : Arr K → Arr K → Arr K
  | mat a, mat b => mat (List.zipWith (List.zipWith (· - ·)) a b)
  | vec a, vec b => vec (List.zipWith (· - ·) a b)
  | mat a, vec b => mat (a.map fun r => List.zipWith (· - ·) r b)
  | vec a, mat b => mat (b.map fun r => List.zipWith (· - ·) a r)
/-- `a / z` for an element property `z` (`x / np.inf = 0`) -/
def divX (a : Arr K) (z : XVal K) : Arr K :=
  let f : K → K := fun x => match z with
    | .fin d => x / d
    | .inf => 0
    | .nan => 0
  match a with
  | vec v => vec (v.map f)
  | mat rows => mat (rows.map fun r => r.map f)
end Arr

/-- `s * v` -/
def vecScale {K : Type} [Mul K] (s : K) (v : List K) : List K := v.map (s * ·)
/-- `v[k] = x` (in place); `IndexError` when `k` is out of range (reported with the `KeyError` tag,
as the hand-written model does) -/
def vecSet {K : Type} (v : List K) (k : Nat) (x : K) : Except Err (List K) :=
  if k < v.length then .ok (v.set k x) else .error .keyError
/-- `np.vstack([acc, a])` on a growing 2-d array kept as its list of rows -/
def vstackArr {K : Type} (acc : List (List K)) (a : Arr K) : List (List K) := acc ++ a.toRows

/-- `d[key]` on a value dictionary (keys are unique in a `dict`; `KeyError` when absent) -/
def dictItem {K : Type} (d : List (String × K)) (key : String) : Except Err K :=
  match d.find? (fun p => p.1 = key) with
  | some p => .ok p.2
  | none => .error .keyError
/-- `list(d.keys()).index(key)` (`ValueError` when absent, reported with the `KeyError` tag) -/
def keyIndex {K : Type} (d : List (String × K)) (key : String) : Except Err Nat :=
  match idxOf? key (d.map (·.1)) with
  | some k => .ok k
  | none => .error .keyError

end CC.Py
