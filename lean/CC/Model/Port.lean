/-
  CC.Model.Port — hand-written model of
    Network/NodalAnalysis/node_analysis.py:81-102     (open_circuit_impedance, element_impedance)
    Network/NodalAnalysis/bias_point_analysis.py:44-55 (open_circuit_voltage, short_circuit_current)
    Network/transformers.py:4-10                       (switch_ground_node, remove_element)
    Network/equivalent_sources.py                      (Thevenin / Norton parameter records)
    Circuit/impedance.py                               (sweep wrappers, DC resistance)
  Mathlib-free.  The model follows the code *as it is*:
    * ideal voltage sources that are not directly between the two port nodes contribute
      nothing to the admittance matrix (`np.isfinite` filter) — they are treated as OPEN;
    * all-zero columns, then all-zero rows are deleted, but the index of `node1` is taken
      from the index map of the *unpruned* network.
  `np.linalg.inv` and `np.linalg.solve` are not modelled: they are parameters
  (`inv`, `solve`); theorems constrain them by `M·(inv M) = 1` / `A·x = b`, the driver
  passes an exact elimination whose results it checks before use.
-/
import CC.Model.MNA
namespace CC

section
variable {L K : Type} [DecidableEq L] [LabelOrd L]
variable [Zero K] [One K] [Add K] [Mul K] [Neg K] [Sub K] [Inv K] [Div K] [DecidableEq K]

/-! ### network.py / transformers.py -/

/-- `Network.branches_between(node1, node2)`: `set((b.node1, b.node2)) == set((node1, node2))` -/
def Net.branchesBetween (N : Net L K) (a b : L) : List (Branch L K) :=
  N.branches.filter fun br => (br.n1 = a ∧ br.n2 = b) ∨ (br.n1 = b ∧ br.n2 = a)

/-- `switch_ground_node`: a new `Network` object — the constructor checks run again -/
def Net.switchGround (N : Net L K) (g : L) : Except Err (Net L K) := do
  let N' : Net L K := { N with zero := g }
  N'.check
  pure N'

/-- `remove_element`: `network[element]` (KeyError), `list.remove` (first equal branch),
then the `Network` constructor -/
def Net.removeElement (N : Net L K) (id : String) : Except Err (Net L K) :=
  match N.get? id with
  | none => .error .keyError
  | some b => do
    let N' : Net L K := { N with branches := N.branches.erase b }
    N'.check
    pure N'

/-! ### node_analysis.py:81-102 -/

/-- `node_admittance_matrix(network)` with the default (alphabetic) node mapper -/
def Net.nodeAdmittance (N : Net L K) : List (List K) :=
  N.nodes.map fun i => N.nodes.map fun j => N.Yentry i j

/-- `np.delete(Y, np.where(~Y.any(axis=0))[0], axis=1)`: drop every all-zero column.
The number of columns is the number of node labels `n` (a matrix without rows has
no non-zero column). -/
def pruneCols (n : Nat) (M : List (List K)) : List (List K) :=
  let keep := (List.range n).filter fun c => M.any fun r => decide (r.getD c 0 ≠ 0)
  M.map fun r => keep.map fun c => r.getD c 0

/-- `np.delete(Y, np.where(~Y.any(axis=1))[0], axis=0)`: drop every all-zero row -/
def pruneRows (M : List (List K)) : List (List K) :=
  M.filter fun r => r.any fun x => decide (x ≠ 0)

/-- what `open_circuit_impedance` has computed when it reaches `np.linalg.inv` -/
inductive PortPre (L K : Type) where
  /-- one of the two early `return 0` -/
  | early
  /-- the re-referenced network, the pruned matrix handed to `inv`, and the first port node
  (possibly swapped) whose *unpruned* index is used afterwards -/
  | mat (N' : Net L K) (Y : List (List K)) (node1 : L)

/-- node_analysis.py:82-91 -/
def Net.portPre (N : Net L K) (n1 n2 : L) : Except Err (PortPre L K) :=
  if n1 = n2 then .ok .early
  else if (N.branchesBetween n1 n2).any (·.e.isIdealVS) then .ok .early
  else
    let a := if n1 = N.zero then n2 else n1      -- `node1, node2 = node2, node1`
    let b := if n1 = N.zero then n1 else n2
    match N.switchGround b with
    | .error e => .error e
    | .ok N' =>
      let Y := N'.nodeAdmittance
      .ok (.mat N' (pruneRows (pruneCols N'.nodes.length Y)) a)

/-- `Z[i1][i1]` with the index of the unpruned map; `IndexError` ↦ `keyError` -/
def diagAt (Z : List (List K)) (i : Nat) : Except Err K :=
  match Z[i]? with
  | none => .error .keyError
  | some r => match r[i]? with
    | none => .error .keyError
    | some z => .ok z

/-- is the matrix square (what `np.linalg.inv` demands before anything else)? -/
def isSquare (M : List (List K)) : Bool := M.all fun r => r.length == M.length

/-- `open_circuit_impedance(network, node1, node2)`.  `inv M = none` stands for
`numpy.linalg.LinAlgError` (singular or non-square). -/
def Net.openCircuitImpedance (inv : List (List K) → Option (List (List K)))
    (N : Net L K) (n1 n2 : L) : Except Err K :=
  match N.portPre n1 n2 with
  | .error e => .error e
  | .ok .early => .ok 0
  | .ok (.mat N' Y a) =>
    if !isSquare Y then .error .singular else
    match inv Y with
    | none => .error .singular
    | some Z =>
      match idxOf? a N'.nodes with
      | none => .error .keyError
      | some i => diagAt Z i

/-- `element_impedance(network, element)`: arguments are evaluated left to right —
`remove_element` first, then `network[element].node1/.node2` on the original network -/
def Net.elementImpedance (inv : List (List K) → Option (List (List K)))
    (N : Net L K) (id : String) : Except Err K :=
  match N.removeElement id with
  | .error e => .error e
  | .ok N' =>
    match N.get? id with
    | none => .error .keyError
    | some b => N'.openCircuitImpedance inv b.n1 b.n2

/-! ### what is assumed of `np.linalg.inv` -/

/-- column `j` of a matrix given by rows -/
def colL (M : List (List K)) (j : Nat) : List K := M.map fun r => r.getD j 0

/-- `Z` is a right inverse of the square matrix `Y` -/
def IsInverseL (Y Z : List (List K)) : Prop :=
  Z.length = Y.length ∧
  ∀ i j, i < Y.length → j < Y.length → dotL (Y.getD i []) (colL Z j) = if i = j then 1 else 0

/-- the certificate contract: whatever `inv` returns is an inverse -/
def InvOK (inv : List (List K) → Option (List (List K))) : Prop :=
  ∀ Y Z, inv Y = some Z → IsInverseL Y Z

/-! ### bias_point_analysis.py:11-25, 44-55 -/

/-- `NodalAnalysisBiasPointSolution.__post_init__`: assemble, solve, fall back to the zero
vector when numpy reports a singular matrix -/
def Net.solutionVector (solve : List (List K) → List K → Option (List K)) (N : Net L K) :
    Except Err (List K) := do
  let (A, b) ← N.assemble
  match solve A b with
  | some x => pure x
  | none => pure (b.map fun _ => 0)

/-- `open_circuit_voltage`: the solution is built *before* the `node1 == node2` test -/
def Net.openCircuitVoltage (solve : List (List K) → List K → Option (List K))
    (N : Net L K) (n1 n2 : L) : Except Err K := do
  let x ← N.solutionVector solve
  if n1 = n2 then pure 0
  else
    let p1 ← N.potential x n1
    let p2 ← N.potential x n2
    pure (p1 - p2)

/-- `short_circuit_current`: `V / Z`.  For `node1 == node2` both are the Python integer `0`
(`ZeroDivisionError`); otherwise `V` is a numpy scalar and a zero `Z` gives `inf`/`nan`
without an exception — reported as `NonFinite`. -/
def Net.shortCircuitCurrent (inv : List (List K) → Option (List (List K)))
    (solve : List (List K) → List K → Option (List K))
    (N : Net L K) (n1 n2 : L) : Except Err K := do
  let Z ← N.openCircuitImpedance inv n1 n2
  let V ← N.openCircuitVoltage solve n1 n2
  if n1 = n2 then .error .zeroDivision
  else if Z = 0 then .error (.other "NonFinite")
  else pure (V / Z)

/-! ### equivalent_sources.py (the bodies; whether the module imports at all is decided by
the generated `CC.Gen.PortImports`) -/

structure TheveninEq (K : Type) where
  U : K
  Z : K

structure NortonEq (K : Type) where
  I : K
  Y : K

/-- `TheveninEquivalentSource.__init__`: `U` first, then `Z` -/
def Net.theveninEquivalent (inv : List (List K) → Option (List (List K)))
    (solve : List (List K) → List K → Option (List K))
    (N : Net L K) (n1 n2 : L) : Except Err (TheveninEq K) := do
  let U ← N.openCircuitVoltage solve n1 n2
  let Z ← N.openCircuitImpedance inv n1 n2
  pure ⟨U, Z⟩

/-- did `open_circuit_impedance` take one of its early returns (Python integer `0`)? -/
def Net.portIsEarly (N : Net L K) (n1 n2 : L) : Bool :=
  decide (n1 = n2) || (N.branchesBetween n1 n2).any (·.e.isIdealVS)

/-- `NortenEquivalentSource.__init__`: `I = U/Z`, `Y = 1/Z`.  With the integer `0` of an early
return `1/Z` raises `ZeroDivisionError`; a computed zero gives `inf` (`NonFinite`). -/
def Net.nortonEquivalent (inv : List (List K) → Option (List (List K)))
    (solve : List (List K) → List K → Option (List K))
    (N : Net L K) (n1 n2 : L) : Except Err (NortonEq K) := do
  let t ← N.theveninEquivalent inv solve n1 n2
  if N.portIsEarly n1 n2 then .error .zeroDivision
  else if t.Z = 0 then .error (.other "NonFinite")
  else pure ⟨t.U / t.Z, 1 / t.Z⟩

/-! ### Circuit/impedance.py -/

/-- `np.array([f(transform_circuit(circuit, w0)) for w0 in w])`: the networks are the
implementation's own `transform_circuit` outputs (modelled by C02/C07); the first
exception wins -/
def sweep {α : Type} (f : α → Except Err K) (nets : List α) : Except Err (List K) :=
  nets.mapM f

/-- `open_circuit_dc_resistance` / `element_dc_resistance`: `sweep(..., w=[0])[0].real` -/
def dcResistance {α : Type} (re : K → K) (f : α → Except Err K) (net0 : α) : Except Err K := do
  let l ← sweep f [net0]
  match l with
  | z :: _ => pure (re z)
  | [] => .error .keyError

end
end CC
