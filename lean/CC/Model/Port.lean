/-
  CC.Model.Port — hand-written model of
    Network/NodalAnalysis/node_analysis.py:81-102     (open_circuit_impedance, element_impedance)
    Network/NodalAnalysis/bias_point_analysis.py:44-55 (open_circuit_voltage, short_circuit_current)
    Network/transformers.py:4-10                       (switch_ground_node, remove_element)
    Network/equivalent_sources.py                      (Thevenin / Norton parameter records)
    Circuit/impedance.py                               (sweep wrappers, DC resistance)
  Mathlib-free.  The model follows the code *as it is*:
    * the system solved is the full MNA matrix `[[Y, B], [Bᵀ, 0]]` of the re-referenced network
      (ideal voltage sources enter through their constraint rows: shorted);
    * unknowns whose *column* is all zero are dropped (rows by the same mask), the index of
      `node1` is its position among the kept unknowns, the right-hand side is a unit vector.
  `np.linalg.solve` is not modelled: it is a parameter (`solve`); theorems constrain it by
  `A·x = b` (`SolveOK`), the driver passes an exact elimination whose results it checks.
-/
import CC.Model.MNA
namespace CC

section
variable {L K : Type} [DecidableEq L] [LabelOrd L]
variable [Zero K] [One K] [Add K] [Mul K] [Neg K] [Sub K] [Inv K] [Div K] [DecidableEq K]

/-! ### network.py / transformers.py -/

/-- `Network.branches_between(node1, node2)`: `set((b.node1, b.node2)) == set((node1, node2))` -/
def Net.branchesBetween (N : Net L K) (a b : L) : List (Branch L K) :=
  N.branches.filter fun br => (br.n1 = a ∧ br.n2 = b) ∨ (br.n1 = b ∧ br.n2 = a)

/-- `switch_ground_node`: a new `Network` object — the constructor checks run again -/
def Net.switchGround (N : Net L K) (g : L) : Except Err (Net L K) := do
  let N' : Net L K := { N with zero := g }
  N'.check
  pure N'

/-- `remove_element`: `network[element]` (KeyError), `list.remove` (first equal branch),
then the `Network` constructor -/
def Net.removeElement (N : Net L K) (id : String) : Except Err (Net L K) :=
  match N.get? id with
  | none => .error .keyError
  | some b => do
    let N' : Net L K := { N with branches := N.branches.erase b }
    N'.check
    pure N'

/-! ### node_analysis.py:81-102 (after fix e030c44) -/

/-- `node_admittance_matrix(network)` with the default (alphabetic) node mapper -/
def Net.nodeAdmittance (N : Net L K) : List (List K) :=
  N.nodes.map fun i => N.nodes.map fun j => N.Yentry i j

/-- `keep = A.any(axis=0)`: which columns of the `n × n` matrix have a non-zero entry -/
def keepMask (n : Nat) (A : List (List K)) : List Bool :=
  (List.range n).map fun c => A.any fun r => decide (r.getD c 0 ≠ 0)

/-- boolean-mask selection `x[keep]` -/
def selectL {α : Type} : List Bool → List α → List α
  | true :: ks, x :: xs => x :: selectL ks xs
  | false :: ks, _ :: xs => selectL ks xs
  | _, _ => []

/-- `A[np.ix_(keep, keep)]` -/
def subMatrix (keep : List Bool) (A : List (List K)) : List (List K) :=
  (selectL keep A).map (selectL keep)

/-- `np.count_nonzero(keep[:i])` -/
def countBefore (keep : List Bool) (i : Nat) : Nat := ((keep.take i).filter id).length

/-- the vector `unit_current`: zeros of length `m` with a one at position `i` -/
def unitVec (m i : Nat) : List K := (List.range m).map fun k => if k = i then 1 else 0

/-- what `open_circuit_impedance` has computed when it reaches `np.linalg.solve` -/
inductive PortPre (L K : Type) where
  /-- one of the two early `return 0` -/
  | early
  /-- the re-referenced network, the column mask, the pruned MNA matrix, the right-hand side
  and the index `i1` of the first port node (possibly swapped) among the kept unknowns -/
  | sys (N' : Net L K) (keep : List Bool) (A : List (List K)) (e : List K) (i1 : Nat)
  /-- `return np.inf`: one of the two port nodes is isolated (fix aab1640) -/
  | infinite

/-- node_analysis.py:89-94 on the re-referenced network `N'` for the (possibly swapped) first
port node `a`: `KeyError` when `a` is not a label, `IndexError ↦ KeyError` when
`unit_current[i1] = 1` falls beyond the kept unknowns -/
def Net.portSys (N' : Net L K) (a : L) : Except Err (PortPre L K) :=
  match idxOf? a N'.nodes with
  | none => .error .keyError
  | some i =>
    if countBefore (keepMask N'.mnaA.length N'.mnaA) i
        < (subMatrix (keepMask N'.mnaA.length N'.mnaA) N'.mnaA).length then
      .ok (.sys N' (keepMask N'.mnaA.length N'.mnaA)
        (subMatrix (keepMask N'.mnaA.length N'.mnaA) N'.mnaA)
        (unitVec (subMatrix (keepMask N'.mnaA.length N'.mnaA) N'.mnaA).length
          (countBefore (keepMask N'.mnaA.length N'.mnaA) i))
        (countBefore (keepMask N'.mnaA.length N'.mnaA) i))
    else .error .keyError

/-- is column `i` of the matrix all zero (`not A[:, i].any()`)? -/
def colZero (A : List (List K)) (i : Nat) : Bool := A.all fun r => decide (r.getD i 0 = 0)

/-- the inner function `isolated(node, ground)` of fix aab1640: re-reference to `ground`
(`FloatingGroundNode`), look `node` up in the index map (`KeyError`), test its column of the MNA matrix -/
def Net.isolated (N : Net L K) (node ground : L) : Except Err Bool :=
  match N.switchGround ground with
  | .error e => .error e
  | .ok Ng =>
    match idxOf? node Ng.nodes with
    | none => .error .keyError
    | some i => .ok (colZero Ng.mnaA i)

/-- node_analysis.py:82-94, then `portSys`: early returns, swap when `node1` is the reference,
`isolated(node1, node2) or isolated(node2, node1)` ⇒ `np.inf`, re-referencing. -/
def Net.portPre (N : Net L K) (n1 n2 : L) : Except Err (PortPre L K) :=
  if n1 = n2 then .ok .early
  else if (N.branchesBetween n1 n2).any (·.e.isIdealVS) then .ok .early
  else
    -- `node1, node2 = node2, node1` when `node1` is the reference
    match N.isolated (if n1 = N.zero then n2 else n1) (if n1 = N.zero then n1 else n2) with
    | .error e => .error e
    | .ok true => .ok .infinite
    | .ok false =>
      match N.isolated (if n1 = N.zero then n1 else n2) (if n1 = N.zero then n2 else n1) with
      | .error e => .error e
      | .ok true => .ok .infinite
      | .ok false =>
        match N.switchGround (if n1 = N.zero then n1 else n2) with
        | .error e => .error e
        | .ok N' => N'.portSys (if n1 = N.zero then n2 else n1)

/-- `open_circuit_impedance(network, node1, node2)`.  `solve A b = none` stands for
`numpy.linalg.LinAlgError` (singular matrix). -/
def Net.openCircuitImpedance (solve : List (List K) → List K → Option (List K))
    (N : Net L K) (n1 n2 : L) : Except Err K :=
  match N.portPre n1 n2 with
  | .error e => .error e
  | .ok .early => .ok 0
  | .ok .infinite => .error (.other "Infinite")      -- `np.inf`: not an element of the field
  | .ok (.sys _ _ A e i1) =>
    match solve A e with
    | none => .error .singular
    | some x =>
      match x[i1]? with
      | none => .error .keyError
      | some z => .ok z

/-- `element_impedance(network, element)`: arguments are evaluated left to right —
`remove_element` first, then `network[element].node1/.node2` on the original network -/
def Net.elementImpedance (solve : List (List K) → List K → Option (List K))
    (N : Net L K) (id : String) : Except Err K :=
  match N.removeElement id with
  | .error e => .error e
  | .ok N' =>
    match N.get? id with
    | none => .error .keyError
    | some b => N'.openCircuitImpedance solve b.n1 b.n2

/-! ### what is assumed of `np.linalg.solve` -/

/-- the certificate contract: whatever `solve` returns has the length of the right-hand side
and solves the system -/
def SolveOK (solve : List (List K) → List K → Option (List K)) : Prop :=
  ∀ A b x, solve A b = some x → x.length = b.length ∧ matVec A x = b

/-! ### bias_point_analysis.py:11-25, 44-55 -/

/-- `NodalAnalysisBiasPointSolution.__post_init__`: assemble, solve, fall back to the zero
vector when numpy reports a singular matrix -/
def Net.solutionVector (solve : List (List K) → List K → Option (List K)) (N : Net L K) :
    Except Err (List K) := do
  let (A, b) ← N.assemble
  match solve A b with
  | some x => pure x
  | none => pure (b.map fun _ => 0)

/-- `open_circuit_voltage`: the solution is built *before* the `node1 == node2` test -/
def Net.openCircuitVoltage (solve : List (List K) → List K → Option (List K))
    (N : Net L K) (n1 n2 : L) : Except Err K := do
  let x ← N.solutionVector solve
  if n1 = n2 then pure 0
  else
    let p1 ← N.potential x n1
    let p2 ← N.potential x n2
    pure (p1 - p2)

/-- `short_circuit_current`: `V / Z`.  For `node1 == node2` both are the Python integer `0`
(`ZeroDivisionError`); otherwise `V` is a numpy scalar and a zero `Z` gives `inf`/`nan`
without an exception — reported as `NonFinite`. -/
def Net.shortCircuitCurrent (solve : List (List K) → List K → Option (List K))
    (N : Net L K) (n1 n2 : L) : Except Err K :=
  match N.openCircuitImpedance solve n1 n2 with
  | .error (.other "Infinite") => do
    let _ ← N.openCircuitVoltage solve n1 n2       -- `V / inf`: zero for every finite `V`
    pure 0
  | .error e => .error e
  | .ok Z => do
    let V ← N.openCircuitVoltage solve n1 n2
    if n1 = n2 then .error .zeroDivision
    else if Z = 0 then .error (.other "NonFinite")
    else pure (V / Z)

/-! ### equivalent_sources.py (the bodies; whether the module imports at all is decided by
the generated `CC.Gen.PortImports`) -/

structure TheveninEq (K : Type) where
  U : K
  Z : K

structure NortonEq (K : Type) where
  I : K
  Y : K

/-- `TheveninEquivalentSource.__init__`: `U` first, then `Z` -/
def Net.theveninEquivalent (solve : List (List K) → List K → Option (List K))
    (N : Net L K) (n1 n2 : L) : Except Err (TheveninEq K) := do
  let U ← N.openCircuitVoltage solve n1 n2
  let Z ← N.openCircuitImpedance solve n1 n2       -- `Infinite` for an isolated port node: `Z = inf` is no field element
  pure ⟨U, Z⟩

/-- did `open_circuit_impedance` take one of its early returns (Python integer `0`)? -/
def Net.portIsEarly (N : Net L K) (n1 n2 : L) : Bool :=
  decide (n1 = n2) || (N.branchesBetween n1 n2).any (·.e.isIdealVS)

/-- `NortenEquivalentSource.__init__`: `I = U/Z`, `Y = 1/Z`.  With the integer `0` of an early
return `1/Z` raises `ZeroDivisionError`; a computed zero gives `inf` (`NonFinite`). -/
def Net.nortonEquivalent (solve : List (List K) → List K → Option (List K))
    (N : Net L K) (n1 n2 : L) : Except Err (NortonEq K) :=
  match N.theveninEquivalent solve n1 n2 with
  | .error (.other "Infinite") => .ok ⟨0, 0⟩         -- `U/inf = 0`, `1/inf = 0`
  | .error e => .error e
  | .ok t =>
    if N.portIsEarly n1 n2 then .error .zeroDivision
    else if t.Z = 0 then .error (.other "NonFinite")
    else pure ⟨t.U / t.Z, 1 / t.Z⟩

/-! ### Circuit/impedance.py -/

/-- `np.array([f(transform_circuit(circuit, w0)) for w0 in w])`: the networks are the
implementation's own `transform_circuit` outputs (modelled by C02/C07); the first
exception wins; `np.inf` (an isolated port node) is a *value* of the array: `none` -/
def sweep {α : Type} (f : α → Except Err K) : List α → Except Err (List (Option K))
  | [] => .ok []
  | n :: ns =>
    match f n with
    | .error (.other "Infinite") => (sweep f ns).map (none :: ·)
    | .error e => .error e
    | .ok z => (sweep f ns).map (some z :: ·)

/-- `open_circuit_dc_resistance` / `element_dc_resistance`: `sweep(..., w=[0])[0].real` (`inf.real = inf`) -/
def dcResistance {α : Type} (re : K → K) (f : α → Except Err K) (net0 : α) : Except Err K := do
  let l ← sweep f [net0]
  match l with
  | some z :: _ => pure (re z)
  | none :: _ => .error (.other "Infinite")
  | [] => .error .keyError

end
end CC
