/-
  CC.Model.Draw — hand-written model of the drawing front end
    src/CircuitCalculator/SimpleCircuit/Elements.py          round_node, get_nodes
    src/CircuitCalculator/SimpleCircuit/DiagramParser.py     SchematicDiagramParser
    src/CircuitCalculator/SimpleCircuit/DiagramTranslator.py DiagramTranslator, circuit_translator
    src/CircuitCalculator/Circuit/circuit.py                 Circuit.__post_init__
  The per-symbol translators, the component constructors and the class facts (which classes
  are nodes / grounds / carry a name) are *not* restated here: they are interpreted from the
  generated tables CC/Gen/DrawTables.lean.

  Mathlib-free.  The parser is generic over the point type `P` (decidable equality only),
  so that the theorems hold for every point type; the driver uses `P := Pt`.

  Python `set` iteration order is the parameter `ord : SetOrd P`: `ord.all` is the order in
  which a freshly built `all_nodes` set is iterated, `ord.uniq` the order in which the set
  returned by `unique_nodes` is iterated.  Theorems quantify over every `ord` that
  permutes its argument.
-/
import CC.Gen.DrawTables
namespace CC.Draw

/-! ## `round_node` -/

/-- round-half-even of an exact rational to an integer -/
def roundHalfEven (q : Rat) : Int :=
  let f := q.floor
  let r := q - (f : Rat)
  if r < 1/2 then f else if 1/2 < r then f + 1 else if f % 2 = 0 then f else f + 1

/-- `2^e` for an integer exponent -/
def pow2 (e : Int) : Rat := if 0 ≤ e then ((2 ^ e.toNat : Nat) : Rat) else 1 / ((2 ^ (-e).toNat : Nat) : Rat)

/-- the binary64 number nearest to `q` (ties to even), as an exact rational; normal range only
(drawing coordinates are 0 or between 1e-9 and 1e15 in magnitude) -/
def nearestDouble (q : Rat) : Rat :=
  if q = 0 then 0 else
  let a := if q < 0 then -q else q
  -- e with 2^e ≤ a < 2^(e+1)
  let e0 : Int := (a.num.natAbs.log2 : Int) - (a.den.log2 : Int)
  let e : Int := if a < pow2 e0 then e0 - 1 else if pow2 (e0 + 1) ≤ a then e0 + 1 else e0
  let scale := pow2 (52 - e)
  let m := roundHalfEven (a * scale)
  let r := (m : Rat) / scale
  if q < 0 then -r else r

/-- CPython `round(x, d)` on a binary64 `x`: the exact value is rounded half-even to `d` decimals
(correctly rounded `dtoa`), then converted back to the nearest double -/
def roundTo (d : Nat) (x : Rat) : Rat :=
  nearestDouble (((roundHalfEven (x * ((10 ^ d : Nat) : Rat)) : Int) : Rat) / ((10 ^ d : Nat) : Rat))

/-- `local_round` of `round_node`: the chain of roundings the code applies (generated:
`Gen.roundDigits`, innermost first; `[9, 2]` since 631ff19 — float noise is snapped before the
coordinate is rounded to the node grid) -/
def round2 (x : Rat) : Rat := Gen.roundDigits.foldl (fun v d => roundTo d v) x

def roundPt (p : Pt) : Pt := ⟨round2 p.x, round2 p.y⟩

/-! ## finite sets as duplicate-free lists -/
section Parser
variable {P : Type} [DecidableEq P]

/-- `set.add` -/
def sadd (a : P) (l : List P) : List P := if a ∈ l then l else a :: l

/-- duplicate-free list of the elements of `l` (first occurrences, reversed accumulation) -/
def toSet (l : List P) : List P := l.foldl (fun acc a => sadd a acc) []

/-- one pass of the `for line in self.line_elements` loop of
`_get_equal_electrical_potential_nodes` (note the `if / elif`) -/
def sweep (ws : List (P × P)) (S : List P) : List P :=
  ws.foldl (fun S w => if w.1 ∈ S then sadd w.2 S else if w.2 ∈ S then sadd w.1 S else S) S

/-- the `while len(S) > old_length` loop with fuel: sweep while the set grew -/
def closureFuel : Nat → List (P × P) → List P → List P
  | 0, _, S => S
  | n + 1, ws, S =>
    let S' := sweep ws S
    if S.length < S'.length then closureFuel n ws S' else S'

/-- fuel that always suffices (theorem `closureFuel_closed`): every productive sweep brings
at least one of the `2·|ws|` wire end points into the set -/
def closureBound (ws : List (P × P)) : Nat := 2 * ws.length + 1

/-- `_get_equal_electrical_potential_nodes(node)` -/
def eqp (ws : List (P × P)) (p : P) : List P := closureFuel (closureBound ws) ws [p]

/-- iteration orders of Python sets (see the file header) -/
structure SetOrd (P : Type) where
  all : List P → List P
  uniq : List P → List P

/-- `unique_nodes`: iterate `all_nodes`; a node still present removes its whole class from
the working set and is put back as the representative -/
def uniqueNodes (ws : List (P × P)) (ord : SetOrd P) (all : List P) : List P :=
  (ord.all all).foldl (fun nodes node =>
    if node ∈ nodes then
      let cls := eqp ws node
      sadd node (nodes.filter (fun n => n ∉ cls))
    else nodes) all

/-- the value `unique_node_mapping` assigns to `n`: an element of
`unique_nodes ∩ (class(n) − {n})` if there is one, else `n` itself.  The Python code pops an
arbitrary element of that intersection; it has at most one element (theorem
`C13_unique_rep`), the model takes the first in list order. -/
def urep (ws : List (P × P)) (uniq : List P) (n : P) : P :=
  let ident := (eqp ws n).filter (· ≠ n)
  match uniq.filter (· ∈ ident) with
  | [] => n
  | u :: _ => u

/-- `unique_node_mapping` as an association list (one entry per element of `all_nodes`, in the
order in which that set is iterated) -/
def uniqueNodeMapping (ws : List (P × P)) (ord : SetOrd P) (all : List P) : List (P × P) :=
  let uniq := uniqueNodes ws ord all
  (ord.all all).map fun n => (n, urep ws uniq n)

/-- `d[k] = v` on an insertion-ordered dictionary -/
def dictSet {K V : Type} [DecidableEq K] (k : K) (v : V) : List (K × V) → List (K × V)
  | [] => [(k, v)]
  | (k', v') :: d => if k' = k then (k', v) :: d else (k', v') :: dictSet k v d

/-- `while str(node_index) in node_labels.values(): node_index += 1` (fuelled; the fuel
`|values| + 1` suffices because `str` is injective on naturals) -/
def nextFree (vals : List String) : Nat → Nat → Nat
  | 0, i => i
  | fuel + 1, i => if toString i ∈ vals then nextFree vals fuel (i + 1) else i

/-- the dictionary comprehension `{unique_node_mapping[get_nodes(e)[0]] : e.node_id for e in
node_elements}` (a later symbol on the same representative overwrites the name) -/
def namedLabels (umap : List (P × P)) (nodeSyms : List (P × String)) : Except Err (List (P × String)) :=
  nodeSyms.foldlM (fun d (ps : P × String) =>
      match umap.lookup ps.1 with
      | none => throw Err.keyError
      | some r => pure (dictSet r ps.2 d)) ([] : List (P × String))

/-- one iteration of `for p in unlabeled_nodes` (the index is *not* advanced after use; the
next `while` does that) -/
def numberStep (acc : List (P × String) × Nat) (p : P) : List (P × String) × Nat :=
  let vals := acc.1.map (·.2)
  let idx := nextFree vals (vals.length + 1) acc.2
  (dictSet p (toString idx) acc.1, idx)

def numberUnlabeled (named : List (P × String)) (unlabeled : List P) : List (P × String) :=
  (unlabeled.foldl numberStep (named, named.length + 1)).1

/-- `node_label_mapping`; `nodeSyms` = (rounded start, `node_id`) of the node symbols in
drawing order -/
def nodeLabelMapping (ws : List (P × P)) (ord : SetOrd P) (all : List P) (nodeSyms : List (P × String)) :
    Except Err (List (P × String)) := do
  let named ← namedLabels (uniqueNodeMapping ws ord all) nodeSyms
  let unlabeled := (ord.uniq (uniqueNodes ws ord all)).filter fun p => (named.lookup p).isNone
  pure (numberUnlabeled named unlabeled)

/-- `node_label_mapping[unique_node_mapping[node]]` for given mappings -/
def lookupLabel (umap : List (P × P)) (labels : Except Err (List (P × String))) (p : P) :
    Except Err String := do
  let labels ← labels
  match umap.lookup p with
  | none => throw Err.keyError
  | some r =>
    match labels.lookup r with
    | none => throw Err.keyError
    | some l => pure l

/-- `_get_node_index(node)` -/
def getNodeIndex (ws : List (P × P)) (ord : SetOrd P) (all : List P) (nodeSyms : List (P × String)) (p : P) :
    Except Err String :=
  lookupLabel (uniqueNodeMapping ws ord all) (nodeLabelMapping ws ord all nodeSyms) p

/-- `ground`: the (rounded) start of the single ground symbol, or the first unique node -/
def groundPoint (ws : List (P × P)) (ord : SetOrd P) (all : List P) (groundSyms : List P) : Except Err P :=
  match groundSyms with
  | _ :: _ :: _ => throw Err.multipleGrounds
  | [g] => pure g
  | [] =>
    match ord.uniq (uniqueNodes ws ord all) with
    | [] => throw Err.keyError          -- IndexError: list index out of range
    | p :: _ => pure p

end Parser

/-! ## symbols as the parser and the translators see them -/

/-- one element of `drawing.elements` -/
structure Sym where
  /-- name of `type(e)` inside `Elements` (the key of `circuit_translator_map`) -/
  cls : String
  /-- `e.name` -/
  name : String := ""
  /-- `e.is_reverse` -/
  rev : Bool := false
  /-- `e.node_id` (node symbols) -/
  nodeId : String := ""
  /-- the property values the translators read (`V`, `I`, `R`, `Z`, `w`, `phi`, `deg`, `state` …) -/
  attrs : List (String × Val) := []
  /-- raw `absanchors['start']`, `absanchors['end']` -/
  start : Pt
  stop : Pt
deriving Repr, DecidableEq, Inhabited

def classInfo (cls : String) : Option ElemClass := Gen.elemClasses.find? (·.cls = cls)

def isA (cls base : String) : Bool :=
  cls = base || (match classInfo cls with | some c => base ∈ c.ancestors | none => false)

/-- `hasattr(e, 'name')` -/
def Sym.hasName (s : Sym) : Bool := match classInfo s.cls with | some c => c.named | none => false
/-- `type(e) is elm.Line` -/
def Sym.isLine (s : Sym) : Bool := s.cls = "Line"
/-- `isinstance(e, elm.Node)` -/
def Sym.isNode (s : Sym) : Bool := isA s.cls "Node"
/-- `isinstance(e, elm.Ground)` -/
def Sym.isGround (s : Sym) : Bool := isA s.cls "Ground"

def Sym.n1 (s : Sym) : Pt := roundPt s.start
def Sym.n2 (s : Sym) : Pt := roundPt s.stop

/-- `line_elements` as rounded end-point pairs -/
def wiresOf (syms : List Sym) : List (Pt × Pt) := (syms.filter (·.isLine)).map fun s => (s.n1, s.n2)

/-- `all_nodes` (as a duplicate-free list; its order is immaterial, `ord.all` re-orders it) -/
def allNodes (syms : List Sym) : List Pt :=
  let ce := syms.filter (·.hasName)
  let le := syms.filter (·.isLine)
  toSet (ce.map (·.n1) ++ ce.map (·.n2) ++ le.map (·.n1) ++ le.map (·.n2))

def nodeSymsOf (syms : List Sym) : List (Pt × String) := (syms.filter (·.isNode)).map fun s => (s.n1, s.nodeId)
def groundSymsOf (syms : List Sym) : List Pt := ((syms.filter (·.isNode)).filter (·.isGround)).map (·.n1)

/-- `get_element(name)`: the first circuit element of that name (`UnknownElement` ↦ `keyError`) -/
def getElement (syms : List Sym) (name : String) : Except Err Sym :=
  match (syms.filter (·.hasName)).filter (fun e => e.name = name) with
  | [] => throw Err.keyError
  | e :: _ => pure e

/-- `parser._get_node_index` on a drawing -/
def labelOf (ord : SetOrd Pt) (syms : List Sym) (p : Pt) : Except Err String :=
  getNodeIndex (wiresOf syms) ord (allNodes syms) (nodeSymsOf syms) p

/-- `parser.ground_label` -/
def groundLabel (ord : SetOrd Pt) (syms : List Sym) : Except Err String := do
  let g ← groundPoint (wiresOf syms) ord (allNodes syms) (groundSymsOf syms)
  labelOf ord syms g

/-! ## translators (interpreted from the generated tables) -/

structure Component where
  type : String
  id : String
  nodes : List String
  value : List (String × Val)
deriving Repr, DecidableEq, Inhabited

structure Circuit where
  components : List Component
  groundNode : String
deriving Repr, DecidableEq, Inhabited

def Sym.getAttr (s : Sym) (a : String) : Except Err Val :=
  match s.attrs.lookup a with
  | some v => pure v
  | none => throw Err.attributeError

def truthy : Val → Bool
  | .num z => z ≠ 0
  | .bool b => b
  | .str s => s ≠ ""
  | .inf => true
  | .none => false
  | .pt _ => true

/-- evaluation of a translator value expression on a symbol (`π` = the value of `math.pi`) -/
def evalV (π : Rat) (s : Sym) : VExpr → Except Err Val
  | .attr a => s.getAttr a
  | .re e => do
    match ← evalV π s e with
    | .num z => pure (.num ⟨z.re, 0⟩)
    | .bool b => pure (.num (if b then 1 else 0))
    | .inf => pure .inf
    | _ => throw Err.attributeError
  | .neg e => do
    match ← evalV π s e with
    | .num z => pure (.num (-z))
    | .bool b => pure (.num (if b then -1 else 0))
    | _ => throw Err.typeError
  | .ifNotRev t f => if !s.rev then evalV π s t else evalV π s f
  | .degConv a flag => do
    let fl ← s.getAttr flag
    let v ← s.getAttr a
    if truthy fl then
      match v with
      | .num z => pure (.num (z * ⟨π, 0⟩ / 180))
      | _ => throw Err.typeError
    else pure v
  | .lit r => pure (.num ⟨r, 0⟩)
  | .inf => pure .inf
  | .str t => pure (.str t)

/-- `x < 0` on a Python number -/
def valNeg : Val → Except Err Bool
  | .num z => if z.im ≠ 0 then throw Err.typeError else pure (decide (z.re < 0))
  | .bool _ => pure false
  | .inf => pure false
  | _ => throw Err.typeError

/-- `x <= 0` on a Python number -/
def valNonPos : Val → Except Err Bool
  | .num z => if z.im ≠ 0 then throw Err.typeError else pure (decide (z.re ≤ 0))
  | .bool b => pure (!b)
  | .inf => pure false
  | _ => throw Err.typeError

def evalC (env : List (String × Val)) : CExpr → Except Err Val
  | .param p => match env.lookup p with | some v => pure v | none => throw (Err.other "unbound parameter")
  | .re p => match env.lookup p with
    | some (.num z) => pure (.num ⟨z.re, 0⟩)
    | some .inf => pure .inf
    | some (.bool b) => pure (.num (if b then 1 else 0))
    | _ => throw Err.attributeError
  | .im p => match env.lookup p with
    | some (.num z) => pure (.num ⟨z.im, 0⟩)
    | some .inf => pure (.num 0)
    | some (.bool _) => pure (.num 0)
    | _ => throw Err.attributeError
  | .lit r => pure (.num ⟨r, 0⟩)

/-- binding, guards and value dictionary of a component constructor -/
def ctorValue (c : CtorSpec) (args : List (String × Val)) : Except Err (List (String × Val)) := do
  if args.any (fun kv => (c.params.lookup kv.1).isNone) then throw Err.typeError
  let env ← c.params.mapM fun (pd : String × Option Rat) =>
    match args.lookup pd.1, pd.2 with
    | some v, _ => pure (pd.1, v)
    | none, some d => pure (pd.1, Val.num ⟨d, 0⟩)
    | none, none => throw Err.typeError
  for g in c.guards do
    match env.lookup g with
    | some v => if ← valNeg v then throw Err.valueError
    | none => throw (Err.other "guard on an unbound parameter")
  for g in c.guardsLE do
    match env.lookup g with
    | some v => if ← valNonPos v then throw Err.valueError
    | none => throw (Err.other "guard on an unbound parameter")
  for p in c.wavetypeChecks do
    match env.lookup p with
    | some (.str s) => if s ∈ Gen.knownWavetypes then pure () else throw (Err.other "UnknownWavetype")
    | _ => throw (Err.other "UnknownWavetype")
  c.values.mapM fun (kv : String × CExpr) => do pure (kv.1, ← evalC env kv.2)

/-- a component constructor of Circuit/components.py applied to keyword arguments: argument
binding, guards and the value dictionary (`ctorValue`), then the `Component` record -/
def applyCtor (c : CtorSpec) (id : String) (nodes : List String) (args : List (String × Val)) :
    Except Err Component :=
  (ctorValue c args).map fun value => { type := c.kind, id := id, nodes := nodes, value := value }

def nodeTuple (spec : NodeSpec) (rev : Bool) (nodes : List String) : Except Err (List String) :=
  match spec, nodes with
  | .pair, a :: b :: _ => pure [a, b]
  | .pairSwapIfRev, a :: b :: _ => pure (if rev then [b, a] else [a, b])
  | .single, a :: _ => pure [a]
  | _, _ => throw Err.keyError          -- IndexError inside the translator

def runCase (π : Rat) (s : Sym) (nodes : List String) (c : TrCase) : Except Err (Option Component) :=
  match c.ctor with
  | none => pure none
  | some cn => do
    let ns ← nodeTuple c.nodes s.rev nodes
    let args ← c.args.mapM fun (kv : String × VExpr) => do pure (kv.1, ← evalV π s kv.2)
    match Gen.ctors.find? (·.name = cn) with
    | none => throw (Err.other "constructor missing from the generated table")
    | some spec => some <$> applyCtor spec s.name ns args

def runCases (π : Rat) (s : Sym) (nodes : List String) : List TrCase → Except Err (Option Component)
  | [] => pure none
  | c :: cs =>
    match c.guard with
    | none => runCase π s nodes c
    | some (a, m) => do
      let v ← s.getAttr a
      if v = .str m then runCase π s nodes c else runCases π s nodes cs

/-- the translator of the symbol's class applied to given terminal names -/
def compOfSym (π : Rat) (s : Sym) (nodes : List String) : Except Err (Option Component) :=
  match Gen.translatorMap.lookup s.cls with
  | none => throw Err.unknownKind
  | some f =>
    match Gen.translators.lookup f with
    | none => throw (Err.other "translator missing from the generated table")
    | some cases => runCases π s nodes cases

/-- `except KeyError: raise UnknownTranslator` -/
def remapKE {α : Type} : Except Err α → Except Err α
  | .error Err.keyError => .error Err.unknownKind
  | r => r

/-- `DiagramTranslator.__call__`: table lookup by exact class; a `KeyError` anywhere inside
(node lookup or translator) is reported as `UnknownTranslator` (`Err.unknownKind`) -/
def translateSym (π : Rat) (label : Pt → Except Err String) (s : Sym) : Except Err (Option Component) :=
  match Gen.translatorMap.lookup s.cls with
  | none => throw Err.unknownKind
  | some _ => remapKE (do
      let nodes ← [s.n1, s.n2].mapM label
      compOfSym π s nodes)

/-- `Circuit.__post_init__` -/
def mkCircuit (cs : List Component) : Except Err Circuit :=
  match cs with
  | [] => pure ⟨[], ""⟩
  | c0 :: _ =>
    let gs := (cs.filter (·.type = "ground")).map fun c => c.nodes.headD ""
    match gs with
    | _ :: _ :: _ => throw Err.multipleGrounds
    | _ =>
      let gn := match gs with | g :: _ => g | [] => c0.nodes.headD ""
      if (toSet (cs.map (·.id))).length ≠ cs.length then throw Err.ambiguousIds
      else pure ⟨cs, gn⟩

/-- `circuit_translator(schematic)` -/
def circuitTranslator (π : Rat) (ord : SetOrd Pt) (syms : List Sym) : Except Err Circuit := do
  let umap := uniqueNodeMapping (wiresOf syms) ord (allNodes syms)
  let labels := nodeLabelMapping (wiresOf syms) ord (allNodes syms) (nodeSymsOf syms)
  let cs ← syms.mapM (translateSym π (lookupLabel umap labels))
  mkCircuit (cs.filterMap id)

end CC.Draw
