/-
  CC.Model.DrawIO — hand-written model of
    src/CircuitCalculator/SimpleCircuit/Elements.py     symbol constructors (through the
                                                        generated class table), the
                                                        `simple_circuit_element` decorator
    src/CircuitCalculator/SimpleCircuit/dump_load.py    dictify_element / undictify_element /
                                                        dictify_all / undictify_schematic
    src/CircuitCalculator/SimpleSimulation/schematic.py element_handlers, element_factory,
                                                        apply_direction_and_length, apply_position
  Mathlib-free.  schemdraw's geometry (anchors of a placed element) and `json` / `yaml` are
  parameters: a drawing element carries its `start` / `end` anchors, which `save` stores and
  `load` restores verbatim (`element.absanchors = …`).
-/
import CC.Model.Draw
namespace CC.Draw

/-! ## symbol constructors -/

/-- a constructed symbol, as far as circuit translation can observe it -/
structure SymObj where
  cls : String
  name : String
  rev : Bool
  nodeId : String
  attrs : List (String × Val)
deriving Repr, DecidableEq, Inhabited

def lookupD (m : List (String × Val)) (k : String) (d : Val) : Val := (m.lookup k).getD d

def negVal : Val → Except Err Val
  | .num z => pure (.num (-z))
  | .bool b => pure (.num (if b then -1 else 0))
  | _ => throw Err.typeError

/-- the class itself followed by its ancestors inside Elements.py -/
def classChain (c : ElemClass) : List ElemClass := c :: c.ancestors.filterMap classInfo

/-- bind the named parameters of one class of the chain: keyword, else default, else `TypeError` -/
def bindParams (c : ElemClass) (kwargs : List (String × Val)) : Except Err (List (String × Val)) :=
  c.params.foldlM (fun env (p : String × Bool × Option Val) =>
    match kwargs.lookup p.1, p.2.2 with
    | some v, _ => pure (dictSet p.1 v env)
    | none, some d => pure (dictSet p.1 d env)
    | none, none => throw Err.typeError) kwargs

def evalF (env : List (String × Val)) (rev : Bool) : FExpr → Except Err (Option Val)
  | .param p => pure (env.lookup p)
  | .negIfRev p =>
    match env.lookup p with
    | some v => if rev then some <$> negVal v else pure (some v)
    | none => pure none
  | .other _ => pure none

def evalP (fields : List (String × Val)) : PExpr → Option Val
  | .field f => fields.lookup f
  | .inv f => match fields.lookup f with
    | some (.num z) => if z = 0 then none else some (.num (1 / z))
    | _ => none
  | .str s => some (.str s)
  | .bool b => some (.bool b)
  | .other _ => none

/-- `Class(**kwargs)`.  `π` is `numpy.pi`. -/
def construct (π : Rat) (cls : String) (kwargs : List (String × Val)) : Except Err SymObj := do
  let c ← match classInfo cls with
    | some c => pure c
    | none => throw Err.unknownKind
  -- parameters of the class and of its ancestors (each level fills its own defaults first)
  let env ← (classChain c).foldlM (fun env k => bindParams k env) kwargs
  -- the `reverse` the class body sees is its own parameter (default False)
  let revParam := truthy (lookupD env "reverse" (.bool false))
  let fields ← (classChain c).reverse.foldlM (fun acc k =>
      k.fields.foldlM (fun acc (fe : String × FExpr) => do
        match ← evalF env revParam fe.2 with
        | some v => pure (dictSet fe.1 v acc)
        | none => pure acc) acc) ([] : List (String × Val))
  let fields ← (classChain c).foldlM (fun acc k =>
      match k.sinShift with
      | some (flag, fld, degAlt) =>
        if truthy (lookupD acc flag (.bool false)) then
          -- `np.pi/2`, or `n if <param> else np.pi/2`
          let amount : Rat := match degAlt with
            | some (p, n) => if truthy (lookupD env p (.bool false)) then n else π / 2
            | none => π / 2
          match acc.lookup fld with
          | some (.num z) => pure (dictSet fld (.num (z - ⟨amount, 0⟩)) acc)
          | _ => throw Err.typeError
        else pure acc
      | none => pure acc) fields
  let props := (classChain c).reverse.foldl (fun acc k =>
      k.props.foldl (fun acc (pe : String × PExpr) =>
        match evalP fields pe.2 with
        | some v => dictSet pe.1 v acc
        | none => acc.filter (·.1 ≠ pe.1)) acc) ([] : List (String × Val))
  -- plain (non-underscore) instance attributes are readable as well
  let attrs := fields.foldl (fun acc (fv : String × Val) =>
      if fv.1.startsWith "_" then acc else dictSet fv.1 fv.2 acc) props
  -- `simple_circuit_element`: name / reverse come from the keyword arguments of the
  -- decorated class (for derived classes: the ones their `super().__init__` forwards)
  let nameKw := match lookupD env "name" (.str "") with | .str s => s | _ => ""
  let name := match props.lookup "name" with | some (.str s) => s | _ => nameKw
  let rev := match props.lookup "is_reverse" with
    | some (.bool b) => b
    | _ => truthy (lookupD kwargs "reverse" (.bool false))
  let nodeId := match attrs.lookup "node_id" with | some (.str s) => s | _ => ""
  if !c.named then throw Err.attributeError
  pure { cls := cls, name := name, rev := rev, nodeId := nodeId,
         attrs := attrs.filter fun kv => kv.1 ≠ "name" ∧ kv.1 ≠ "is_reverse" ∧ kv.1 ≠ "type" ∧ kv.1 ≠ "node_id" }

/-! ## drawings, save and load -/

/-- an element of a drawing: the constructor call that made it and where schemdraw put it -/
structure DElem where
  cls : String
  kwargs : List (String × Val)
  start : Pt
  stop : Pt
deriving Repr, DecidableEq, Inhabited

def DElem.toSym (π : Rat) (d : DElem) : Except Err Sym := do
  let e ← construct π d.cls d.kwargs
  pure { cls := d.cls, name := e.name, rev := e.rev, nodeId := e.nodeId, attrs := e.attrs,
         start := d.start, stop := d.stop }

def instantiate (π : Rat) (d : List DElem) : Except Err (List Sym) := d.mapM (DElem.toSym π)

/-- what `dictify_element` stores (circuit-relevant part) -/
structure SavedElem where
  typ : String
  name : String
  rev : Bool
  userparams : List (String × Val)
  start : Pt
  stop : Pt
deriving Repr, DecidableEq, Inhabited

/-- `serialize_schemdraw_element` on one user parameter: complex numbers (and every other
type without a serialiser) become `None` -/
def serializeVal : Val → Val
  | .num z => if z.im ≠ 0 then .none else .num z
  | .inf => .inf
  | v => v

/-- `element._userparams`: the non-`None` keyword arguments of the outermost call, updated
with what the class forwards to schemdraw's `Element.__init__` (its named parameters are
consumed, `reverse` is forwarded as written in the class) -/
def userParams (c : ElemClass) (kwargs : List (String × Val)) : List (String × Val) :=
  let kw := kwargs.filter (·.2 ≠ .none)
  let rev := truthy (lookupD kwargs "reverse" (.bool false))
  if c.revForward = "not reverse" then dictSet "reverse" (.bool (!rev)) kw
  else if c.revForward = "reverse" then dictSet "reverse" (.bool rev) kw
  else kw

def dictifyElement (π : Rat) (d : DElem) : Except Err SavedElem := do
  let e ← construct π d.cls d.kwargs
  let c ← match classInfo d.cls with | some c => pure c | none => throw Err.unknownKind
  pure { typ := c.typ, name := e.name, rev := e.rev,
         userparams := (userParams c d.kwargs).map fun kv => (kv.1, serializeVal kv.2),
         start := d.start, stop := d.stop }

/-- `kwargs.update(m)` -/
def dictUpdate (kw m : List (String × Val)) : List (String × Val) :=
  m.foldl (fun acc kv => dictSet kv.1 kv.2 acc) kw

/-- `combine_to_complex((re, im), z, kv)` -/
def combineToComplex (reK imK zK : String) (kw : List (String × Val)) : Except Err (List (String × Val)) := do
  let part (k : String) : Except Err Rat :=
    match kw.lookup k with
    | none => pure 0
    | some (.num z) => if z.im ≠ 0 then throw Err.typeError else pure z.re
    | some (.bool b) => pure (if b then 1 else 0)
    | some _ => throw Err.typeError
  let re ← part reK
  let im ← part imK
  pure (dictSet zK (.num ⟨re, im⟩) ((kw.filter (·.1 ≠ reK)).filter (·.1 ≠ imK)))

/-- keyword arguments with which `undictify_element` re-creates an element, and the class -/
def undictifyKwargs (circ : List (String × List (String × Val))) (s : SavedElem) :
    Except Err (String × List (String × Val)) := do
  let kw := s.userparams
  let kw := dictSet "name" (.str s.name) kw
  let kw := dictSet "reverse" (.bool s.rev) kw
  -- `{c['id']: c['value'] …}`: the last component with that id wins
  let kw := match (circ.reverse).lookup s.name with
    | some vals =>
      let kw := dictUpdate kw vals
      -- `if 'phi' in circuit_dict[name]: kwargs.update({'deg': False, 'sin': False})` (when the code has it)
      if Gen.undictifySteps.contains "clear_flags_if_phi" && (vals.lookup "phi").isSome then
        dictSet "sin" (.bool false) (dictSet "deg" (.bool false) kw)
      else kw
    | none => kw
  match Gen.loaderTypes.find? (·.typ = s.typ) with
  | none => pure ("Element", kw)
  | some lt =>
    match lt.combine with
    | none => pure (lt.cls, kw)
    | some (reK, imK, zK) => do pure (lt.cls, ← combineToComplex reK imK zK kw)

def undictifyDElem (circ : List (String × List (String × Val))) (s : SavedElem) : Except Err DElem := do
  let (cls, kw) ← undictifyKwargs circ s
  pure { cls := cls, kwargs := kw, start := s.start, stop := s.stop }

/-- `undictify_element`: the re-created symbol with its anchors restored -/
def undictifyElement (π : Rat) (circ : List (String × List (String × Val))) (s : SavedElem) : Except Err Sym := do
  (← undictifyDElem circ s).toSym π

/-- `dictify_all` followed by `undictify_schematic` (json / yaml in between are the identity
on the stored tree) -/
def saveLoad (π : Rat) (ord : SetOrd Pt) (d : List DElem) : Except Err (List DElem) := do
  let syms ← instantiate π d
  let c ← circuitTranslator π ord syms
  let saved ← d.mapM (dictifyElement π)
  let circ := c.components.map fun k => (k.id, k.value)
  saved.mapM (undictifyDElem circ)

/-- `n` save/load cycles -/
def cycles (π : Rat) (ord : SetOrd Pt) : Nat → List DElem → Except Err (List DElem)
  | 0, d => pure d
  | n + 1, d => do cycles π ord n (← saveLoad π ord d)

/-- the circuit a drawing translates to -/
def circuitOf (π : Rat) (ord : SetOrd Pt) (d : List DElem) : Except Err Circuit := do
  circuitTranslator π ord (← instantiate π d)

/-! ## declarative descriptions (SimpleSimulation/schematic.py) -/

/-- what `fill` does with one description: construct `cls(**kwargs)`, call the direction
method with `length*unit` (or none), place it at the `end` anchor of an earlier element -/
structure Placement where
  cls : String
  kwargs : List (String × Val)
  /-- `"right" | "left" | "up" | "down"` or `""` (no call) -/
  method : String
  /-- `length*unit`, passed to the method unless `plain` -/
  length : Rat
  /-- one-terminal symbol: the method is called without a length -/
  plain : Bool := false
  /-- index (in the drawing so far) of the element named by `place_after` -/
  after : Option Nat
deriving Repr, DecidableEq, Inhabited

/-- the class derives from schemdraw's plain `Element` (not `Element2Term`): its direction
methods take no length argument (a fact about schemdraw, a parameter of the model) -/
def oneTerminal (cls : String) : Bool :=
  match classInfo cls with
  | some c => c.extBases.contains "schemdraw.elements.Element"
  | none => false

/-- `transform_to_schematic_element` + `apply_direction_and_length` + `apply_position` for a
list of descriptions.  Note that `element_factory` receives the *whole* description
(`type`, `direction`, `length`, `place_after` included) as keyword arguments. -/
def declarative (π : Rat) (unit : Rat) (elems : List (List (String × Val))) : Except Err (List Placement) := do
  let res ← elems.foldlM (fun (acc : List Placement × List String) e => do
    let typ ← match e.lookup "type" with
      | some (.str t) => pure t
      | some _ => throw Err.unknownKind
      | none => throw (Err.other "MissingArgument")
    let h ← match Gen.declHandlers.find? (·.typ = typ) with
      | some h => pure h
      | none => throw Err.unknownKind
    let cls := match h.clsIfName with
      | some c => if (e.lookup "name").isSome then c else h.cls
      | none => h.cls
    -- element_factory(element, name='', reverse=False, **kwargs): element(name=name, reverse=reverse, **kwargs)
    let kw := Gen.declFactoryDefaults.foldl (fun kw d => if (kw.lookup d.1).isSome then kw else kw ++ [d]) e
    -- a TypeError of the constructor call is reported as MissingArgument
    let obj ← match construct π cls kw with
      | .ok o => pure o
      | .error Err.typeError => throw (Err.other "MissingArgument")
      | .error err => throw err
    let dir := match e.lookup "direction" with | some (.str d) => d | _ => ""
    let len := match e.lookup "length" with | some (.num z) => z.re | _ => 1
    let method := (Gen.declDirections.lookup dir).getD ""
    -- `element.right(length*unit)`: schemdraw's one-terminal `Element.right()` takes no length
    -- (before the repair: TypeError; now the method is called without a length)
    if method ≠ "" ∧ oneTerminal cls ∧ Gen.declOneTerminalPlain = false then throw Err.typeError
    let after ← match e.lookup "place_after" with
      | none | some .none => pure none
      | some (.str l) =>
        match acc.2.findIdx? (· = l) with
        | some i => pure (some i)
        | none => throw Err.valueError
      | some _ => throw Err.valueError
    pure (acc.1 ++ [{ cls := cls, kwargs := kw, method := method, length := len * unit, plain := oneTerminal cls, after := after }],
          acc.2 ++ [obj.name])) (([] : List Placement), ([] : List String))
  pure res.1

end CC.Draw
