/-
  CC.Model.CircuitBase — the data types that the *generated* files of group Circuit
  (CC/Gen/CircuitTables.lean, Components.lean, Transform.lean) are written in, and the
  component record of `Circuit/components.py`.

  Nothing here computes: it is the small syntax in which `harness/extract_circuit.py`
  describes what it read in /repo/src.  The meaning of that syntax (one interpreter, written
  once) is in CC/Model/Circuit.lean.  Mathlib-free.
-/
import CC.Model.Net
namespace CC

/-- a value stored in a component's value dictionary -/
inductive Val where
  | num (q : Rat)
  | str (s : String)
  | cplx (re im : Rat)
  /-- `float('inf')`: the only non-finite value the code base itself produces (an open switch is
  `resistor(R=inf)`, SimpleCircuit/CircuitComponentTranslators.py:165) -/
  | inf
deriving DecidableEq, Repr

/-- `Circuit/components.py: Component` (frozen dataclass): type, id, nodes, value -/
structure Component where
  kind : String
  id : String
  nodes : List String
  value : List (String × Val)
deriving DecidableEq, Repr

/-! ### constructors of `Circuit/components.py` (Gen/Components.lean) -/

/-- annotated parameter type -/
inductive PTy where
  | real | cplx | str
deriving DecidableEq, Repr

/-- a right-hand side inside the `value={…}` literal of a constructor -/
inductive VE where
  | param (p : String)      -- `p`
  | re (p : String)         -- `p.real`
  | im (p : String)         -- `p.imag`
  | lit (q : Rat)           -- a numeric literal
deriving DecidableEq, Repr

inductive Cmp where
  | lt | le | gt | ge | eq | ne
deriving DecidableEq, Repr

def Cmp.holds (c : Cmp) (a b : Rat) : Bool :=
  match c with
  | .lt => decide (a < b) | .le => decide (a ≤ b) | .gt => decide (b < a)
  | .ge => decide (b ≤ a) | .eq => decide (a = b) | .ne => decide (a ≠ b)

/-- `if <param> <cmp> <bound>: raise <exc>(…)` -/
structure Guard where
  param : String
  cmp : Cmp
  bound : Rat
  exc : String
deriving DecidableEq, Repr

/-- one constructor function -/
structure CtorSpec where
  fn : String                                   -- Python function name
  kind : String                                 -- the `type=` string it writes
  idDefault : Option String                     -- default of parameter `id`
  nodesDefault : Option (List String)           -- default of parameter `nodes`
  params : List (String × PTy × Option Val)     -- remaining parameters: name, annotation, default
  guards : List Guard                           -- in source order
  values : List (String × VE)                   -- the value dictionary it writes, in source order
  /-- `periodic_function(<param>)` calls between the guards and the `return`: parameter and the
  wavetype strings the lookup knows (it raises `UnknownWavetype` for anything else) -/
  waveChecks : List (String × List String) := []
deriving DecidableEq, Repr

/-! ### translators of `Circuit/transformers.py` (Gen/Transform.lean) -/

/-- real-valued expression of a translator body -/
inductive RE where
  | key (k : String)          -- `float(c.value[k])`
  | w                         -- the analysis frequency
  | wres                      -- `w_resolution`
  | lit (q : Rat)
  | add (a b : RE) | sub (a b : RE) | mul (a b : RE) | div (a b : RE) | neg (a : RE)
deriving DecidableEq, Repr

/-- complex-valued expression -/
inductive CE where
  | cart (re im : RE)         -- `complex(a, b)`, `impedance_value(R=a, X=b)`, `admittance_value(G=a, B=b)`
  | polar (x phi : RE)        -- `elm.complex_value(x, phi)`
  | ofReal (x : RE)           -- a float passed where a complex is expected
deriving DecidableEq, Repr

/-- a call of a factory of `Network/elements.py` -/
inductive EE where
  | resistor (R : RE)
  | conductor (G : RE)
  | impedance (Z : CE)
  | admittance (Y : CE)
  | voltageSource (V Z : CE)
  | currentSource (I Y : CE)
  | shortCircuit
  | openCircuit
  | load (P Vref : RE)        -- `elm.load(id, P, V_ref)`
deriving DecidableEq, Repr

/-- argument handed to the single-frequency constructor inside a periodic translator -/
inductive HArg where
  | w            -- the analysis frequency
  | harmAmp      -- `frequency_properties.amplitude(n)`
  | harmPhase    -- `frequency_properties.phase(n)`
  | key (k : String)   -- `float(source.value[k])` (read only when the source is active)
deriving DecidableEq, Repr

inductive TBody where
  /-- `return Branch(n1, n2, e)` -/
  | plain (e : EE)
  /-- `element = e; if np.abs(w - ws) <cmp> w_resolution: element = off` -/
  | gated (e : EE) (ws : RE) (cmp : Cmp) (off : EE)
  /-- periodic source: `n = np.round(w/w0); delta = np.abs(w/w0 - n);
      if delta <cmp> w_resolution/w0: return Branch(off)`, otherwise build a single-frequency
      component with constructor `ctor` and hand it to translator `inner` -/
  | periodic (waveKey w0Key ampKey phiKey : String) (cmp : Cmp) (off : EE)
      (ctor : String) (ctorArgs : List (String × HArg)) (inner : String)
deriving DecidableEq, Repr

structure TSpec where
  fn : String               -- Python function name
  reads : List String       -- value keys in the order the body reads them
  n1 : Nat                  -- index into `nodes` of the branch's first terminal
  n2 : Nat                  -- … second terminal
  idSelf : Bool             -- the element is named after the component's own id
  body : TBody
deriving DecidableEq, Repr

/-- keys read by a real expression -/
def RE.keys : RE → List String
  | .key k => [k]
  | .w | .wres | .lit _ => []
  | .add a b | .sub a b | .mul a b | .div a b => a.keys ++ b.keys
  | .neg a => a.keys

def CE.keys : CE → List String
  | .cart a b | .polar a b => a.keys ++ b.keys
  | .ofReal a => a.keys

def EE.keys : EE → List String
  | .resistor r | .conductor r => r.keys
  | .impedance z | .admittance z => z.keys
  | .voltageSource a b | .currentSource a b => a.keys ++ b.keys
  | .shortCircuit | .openCircuit => []
  | .load p v => p.keys ++ v.keys

end CC
