/-
  CC.Model.DrawTypes — record types shared by the generated tables (CC/Gen/DrawTables.lean,
  written by harness/extract_draw.py from the Python AST) and the hand-written drawing model
  (CC/Model/Draw.lean, CC/Model/DrawIO.lean).  Mathlib-free.
-/
import CC.Num
import CC.Model.Net
namespace CC.Draw

/-- a drawing coordinate pair (`schemdraw.util.Point`), exact rationals of the binary64 values -/
structure Pt where
  x : Rat
  y : Rat
deriving DecidableEq, Repr, Inhabited

/-- Python values that occur as symbol attributes / keyword arguments / component values -/
inductive Val where
  | num (z : GQ)          -- int, float, complex
  | bool (b : Bool)
  | str (s : String)
  | inf                   -- math.inf
  | none                  -- Python None (a non-serialisable user parameter is saved as None)
  | pt (p : Pt)           -- a Point-valued user parameter (`at`, `drop`, …)
deriving DecidableEq, Repr, Inhabited

/-- value expressions of the per-symbol translators (CircuitComponentTranslators.py) -/
inductive VExpr where
  | attr (a : String)               -- element.a
  | re (e : VExpr)                  -- e.real
  | neg (e : VExpr)                 -- -e
  | ifNotRev (t f : VExpr)          -- t if not element.is_reverse else f
  | degConv (a flag : String)       -- element.a*pi/180 if element.flag else element.a
  | lit (r : Rat)
  | inf
  | str (s : String)
deriving DecidableEq, Repr, Inhabited

/-- which node tuple a translator passes on -/
inductive NodeSpec where
  | pair              -- (nodes[0], nodes[1])
  | pairSwapIfRev     -- (nodes[0], nodes[1]) if not element.is_reverse else (nodes[1], nodes[0])
  | single            -- (nodes[0],)
deriving DecidableEq, Repr, Inhabited

/-- one guarded `return` of a translator -/
structure TrCase where
  /-- `if element.<attr> == element.<attr>.<MEMBER>:`; `none` = unconditional -/
  guard : Option (String × String)
  /-- `ccp.<ctor>(…)`; `none` = `return None` -/
  ctor : Option String
  nodes : NodeSpec
  /-- keyword arguments besides `id=element.name` and `nodes=` -/
  args : List (String × VExpr)
deriving DecidableEq, Repr, Inhabited

/-- value-dictionary entries of a component constructor (Circuit/components.py) -/
inductive CExpr where
  | param (p : String)
  | re (p : String)
  | im (p : String)
  | lit (r : Rat)
deriving DecidableEq, Repr, Inhabited

structure CtorSpec where
  name : String
  kind : String
  /-- parameters after `id`, `nodes`, with their numeric defaults -/
  params : List (String × Option Rat)
  /-- parameters `p` with `if p < 0: raise ValueError` -/
  guards : List String
  /-- parameters `p` with `if p <= 0: raise ValueError` (checked after the `< 0` guards) -/
  guardsLE : List String
  /-- parameters `p` validated by `periodic_function(p)` (after the guards) -/
  wavetypeChecks : List String
  values : List (String × CExpr)
deriving DecidableEq, Repr, Inhabited

/-- right-hand sides of `self._x = …` in the symbol constructors (Elements.py) -/
inductive FExpr where
  | param (p : String)
  | negIfRev (p : String)         -- p if not reverse else -p
  | other (src : String)
deriving DecidableEq, Repr, Inhabited

/-- bodies of the property getters of the symbol classes -/
inductive PExpr where
  | field (f : String)
  | inv (f : String)              -- 1/self.f
  | str (s : String)
  | bool (b : Bool)
  | other (src : String)
deriving DecidableEq, Repr, Inhabited

structure ElemClass where
  cls : String
  /-- string returned by the `type` property ("" when the class defines none) -/
  typ : String
  /-- carries `name` / `is_reverse` (decorated with `simple_circuit_element` or derived from such a class) -/
  named : Bool
  /-- base classes inside Elements.py, transitively (for `isinstance`) -/
  ancestors : List String
  /-- base classes outside Elements.py (schemdraw's), own and inherited -/
  extBases : List String
  decorators : List String
  /-- constructor parameters: name, keyword-only?, default -/
  params : List (String × Bool × Option Val)
  fields : List (String × FExpr)
  /-- `if self.<flag>: self.<field> -= np.pi/2`, or with the third component `(p, n)`:
  `self.<field> -= n if p else np.pi/2` (`p` a constructor parameter) -/
  sinShift : Option (String × String × Option (String × Rat))
  /-- the expression forwarded as schemdraw's own `reverse=` (geometry only) -/
  revForward : String
  props : List (String × PExpr)
deriving DecidableEq, Repr, Inhabited

/-- entry of `SimpleCircuit.dump_load.simple_circuit_element_types` -/
structure LoaderType where
  typ : String
  cls : String
  /-- `combine_to_complex((re, im), z, kwargs)` -/
  combine : Option (String × String × String)
deriving DecidableEq, Repr, Inhabited

/-- entry of `SimpleSimulation.schematic.element_handlers` -/
structure DeclHandler where
  typ : String
  cls : String
  /-- class used instead when the description carries a `name` key (the `line` entry) -/
  clsIfName : Option String
deriving DecidableEq, Repr, Inhabited

end CC.Draw
