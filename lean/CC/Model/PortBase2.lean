/-
  CC.Model.PortBase2 — the Python idioms the generated model of `open_circuit_voltage` /
  `short_circuit_current` (Network/NodalAnalysis/bias_point_analysis.py → CC/Gen/Port.lean, written by
  harness/extract_port.py on every run) uses besides those of CoreBase / TransformersBase / PortBase.
  Mathlib-free.  Trusted reading of two constructs: the run-time class of a returned number, and
  the true division `V / Z` of such a number by the value of `open_circuit_impedance`.
-/
import CC.Model.PortBase
namespace CC.Py

variable {K : Type}

/-- a number a translated function returns, with its run-time class — the class decides what a
division by zero does.  `pyInt`: the value of an integer LITERAL in a `return` statement
(`return 0`).  `npy`: the value of any other returned expression; in the translated function that
is a difference of two `get_potential` results, a numpy scalar unless both are the literal `0`
of the reference node (both port nodes the reference node, a case the function has left through
`if node1 == node2: return 0` before — this is the translator's reading, not checked). -/
inductive Scalar (K : Type) where
  | pyInt (z : K)
  | npy (z : K)

def Scalar.val : Scalar K → K
  | .pyInt z => z
  | .npy z => z

/-- `V / Z` for a returned number `V` and the value `Z` of `open_circuit_impedance`:
`V / np.inf` is zero for every finite `V`; a non-zero finite `Z` divides; for `Z == 0` a Python
integer `V` raises `ZeroDivisionError` (the `Z` it meets in the translated code is the Python
integer `0` of the first early return; `XVal` does not record the class of `Z`), a numpy scalar
`V` gives `inf`/`nan` with a RuntimeWarning and no exception — reported as `Err.other "NonFinite"`,
as is a `nan` divisor. -/
def divScalar [Zero K] [Div K] [DecidableEq K] (V : Scalar K) (Z : XVal K) : Except Err K :=
  match Z with
  | .inf => .ok 0
  | .nan => .error (.other "NonFinite")
  | .fin z =>
    if z = 0 then
      match V with
      | .pyInt _ => .error .zeroDivision
      | .npy _ => .error (.other "NonFinite")
    else .ok (V.val / z)

end CC.Py
