/-
  CC.Model.FourierBase — the two numpy idioms the generated Fourier model (CC/Gen/Fourier.lean)
  is allowed to use besides field arithmetic.  Mathlib-free; generic over the number type.

  * `expj cos sin θ`   models `np.exp(1j*θ)` for a real `θ` (a complex number is a pair
    `(re, im)`), with `cos`/`sin` parameters of the model (libm is trusted, not modelled);
  * `rsmul r z`        models numpy's `float * complex`.

  Python's float `%` / `np.mod` is a parameter `fmod` of the generated time functions; it is
  instantiated with `x - y*⌊x/y⌋` (driver: `CC.Fourier.fmodQ` over `Rat`; theorems:
  `CC.Fourier.fmodR` over `ℝ`).
-/
namespace CC.Fourier

def expj {K : Type} (cos sin : K → K) (θ : K) : K × K := (cos θ, sin θ)

def rsmul {K : Type} [Mul K] (r : K) (z : K × K) : K × K := (r * z.1, r * z.2)

/-- Python's `x % y` on exact rationals (sign of the divisor; `y = 0` is an error in Python and
is never evaluated by the driver). -/
def fmodQ (x y : Rat) : Rat := x - y * ((x / y).floor : Rat)

end CC.Fourier
