/-
  CC.Model.TransformersBase — the Python idioms the generated model of
  Network/transformers.py (CC/Gen/Transformers.lean) may use besides those of
  CC/Model/CoreBase.lean.  Mathlib-free.  Each definition states the Python construct it
  stands for; together with CoreBase they are the trusted reading of the translator's grammar.

  Value semantics: a Python list is a Lean `List`; `list(x)` is `x`.  That a function does
  not write into the list of its caller is not expressed here — it is the subject of the
  effect summary of C20 (CC/Gen/Effects.lean), which covers transformers.py too.
-/
import CC.Model.CoreBase
namespace CC.Py

variable {L K : Type}

/-- an element object as Python sees it: `(name, type, record)`; two elements are `==`
(dataclass equality: same class and equal fields) iff the triples are equal -/
abbrev Elt (K : Type) := String × String × Elem K

/-- `branch.element` -/
def element (b : Branch L K) : Elt K := (b.id, b.ty, b.e)

/-- `Branch(node1, node2, element)` -/
def mkBranch (n1 n2 : L) (el : Elt K) : Branch L K :=
  { n1 := n1, n2 := n2, id := el.1, ty := el.2.1, e := el.2.2 }

/-- `l.remove(x)` on a local list: without the first element equal to `x`; `ValueError` if
there is none -/
def listRemove {α : Type} [DecidableEq α] (x : α) : List α → Except Err (List α)
  | [] => .error .valueError
  | a :: l => if a = x then .ok l else
      match listRemove x l with
      | .ok l' => .ok (a :: l')
      | .error e => .error e

/-- `l[k]` for an index `k ≥ 0` (a loop index of `range(…)`): `IndexError` iff `k ≥ len(l)`
(`Err.keyError` is the model's tag for KeyError / IndexError on a lookup) -/
def listIndex {α : Type} (l : List α) (k : Nat) : Except Err α :=
  match l[k]? with
  | some x => .ok x
  | none => .error .keyError

/-- `Network(branches, node_zero_label)`: the dataclass constructor, which runs
`__post_init__` (passed in: it is the generated `Gen.Core.Network.post_init`) -/
def construct (postInit : Net L K → Except Err Unit) (branches : List (Branch L K)) (zero : L) :
    Except Err (Net L K) :=
  match postInit ⟨branches, zero⟩ with
  | .ok _ => .ok ⟨branches, zero⟩
  | .error e => .error e

end CC.Py
