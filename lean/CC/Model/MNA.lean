/-
  CC.Model.MNA — hand-written model of
    Network/NodalAnalysis/node_analysis.py:11-79   (matrix and right-hand side, entry by entry)
    Network/NodalAnalysis/bias_point_analysis.py:11-55 (solution split, accessors)
    Network/NodalAnalysis/solution.py:34-40        (voltage, power)
  Mathlib-free.  `solve` is *not* modelled: the solution vector is an argument
  (certificate); theorems assume `A·x = b`, the driver checks that equation exactly.
-/
import CC.Model.Net
namespace CC

section
variable {L K : Type} [DecidableEq L] [LabelOrd L]
variable [Zero K] [One K] [Add K] [Mul K] [Neg K] [Sub K] [Inv K] [Div K] [DecidableEq K]

/-- `node_matrix_element(i, j)` on the network without ideal voltage sources
(node_analysis.py:21-25; `branches_connected_to`, `branches_between` of network.py).
A branch whose two terminals are the same node (self-loop) is skipped by
`admittance_connected_to` (node_analysis.py:12-13): it is electrically inert -/
def Net.Yentry (N : Net L K) (i j : L) : K :=
  if i = j then ((N.nonVS.filter (fun b => (b.n1 = i ∨ b.n2 = i) ∧ b.n1 ≠ b.n2)).map (·.e.Yfin)).sum
  else - ((N.nonVS.filter (fun b => (b.n1 = i ∧ b.n2 = j) ∨ (b.n1 = j ∧ b.n2 = i))).map (·.e.Yfin)).sum

/-- `voltage_source_direction(vs, node)` (node_analysis.py:34-36): +1 at the first terminal
minus 1 at the second one, so a self-loop source has direction 0 everywhere -/
def Branch.dir (b : Branch L K) (n : L) : K :=
  (if b.n1 = n then 1 else 0) - (if b.n2 = n then 1 else 0)

/-- entry of `source_incidence_matrix` (node_analysis.py:54-59): two guarded accumulating
writes into a zero matrix (`-= 1` at the first terminal, `+= 1` at the second one) -/
def Net.Qentry (N : Net L K) (b : Branch L K) (n : L) : K :=
  (if b.n2 = n ∧ b.n2 ≠ N.zero then 1 else 0) - (if b.n1 = n ∧ b.n1 ≠ N.zero then 1 else 0)

/-- branches in the order of an id list (`network[id]` for each key of an index map) -/
def Net.byIds (N : Net L K) (ids : List String) : List (Branch L K) :=
  ids.filterMap N.get?

def Net.vsSorted (N : Net L K) : List (Branch L K) := N.byIds N.vsIds
def Net.csSorted (N : Net L K) : List (Branch L K) := N.byIds N.csIds

/-- one entry of `current_source_incidence_vector` = `Q @ Is` -/
def Net.rhsNode (N : Net L K) (n : L) : K :=
  (N.csSorted.map (fun b => N.Qentry b n * b.e.Ival)).sum

/-- `nodal_analysis_coefficient_matrix` : `[[Y, B], [Bᵀ, 0]]` -/
def Net.mnaA (N : Net L K) : List (List K) :=
  (N.nodes.map fun i => (N.nodes.map fun j => N.Yentry i j) ++ (N.vsSorted.map fun b => b.dir i))
  ++ (N.vsSorted.map fun b => (N.nodes.map fun j => b.dir j) ++ (N.vsSorted.map fun _ => (0 : K)))

/-- `nodal_analysis_constants_vector` : `[Q·Is ; V]` -/
def Net.mnaB (N : Net L K) : List K :=
  (N.nodes.map fun n => N.rhsNode n) ++ (N.vsSorted.map fun b => b.e.Vval)

/-- everything `NodalAnalysisBiasPointSolution.__post_init__` does before `solve`,
with the exceptions it can raise -/
def Net.assemble (N : Net L K) : Except Err (List (List K) × List K) := do
  N.check
  pure (N.mnaA, N.mnaB)

/-! ### accessors -/

def dotL (r x : List K) : K := (List.zipWith (· * ·) r x).sum

def matVec (A : List (List K)) (x : List K) : List K := A.map (dotL · x)

/-- position of a label in an index list -/
def idxOf? {α : Type} [DecidableEq α] (a : α) : List α → Option Nat
  | [] => none
  | b :: l => if b = a then some 0 else (idxOf? a l).map (· + 1)

/-- `get_potential` (bias_point_analysis.py:27-30) -/
def Net.potential (N : Net L K) (x : List K) (n : L) : Except Err K :=
  if n = N.zero then .ok 0
  else match idxOf? n N.nodes with
    | some k => .ok (x.getD k 0)
    | none => .error .keyError

/-- `get_voltage` (solution.py:34-37) -/
def Net.voltage (N : Net L K) (x : List K) (id : String) : Except Err K :=
  match N.get? id with
  | none => .error .keyError
  | some b => do
    let p1 ← N.potential x b.n1
    let p2 ← N.potential x b.n2
    pure (p1 - p2)

/-- `get_current` (bias_point_analysis.py:32-42): four-way case split -/
def Net.current (N : Net L K) (x : List K) (id : String) : Except Err K :=
  match idxOf? id N.vsIds with
  | some k => .ok (x.getD (N.nodes.length + k) 0)
  | none =>
    match N.get? id with
    | none => .error .keyError
    | some b =>
      if b.e.isIdealCS then .ok b.e.Ival
      else if b.e.isCS then do
        let v ← N.voltage x id
        pure (-(b.e.Ival + v / b.e.Zfin))
      else do
        let v ← N.voltage x id
        pure (v / b.e.Zfin)

/-- `get_power` (solution.py:39-40): `V · conj(I)` -/
def Net.power (conj : K → K) (N : Net L K) (x : List K) (id : String) : Except Err K := do
  let v ← N.voltage x id
  let i ← N.current x id
  pure (v * conj i)

end
end CC
