/-
  CC.Model.Annot — model of the solution adapters and label factories of
  `SimpleCircuit/DiagramSolution.py` and of the declarative solution section of
  `SimpleSimulation/schematic.py` (property C14).

  Everything table-shaped is generated (`CC.Gen.Annot`: adapters with sign line, accessor,
  printer, unit and forwarded options; label factories; constructors; the `solutions`
  table; the annotation loops).  The model dispatches on those tables, so a change of the
  tables changes the model.  The printers are those of `CC.Model.Fmt`.
-/
import CC.Num
import CC.Model.Fmt
import CC.Spec.Annot
import CC.Gen.AnnotTables
namespace CC.Annot
open CC.Fmt CC.Gen.Annot

def adapterClsOf : Kind → String
  | .real => "RealNetworkDiagramSolution"
  | .complex => "ComplexNetworkDiagramSolution"
  | .timeDomain => "TimeDomainSteadyStateDiagramSolution"

def methodOf : Quantity → String
  | .voltage => "get_voltage" | .current => "get_current" | .power => "get_power" | .potential => "get_potential"

def findAdapter (k : Kind) (qt : Quantity) : Option Adapter :=
  adapters.find? fun a => a.cls == adapterClsOf k && a.method == methodOf qt

/-- display options held by the adapter objects -/
structure Opts where
  precision : Nat := 3
  polar : Bool := false
  deg : Bool := false
  sin : Bool := false
  hertz : Bool := false
deriving Repr

/-- runtime-computed parameters of the *signed* value (libm / float arithmetic):
`abs`, `np.angle(·, deg)`, `phase (+ -pi/2 if sin)`, its `degrees`, `solution.w`, `w/2/pi` -/
structure Derived where
  absV : Rat := 0
  angle : Rat := 0
  phase : Rat := 0
  phaseDeg : Rat := 0
  w : Rat := 0
  wHz : Rat := 0
deriving Repr

/-- `sign*self.solution.get_…(name)` (or the bare value for an unsigned adapter) -/
def signedValue (a : Adapter) (reverse : Bool) (q : GQ) : GQ :=
  if a.signed then GQ.ofInt (adapter_sign reverse) * q else q

/-- the display helper named by the adapter, applied to the (already signed) value -/
def textOf (a : Adapter) (s : GQ) (d : Derived) (o : Opts) : Option (List Char) :=
  let unit := a.unit.getD []
  if a.printer = "print_real" then some (printReal s.re unit o.precision)
  else if a.printer = "print_active_power" then some (printActivePower s.re o.precision)
  else if a.printer = "print_complex" then some (printComplex s.re s.im d.absV d.angle unit o.precision o.polar o.deg)
  else if a.printer = "print_sinosoidal" then
    some (printSinusoidal s.re d.absV d.phase d.phaseDeg d.w d.wHz unit o.precision o.sin o.deg o.hertz)
  else if a.printer = "print_abs" then some (printAbs d.absV unit o.precision)
  else none

/-- `DiagramSolution.get_<quantity>(name, reverse)` of the adapter for kind `k`, on the
solution value `q` -/
def annotText (k : Kind) (qt : Quantity) (reverse : Bool) (q : GQ) (d : Derived) (o : Opts) : Option (List Char) :=
  match findAdapter k qt with
  | none => none
  | some a => textOf a (signedValue a reverse q) d o

/-! ### label factories -/

def factoryOf (qt : Quantity) : Option Factory :=
  factories.find? fun f => f.solutionMethod == methodOf qt

/-- the `reverse=` argument of the label symbol (`none`: the label takes no direction) -/
def arrowReversed (qt : Quantity) (reverse elementReversed : Bool) : Option Bool :=
  match factoryOf qt with
  | some f => if f.hasReverse then some (label_reverse reverse elementReversed) else none
  | none => none

/-! ### declarative solution section -/

/-- `solutions.get(type, ds.empty_solution)` -/
def ctorNameOfType (ty : String) : String := (solutions.lookup ty).getD solution_fallback

def ctorOfType (ty : String) : Option Ctor := ctors.find? fun c => c.name == ctorNameOfType ty

def kindOfAdapterCls (cls : String) : Option Kind :=
  if cls = adapterClsOf .real then some .real
  else if cls = adapterClsOf .complex then some .complex
  else if cls = adapterClsOf .timeDomain then some .timeDomain
  else none

/-- the kind of annotation a declared solution type produces (`none`: empty labels) -/
def declaredKind (ty : String) : Option Kind := (ctorOfType ty).bind fun c => kindOfAdapterCls c.adapterCls

/-- whether the constructor selected for a declared type builds its `ComplexSolution` with
`peak_values=True` -/
def declaredPeak (ty : String) : Bool :=
  match ctorOfType ty with
  | some c => (c.solutionLits.lookup "peak_values").getD false
  | none => false

/-- `{k: v for k, v in data.items() if k in signature(solution_fcn).parameters}` (keys only;
`schematic` is passed separately) -/
def filterParams (ty : String) (keys : List String) : List String :=
  match ctorOfType ty with
  | some c => keys.filter fun k => (c.params.map (·.1)).contains k || k == "schematic"
  | none => []

end CC.Annot
