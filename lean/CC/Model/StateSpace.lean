/-
  CC.Model.StateSpace — hand-written model of
    Network/NodalAnalysis/state_space_model.py:10-54   (state_space_matrices)
    Network/NodalAnalysis/state_space_model.py:56-145  (NodalStateSpaceModel: c_row_*/d_row_*, sources)
    Circuit/state_space_model.py:6-33                  (circuit-level stacking wrapper)
    SignalProcessing/state_space_model.py:5-38         (container shape checks, solver wrapper)
    Circuit/solution.py:139-175                        (TransientSolution wiring)
  Mathlib-free; generic over the number type `K` (notation classes only).

  The code is mirrored *as it is*:
    * `Delta` rows follow the order of the capacitor dictionary;
    * `Q = diag(Qi, 1)` has its columns in BLOCK order (current sources | voltage sources);
      since fix 3361ab5 `QS`/`QL` are selected by block position: `QS` in the order of `sources`,
      `QL` in the order of the inductor dictionary (before the fix: positions of the combined
      alphabetic source map — wrong columns for interleaved names / non-alphabetic inductors);
    * `Λ = diag(−C…, L…)` follows the dictionaries;
    * `_row_for_potential` returns a zero row for the reference node and raises `KeyError` for
      an unknown node id (since fix f9f472e; before: a zero row for every unmapped id).
  The two `numpy.linalg.inv` calls are *arguments* (certificates `Ainv`, `S`); the theorems
  assume `Ã·Ainv = 1` and `(DQᵀ Ainv DQ)·S = 1`, the driver checks both exactly.
  `.real` is the parameter `re`.  `scipy.signal.lsim` is the parameter `lsim`.

  Matrices are `List (List K)` with *explicit* dimensions (numpy keeps the column count of
  a `(0, k)` array; a list of rows cannot).  Every operation is `ofFn r c (fun i j => …)`
  over `get`, so that `CC/Proofs/StateBridge.lean` can transport them to Mathlib's `Matrix`.
-/
import CC.Model.MNA
namespace CC

/-! ### dense matrices with explicit dimensions -/
namespace Mx
section
variable {K : Type} [Zero K] [One K] [Add K] [Mul K] [Neg K] [Sub K]

/-- entry `(i, j)`; out of range reads `0` -/
def get (M : List (List K)) (i j : Nat) : K := (M.getD i []).getD j 0

def ofFn (r c : Nat) (f : Nat → Nat → K) : List (List K) :=
  (List.range r).map fun i => (List.range c).map fun j => f i j

def sumTo (n : Nat) (f : Nat → K) : K := ((List.range n).map f).sum

/-- `A @ B` for `A : r×p`, `B : p×c` -/
def mul (r p c : Nat) (A B : List (List K)) : List (List K) :=
  ofFn r c fun i j => sumTo p fun k => get A i k * get B k j

/-- `A.T` as an `r×c` matrix (`A : c×r`) -/
def transpose (r c : Nat) (A : List (List K)) : List (List K) := ofFn r c fun i j => get A j i

def sub (r c : Nat) (A B : List (List K)) : List (List K) := ofFn r c fun i j => get A i j - get B i j

def neg (r c : Nat) (A : List (List K)) : List (List K) := ofFn r c fun i j => - get A i j

/-- `np.diag(d) @ A` -/
def diagMul (r c : Nat) (d : List K) (A : List (List K)) : List (List K) :=
  ofFn r c fun i j => d.getD i 0 * get A i j

def one (n : Nat) : List (List K) := ofFn n n fun i j => if i = j then 1 else 0

def zeros (r c : Nat) : List (List K) := ofFn r c fun _ _ => 0

/-- `A[:, cols]` -/
def selectCols (r : Nat) (cols : List Nat) (A : List (List K)) : List (List K) :=
  ofFn r cols.length fun i j => get A i (cols.getD j 0)

/-- `np.hstack((A, B))` for `A : r×c1`, `B : r×c2` -/
def hstack (r c1 c2 : Nat) (A B : List (List K)) : List (List K) :=
  ofFn r (c1 + c2) fun i j => if j < c1 then get A i j else get B i (j - c1)

def vecAdd (a b : List K) : List K := List.zipWith (· + ·) a b
def vecSub (a b : List K) : List K := List.zipWith (· - ·) a b
def vecScale (s : K) (a : List K) : List K := a.map (s * ·)
def zeroVec (n : Nat) : List K := List.replicate n 0

end
end Mx

section
variable {L K : Type} [DecidableEq L] [LabelOrd L]
variable [Zero K] [One K] [Add K] [Mul K] [Neg K] [Sub K] [Inv K] [Div K] [DecidableEq K]

/-- the four matrices returned by `state_space_matrices` -/
structure SSMats (K : Type) where
  A : List (List K)
  B : List (List K)
  C : List (List K)
  D : List (List K)
deriving Repr

/-- a value dictionary (`c_values`, `l_values`): keys in insertion order -/
abbrev ValDict (K : Type) := List (String × K)

def ValDict.keys (d : ValDict K) : List String := d.map (·.1)
def ValDict.vals (d : ValDict K) : List K := d.map (·.2)
def ValDict.has (d : ValDict K) (k : String) : Bool := d.keys.contains k

/-! ### state_space_model.py:10-54 -/

/-- number of node unknowns / voltage-source unknowns of the nodal system -/
def Net.nN (N : Net L K) : Nat := N.nodes.length
def Net.nV (N : Net L K) : Nat := N.vsIds.length
def Net.nC (N : Net L K) : Nat := N.csIds.length
/-- size of the nodal system -/
def Net.nY (N : Net L K) : Nat := N.nN + N.nV

/-- one row of `Delta` (lines 14-18): `+1` at `node1`, then `−1` at `node2` (second write wins),
padded with zeros for the voltage-source unknowns (line 19) -/
def ssDeltaRow (N : Net L K) (b : Branch L K) : List K :=
  (N.nodes.map fun n => if n = b.n2 then (-1 : K) else if n = b.n1 then 1 else 0)
    ++ List.replicate N.nV 0

/-- `element_incidence_matrix(c_values)`; `network[value]` raises `KeyError` for a key that
is not a branch id (only evaluated when there is at least one node) -/
def ssDelta (N : Net L K) (cvals : ValDict K) : Except Err (List (List K)) :=
  cvals.keys.mapM fun id =>
    if N.nodes.isEmpty then .ok (List.replicate N.nV 0)
    else match N.get? id with
      | some b => .ok (ssDeltaRow N b)
      | none => .error .keyError

/-- `Q = diag(Qi, 1)` (lines 23-28): `(nN + nV) × (nC + nV)`, columns in block order
(current sources alphabetically, then ideal voltage sources alphabetically) -/
def ssQ (N : Net L K) : List (List K) :=
  (N.nodes.map fun n => (N.csSorted.map fun b => N.Qentry b n) ++ List.replicate N.nV 0)
  ++ ((List.range N.nV).map fun i =>
        List.replicate N.nC 0 ++ ((List.range N.nV).map fun k => if k = i then (1 : K) else 0))

/-- columns of `QS` (line 31, after fix 3361ab5): the current sources in the order of the
current-source map, then the ideal voltage sources that are not keys of `l_values` in the order
of the voltage-source map, each addressed by its BLOCK position in `Q` -/
def ssColsS (N : Net L K) (lvals : ValDict K) : List Nat :=
  (N.csIds.filterMap fun l => idxOf? l N.csIds)
  ++ ((N.vsIds.filter fun l => !lvals.has l).filterMap fun l => (idxOf? l N.vsIds).map (N.nC + ·))

/-- columns of `QL` (line 32): `n_cs + voltage_source_mapping[l]` for the keys of `l_values`,
in the order of the DICTIONARY (the order of `Λ`).  A key that is not an ideal voltage source
of the network is a `KeyError` in the code; here it yields no column and
`stateSpaceMatrices` raises. -/
def ssColsL (N : Net L K) (lvals : ValDict K) : List Nat :=
  lvals.keys.filterMap fun l => (idxOf? l N.vsIds).map (N.nC + ·)

/-- diagonal of `Λ` (lines 32-36) -/
def ssLambda (cvals lvals : ValDict K) : List K := cvals.vals.map (fun c => -c) ++ lvals.vals

/-- diagonal of `invLambda` (line 43) -/
def ssInvLambda (cvals lvals : ValDict K) : List K := (ssLambda cvals lvals).map fun x => 1 / x

/-- `A_tilde` (line 39) -/
def ssAtilde (re : K → K) (N : Net L K) : List (List K) := N.mnaA.map fun r => r.map re

/-- number of states as the code computes it: `len(c_values)` rows of `Delta` plus the
selected inductor columns -/
def ssNStates (N : Net L K) (cvals lvals : ValDict K) : Nat := cvals.length + (ssColsL N lvals).length
def ssNInputs (N : Net L K) (lvals : ValDict K) : Nat := (ssColsS N lvals).length

def ssQS (N : Net L K) (lvals : ValDict K) : List (List K) :=
  Mx.selectCols N.nY (ssColsS N lvals) (ssQ N)
def ssQL (N : Net L K) (lvals : ValDict K) : List (List K) :=
  Mx.selectCols N.nY (ssColsL N lvals) (ssQ N)

/-- `DQ = hstack(Delta.T, QL)` (line 41) -/
def ssDQ (N : Net L K) (cvals lvals : ValDict K) (Delta : List (List K)) : List (List K) :=
  Mx.hstack N.nY cvals.length (ssColsL N lvals).length
    (Mx.transpose N.nY cvals.length Delta) (ssQL N lvals)

/-- the matrix whose inverse is `sorted_A_tilde` (line 47): `DQᵀ · Ainv · DQ` -/
def ssM (N : Net L K) (cvals lvals : ValDict K) (Delta Ainv : List (List K)) : List (List K) :=
  let ny := N.nY
  let ns := ssNStates N cvals lvals
  let DQ := ssDQ N cvals lvals Delta
  Mx.mul ns ny ns (Mx.mul ns ny ny (Mx.transpose ns ny DQ) Ainv) DQ

/-- lines 45-54 given the two inverses -/
def ssCore (ny ns nu : Nat) (invLam : List K) (DQ QS Ainv S : List (List K)) : SSMats K :=
  let T := Mx.mul ns ny ny (Mx.transpose ns ny DQ) Ainv        -- transformed_inv_A_tilde
  let A := Mx.diagMul ns ns invLam S
  let C := Mx.mul ny ns ns (Mx.transpose ny ns T) S
  let Ct := Mx.transpose ns ny C
  let B := Mx.mul ns ny nu (Mx.neg ns ny (Mx.diagMul ns ny invLam Ct)) QS
  let D := Mx.mul ny ny nu (Mx.sub ny ny Ainv (Mx.mul ny ns ny (Mx.transpose ny ns T) Ct)) QS
  ⟨A, B, C, D⟩

/-- `state_space_matrices(network, c_values, l_values)` with the inverses `Ainv`
(of `A_tilde`) and `S` (of `DQᵀ Ainv DQ`) supplied.  An `l_values` key that is not an ideal
voltage source of the network is a `KeyError` (`voltage_source_mapping_all[l]`). -/
def stateSpaceMatrices (N : Net L K) (cvals lvals : ValDict K)
    (Ainv S : List (List K)) : Except Err (SSMats K) := do
  let Delta ← ssDelta N cvals
  if (ssColsL N lvals).length ≠ lvals.length then throw .keyError
  pure (ssCore N.nY (ssNStates N cvals lvals) (ssNInputs N lvals) (ssInvLambda cvals lvals)
    (ssDQ N cvals lvals Delta) (ssQS N lvals) Ainv S)

/-! ### NodalStateSpaceModel (lines 56-126) -/

structure NSSM (L K : Type) where
  mats : SSMats K
  net : Net L K
  cvals : ValDict K
  lvals : ValDict K

def NSSM.nStates (m : NSSM L K) : Nat := m.mats.A.length          -- `A.shape[0]`
/-- `B.shape[1]`; the model keeps the column count explicitly -/
def NSSM.nInputs (m : NSSM L K) : Nat := ssNInputs m.net m.lvals

/-- `_row_for_potential` (after fix f9f472e): the row of the node's index; a ZERO row for the
reference node; `KeyError` for any other id that is not in the node map (before the fix: a zero
row for every unmapped id) -/
def NSSM.rowForPotential (m : NSSM L K) (node : L) (M : List (List K)) (width : Nat) : Except Err (List K) :=
  match idxOf? node m.net.nodes with
  | some k => .ok (M.getD k [])
  | none => if node ≠ m.net.zero then .error .keyError else .ok (Mx.zeroVec width)

def NSSM.cRowPotential (m : NSSM L K) (node : L) : Except Err (List K) :=
  m.rowForPotential node m.mats.C m.nStates
def NSSM.dRowPotential (m : NSSM L K) (node : L) : Except Err (List K) :=
  m.rowForPotential node m.mats.D m.nInputs

/-- `c_row_voltage` (lines 78-82) -/
def NSSM.cRowVoltage (m : NSSM L K) (id : String) : Except Err (List K) :=
  match m.net.get? id with
  | none => .error .keyError
  | some b => do
    let p ← m.cRowPotential b.n1
    let q ← m.cRowPotential b.n2
    pure (Mx.vecSub p q)

/-- `d_row_voltage` (lines 101-105) -/
def NSSM.dRowVoltage (m : NSSM L K) (id : String) : Except Err (List K) :=
  match m.net.get? id with
  | none => .error .keyError
  | some b => do
    let p ← m.dRowPotential b.n1
    let q ← m.dRowPotential b.n2
    pure (Mx.vecSub p q)

/-- `x / branch.element.Z` with `Z = inf` for a zero admittance -/
def divByZ (e : Elem K) (row : List K) : List K :=
  match e with
  | .norton Z _ => row.map (· / Z)
  | .thevenin Y _ => if Y = 0 then row.map (fun _ => 0) else row.map (· / (1 / Y))

/-- `c_row_current` (lines 84-96): capacitor ↦ `C_k · A[k]` with `k` the dictionary position;
ideal voltage source / inductor ↦ row `nN + index` of `C`; current source ↦ zeros;
otherwise `(c_pos − c_neg) / Z` -/
def NSSM.cRowCurrent (m : NSSM L K) (id : String) : Except Err (List K) :=
  match idxOf? id m.cvals.keys with
  | some k => .ok (Mx.vecScale (m.cvals.vals.getD k 0) (m.mats.A.getD k []))
  | none =>
    match idxOf? id m.net.vsIds with
    | some k => .ok (m.mats.C.getD (k + m.net.nN) [])
    | none =>
      if m.net.csIds.contains id then .ok (Mx.zeroVec m.nStates)
      else match m.net.get? id with
        | none => .error .keyError
        | some b => do
          let p ← m.cRowPotential b.n1
          let q ← m.cRowPotential b.n2
          pure (divByZ b.e (Mx.vecSub p q))

/-- `d_row_current` (lines 107-120) -/
def NSSM.dRowCurrent (m : NSSM L K) (id : String) : Except Err (List K) :=
  match idxOf? id m.cvals.keys with
  | some k => .ok (Mx.vecScale (m.cvals.vals.getD k 0) (m.mats.B.getD k []))
  | none =>
    match idxOf? id m.net.vsIds with
    | some k => .ok (m.mats.D.getD (k + m.net.nN) [])
    | none =>
      match idxOf? id m.net.csIds with
      | some k =>
        if k < m.nInputs then .ok ((List.range m.nInputs).map fun t => if t = k then (1 : K) else 0)
        else .error .keyError                      -- IndexError
      | none =>
        match m.net.get? id with
        | none => .error .keyError
        | some b => do
          let p ← m.dRowPotential b.n1
          let q ← m.dRowPotential b.n2
          pure (divByZ b.e (Mx.vecSub p q))

/-- `sources` (lines 122-126): current sources, then the voltage sources that are not
inductors — BLOCK order -/
def ssSources (N : Net L K) (lvals : ValDict K) : List String :=
  N.csIds ++ N.vsIds.filter fun v => !lvals.has v

def NSSM.sources (m : NSSM L K) : List String := ssSources m.net m.lvals

/-- `nodal_state_space_model` (lines 128-145) -/
def nodalStateSpaceModel (N : Net L K) (cvals lvals : ValDict K)
    (Ainv S : List (List K)) : Except Err (NSSM L K) := do
  let mats ← stateSpaceMatrices N cvals lvals Ainv S
  pure ⟨mats, N, cvals, lvals⟩

/-! ### SignalProcessing/state_space_model.py:5-35 -/

/-- the five shape checks of `StateSpaceModel.__post_init__`, in the code's order; each
raises `ValueError`.  Returns the index of the failing check. -/
def containerCheck (a b c d : Nat × Nat) : Except Nat Unit :=
  if a.1 ≠ a.2 then .error 1
  else if b.1 ≠ a.1 then .error 2
  else if c.2 ≠ a.1 then .error 3
  else if d.1 ≠ c.1 then .error 4
  else if d.2 ≠ b.2 then .error 5
  else .ok ()

/-! ### Circuit/state_space_model.py:6-33 -/

/-- the value dictionaries as the circuit-level callers build them: components of the given
type, in component order -/
def reactiveValues (comps : List (String × String × K)) (ty : String) : ValDict K :=
  (comps.filter fun c => c.1 = ty).map fun c => (c.2.1, c.2.2)

/-- stacked output rows: potentials, then voltages, then currents (lines 13-27) -/
def NSSM.stackC (m : NSSM L K) (pots : List L) (volts curs : List String) : Except Err (List (List K)) := do
  let p ← pots.mapM m.cRowPotential
  let v ← volts.mapM m.cRowVoltage
  let c ← curs.mapM m.cRowCurrent
  pure (p ++ v ++ c)

def NSSM.stackD (m : NSSM L K) (pots : List L) (volts curs : List String) : Except Err (List (List K)) := do
  let p ← pots.mapM m.dRowPotential
  let v ← volts.mapM m.dRowVoltage
  let c ← curs.mapM m.dRowCurrent
  pure (p ++ v ++ c)

/-- `state_space_model(circuit, potential_nodes, voltage_ids, current_ids)` on the already
translated network: all `C` rows are built before any `D` row -/
def NSSM.circuitModel (m : NSSM L K) (pots : List L) (volts curs : List String) : Except Err (SSMats K) := do
  let C ← m.stackC pots volts curs
  let D ← m.stackD pots volts curs
  pure ⟨m.mats.A, m.mats.B, C, D⟩

/-! ### Circuit/solution.py:139-175 (TransientSolution) -/

/-- `_u` (line 150): one row of samples per model source, in the order of `sources`;
a missing input function is a `KeyError` -/
def transientU (sources : List String) (input : String → Option (List K)) : Except Err (List (List K)) :=
  sources.mapM fun s => match input s with
    | some row => .ok row
    | none => .error .keyError

/-- the initial state handed to the solver (line 155): zeros -/
def transientX0 (nStates : Nat) : List K := Mx.zeroVec nStates

/-- sample `t` of a matrix of sample rows (`_x`, `_u`: one row per state / input) -/
def sampleCol (X : List (List K)) (t : Nat) : List K := X.map fun row => row.getD t 0

/-- `row_c @ _x + row_d @ _u`, reshaped to one value per sample (lines 164-171) -/
def transientOutput (nSamples : Nat) (rowC rowD : List K) (X U : List (List K)) : List K :=
  (List.range nSamples).map fun t => dotL rowC (sampleCol X t) + dotL rowD (sampleCol U t)

/-- the whole `TransientSolution` for one queried output; `lsim` is a parameter returning the
state samples (one row per state) from `(A, B, u, x0)` -/
def transientSeries (lsim : SSMats K → List (List K) → List K → List (List K))
    (m : NSSM L K) (nSamples : Nat) (input : String → Option (List K))
    (rows : NSSM L K → Except Err (List K × List K)) : Except Err (List K) := do
  let U ← transientU m.sources input
  let X := lsim m.mats U (transientX0 m.nStates)
  let (rc, rd) ← rows m
  pure (transientOutput nSamples rc rd X U)

end
end CC
