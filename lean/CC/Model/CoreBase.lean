/-
  CC.Model.CoreBase — the Python / numpy idioms the generated core model (CC/Gen/Core.lean,
  translated from Network/elements.py, network.py, NodalAnalysis/*.py) is allowed to use
  besides field arithmetic.  Mathlib-free.  Each definition states the Python construct it
  stands for; together they are the trusted reading of the translator's grammar.

  Data types are the hand-written ones of CC/Model/Net.lean (`Elem`, `Branch`, `Net`, `Err`,
  `LabelOrd`, `sortL`, `dedupL`) — the generated file defines *functions* over them.
-/
import CC.Model.Net
import CC.Model.MNA
namespace CC.Py

/-! ### numbers that may be `np.inf` / `np.nan`

A derived element property (`NortenElement.Y`, `.I`, `TheveninElement.Z`, `.V`) is either a
field value or the exceptional value its `except ZeroDivisionError` branch returns. -/

inductive XVal (K : Type) where
  | fin (x : K)
  | inf
  | nan
deriving DecidableEq, Repr

namespace XVal
variable {K : Type} [Zero K] [DecidableEq K]

/-- `np.abs(x) > 0` — `inf`: true, `nan`: false -/
def absGt0 : XVal K → Bool
  | fin x => decide (x ≠ 0) | inf => true | nan => false
/-- `np.abs(x) >= 0` — true unless `nan` -/
def absGe0 : XVal K → Bool
  | fin _ => true | inf => true | nan => false
/-- `x == 0` — `inf == 0` and `nan == 0` are false -/
def eqZero : XVal K → Bool
  | fin x => decide (x = 0) | inf => false | nan => false
/-- `np.isfinite(x)` together with the value: `sum(E for … if np.isfinite(E))` keeps exactly
the `fin` values -/
def finite? : XVal K → Option K
  | fin x => some x | inf => none | nan => none
/-- an element property used as a number (array entry, operand of `+ − * /`).  The exceptional
values are mapped to `0`; `C01_gen_finite_*` prove they never reach such a position. -/
def toNum : XVal K → K
  | fin x => x | inf => 0 | nan => 0
def isFin : XVal K → Bool
  | fin _ => true | inf => false | nan => false
end XVal

/-! ### lists, sets, dicts -/

/-- `set((a, b)) == set((c, d))` -/
def setEq2 {α : Type} [DecidableEq α] (a b c d : α) : Bool :=
  (decide (a = c) && decide (b = d)) || (decide (a = d) && decide (b = c))

/-- `l.sort(key=f)` / `sorted(l, key=f)`: stable, ascending in the key -/
def sortByKey {α β : Type} [LabelOrd β] (key : α → β) (l : List α) : List α :=
  l.mergeSort fun a b => LabelOrd.le (key a) (key b)

/-- `{k: v for (k, v) in pairs}[key]` — a later pair with the same key replaces the earlier
one; a missing key is a `KeyError` -/
def dictGet {κ β : Type} [DecidableEq κ] (pairs : List (κ × β)) (key : κ) : Except Err β :=
  match pairs.reverse.find? (fun p => p.1 = key) with
  | some p => .ok p.2
  | none => .error .keyError

/-- keys of a dict built by inserting `l` in order (first occurrence keeps its position) -/
def dictKeys {α : Type} [DecidableEq α] : List α → List α
  | [] => []
  | a :: l => a :: (dictKeys l).filter (· ≠ a)

/-- `label_mapping.LabelMapping` restricted to what the core uses: the key list (insertion
order) — `mapping[k]` is the position of `k` (the values are `enumerate` indices), `N` the
number of keys.  The translator checks the class body against the text it was written for. -/
structure LabelMapping (α : Type) where
  keys : List α
deriving Repr

namespace LabelMapping
variable {α : Type} [DecidableEq α]
/-- `LabelMapping({k: v for v, k in enumerate(l)})` -/
def enumerate (l : List α) : LabelMapping α := ⟨dictKeys l⟩
/-- `mapping[label]` (`KeyError` when absent) -/
def getitem (m : LabelMapping α) (label : α) : Except Err Nat :=
  match idxOf? label m.keys with
  | some k => .ok k
  | none => .error .keyError
def N (m : LabelMapping α) : Nat := m.keys.length
/-- keys kept by `{k: mapping[k] for k in mapping.keys if filter_fcn(k)}`; the predicate is
evaluated key by key, in order, and may raise -/
def filterKeysM (p : α → Except Err Bool) : List α → Except Err (List α)
  | [] => pure []
  | k :: ks => do
    let b ← p k
    let rest ← filterKeysM p ks
    pure (if b then k :: rest else rest)
/-- `label_mapping.filter(mapping, fcn)` -/
def filterM (m : LabelMapping α) (p : α → Except Err Bool) : Except Err (LabelMapping α) := do
  let ks ← filterKeysM p m.keys
  pure ⟨ks⟩
end LabelMapping

/-! ### arrays -/

/-- a 2-d `np.ndarray` with its shape (a list of rows alone forgets the number of columns of
an array without rows) -/
structure Mat (K : Type) where
  nrows : Nat
  ncols : Nat
  rows : List (List K)
deriving Repr

namespace Mat
variable {K : Type} [Zero K]
/-- an array filled entry by entry: `M = np.zeros((R.N, C.N)); for r, c in …: M[R[r], C[c]] = f r c`
(`R`, `C` enumerate their keys, so row `i` belongs to the `i`-th key) -/
def table {α β : Type} (R : List α) (C : List β) (f : α → β → K) : Mat K :=
  ⟨R.length, C.length, R.map fun r => C.map fun c => f r c⟩
/-- the same with entries that may raise (a `network[id]` inside the loop body) -/
def tableM {α β : Type} (R : List α) (C : List β) (f : α → β → Except Err K) : Except Err (Mat K) := do
  let rows ← R.mapM fun r => C.mapM fun c => f r c
  pure ⟨R.length, C.length, rows⟩
/-- `np.zeros((r, c))` -/
def zeros (r c : Nat) : Mat K := ⟨r, c, List.replicate r (List.replicate c 0)⟩
/-- `M.T` -/
def T (M : Mat K) : Mat K :=
  ⟨M.ncols, M.nrows, (List.range M.ncols).map fun j => M.rows.map fun row => row.getD j 0⟩
/-- `np.hstack((A, B))` (equal numbers of rows) -/
def hstack (A B : Mat K) : Mat K := ⟨A.nrows, A.ncols + B.ncols, List.zipWith (· ++ ·) A.rows B.rows⟩
/-- `np.vstack((A, B))` -/
def vstack (A B : Mat K) : Mat K := ⟨A.nrows + B.nrows, A.ncols, A.rows ++ B.rows⟩
/-- `Q @ v` -/
def mulVec [Add K] [Mul K] (Q : Mat K) (v : List K) : List K := Q.rows.map (CC.dotL · v)
end Mat

/-- `x[:n]` -/
def sliceTo {α : Type} (x : List α) (n : Nat) : List α := x.take n
/-- `x[n:]` -/
def sliceFrom {α : Type} (x : List α) (n : Nat) : List α := x.drop n
/-- `x[-n:]` for `n ≥ 0` — note `x[-0:]` is the whole array -/
def sliceLast {α : Type} (x : List α) (n : Nat) : List α := if n = 0 then x else x.drop (x.length - n)
/-- `x[k]` for an index that is in range -/
def index {K : Type} [Zero K] (x : List K) (k : Nat) : K := x.getD k 0
/-- `np.zeros(n)` -/
def zerosVec {K : Type} [Zero K] (n : Nat) : List K := List.replicate n 0

end CC.Py
