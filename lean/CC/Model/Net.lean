/-
  CC.Model.Net — hand-written model of
    src/CircuitCalculator/Network/elements.py      (NortenElement / TheveninElement, predicates)
    src/CircuitCalculator/Network/network.py       (Branch, Network, __post_init__ checks)
    src/CircuitCalculator/Network/NodalAnalysis/label_mapping.py  (alphabetic index maps)
  Mathlib-free; generic over the number type `K` (notation classes only) and the label
  type `L` (decidable equality and a boolean order used only for sorting).
  Tied to the code by the correspondence check (harness/props/c01.py, op `mna`).
-/
namespace CC

/-- Errors the modelled code raises (Python exception class ↦ constructor). -/
inductive Err where
  | floatingGround      -- Network.FloatingGroundNode
  | ambiguousIds        -- Network.AmbiguousBranchIDs / Circuit.AmbiguousComponentID
  | multipleGrounds     -- Circuit.MultipleGroundNodes
  | keyError            -- KeyError / IndexError on a lookup
  | valueError
  | typeError
  | attributeError
  | unknownKind
  | fileFormat
  | fileExists
  | zeroDivision
  | singular            -- numpy.linalg.LinAlgError
  | other (msg : String)
deriving DecidableEq, Repr

def Err.tag : Err → String
  | .floatingGround => "FloatingGroundNode"
  | .ambiguousIds => "AmbiguousIDs"
  | .multipleGrounds => "MultipleGroundNodes"
  | .keyError => "KeyError"
  | .valueError => "ValueError"
  | .typeError => "TypeError"
  | .attributeError => "AttributeError"
  | .unknownKind => "UnknownKind"
  | .fileFormat => "FileFormatError"
  | .fileExists => "FileExistsError"
  | .zeroDivision => "ZeroDivisionError"
  | .singular => "LinAlgError"
  | .other m => m

/-- `NortenElement(Z, V)` (the repo's spelling) / `TheveninElement(Y, I)`.
The derived values that the code represents by `np.inf` / `np.nan` are never stored:
see `Yfin`, `Ival` below. -/
inductive Elem (K : Type) where
  | norton (Z V : K)
  | thevenin (Y I : K)
deriving DecidableEq, Repr

structure Branch (L K : Type) where
  n1 : L
  n2 : L
  id : String
  /-- the element's `type` string; takes part in dataclass equality (`element in keep`) -/
  ty : String := ""
  e : Elem K
deriving DecidableEq, Repr

structure Net (L K : Type) where
  branches : List (Branch L K)
  zero : L
deriving Repr

/-- boolean "≤" used only to sort labels; `String` gets code-point lexicographic order,
which is what Python's `sorted` does on `str`. -/
class LabelOrd (L : Type) where
  le : L → L → Bool

instance : LabelOrd String := ⟨fun a b => decide (a ≤ b)⟩
instance : LabelOrd Nat := ⟨fun a b => decide (a ≤ b)⟩

/-- order-preserving de-duplication used for label sets (keeps the last occurrence) -/
def dedupL {α : Type} [DecidableEq α] : List α → List α
  | [] => []
  | a :: l => if a ∈ l then dedupL l else a :: dedupL l

def sortL {α : Type} [LabelOrd α] (l : List α) : List α := l.mergeSort LabelOrd.le

section
variable {L K : Type} [DecidableEq L] [LabelOrd L]
variable [Zero K] [One K] [Add K] [Mul K] [Neg K] [Sub K] [Inv K] [Div K] [DecidableEq K]

/-! ### elements.py -/

/-- `is_ideal_voltage_source`: `np.abs(V) >= 0 and Z == 0`.  A Thevenin record has
`Z = 1/Y ≠ 0` (or `inf`), and for `Y = 0` its `V` is `nan`, so it is never one. -/
def Elem.isIdealVS : Elem K → Bool
  | .norton Z _ => decide (Z = 0)
  | .thevenin _ _ => false

/-- the admittance summed by `admittance_connected_to` (`np.isfinite(Y)` filters the
`inf` of an ideal voltage source, which never reaches the sum anyway) -/
def Elem.Yfin : Elem K → K
  | .norton Z _ => if Z = 0 then 0 else 1 / Z
  | .thevenin Y _ => Y

/-- `element.I` with `nan ↦ 0` (a `nan` current is never `> 0`, so it is never a source) -/
def Elem.Ival : Elem K → K
  | .norton Z V => if Z = 0 then 0 else V / Z
  | .thevenin _ I => I

/-- `element.V` with `nan ↦ 0` -/
def Elem.Vval : Elem K → K
  | .norton _ V => V
  | .thevenin Y I => if Y = 0 then 0 else I / Y

/-- `element.Z`, finite part (`inf ↦ 0`; guarded by `isIdealCS` wherever it is used) -/
def Elem.Zfin : Elem K → K
  | .norton Z _ => Z
  | .thevenin Y _ => if Y = 0 then 0 else 1 / Y

/-- `is_current_source`: `np.abs(I) > 0` -/
def Elem.isCS (e : Elem K) : Bool := decide (e.Ival ≠ 0)

/-- `is_voltage_source`: `np.abs(V) > 0` -/
def Elem.isVSrc (e : Elem K) : Bool := decide (e.Vval ≠ 0)

/-- `is_ideal_current_source`: `np.abs(I) >= 0 and Y == 0` -/
def Elem.isIdealCS : Elem K → Bool
  | .norton _ _ => false          -- Y = 1/Z ≠ 0, or `inf`
  | .thevenin Y _ => decide (Y = 0)

def Elem.isActive (e : Elem K) : Bool := e.isVSrc || e.isCS

/-- `is_short_circuit`: `V == 0 and Z == 0` -/
def Elem.isShort : Elem K → Bool
  | .norton Z V => decide (V = 0) && decide (Z = 0)
  | .thevenin _ _ => false

/-- `is_open_circuit`: `I == 0 and Y == 0` -/
def Elem.isOpen : Elem K → Bool
  | .norton _ _ => false
  | .thevenin Y I => decide (I = 0) && decide (Y = 0)

/-! ### network.py -/

def Net.ids (N : Net L K) : List String := N.branches.map (·.id)

/-- `Network.node_labels` -/
def Net.nodeLabels (N : Net L K) : List L :=
  if N.branches.isEmpty then [N.zero]
  else sortL (dedupL (N.branches.map (·.n1) ++ N.branches.map (·.n2)))

/-- `Network.__post_init__` -/
def Net.check (N : Net L K) : Except Err Unit :=
  if N.zero ∉ N.nodeLabels then .error .floatingGround
  else if (dedupL N.ids).length ≠ N.branches.length then .error .ambiguousIds
  else .ok ()

/-- `network[id]` — a dict built from the branch list, so the last branch with that id wins -/
def Net.get? (N : Net L K) (id : String) : Option (Branch L K) :=
  N.branches.reverse.find? (·.id = id)

/-! ### label_mapping.py -/

/-- `alphabetic_node_mapper(network).keys` -/
def Net.nodes (N : Net L K) : List L := N.nodeLabels.filter (· ≠ N.zero)

def Net.vs (N : Net L K) : List (Branch L K) := N.branches.filter (·.e.isIdealVS)
def Net.nonVS (N : Net L K) : List (Branch L K) := N.branches.filter (fun b => !b.e.isIdealVS)
def Net.cs (N : Net L K) : List (Branch L K) := N.branches.filter (·.e.isCS)

/-- `alphabetic_voltage_source_mapper(network).keys` -/
def Net.vsIds (N : Net L K) : List String := sortL (N.vs.map (·.id))
/-- `alphabetic_current_source_mapper(network).keys` -/
def Net.csIds (N : Net L K) : List String := sortL (N.cs.map (·.id))
/-- `alphabetic_source_mapper(network).keys` (current sources and ideal voltage sources, merged) -/
def Net.srcIds (N : Net L K) : List String := sortL (N.cs.map (·.id) ++ N.vs.map (·.id))

end
end CC
