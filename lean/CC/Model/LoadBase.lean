/-
  CC.Model.LoadBase — data types shared by the hand-written loader model
  (CC/Model/Load.lean) and the tables generated from the Python sources
  (CC/Gen/LoadTables.lean).  Mathlib-free.

  `J` is the JSON-like tree the loaders of
    src/CircuitCalculator/Network/loaders.py
    src/CircuitCalculator/dump_load.py
    src/CircuitCalculator/Circuit/dump_load.py
  work on: what `json.load` / `yaml.safe_load` produce, plus Python `complex` leaves
  (which `undictify_*` creates and `dictify_*` is meant to remove).  Objects keep their
  keys in insertion order, as a Python `dict` does.
-/
import CC.Num
import CC.Model.Net
namespace CC.Load
inductive J where
  | null
  | bool (b : Bool)
  | num (q : Rat)
  | str (s : String)
  | cx (z : GQ)
  | arr (l : List J)
  | obj (kv : List (String × J))
deriving Repr, Inhabited

/-- a Python `dict` with string keys, in insertion order -/
abbrev Obj := List (String × J)

/-! ### decidable equality (the deriving handler does not cover nested inductives) -/

mutual
def J.beq : J → J → Bool
  | .null, .null => true
  | .bool a, .bool b => a == b
  | .num a, .num b => a == b
  | .str a, .str b => a == b
  | .cx a, .cx b => a == b
  | .arr a, .arr b => J.beqL a b
  | .obj a, .obj b => J.beqO a b
  | _, _ => false
def J.beqL : List J → List J → Bool
  | [], [] => true
  | a :: l, b :: m => J.beq a b && J.beqL l m
  | _, _ => false
def J.beqO : List (String × J) → List (String × J) → Bool
  | [], [] => true
  | (k, a) :: l, (k', b) :: m => k == k' && J.beq a b && J.beqO l m
  | _, _ => false
end

mutual
theorem J.beq_iff : ∀ a b : J, J.beq a b = true ↔ a = b
  | .arr a, b => by cases b <;> simp [J.beq, J.beqL_iff a]
  | .obj a, b => by cases b <;> simp [J.beq, J.beqO_iff a]
  | .null, b => by cases b <;> simp [J.beq]
  | .bool _, b => by cases b <;> simp [J.beq]
  | .num _, b => by cases b <;> simp [J.beq]
  | .str _, b => by cases b <;> simp [J.beq]
  | .cx _, b => by cases b <;> simp [J.beq]
theorem J.beqL_iff : ∀ a b : List J, J.beqL a b = true ↔ a = b
  | [], b => by cases b <;> simp [J.beqL]
  | x :: l, b => by cases b <;> simp [J.beqL, J.beq_iff x, J.beqL_iff l]
theorem J.beqO_iff : ∀ a b : List (String × J), J.beqO a b = true ↔ a = b
  | [], b => by cases b <;> simp [J.beqO]
  | (k, x) :: l, b => by
    cases b with
    | nil => simp [J.beqO]
    | cons p m => obtain ⟨k', y⟩ := p; simp [J.beqO, J.beq_iff x, J.beqO_iff l, and_assoc]
end

instance : DecidableEq J := fun a b =>
  if h : J.beq a b = true then isTrue ((J.beq_iff a b).1 h)
  else isFalse (fun e => h ((J.beq_iff a b).2 e))

/-! ### vocabulary of the generated tables -/

/-- how a key is read from a dictionary: `d.pop('k')` (removes it) or `d['k']` -/
inductive KeyRead where
  | pop
  | get
deriving DecidableEq, Repr

/-- where a field of the element record comes from in a factory of `Network/elements.py` -/
inductive Src where
  | param (p : String)
  | const (n : Int)
deriving DecidableEq, Repr

/-- a factory of `Network/elements.py`:
`def f(name, P…, Q=c…): return NortenElement(Z=…, V=…, name=name, type='…')` -/
structure ElemFactory where
  name : String
  /-- parameters in order, with the literal default if there is one -/
  params : List (String × Option Int)
  /-- `true`: `NortenElement(Z, V)`; `false`: `TheveninElement(Y, I)` -/
  norton : Bool
  /-- `Z` (resp. `Y`) -/
  a : Src
  /-- `V` (resp. `I`) -/
  b : Src
  ty : String
deriving DecidableEq, Repr

/-- one entry of `network_branch_translators`.
Direct entries (`"resistor" : elm.resistor`) have no `cxArgs`/`translateKeys`.
Lambda entries are `lambda **kwargs: elm.f(P=to_complex(<read K>), …, **kwargs)` or
`lambda **kwargs: elm.f(**translate_to_complex(keys=[…], **kwargs))`. -/
structure NetLoader where
  kind : String
  factory : String
  /-- explicit keyword arguments in source order: (parameter, key, how the key is read from
  the lambda's own `kwargs`); `to_complex` is always called without the degree option
  (the translator refuses anything else) -/
  cxArgs : List (String × String × KeyRead) := []
  /-- keys routed through `translate_to_complex` -/
  translateKeys : List String := []
deriving DecidableEq, Repr

/-- where a key of a component's value dictionary comes from (`Circuit/components.py`) -/
inductive VSrc where
  | param (p : String)
  | re (p : String)        -- `P.real`
  | im (p : String)        -- `P.imag`
  | const (n : Int)
deriving DecidableEq, Repr

/-- a constructor of `Circuit/components.py` reachable from `circuit_component_translators` -/
structure CompFactory where
  name : String
  kind : String
  /-- parameters after `id`, `nodes`, with literal defaults -/
  params : List (String × Option Int)
  /-- `if P < bound: raise ValueError` -/
  guards : List (String × Int)
  value : List (String × VSrc)
deriving DecidableEq, Repr

/-- one guarded read of `generate_component`:
`try: <var> = component[<key>] | component.pop(<key>)  except KeyError: raise <exc>` -/
structure CompRead where
  var : String
  key : String
  read : KeyRead
  exc : String
deriving DecidableEq, Repr

end CC.Load