/-
  CC.Model.FreqBase — the Python / numpy idioms the generated model of `frequency_components`
  (CC/Gen/Freq.lean, written by harness/extract_freq.py) is allowed to use besides `Rat`
  arithmetic, comparisons, `List.map`, `List.length`, `++` and the functions of the hand model
  it shares (`CC.sortQ` for `sorted`, `CC.mfAbsQ` for `abs`, the record `CC.FComp`).
  Mathlib-free.  This file is TRUSTED: it fixes what the translated Python constructs mean.

  Numbers: a binary64 value is the exact rational it denotes; `+ - * /` are exact.  Where a
  rounded float result and the exact one fall on different sides of an integer (`np.floor` of a
  quotient within an ulp of an integer) model and code may differ — the documented tie margin
  of C09 (harness/props/c09.py skips those inputs).

  * `npFloor x`, `npCeil x`   `np.floor(x)`, `np.ceil(x)`: the integer, as a float again
  * `npArange stop`           `np.arange(stop)` = `[0.0, 1.0, …]`, `⌈stop⌉` entries (none for `stop ≤ 0`)
  * `pyLast xs`               `xs[-1]`; the translator puts the guard `len(xs) == 0 → IndexError`
                              (`Err.keyError`) in front of every use, so the default is never read
  * `pyFlatMapM f xs`         `[y for x in xs for y in f(x)]` where `f` may raise: the first
                              exception wins, in list order
  * `pyForM step acc xs`      `for x in xs: acc = step(acc, x)` where the body may raise
  * float division `a / b`    has no idiom: the translator emits `a / b` behind the guard
                              `b == 0 → ZeroDivisionError` (`w_max`, `w` are Python floats)
  * `try: w = float(c.value['w'])  except KeyError: …` is the `match` on `FComp.w`
    (`none` = `KeyError`), the reading `CC.FComp` gives to that field
-/
import CC.Model.MultiFreq
namespace CC.FreqBase
open CC

/-- `np.floor(x)` (a float holding an integer) -/
def npFloor (x : Rat) : Rat := (x.floor : Rat)

/-- `np.ceil(x)` -/
def npCeil (x : Rat) : Rat := (x.ceil : Rat)

/-- `np.arange(stop)`: `0.0, 1.0, …` below `stop` -/
def npArange (stop : Rat) : List Rat := (List.range stop.ceil.toNat).map fun (n : Nat) => (n : Rat)

/-- `xs[-1]` (guarded by the translator: never evaluated on the empty list) -/
def pyLast (xs : List Rat) : Rat := xs.getLastD 0

/-- `[y for x in xs for y in f(x)]`; the first exception wins -/
def pyFlatMapM {α β : Type} (f : α → Except Err (List β)) : List α → Except Err (List β)
  | [] => .ok []
  | x :: xs =>
    match f x with
    | .error e => .error e
    | .ok l =>
      match pyFlatMapM f xs with
      | .error e => .error e
      | .ok r => .ok (l ++ r)

/-- `for x in xs: acc = step(acc, x)`; an exception of the body ends the loop -/
def pyForM {α σ : Type} (step : σ → α → Except Err σ) : σ → List α → Except Err σ
  | acc, [] => .ok acc
  | acc, x :: xs =>
    match step acc x with
    | .error e => .error e
    | .ok acc' => pyForM step acc' xs

end CC.FreqBase
