/-
  CC.Model.Transform — hand-written model of Network/transformers.py (all of it), literally:
  the once-computed short list, the (absorbed, retained) choice with the reference-node
  rule, the sequential renaming over *stale* pairs, self-loop dropping, the exemption list
  compared by dataclass equality (name, type, class and both values).
  Every function returns through the `Network` constructor, which may raise.
-/
import CC.Model.Net
namespace CC

section
variable {L K : Type} [DecidableEq L] [LabelOrd L]
variable [Zero K] [One K] [Add K] [Mul K] [Neg K] [Sub K] [Inv K] [Div K] [DecidableEq K]

/-- an element as the exemption list sees it: (name, type, record) -/
structure ElemKey (K : Type) where
  id : String
  ty : String
  e : Elem K
deriving DecidableEq

def Branch.key (b : Branch L K) : ElemKey K := ⟨b.id, b.ty, b.e⟩

/-- `Network(branches, zero)` with its `__post_init__` -/
def Net.mk? (bs : List (Branch L K)) (zero : L) : Except Err (Net L K) :=
  let N : Net L K := ⟨bs, zero⟩
  match N.check with
  | .ok _ => .ok N
  | .error e => .error e

/-- `switch_ground_node` -/
def switchGround (N : Net L K) (g : L) : Except Err (Net L K) := Net.mk? N.branches g

/-- `list.remove(x)`: drop the first element equal to `x` -/
def removeFirst {α : Type} [DecidableEq α] (x : α) : List α → List α
  | [] => []
  | a :: l => if a = x then l else a :: removeFirst x l

/-- `remove_element` -/
def removeElement (N : Net L K) (id : String) : Except Err (Net L K) :=
  match N.get? id with
  | none => .error .keyError
  | some b => Net.mk? (removeFirst b N.branches) N.zero

/-- `remove_open_circuit_elements` -/
def removeOpen (N : Net L K) : Except Err (Net L K) :=
  Net.mk? (N.branches.filter fun b => !b.e.isOpen) N.zero

/-- one pass of the loop body of `remove_short_circuit_elements` -/
def contractStep (bs : List (Branch L K)) (an rn : L) : List (Branch L K) :=
  let bs1 := bs.map fun b => if b.n1 = an then { b with n1 := rn } else b
  let bs2 := bs1.map fun b => if b.n2 = an then { b with n2 := rn } else b
  bs2.filter fun b => b.n1 ≠ b.n2

/-- the `(absorbed, retained)` pairs, computed once from the input network -/
def shortPairs (N : Net L K) (keep : List (ElemKey K)) : List (L × L) :=
  (N.branches.filter fun b => b.e.isShort && !(keep.contains b.key)).map fun b =>
    if b.n1 ≠ N.zero then (b.n1, b.n2) else (b.n2, b.n1)

/-- `remove_short_circuit_elements` -/
def removeShort (N : Net L K) (keep : List (ElemKey K)) : Except Err (Net L K) :=
  Net.mk? ((shortPairs N keep).foldl (fun bs p => contractStep bs p.1 p.2) N.branches) N.zero

/-- `impedance(name, Z)` / `admittance(name, Y)` of elements.py -/
def zeroInVoltage (b : Branch L K) : Branch L K :=
  { b with ty := "impedance", e := .norton b.e.Zfin 0 }
def zeroInCurrent (b : Branch L K) : Branch L K :=
  { b with ty := "admittance", e := .thevenin b.e.Yfin 0 }

/-- `short_circuitify_voltage_sources` -/
def shortCircuitifyVS (N : Net L K) (keep : List (ElemKey K)) : Except Err (Net L K) :=
  Net.mk? (N.branches.map fun b =>
    if !(keep.contains b.key) && b.e.isVSrc then zeroInVoltage b else b) N.zero

/-- `open_circuitify_current_sources` -/
def openCircuitifyCS (N : Net L K) (keep : List (ElemKey K)) : Except Err (Net L K) :=
  Net.mk? (N.branches.map fun b =>
    if !(keep.contains b.key) && b.e.isCS then zeroInCurrent b else b) N.zero

/-- `remove_ideal_current_sources` -/
def removeIdealCS (N : Net L K) (keep : List (ElemKey K)) : Except Err (Net L K) := do
  removeOpen (← openCircuitifyCS N keep)

/-- `remove_ideal_voltage_sources` -/
def removeIdealVS (N : Net L K) (keep : List (ElemKey K)) : Except Err (Net L K) := do
  removeShort (← shortCircuitifyVS N keep) keep

/-- `passive_network` -/
def passiveNetwork (N : Net L K) (keep : List (ElemKey K)) : Except Err (Net L K) := do
  removeIdealVS (← removeIdealCS N keep) keep

end
end CC
