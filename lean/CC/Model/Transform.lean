/-
  CC.Model.Transform — hand-written model of Network/transformers.py (all of it), literally:
  the short list, the (absorbed, retained) choice with the reference-node rule, the sequential
  renaming in which the remaining pairs are renamed along with the branches, self-loop dropping, the exemption list
  compared by dataclass equality (name, type, class and both values).
  Every function returns through the `Network` constructor, which may raise.
-/
import CC.Model.Net
namespace CC

section
variable {L K : Type} [DecidableEq L] [LabelOrd L]
variable [Zero K] [One K] [Add K] [Mul K] [Neg K] [Sub K] [Inv K] [Div K] [DecidableEq K]

/-- an element as the exemption list sees it: (name, type, record) -/
structure ElemKey (K : Type) where
  id : String
  ty : String
  e : Elem K
deriving DecidableEq

def Branch.key (b : Branch L K) : ElemKey K := ⟨b.id, b.ty, b.e⟩

/-- `Network(branches, zero)` with its `__post_init__` -/
def Net.mk? (bs : List (Branch L K)) (zero : L) : Except Err (Net L K) :=
  let N : Net L K := ⟨bs, zero⟩
  match N.check with
  | .ok _ => .ok N
  | .error e => .error e

/-- `switch_ground_node` -/
def switchGround (N : Net L K) (g : L) : Except Err (Net L K) := Net.mk? N.branches g

/-- `list.remove(x)`: drop the first element equal to `x` -/
def removeFirst {α : Type} [DecidableEq α] (x : α) : List α → List α
  | [] => []
  | a :: l => if a = x then l else a :: removeFirst x l

/-- `remove_element` -/
def removeElement (N : Net L K) (id : String) : Except Err (Net L K) :=
  match N.get? id with
  | none => .error .keyError
  | some b => Net.mk? (removeFirst b N.branches) N.zero

/-- `remove_open_circuit_elements` -/
def removeOpen (N : Net L K) : Except Err (Net L K) :=
  Net.mk? (N.branches.filter fun b => !b.e.isOpen) N.zero

/-- one pass of the loop body of `remove_short_circuit_elements` -/
def contractStep (bs : List (Branch L K)) (an rn : L) : List (Branch L K) :=
  let bs1 := bs.map fun b => if b.n1 = an then { b with n1 := rn } else b
  let bs2 := bs1.map fun b => if b.n2 = an then { b with n2 := rn } else b
  bs2.filter fun b => b.n1 ≠ b.n2

/-- the terminal pairs of the short circuits to contract (reference-node rule applied), computed from the
input network; the loop keeps them up to date (`renPair`) -/
def shortPairs (N : Net L K) (keep : List (ElemKey K)) : List (L × L) :=
  (N.branches.filter fun b => b.e.isShort && !(keep.contains b.key)).map fun b =>
    if b.n1 ≠ N.zero then (b.n1, b.n2) else (b.n2, b.n1)

/-- `(absorbed, retained)` for a short between `p.1` and `p.2`: the reference node is never absorbed
(`an, rn = (n1, n2) if not network.is_zero_node(n1) else (n2, n1)`) -/
def orient (z : L) (p : L × L) : L × L := if p.1 ≠ z then (p.1, p.2) else (p.2, p.1)

/-- a pair seen through the renaming `an → rn` (`(rn if a == an else a, rn if r == an else r)`) -/
def renPair (an rn : L) (p : L × L) : L × L := (if p.1 = an then rn else p.1, if p.2 = an then rn else p.2)

/-- the loop of `remove_short_circuit_elements`: contract the first pair, rename the remaining pairs
accordingly, continue -/
def contractAll (z : L) : List (L × L) → List (Branch L K) → List (Branch L K)
  | [], bs => bs
  | p :: ps, bs =>
    contractAll z (ps.map (renPair (orient z p).1 (orient z p).2)) (contractStep bs (orient z p).1 (orient z p).2)
termination_by ps => ps.length
decreasing_by simp

/-- `remove_short_circuit_elements` -/
def removeShort (N : Net L K) (keep : List (ElemKey K)) : Except Err (Net L K) :=
  Net.mk? (contractAll N.zero (shortPairs N keep) N.branches) N.zero

/-- `impedance(name, Z)` / `admittance(name, Y)` of elements.py -/
def zeroInVoltage (b : Branch L K) : Branch L K :=
  { b with ty := "impedance", e := .norton b.e.Zfin 0 }
def zeroInCurrent (b : Branch L K) : Branch L K :=
  { b with ty := "admittance", e := .thevenin b.e.Yfin 0 }

/-- `short_circuitify_voltage_sources` -/
def shortCircuitifyVS (N : Net L K) (keep : List (ElemKey K)) : Except Err (Net L K) :=
  Net.mk? (N.branches.map fun b =>
    if !(keep.contains b.key) && b.e.isVSrc then zeroInVoltage b else b) N.zero

/-- `open_circuitify_current_sources` -/
def openCircuitifyCS (N : Net L K) (keep : List (ElemKey K)) : Except Err (Net L K) :=
  Net.mk? (N.branches.map fun b =>
    if !(keep.contains b.key) && b.e.isCS then zeroInCurrent b else b) N.zero

/-- `remove_ideal_current_sources` -/
def removeIdealCS (N : Net L K) (keep : List (ElemKey K)) : Except Err (Net L K) := do
  removeOpen (← openCircuitifyCS N keep)

/-- `remove_ideal_voltage_sources` -/
def removeIdealVS (N : Net L K) (keep : List (ElemKey K)) : Except Err (Net L K) := do
  removeShort (← shortCircuitifyVS N keep) keep

/-- `passive_network` -/
def passiveNetwork (N : Net L K) (keep : List (ElemKey K)) : Except Err (Net L K) := do
  removeIdealVS (← removeIdealCS N keep) keep

end
end CC
