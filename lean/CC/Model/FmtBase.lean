/-
  CC.Model.FmtBase — numeric and string primitives of the formatting model (C18, C14).

  Mathlib-free, executable, over exact `Rat` / `Int` / `List Char`.  Text is modelled as
  `List Char` (Python `str` is a sequence of code points; `String.ofList` converts at the
  driver boundary).  Every recursive function is structurally recursive on a fuel argument
  so that the kernel can evaluate the model on closed inputs (`by decide`).

  Runtime behaviour of Python/numpy that is a *parameter* of the model (trusted base):
  * `np.round`, `np.rint`: round-half-even (`rhe`) of the exact value;
  * `10**e`, `/`, `*` on floats: exact rational arithmetic;
  * `repr(float)`: see `CC.Model.Fmt.floatToString`;
  * `f'{x:.nf}'`: correctly rounded (half-even on the exact binary value) fixed notation.
-/
namespace CC.Fmt

/-- `10**e` for an integer `e` (Python: `int` for `e ≥ 0`, `float` for `e < 0`) -/
def pow10 (e : Int) : Rat :=
  if 0 ≤ e then ((10 ^ e.toNat : Nat) : Rat) else 1 / ((10 ^ (-e).toNat : Nat) : Rat)

/-- `abs` on rationals -/
def qabs (x : Rat) : Rat := if x < 0 then -x else x

/-- `np.round(x)` / `np.rint(x)`: nearest integer, ties to even -/
def rhe (x : Rat) : Int :=
  let f := x.floor
  let r := x - (f : Rat)
  if r < 1/2 then f else if 1/2 < r then f + 1 else if f % 2 = 0 then f else f + 1

/-- distance of `x` from the nearest rounding tie `k + 1/2` (used by the tie-margin guard) -/
def tieDist (x : Rat) : Rat := qabs (x - (x.floor : Rat) - 1/2)

/-- `int(x)` on a Python number: truncation toward zero -/
def trunc (x : Rat) : Int := if x < 0 then -((-x).floor) else x.floor

/-- `x % 1` for `x ≥ 0` -/
def frac (x : Rat) : Rat := x - (x.floor : Rat)

/-! ### decimal digits -/

def numDigitsAux : Nat → Nat → Nat
  | 0, _ => 1
  | f + 1, n => if n < 10 then 1 else 1 + numDigitsAux f (n / 10)

/-- `len(str(n))` for a natural number -/
def numDigits (n : Nat) : Nat := numDigitsAux n n

def digitChar (d : Nat) : Char := Char.ofNat (48 + d)

def natDigitsAux : Nat → Nat → List Char → List Char
  | 0, _, acc => acc
  | f + 1, n, acc =>
    if n < 10 then digitChar n :: acc else natDigitsAux f (n / 10) (digitChar (n % 10) :: acc)

/-- `str(n)` / `f'{n:d}'` for a natural number -/
def natDigits (n : Nat) : List Char := natDigitsAux (n + 1) n []

/-- `f'{i:d}'` -/
def intStr (i : Int) : List Char :=
  if i < 0 then '-' :: natDigits i.natAbs else natDigits i.natAbs

/-- `f'{n:0{w}d}'` for `n ≥ 0`: left-pad with zeros to width `w` (never truncates) -/
def zeroPad (w : Nat) (n : Nat) : List Char :=
  let d := natDigits n
  List.replicate (w - d.length) '0' ++ d

/-- `f'{x:.{n}f}'`: sign, integer part, and (for `n > 0`) `n` decimals of the correctly
rounded value.  Returns (negative?, integer part, fractional digits as a number, n). -/
def fixedParts (x : Rat) (n : Nat) : Bool × Nat × Nat :=
  let K := (rhe (qabs x * ((10 ^ n : Nat) : Rat))).toNat
  (decide (x < 0), K / 10 ^ n, K % 10 ^ n)

def fixedFmt (x : Rat) (n : Nat) : List Char :=
  let (neg, ip, fr) := fixedParts x n
  (if neg then ['-'] else []) ++ natDigits ip ++ (if n = 0 then [] else '.' :: zeroPad n fr)

/-- leading zeros of the decimal expansion of `x`, `0 < x < 1` (number of `0` characters
directly after the decimal point) -/
def lzAux : Nat → Rat → Nat → Nat
  | 0, _, k => k
  | f + 1, x, k => if 1 ≤ x * 10 then k else lzAux f (x * 10) (k + 1)

def lzExact (x : Rat) : Nat := lzAux (numDigits x.den) x 0

/-- `⌊log₁₀ x⌋` for `x > 0` -/
def decade (x : Rat) : Int :=
  if 1 ≤ x then (numDigits x.floor.toNat : Int) - 1 else -((lzExact x : Int)) - 1

/-! ### Python `str.strip()` on the sign strings -/

def stripL : List Char → List Char
  | [] => []
  | c :: cs => if c = ' ' then stripL cs else c :: cs

def strip (s : List Char) : List Char := (stripL (stripL s).reverse).reverse

/-! ### prefix tables (`dict[int, str]`) -/

abbrev Table := List (Int × List Char)

def Table.keys (T : Table) : List Int := T.map (·.1)

def listMax : List Int → Int
  | [] => 0
  | a :: as => as.foldl max a

def listMin : List Int → Int
  | [] => 0
  | a :: as => as.foldl min a

/-- `max(T.keys())` -/
def Table.maxKey (T : Table) : Int := listMax T.keys
/-- `min(T.keys())` -/
def Table.minKey (T : Table) : Int := listMin T.keys
/-- `k in T.keys()` -/
def Table.has (T : Table) (k : Int) : Bool := T.keys.contains k
/-- `T[k]` / `T.get(k, '')` -/
def Table.get (T : Table) (k : Int) : List Char := (T.lookup k).getD []

/-- constructor call of `ScientificFloat` / `ScientificComplex` inside a `Display.print_*`
helper, as recovered by the translator (`none` = the helper forwards its own parameter of
the same name) -/
structure CallCfg where
  cls : String
  value : String
  unit : Option (List Char)
  usePrefix : Bool
  table : Table
  compact : Bool := false
  polar : Option Bool := some false
  deg : Option Bool := some false
deriving Repr, DecidableEq

end CC.Fmt
