/-
  CC.Model.PortBase — the Python / numpy idioms the generated model of
  `open_circuit_impedance` / `element_impedance` (Network/NodalAnalysis/node_analysis.py →
  CC/Gen/Port.lean, written by harness/extract_port.py on every run) may use besides those of
  CC/Model/CoreBase.lean and CC/Model/TransformersBase.lean.  Mathlib-free.  Each definition
  states the Python construct it stands for; together with the two other `*Base` files they are
  the trusted reading of the translator's grammar for these two functions.

  An `np.ndarray` of booleans (a mask) is a `List Bool`; a 1-d complex array is a `List K`; a 2-d
  array is `Py.Mat K` (shape + rows).  `IndexError` is reported as `Err.keyError` (the model's tag
  for KeyError / IndexError on a look-up), `numpy.linalg.LinAlgError` as `Err.singular`.
-/
import CC.Model.CoreBase
namespace CC.Py

variable {K : Type}

/-- `any(l)` for a Python list of booleans -/
def anyL (l : List Bool) : Bool := l.any fun b => b

/-- `v.any()` for a 1-d numeric array: is some entry non-zero? -/
def vecAny [Zero K] [DecidableEq K] (v : List K) : Bool := v.any fun x => decide (x ≠ 0)

/-- `M[:, j]` for a column index `j` that is in range: the `j`-th entry of every row -/
def Mat.col [Zero K] (M : Mat K) (j : Nat) : List K := M.rows.map fun r => r.getD j 0

/-- `M.any(axis=0)`: one boolean per column — does the column have a non-zero entry? -/
def Mat.anyAxis0 [Zero K] [DecidableEq K] (M : Mat K) : List Bool :=
  (List.range M.ncols).map fun c => vecAny (M.col c)

/-- `np.count_nonzero(mask)` for a boolean array: the number of `True` entries -/
def countNonzero (mask : List Bool) : Nat := (mask.filter fun b => b).length

/-- the entries of `x` at the positions where the boolean array `mask` is `True`
(`x[mask]`; also the positions `np.ix_` derives from a boolean argument: `mask.nonzero()`).
Positions of `mask` beyond the end of `x` select nothing (numpy raises `IndexError` for a `True`
there; the translated code only builds masks as long as the axis they select from). -/
def maskSelect {α : Type} : List Bool → List α → List α
  | true :: ks, x :: xs => x :: maskSelect ks xs
  | false :: ks, _ :: xs => maskSelect ks xs
  | _, _ => []

/-- `M[np.ix_(r, c)]` for boolean arrays `r`, `c`: the rows at the `True` positions of `r`, of
these the entries at the `True` positions of `c`; the shape is `(count_nonzero r, count_nonzero c)` -/
def Mat.ix (M : Mat K) (r c : List Bool) : Mat K :=
  ⟨countNonzero r, countNonzero c, (maskSelect r M.rows).map (maskSelect c)⟩

/-- the statement `x[i] = v` on a 1-d array for an index `i ≥ 0` (the value of an `int(…)` of a
count): `IndexError` iff `i ≥ len(x)` -/
def setItem {α : Type} (x : List α) (i : Nat) (v : α) : Except Err (List α) :=
  if i < x.length then .ok (x.set i v) else .error .keyError

/-- the expression `x[i]` on a 1-d array for an index `i ≥ 0`: `IndexError` iff `i ≥ len(x)` -/
def getItem {α : Type} (x : List α) (i : Nat) : Except Err α :=
  match x[i]? with
  | some z => .ok z
  | none => .error .keyError

/-- `np.linalg.solve(A, b)`: the solver is NOT modelled — it is the parameter `solve`
(a certificate: theorems constrain it by `A·x = b`, the driver checks that equation exactly);
`none` stands for `numpy.linalg.LinAlgError` -/
def linalgSolve (solve : Mat K → List K → Option (List K)) (A : Mat K) (b : List K) : Except Err (List K) :=
  match solve A b with
  | some x => .ok x
  | none => .error .singular

end CC.Py
