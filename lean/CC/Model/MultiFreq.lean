/-
  CC.Model.MultiFreq — hand-written model of
    Circuit/circuit.py:45-55      (frequency_components)
    Circuit/solution.py:82-137    (TimeDomainSolution, FrequencyDomainSolution)
    Circuit/transformers.py       (the two source gates: |w − w_src| ≤ w_resolution, and the
                                   harmonic selection n = round(w/w0), |w/w0 − n| ≤ w_resolution/w0)
  Mathlib-free, concrete over core `Rat` (frequencies, times) and `CC.GQ` (phasors): the
  model sees the exact values of the binary64 numbers.  Transcendental functions are
  parameters: a line is evaluated from `c = cos(w·t)`, `s = sin(w·t)` handed in by the caller;
  `CC.C09_time_function` shows over ℂ that `|X|·cos(w t + arg X) = X.re·c − X.im·s`.
  The per-frequency networks and their solutions are the implementation's own
  (`transform`, modelled by C02/C07; solver modelled by C01) — this file models the
  bookkeeping that C09 is about: which frequencies are listed, which source is active at
  which listed frequency, how lines are summed, how the spectrum is mirrored.
-/
import CC.Num
import CC.Model.Net
namespace CC

/-! ### circuit.py:45-55 -/

/-- what `frequency_components` reads of a component: its `type` and `float(value['w'])`
(`none` = `KeyError`, i.e. the component has no frequency) -/
structure FComp where
  ty : String
  w : Option Rat
deriving Repr, DecidableEq

def FComp.isPeriodic (c : FComp) : Bool :=
  c.ty == "periodic_voltage_source" || c.ty == "periodic_current_source"

/-- `[w*n for n in np.arange(np.floor(w_max/w) + 1)]` -/
def harmonicList (w wmax : Rat) : List Rat :=
  (List.range ((wmax / w).floor + 1).toNat).map fun (n : Nat) => w * (n : Rat)

/-- the inner function `frequencies(component)`; `w_max / 0.0` raises `ZeroDivisionError` -/
def FComp.frequencies (wmax : Rat) (c : FComp) : Except Err (List Rat) :=
  match c.w with
  | none => .ok []
  | some w =>
    if c.isPeriodic then
      if w = 0 then .error .zeroDivision else .ok (harmonicList w wmax)
    else .ok [w]

/-- the flattened comprehension `[w for c in circuit.components for w in frequencies(c)]`;
the first exception wins -/
def allFrequencies (wmax : Rat) : List FComp → Except Err (List Rat)
  | [] => .ok []
  | c :: cs =>
    match c.frequencies wmax with
    | .error e => .error e
    | .ok l =>
      match allFrequencies wmax cs with
      | .error e => .error e
      | .ok r => .ok (l ++ r)

def insertQ (a : Rat) : List Rat → List Rat
  | [] => [a]
  | b :: l => if a ≤ b then a :: b :: l else b :: insertQ a l

/-- `sorted` on floats -/
def sortQ : List Rat → List Rat
  | [] => []
  | a :: l => insertQ a (sortQ l)

/-- the merge loop of `frequency_components` (after fix 6e56e9e) over the sorted list, written
with the last kept frequency carried along: a frequency is kept iff it exceeds the previously
*kept* one by more than the resolution -/
def mergeFrom (wres last : Rat) : List Rat → List Rat
  | [] => []
  | w :: l => if w - last > wres then w :: mergeFrom wres w l else mergeFrom wres last l

/-- `distinct_frequencies` -/
def mergeRes (wres : Rat) : List Rat → List Rat
  | [] => []
  | w :: l => w :: mergeFrom wres w l

/-- `frequency_components(circuit, w_max, w_resolution)` -/
def frequencyComponents (cs : List FComp) (wmax : Rat) (wres : Rat := 1/1000) : Except Err (List Rat) :=
  match allFrequencies wmax cs with
  | .error e => .error e
  | .ok l => .ok (mergeRes wres (sortQ l))

/-! ### transformers.py: when is a source active at an analysed frequency -/

def mfAbsQ (x : Rat) : Rat := if 0 ≤ x then x else -x

/-- `np.abs(w - w_src) > w_resolution` ⇒ replaced by a short / an open circuit -/
def gateSingle (w ws wres : Rat) : Bool := !decide (mfAbsQ (w - ws) > wres)

/-- `np.round`: round half to even -/
def mfRoundHalfEven (x : Rat) : Int :=
  let f := x.floor
  let d := x - (f : Rat)
  if d < 1/2 then f else if d > 1/2 then f + 1 else if f % 2 = 0 then f else f + 1

/-- `n = np.round(w/w0)` -/
def harmonicIndex (w w0 : Rat) : Int := mfRoundHalfEven (w / w0)

/-- `delta_n = |w/w0 − n| > w_resolution/w0` ⇒ replaced by a short / an open circuit -/
def gatePeriodic (w w0 wres : Rat) : Bool :=
  !decide (mfAbsQ (w / w0 - (harmonicIndex w w0 : Rat)) > wres / w0)

/-- a source as the gates see it -/
structure Src where
  periodic : Bool
  w : Rat
deriving Repr, DecidableEq

/-- `some n`: the source is active at analysed frequency `w`, contributing its harmonic `n`
(`0` for a single-frequency source); `none`: it is replaced by a short / an open circuit -/
def Src.activeIndex (s : Src) (w wres : Rat) : Option Int :=
  if s.periodic then
    if gatePeriodic w s.w wres then some (harmonicIndex w s.w) else none
  else
    if gateSingle w s.w wres then some 0 else none

def FComp.toSrc? (c : FComp) : Option Src :=
  match c.w with
  | none => none
  | some w => some ⟨c.isPeriodic, w⟩

/-! ### solution.py:82-108 — TimeDomainSolution -/

/-- `np.abs(X)*np.cos(w*t + np.angle(X))` with `c = cos(w t)`, `s = sin(w t)` -/
def lineValue (X : GQ) (c s : Rat) : Rat := X.re * c - X.im * s

/-- `np.sum([...  for V, w in zip(values, self.w)])` -/
def timeValue (lines : List (GQ × Rat × Rat)) : Rat :=
  (lines.map fun l => lineValue l.1 l.2.1 l.2.2).sum

/-! ### solution.py:110-137 — FrequencyDomainSolution -/

/-- one-sided series: `(np.array(self.w), np.array([sol.get_x(id) for sol in self._solutions]))` -/
def oneSided (ws : List Rat) (X : List GQ) : List Rat × List GQ := (ws, X)

/-- `ac = slice(1, None) if len(w) > 0 and w[0] == 0 else slice(0, None)`: how many leading
entries are *not* mirrored (1 when a DC line is listed, else 0) -/
def dcCount (ws : List Rat) : Nat :=
  match ws with
  | w :: _ => if w = 0 then 1 else 0
  | [] => 0

/-- `np.concatenate((-w[ac][::-1], w))` (solution.py `_series`, after fix 0a2e57e) -/
def mirrorW (ws : List Rat) : List Rat := ((ws.drop (dcCount ws)).reverse.map fun w => -w) ++ ws

/-- `np.concatenate((np.conj(X[ac][::-1])/2, X[:len(w)-len(w[ac])], X[ac]/2))` -/
def mirrorX (ws : List Rat) (X : List GQ) : List GQ :=
  let d := dcCount ws
  ((X.drop d).reverse.map fun z => GQ.ofRat (1/2) * GQ.conj z)
    ++ X.take (ws.length - (ws.drop d).length)
    ++ (X.drop d).map fun z => GQ.ofRat (1/2) * z

/-- `_series(values)` -/
def series (oneSidedFlag : Bool) (ws : List Rat) (X : List GQ) : List Rat × List GQ :=
  if oneSidedFlag then (ws, X) else (mirrorW ws, mirrorX ws X)

end CC
