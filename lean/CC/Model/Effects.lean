/-
  CC.Model.Effects — the heap-passing state machine of C20 (Mathlib-free).

  State  = the pool of argument objects (a list of cells).
  Op     = a function name of the generated effect summary (CC/Gen/Effects.lean) with the
           binding  parameter ↦ cell  of those arguments that are pool objects.
  The semantics `run` of an operation is a *parameter* (`Machine`): any function from the
  heap to an output and a new heap.  What ties it to the summary is `Machine.Sound`: an
  operation leaves every cell outside its write set alone.  That the real Python functions
  are sound in this sense is the trusted base of C20; it is validated dynamically on every
  run (harness/props/c20.py: deep snapshots of every argument before/after every call), and
  it is *proved* below for the loader model of CC/Model/Load.lean (`loadMachine_sound`).
-/
import CC.Model.Load
import CC.Gen.Effects
namespace CC.Load
/-- an operation of a history -/
structure Op where
  fn : String
  /-- parameter name ↦ heap cell -/
  args : List (String × Nat)
  /-- a boolean option of the call (`degree` of `to_complex`); ignored by the effect model -/
  flag : Bool := false
deriving DecidableEq, Repr

/-- the roots the summary says `fn` may write; `none`: the function is not in the summary -/
def writeRoots (fn : String) : Option (List String) :=
  (Gen.Effects.effects.find? (fun p => p.1 == fn)).map (·.2)

/-- cells an operation may write: the cells bound to written parameters; for a function
that is not in the summary, every argument -/
def Op.writeCells (op : Op) : List Nat :=
  match writeRoots op.fn with
  | none => op.args.map (·.2)
  | some ws => (op.args.filter (fun a => ws.contains a.1)).map (·.2)

/-- does the summary let the operation write a module-level object? -/
def Op.writesGlobal (op : Op) : Bool :=
  (writeRoots op.fn).isNone || Gen.Effects.globalWrites.any (fun p => p.1 == op.fn)

structure Machine (V O : Type) where
  run : Op → List V → O × List V

/-- the effect summary over-approximates what `run` writes -/
def Machine.Sound {V O : Type} (M : Machine V O) : Prop :=
  ∀ (op : Op) (h : List V), (M.run op h).2.length = h.length ∧
    ∀ i : Nat, i ∉ op.writeCells → (M.run op h).2[i]? = h[i]?

/-- run a history: the outputs in order and the final heap -/
def Machine.runAll {V O : Type} (M : Machine V O) : List Op → List V → List O × List V
  | [], h => ([], h)
  | op :: r, h =>
    let x := M.run op h
    let y := M.runAll r x.2
    (x.1 :: y.1, y.2)

/-! ### the loader model as a machine -/

/-- outputs of the loader operations -/
inductive LoadOut where
  | cx (r : Except Err GQ)
  | net (r : Except Err (List LBranch))
  | comp (r : Except Err Comp)
  | circ (r : Except Err Circ)
  | tree (r : Except Err J)
  | badOp
deriving Repr

abbrev LoadOp := Op

/-- the loader operations of the machine and the name of the parameter that receives the cell -/
def loadParams : List (String × String) := [
  ("Network.loaders.to_complex", "z"),
  ("Network.loaders.load_network", "network_dict"),
  ("Circuit.dump_load.generate_component", "component"),
  ("Circuit.dump_load.undictify_circuit", "circuit"),
  ("dump_load.dictify_complex_values", "data"),
  ("dump_load.dictify_all_complex_values", "data"),
  ("dump_load.undictify_complex_values", "data"),
  ("dump_load.undictify_all_complex_values", "data")]

/-- semantics of one loader operation on the value of its argument cell: the cell's
post-state and the output -/
def loadSem (T : Trig) (fn : String) (flag : Bool) (v : J) : Option (J × LoadOut) :=
  if fn = "Network.loaders.to_complex" then
    let r := toComplex T v flag; some (r.2, .cx r.1)
  else if fn = "Network.loaders.load_network" then
    let r := loadNetwork T v; some (r.2, .net r.1)
  else if fn = "Circuit.dump_load.generate_component" then
    let r := generateComponent v; some (r.2, .comp r.1)
  else if fn = "Circuit.dump_load.undictify_circuit" then
    let r := undictifyCircuit v; some (r.2, .circ r.1)
  else if fn = "dump_load.dictify_complex_values" then some (v, .tree (dictifyCxJ v))
  else if fn = "dump_load.dictify_all_complex_values" then some (v, .tree (.ok (dictifyAll v)))
  else if fn = "dump_load.undictify_complex_values" then some (v, .tree (undictifyCxJ T v))
  else if fn = "dump_load.undictify_all_complex_values" then some (v, .tree (undictifyAll T v))
  else none

/-- one step of the loader machine: the operation must name the real parameter -/
def loadStep (T : Trig) (h : List J) (op : LoadOp) : List J × LoadOut :=
  match op.args with
  | [(p, i)] =>
    match h[i]?, loadParams.find? (fun q => q.1 == op.fn) with
    | some v, some (_, q) =>
      if p = q then
        match loadSem T op.fn op.flag v with
        | some (v', out) => (h.set i v', out)
        | none => (h, .badOp)
      else (h, .badOp)
    | _, _ => (h, .badOp)
  | _ => (h, .badOp)

def loadMachine (T : Trig) : Machine J LoadOut :=
  { run := fun op h => let r := loadStep T h op; (r.2, r.1) }

/-- operations of the scope modules whose write set is *not* empty on the current tree: none
(until the fix commits b501fa0, cd8d9e4, 2481879 the list named `to_complex`, `load_network`,
everything forwarding to them, and the in-place conversions of dump_load.py). -/
def frameExceptions : List String := []

end CC.Load
