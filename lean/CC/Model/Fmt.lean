/-
  CC.Model.Fmt — model of the number formatting pipeline of `Utils.py` and
  `SimpleCircuit/Display.py` (property C18; reused by C14).

  Layering: the arithmetic kernels, tables, defaults and sign helpers come from the generated
  `CC.Gen.Fmt` (translator); the string-assembly methods are transcribed here by hand, line
  by line, and are tied to the code by the rendered-string correspondence (and by the shape
  guard of the translator).  The model works on the *exact rational value* of the binary64
  input; float arithmetic inside the pipeline (`value/10**e`, `np.round`, `10**-k`, `% 1`) is
  replaced by exact arithmetic with round-half-even where numpy rounds.

  Python's `repr(float)` is a parameter of the model with this assumed behaviour
  (DESIGN §5 C18): for `x ≥ 0`
  * the result is in exponent notation iff `x ≠ 0 ∧ (x < 1e-4 ∨ 1e16 ≤ x)`;
  * in positional notation the integer part is `⌊x⌋` and, for `x < 1`, the number of zeros
    after the decimal point is that of the exact value (true of any decimal that rounds to
    `x`, because the binary64 neighbours of `10^-k`, `k ≤ 4`, lie on the same side);
  * in exponent notation the printed exponent is `⌊log₁₀ x⌋` of the exact value (it can
    differ by one for floats just below a power of ten whose shortest repr is that power;
    the harness counts such inputs, and the model absorbs the difference: see the remark at
    `floatToString`).
-/
import CC.Model.FmtBase
import CC.Gen.FmtTables
namespace CC.Fmt
open CC.Gen.Fmt

/-- what `exponent` reads off the string returned by `_float_to_string(x)`, `x ≥ 0`:
`intPart` — the number denoted by `split('.')[0]`;
`lz` — `len(post) - len(post.lstrip('0'))` of `post = split('.')[-1]` (meaningful when
`intPart = 0`; by Python's arithmetic the post-decimal string `'0'` has one leading zero);
`postZero` — `post == '0'`. -/
structure FStr where
  intPart : Nat
  lz : Nat
  postZero : Bool
deriving Repr, DecidableEq

/-- `repr` uses exponent notation -/
def reprSci (x : Rat) : Bool :=
  decide (x ≠ 0) && (decide (x < 1 / 10000) || decide ((10000000000000000 : Rat) ≤ x))

/-- `FloatPrecision._float_to_string` (Utils.py:40-45), abstracted to `FStr`.
Exponent notation: `n = |E| + 1 + precision` decimals of the correctly rounded fixed
notation.  (If `repr` prints `E + 1` instead of `E` — a float just below `10^(E+1)` — one
decimal fewer is produced; the digits then round to the same power of ten, and the leading
zero count read by `exponent` is unchanged.) -/
def floatToString (precision : Nat) (x : Rat) : FStr :=
  if reprSci x then
    let n := (decade x).natAbs + 1 + precision
    let K := (rhe (x * ((10 ^ n : Nat) : Rat))).toNat
    let fr := K % 10 ^ n
    { intPart := K / 10 ^ n, lz := if fr = 0 then n else n - numDigits fr, postZero := false }
  else
    let ip := x.floor.toNat
    let fr := x - (ip : Rat)
    if fr = 0 then { intPart := ip, lz := 1, postZero := true }
    else { intPart := ip, lz := lzExact fr, postZero := false }

/-- `FloatPrecision.exponent` (Utils.py:25-38) -/
def exponent (value : Rat) (precision : Nat) : Int :=
  let a := qabs value
  let s := floatToString precision a
  if s.intPart = 0 then
    let exp0 := s.lz
    -- np.round(abs_value * 10**exp0, decimals=precision) / 10**exp0
    let rounded : Rat :=
      ((rhe (a * pow10 exp0 * pow10 precision) : Int) : Rat) / pow10 precision / pow10 exp0
    let s2 := floatToString precision rounded
    if s2.postZero then 0 else -((s2.lz : Int) + precision)
  else
    (numDigits s.intPart : Int) - precision

/-- the object `ScientificFloat.value3` (a `Float3`) -/
structure F3 where
  value : Rat
  precision : Nat
  minExp : Int
  maxExp : Int
deriving Repr

namespace F3
def exponent (f : F3) : Int := CC.Fmt.exponent f.value f.precision
def mantissa (f : F3) : Int := fp_mantissa f.value f.exponent
def isZero (f : F3) : Bool := fp_is_zero f.value f.exponent f.minExp
def isInf (f : F3) : Bool := fp_is_inf f.value f.precision f.exponent f.maxExp
def exponent3 (f : F3) : Int := f3_exponent3 f.precision f.exponent
def mantissa3 (f : F3) : Rat := f3_mantissa3 f.mantissa f.exponent f.exponent3
end F3

/-- a `ScientificFloat` without its value -/
structure SFCfg where
  unit : List Char := sf_unit_default
  precision : Nat := sf_precision_default.toNat
  usePrefix : Bool := sf_use_exp_prefix_default
  table : Table := sf_exp_prefixes_default
deriving Repr

def SFCfg.value3 (c : SFCfg) (v : Rat) : F3 :=
  { value := v, precision := c.precision,
    minExp := sf_value3_min_exp c.usePrefix c.table, maxExp := sf_value3_max_exp c.usePrefix c.table }

/-- Python `round(x, n)` for `n ≥ 0`: `x` rounded (half-even on the exact value) to `n` decimals -/
def roundTo (x : Rat) (n : Nat) : Rat := ((rhe (x * pow10 n) : Int) : Rat) / pow10 n

/-- the mantissa text of `ScientificFloat.__str__`: the number of decimals is fixed from the unrounded
scaled mantissa, then the digits are taken from the mantissa *rounded to those decimals* (so that a float
product such as 7.999999999999999 prints as 8.000…; /repo 8387fb8) -/
def mantissaText (m3 : Rat) (precision : Nat) : List Char :=
  let am := qabs m3
  let pre := if am < 1 then 0 else numDigits am.floor.toNat
  let post := precision - pre                       -- max(precision - pre, 0)
  let r := roundTo m3 post                          -- mantissa3 = round(self.value3.mantissa3, post)
  let preDec := trunc r
  let postDec := (rhe (frac (qabs r) * pow10 post)).toNat
  intStr preDec ++ (if post = 0 then [] else '.' :: zeroPad post postDec)

/-- `ScientificFloat.__str__` (Utils.py:105-114) -/
def SFCfg.str (c : SFCfg) (v : Rat) : List Char :=
  let f := c.value3 v
  if f.isInf then (if f.mantissa ≥ 0 then sf_str_inf_pos else sf_str_inf_neg)
  else
    mantissaText f.mantissa3 c.precision
      ++ sf_exp_extension c.usePrefix c.table f.exponent3
      ++ sf_exp_prefix c.usePrefix c.table f.exponent3
      ++ c.unit

/-- a `ScientificComplex` without its value -/
structure SCCfg extends SFCfg where
  compact : Bool := sc_compact_default
  polar : Bool := sc_polar_default
  deg : Bool := sc_deg_default
deriving Repr

/-- `ScientificComplex.__str__` (Utils.py:167-181).  `absV = abs(value)` and
`angle = np.angle(value, deg)` are parameters (libm). -/
def SCCfg.str (c : SCCfg) (re im absV angle : Rat) : List Char :=
  let sf := c.toSFCfg
  if c.polar then
    if c.deg then
      if qabs angle ≤ pow10 sc_deg_log10_threshold then sf.str absV
      else sf.str absV ++ sc_polar_sep_deg ++ fixedFmt angle sc_deg_decimals ++ sc_deg_suffix
    else
      if qabs angle ≤ pow10 sc_rad_log10_threshold then sf.str absV
      else sf.str absV ++ sc_polar_sep_rad ++ fixedFmt angle sc_rad_decimals
  else
    let rs := sf.str (qabs re)
    let is := sf.str (qabs im)
    if (sf.value3 (qabs im)).isZero then sc_real_sign re c.compact ++ rs
    else if (sf.value3 (qabs re)).isZero then
      (if im < 0 then sc_imag_sign im c.compact ++ sc_j_imag_neg ++ is else sc_j_imag_pos ++ is)
    else sc_real_sign re c.compact ++ rs ++ sc_imag_sign im c.compact ++ sc_j_full ++ is

/-! ### `Display.print_*` -/

def cfgOfCall (k : CallCfg) (unit : List Char) (precision : Nat) : SFCfg :=
  { unit := k.unit.getD unit, precision := precision, usePrefix := k.usePrefix, table := k.table }

def scOfCall (k : CallCfg) (unit : List Char) (precision : Nat) (polar deg : Bool) : SCCfg :=
  { cfgOfCall k unit precision with
    compact := k.compact, polar := k.polar.getD polar, deg := k.deg.getD deg }

/-- `print_complex(value, unit, precision, polar, deg)` -/
def printComplex (re im absV angle : Rat) (unit : List Char) (precision : Nat) (polar deg : Bool) : List Char :=
  (scOfCall print_complex_call0 unit precision polar deg).str re im absV angle

/-- `print_abs(value, unit, precision)`; `absV = abs(value)` -/
def printAbs (absV : Rat) (unit : List Char) (precision : Nat) : List Char :=
  (cfgOfCall print_abs_call0 unit precision).str absV

/-- `print_real(value, unit, precision)` -/
def printReal (re : Rat) (unit : List Char) (precision : Nat) : List Char :=
  (cfgOfCall print_real_call0 unit precision).str re

/-- `print_sinosoidal` (Display.py:39-57).  Parameters (libm / float arithmetic):
`absV = abs(value)`, `phase = phase(value) (+ print_sinosoidal_sin_shift·pi/2 if sin)`, `phaseDeg = degrees(phase)`,
`wHz = w/2/pi`; `re = value.real` (shown with its sign when `w = 0`). -/
def printSinusoidal (re absV phase phaseDeg w wHz : Rat) (unit : List Char) (precision : Nat)
    (sin deg hertz : Bool) : List Char :=
  let label := (cfgOfCall print_sinosoidal_call0 unit precision).str absV
  if w = 0 then (cfgOfCall print_sinosoidal_call3 unit precision).str re     -- the constant Re(X·e^{j0})
  else
    let absPhase :=
      if deg then (cfgOfCall print_sinosoidal_call1 [] precision).str (qabs phaseDeg)
      else (cfgOfCall print_sinosoidal_call2 [] precision).str (qabs phase)
    label ++ print_sinosoidal_mul ++ (if sin then print_sinosoidal_sin else print_sinosoidal_cos)
      ++ print_sinosoidal_open ++ (if hertz then print_sinosoidal_two_pi else [])
      ++ (if hertz then (cfgOfCall print_sinosoidal_call4 [] precision).str wHz
          else (cfgOfCall print_sinosoidal_call5 [] precision).str w)
      ++ print_sinosoidal_t
      ++ (if qabs phase > print_sinosoidal_phase_threshold then
            (if phase > 0 then print_sinosoidal_plus else print_sinosoidal_minus) ++ absPhase
          else [])
      ++ print_sinosoidal_close

/-- `print_active_power(value, precision)` -/
def printActivePower (v : Rat) (precision : Nat) : List Char :=
  (cfgOfCall print_active_power_call0 [] precision).str (qabs v)
    ++ (if v > 0 then print_active_power_down else print_active_power_up)

/-- `print_active_reactive_power(value, precision)` -/
def printActiveReactivePower (re im : Rat) (precision : Nat) : List Char :=
  let P := (cfgOfCall print_active_reactive_power_call0 [] precision).str (qabs re)
  let Q := (cfgOfCall print_active_reactive_power_call1 [] precision).str (qabs im)
  print_active_reactive_power_p_label
    ++ (if re > 0 then print_active_reactive_power_p_down else print_active_reactive_power_p_up) ++ P
    ++ (if qabs im > print_active_reactive_power_q_threshold then
          print_active_reactive_power_q_label
            ++ (if im > 0 then print_active_reactive_power_q_down else print_active_reactive_power_q_up) ++ Q
        else [])

/-- `print_resistance`, `print_conductance`, `print_impedance`: a `ScientificComplex` with
fixed unit and table (a real argument has imaginary part 0) -/
def printSC (k : CallCfg) (re im : Rat) (precision : Nat) : List Char :=
  (scOfCall k [] precision false false).str re im 0 0

/-- `print_capacitance`, `print_inductance` -/
def printSF (k : CallCfg) (v : Rat) (precision : Nat) : List Char :=
  (cfgOfCall k [] precision).str v

end CC.Fmt
