/-
  CC.Driver.Json — JSON helpers for the line protocol.  Numbers travel as exact
  rationals: a JSON string "p/q" or "n" (or a JSON integer); complex numbers as a
  two-element array [re, im].
-/
import Lean.Data.Json
import CC.Num
import CC.Model.Net
namespace CC
open Lean

def parseRat? (s : String) : Option Rat :=
  match s.splitOn "/" with
  | [n] => n.toInt?.map (fun i => (i : Rat))
  | [n, d] => do
    let a ← n.toInt?
    let b ← d.toNat?
    if b = 0 then none else some (mkRat a b)
  | _ => none

def ratToString (r : Rat) : String :=
  if r.den = 1 then toString r.num else s!"{r.num}/{r.den}"

def jsonRat (r : Rat) : Json := Json.str (ratToString r)
def jsonGQ (z : GQ) : Json := Json.arr #[jsonRat z.re, jsonRat z.im]

def getRat (j : Json) : Except String Rat :=
  match j with
  | .str s => match parseRat? s with
    | some r => .ok r
    | none => .error s!"bad rational {s}"
  | .num n => if n.exponent = 0 then .ok (n.mantissa : Rat) else .error "non-integer JSON number"
  | _ => .error "rational expected"

def getGQ (j : Json) : Except String GQ :=
  match j with
  | .arr #[a, b] => do pure ⟨← getRat a, ← getRat b⟩
  | .str _ | .num _ => do pure ⟨← getRat j, 0⟩
  | _ => .error "complex expected"

def getStr (j : Json) (k : String) : Except String String := do
  (← j.getObjVal? k).getStr?

def getArr (j : Json) (k : String) : Except String (Array Json) := do
  (← j.getObjVal? k).getArr?

def getBool (j : Json) (k : String) : Except String Bool := do
  (← j.getObjVal? k).getBool?

def getNat (j : Json) (k : String) : Except String Nat := do
  (← j.getObjVal? k).getNat?

def getRatK (j : Json) (k : String) : Except String Rat := do getRat (← j.getObjVal? k)
def getGQK (j : Json) (k : String) : Except String GQ := do getGQ (← j.getObjVal? k)

/-- element: {"k":"N","a":Z,"b":V} or {"k":"T","a":Y,"b":I} -/
def getElem (j : Json) : Except String (Elem GQ) := do
  let k ← getStr j "k"
  let a ← getGQK j "a"
  let b ← getGQK j "b"
  if k = "N" then pure (.norton a b) else if k = "T" then pure (.thevenin a b) else throw "bad element kind"

def jsonElem : Elem GQ → Json
  | .norton Z V => Json.mkObj [("k", "N"), ("a", jsonGQ Z), ("b", jsonGQ V)]
  | .thevenin Y I => Json.mkObj [("k", "T"), ("a", jsonGQ Y), ("b", jsonGQ I)]

/-- branch: {"n1","n2","id","ty","e"} -/
def getBranch (j : Json) : Except String (Branch String GQ) := do
  let ty := (getStr j "ty").toOption.getD ""
  pure { n1 := ← getStr j "n1", n2 := ← getStr j "n2", id := ← getStr j "id", ty := ty,
         e := ← getElem (← j.getObjVal? "e") }

def jsonBranch (b : Branch String GQ) : Json :=
  Json.mkObj [("n1", b.n1), ("n2", b.n2), ("id", b.id), ("ty", b.ty), ("e", jsonElem b.e)]

/-- network: {"branches":[...], "zero": "0"} -/
def getNet (j : Json) : Except String (Net String GQ) := do
  let bs ← getArr j "branches"
  let bs ← bs.toList.mapM getBranch
  pure { branches := bs, zero := ← getStr j "zero" }

def jsonNet (N : Net String GQ) : Json :=
  Json.mkObj [("branches", Json.arr (N.branches.map jsonBranch).toArray), ("zero", N.zero)]

def jsonVec (v : List GQ) : Json := Json.arr (v.map jsonGQ).toArray
def jsonMat (m : List (List GQ)) : Json := Json.arr (m.map jsonVec).toArray
def jsonStrs (l : List String) : Json := Json.arr (l.map Json.str).toArray

def getVec (j : Json) : Except String (List GQ) := do
  let a ← j.getArr?
  a.toList.mapM getGQ

def getMat (j : Json) : Except String (List (List GQ)) := do
  let a ← j.getArr?
  a.toList.mapM getVec

def jsonExcept (f : α → Json) : Except Err α → Json
  | .ok a => Json.mkObj [("ok", f a)]
  | .error e => Json.mkObj [("err", e.tag)]

abbrev Handler := Json → Except String Json

end CC
