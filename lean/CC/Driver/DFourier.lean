/-
  Driver handlers, group Fourier (C08): the generated model CC/Gen/Fourier.lean evaluated at
  exact rationals.

  Number type `PQ`: a rational that may be undefined (division by zero, or `cos`/`sin` of an
  argument the request's table does not contain), carrying the list of trig arguments that
  were requested but missing — so the harness can ask numpy for exactly those values and
  call again.  `π` is the exact rational value of binary64 `np.pi` (sent by the harness),
  float `%` is `CC.Fourier.fmodQ`.
-/
import CC.Driver.Json
import CC.Driver.LinAlg
import CC.Gen.Fourier
namespace CC
open Lean CC.Gen.Fourier

structure PQ where
  v : Option Rat
  need : List Rat := []

namespace PQ
def lift2 (f : Rat → Rat → Option Rat) (a b : PQ) : PQ :=
  ⟨(do f (← a.v) (← b.v)), a.need ++ b.need⟩
instance : Add PQ := ⟨lift2 fun x y => some (x + y)⟩
instance : Sub PQ := ⟨lift2 fun x y => some (x - y)⟩
instance : Mul PQ := ⟨lift2 fun x y => some (x * y)⟩
instance : Div PQ := ⟨lift2 fun x y => if y = 0 then none else some (x / y)⟩
instance : Neg PQ := ⟨fun a => ⟨a.v.map (- ·), a.need⟩⟩
instance : IntCast PQ := ⟨fun i => ⟨some (i : Rat), []⟩⟩
instance : LT PQ := ⟨fun a b => match a.v, b.v with | some x, some y => x < y | _, _ => False⟩
instance : DecidableLT PQ := fun a b => by
  show Decidable (match a.v, b.v with | some x, some y => x < y | _, _ => False)
  cases a.v <;> cases b.v <;> infer_instance
def ofRat (r : Rat) : PQ := ⟨some r, []⟩
/-- table lookup of a trig value; a missing argument is recorded in `need` -/
def trig (tbl : List (Rat × Rat)) (x : PQ) : PQ :=
  match x.v with
  | none => ⟨none, x.need⟩
  | some a => match tbl.lookup a with
    | some c => ⟨some c, x.need⟩
    | none => ⟨none, x.need ++ [a]⟩
def fmod (x y : PQ) : PQ := lift2 (fun a b => if b = 0 then none else some (CC.Fourier.fmodQ a b)) x y
def toJson (a : PQ) : Json :=
  match a.v with
  | some r => Json.mkObj [("ok", jsonRat r)]
  | none => Json.mkObj [("err", "undefined"), ("need", Json.arr (a.need.map jsonRat).toArray)]
end PQ

def getTrig (j : Json) : Except String (List (Rat × Rat) × List (Rat × Rat)) := do
  match j.getObjVal? "trig" with
  | .error _ => pure ([], [])
  | .ok t =>
    let rows ← t.getArr?
    let rows ← rows.toList.mapM fun r => do
      match r with
      | .arr #[a, c, s] => pure (← getRat a, ← getRat c, ← getRat s)
      | _ => throw "trig row [arg, cos, sin] expected"
    pure (rows.map fun (a, c, _) => (a, c), rows.map fun (a, _, s) => (a, s))

def fourierGetInt (j : Json) : Except String Int :=
  match j with
  | .num n => if n.exponent = 0 then .ok n.mantissa else .error "integer expected"
  | .str s => match s.toInt? with | some i => .ok i | none => .error "integer expected"
  | _ => .error "integer expected"

def getWaveObj (j : Json) : Except String (WaveObj PQ) := do
  let name ← getStr j "cls"
  match Wave.all.find? (fun w => w.name == name) with
  | none => throw s!"unknown wave class {name}"
  | some w =>
    pure { cls := w, period := PQ.ofRat (← getRatK j "period"), amplitude := PQ.ofRat (← getRatK j "amplitude"),
           phase := PQ.ofRat (← getRatK j "phase"), offset := PQ.ofRat (← getRatK j "offset") }

/-- op `fourier`: `fourier_series(<cls>(period, amplitude, phase, offset))` and, for every
requested order `n`, `amplitude/phase/a/b/c (n)` of the model. -/
def h_fourier : Handler := fun j => do
  let w ← getWaveObj j
  let π := PQ.ofRat (← getRatK j "pi")
  let (ct, st) ← getTrig j
  let ns ← (← getArr j "ns").toList.mapM fourierGetInt
  match fourierSeries w with
  | .error e => pure (Json.mkObj [("err", e)])
  | .ok h =>
    let cos := PQ.trig ct
    let sin := PQ.trig st
    let rows := ns.map fun n =>
      let c := h.c π cos sin n
      Json.mkObj [("n", Json.num (JsonNumber.fromInt n)),
        ("amplitude", (h.amplitude π n).toJson), ("phase", (h.phase π n).toJson),
        ("a", (h.a π cos sin n).toJson), ("b", (h.b π cos sin n).toJson),
        ("c_re", c.1.toJson), ("c_im", c.2.toJson)]
    pure (Json.mkObj [("harm", Json.str h.cls.name), ("rows", Json.arr rows.toArray)])

/-- op `fourier_time`: `<cls>(period, amplitude, phase, offset).time_function(t)` for every `t` -/
def h_fourierTime : Handler := fun j => do
  let w ← getWaveObj j
  let π := PQ.ofRat (← getRatK j "pi")
  let (ct, st) ← getTrig j
  let ts ← (← getArr j "ts").toList.mapM getRat
  let vals := ts.map fun t => (w.timeFunction π (PQ.trig ct) (PQ.trig st) PQ.fmod (PQ.ofRat t)).toJson
  pure (Json.mkObj [("values", Json.arr vals.toArray)])

/-- op `fourier_lookup`: `periodic_function(wavetype)` -/
def h_fourierLookup : Handler := fun j => do
  let s ← getStr j "wavetype"
  match periodicFunction s with
  | .ok w => pure (Json.mkObj [("ok", Json.str w.name)])
  | .error e => pure (Json.mkObj [("err", e)])

/-- op `fourier_tables`: the generated class inventory and mapping -/
def h_fourierTables : Handler := fun _ => do
  pure (Json.mkObj [
    ("waves", Json.arr (Wave.all.map fun w => Json.arr #[Json.str w.name, Json.str w.wavetype]).toArray),
    ("harms", jsonStrs (Harm.all.map Harm.name)),
    ("mapping", Json.arr (fourierSeriesMapping.map fun (w, h) => Json.arr #[Json.str w.name, Json.str h.name]).toArray),
    ("periodic_functions", jsonStrs (periodicFunctions.map Wave.name))])

def handlersFourier : List (String × Handler) :=
  [("fourier", h_fourier), ("fourier_time", h_fourierTime), ("fourier_lookup", h_fourierLookup),
   ("fourier_tables", h_fourierTables)]

end CC
