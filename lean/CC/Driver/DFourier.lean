/- Driver handlers, group Fourier (stub; filled in by the group's model). -/
import CC.Driver.Json
import CC.Driver.LinAlg
namespace CC
open Lean

def handlersFourier : List (String × Handler) := []

end CC
