/- Driver handlers, group State (stub; filled in by the group's model). -/
import CC.Driver.Json
import CC.Driver.LinAlg
namespace CC
open Lean

def handlersState : List (String × Handler) := []

end CC
