/-
  Driver handlers, group State (C10, C11, C12).

  ss_model    : model of `nodal_state_space_model` on a network + value dictionaries
                (inverse certificates found by the unverified `inverseExact`, then CHECKED
                exactly before use) with every output row that is asked for;
  ss_cert     : numpy's own two inverses checked as certificates (exact residual matrices);
  ss_transfer : `row_c (s·1 − A)⁻¹ B + row_d` in exact arithmetic on given matrices (the
                implementation's floats as exact rationals) — the C10 oracle;
  ss_lyap     : `W·A + Aᵀ·W` exactly and its negative semidefiniteness up to a tolerance
                (elimination without pivoting over `Rat`) — the C11 oracle;
  ss_transient: the model's TransientSolution wiring applied to the implementation's own
                `_x`, `_u` (C12 correspondence).
-/
import CC.Driver.Json
import CC.Driver.LinAlg
import CC.Model.StateSpace
namespace CC
open Lean

def getDict (j : Json) (k : String) : Except String (ValDict GQ) := do
  let a ← getArr j k
  a.toList.mapM fun e => do
    match e with
    | .arr #[id, v] => pure (← id.getStr?, ← getGQ v)
    | _ => throw "dictionary item [id, value] expected"

def getStrs (j : Json) (k : String) : Except String (List String) := do
  let a ← getArr j k
  a.toList.mapM fun e => e.getStr?

def reGQ (z : GQ) : GQ := ⟨z.re, 0⟩

def jsonNats (l : List Nat) : Json := Json.arr (l.map fun (n : Nat) => (Json.num (JsonNumber.fromNat n))).toArray

def jsonRow : Except Err (List GQ) → Json := jsonExcept jsonVec

/-- both inverses, each checked exactly with the model's own product -/
def ssCertificates (N : Net String GQ) (cvals lvals : ValDict GQ) (Delta : List (List GQ)) :
    Except String (List (List GQ) × List (List GQ)) := do
  let ny := N.nY
  let At := ssAtilde reGQ N
  match inverseExact At with
  | none => throw "singular:Atilde"
  | some Ainv =>
    if Mx.mul ny ny ny At Ainv ≠ Mx.one ny then throw "internal: certificate Ainv failed" else
    let ns := ssNStates N cvals lvals
    let M := ssM N cvals lvals Delta Ainv
    match inverseExact M with
    | none => throw "singular:M"
    | some S =>
      if Mx.mul ns ns ns M S ≠ Mx.one ns then throw "internal: certificate S failed" else
      pure (Ainv, S)

def h_ssModel : Handler := fun j => do
  let N ← getNet (← j.getObjVal? "net")
  let cvals ← getDict j "cvals"
  let lvals ← getDict j "lvals"
  let pots ← getStrs j "pots"
  let ids ← getStrs j "ids"
  let spots ← getStrs j "spots"          -- arguments of the circuit-level stacking wrapper
  let sids ← getStrs j "sids"
  match N.check with
  | .error e => pure (Json.mkObj [("err", e.tag)])
  | .ok () =>
  match ssDelta N cvals with
  | .error e => pure (Json.mkObj [("err", e.tag)])
  | .ok Delta =>
    if (ssColsL N lvals).length ≠ lvals.length then pure (Json.mkObj [("err", Err.keyError.tag)]) else
    match ssCertificates N cvals lvals Delta with
    | .error msg =>
      if msg.startsWith "singular:" then pure (Json.mkObj [("singular", (msg.drop 9).toString)]) else throw msg
    | .ok (Ainv, S) =>
      match nodalStateSpaceModel N cvals lvals Ainv S with
      | .error e => pure (Json.mkObj [("err", e.tag)])
      | .ok m =>
        let potRows := pots.map fun n => Json.mkObj [("n", Json.str n),
          ("c", jsonRow (m.cRowPotential n)), ("d", jsonRow (m.dRowPotential n))]
        let idRows := ids.map fun id => Json.mkObj [("id", Json.str id),
          ("vc", jsonRow (m.cRowVoltage id)), ("vd", jsonRow (m.dRowVoltage id)),
          ("ic", jsonRow (m.cRowCurrent id)), ("id_", jsonRow (m.dRowCurrent id))]
        let stacked := match m.circuitModel spots sids sids with
          | .ok s => Json.mkObj [("C", jsonMat s.C), ("D", jsonMat s.D),
              ("check", match containerCheck (s.A.length, m.nStates) (s.B.length, m.nInputs)
                           (s.C.length, m.nStates) (s.D.length, m.nInputs) with
                        | .ok () => Json.num 0 | .error k => Json.num k)]
          | .error e => Json.mkObj [("err", e.tag)]
        pure (Json.mkObj [
          ("nodes", jsonStrs N.nodes), ("vs", jsonStrs N.vsIds), ("cs", jsonStrs N.csIds),
          ("src", jsonStrs N.srcIds), ("sources", jsonStrs m.sources),
          ("colsS", jsonNats (ssColsS N lvals)), ("colsL", jsonNats (ssColsL N lvals)),
          ("nStates", Json.num m.nStates), ("nInputs", Json.num m.nInputs),
          ("A", jsonMat m.mats.A), ("B", jsonMat m.mats.B), ("C", jsonMat m.mats.C), ("D", jsonMat m.mats.D),
          ("Ainv", jsonMat Ainv), ("S", jsonMat S),
          ("pot", Json.arr potRows.toArray), ("el", Json.arr idRows.toArray), ("stacked", stacked)])

/-- numpy's inverses as certificates: exact residuals `Ã·Ainv − 1` and `(DQᵀ Ainv DQ)·S − 1` -/
def h_ssCert : Handler := fun j => do
  let N ← getNet (← j.getObjVal? "net")
  let cvals ← getDict j "cvals"
  let lvals ← getDict j "lvals"
  let Ainv ← getMat (← j.getObjVal? "Ainv")
  let S ← getMat (← j.getObjVal? "S")
  match ssDelta N cvals with
  | .error e => pure (Json.mkObj [("err", e.tag)])
  | .ok Delta =>
    let ny := N.nY
    let ns := ssNStates N cvals lvals
    let r1 := Mx.sub ny ny (Mx.mul ny ny ny (ssAtilde reGQ N) Ainv) (Mx.one ny)
    let r2 := Mx.sub ns ns (Mx.mul ns ns ns (ssM N cvals lvals Delta Ainv) S) (Mx.one ns)
    pure (Json.mkObj [("r1", jsonMat r1), ("r2", jsonMat r2)])

/-- `row_c (s − A)⁻¹ B + row_d` for every given pair of rows -/
def h_ssTransfer : Handler := fun j => do
  let A ← getMat (← j.getObjVal? "A")
  let B ← getMat (← j.getObjVal? "B")
  let s ← getGQK j "s"
  let rows ← getArr j "rows"
  let n := A.length
  let nu ← getNat j "nu"
  let sIA : List (List GQ) := Mx.ofFn n n fun i k => (if i = k then s else 0) - Mx.get A i k
  match inverseExact sIA with
  | none => pure (Json.mkObj [("singular", true)])
  | some R =>
    if Mx.mul n n n sIA R ≠ Mx.one n then throw "internal: resolvent certificate failed" else
    let X := Mx.mul n n nu R B
    let out ← rows.toList.mapM fun r => do
      match r with
      | .arr #[c, d] =>
        let c ← getVec c
        let d ← getVec d
        pure (jsonVec ((List.range nu).map fun k =>
          Mx.sumTo n (fun t => c.getD t 0 * Mx.get X t k) + d.getD k 0))
      | _ => throw "row pair expected"
    pure (Json.mkObj [("H", Json.arr out.toArray), ("X", jsonMat X)])

/-- elimination without pivoting on a symmetric rational matrix: all pivots positive
⇔ positive definite -/
def posDefRat (n : Nat) (M0 : Array (Array Rat)) : Bool × Nat := Id.run do
  let mut M := M0
  for c in [0:n] do
    let piv := (M[c]!)[c]!
    if piv ≤ 0 then return (false, c)
    for r in [c+1:n] do
      let f := (M[r]!)[c]! / piv
      if f ≠ 0 then
        let rowc := M[c]!
        M := M.set! r ((M[r]!.zip rowc).map fun (x, y) => x - f * y)
  return (true, n)

/-- `P = W·A + Aᵀ·W` exactly; negative semidefinite up to `tol`: `tol·1 − P ≻ 0` -/
def h_ssLyap : Handler := fun j => do
  let A ← getMat (← j.getObjVal? "A")
  let W ← getVec (← j.getObjVal? "W")
  let tol ← getRatK j "tol"
  let n := A.length
  let P : List (List GQ) := Mx.ofFn n n fun i k =>
    W.getD i 0 * Mx.get A i k + Mx.get A k i * W.getD k 0
  let sym := (Mx.transpose n n P == P)
  let Mneg : Array (Array Rat) := ((List.range n).map fun i => ((List.range n).map fun k =>
    (if i = k then tol else 0) - (Mx.get P i k).re).toArray).toArray
  let (pd, at_) := posDefRat n Mneg
  pure (Json.mkObj [("P", jsonMat P), ("sym", sym), ("nsd", pd), ("pivot", Json.num at_)])

/-- the TransientSolution wiring of the model on given state / input samples -/
def h_ssTransient : Handler := fun j => do
  let sources ← getStrs j "sources"
  let given ← getStrs j "given"            -- keys of the `input` dictionary
  let X ← getMat (← j.getObjVal? "X")
  let U ← getMat (← j.getObjVal? "U")      -- rows in the order of `given`
  let nS ← getNat j "nSamples"
  let rows ← getArr j "rows"
  let input : String → Option (List GQ) := fun s => (given.zip U).lookup s
  match transientU sources input with
  | .error e => pure (Json.mkObj [("err", e.tag)])
  | .ok Um =>
    let out ← rows.toList.mapM fun r => do
      match r with
      | .arr #[c, d] => pure (jsonVec (transientOutput nS (← getVec c) (← getVec d) X Um))
      | _ => throw "row pair expected"
    pure (Json.mkObj [("U", jsonMat Um), ("x0", jsonVec (transientX0 X.length)), ("y", Json.arr out.toArray)])

/-- the container's five shape checks on arbitrary shapes: 0 = accepted, k = check k raises -/
def h_ssContainer : Handler := fun j => do
  let sh (k : String) : Except String (Nat × Nat) := do
    match ← getArr j k with
    | #[r, c] => pure (← r.getNat?, ← c.getNat?)
    | _ => throw "shape [r, c] expected"
  match containerCheck (← sh "a") (← sh "b") (← sh "c") (← sh "d") with
  | .ok () => pure (Json.mkObj [("check", Json.num (0 : Nat))])
  | .error k => pure (Json.mkObj [("check", Json.num k)])

def handlersState : List (String × Handler) :=
  [("ss_container", h_ssContainer), ("ss_model", h_ssModel), ("ss_cert", h_ssCert), ("ss_transfer", h_ssTransfer),
   ("ss_lyap", h_ssLyap), ("ss_transient", h_ssTransient)]

end CC
