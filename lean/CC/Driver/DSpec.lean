/-
  Driver handlers that evaluate the Spec (CC/Spec/Circuit.lean) exactly on reported values
  — the oracle of the failing-input search — and decide well-posedness over the rationals.
-/
import CC.Driver.Json
import CC.Driver.LinAlg
import CC.Spec.Circuit
import CC.Model.MNA
namespace CC
open Lean

def lookupGQ (m : List (String × GQ)) (k : String) : GQ := (m.lookup k).getD 0

def getMap (j : Json) (k : String) : Except String (List (String × GQ)) := do
  let o ← (← j.getObjVal? k).getObj?
  o.toList.mapM fun (key, v) => do pure (key, ← getGQ v)

def getReport (j : Json) : Except String (Report String GQ) := do
  let pot ← getMap j "pot"
  let v ← getMap j "v"
  let i ← getMap j "i"
  pure ⟨lookupGQ pot, lookupGQ v, lookupGQ i⟩

def specAbsQ (r : Rat) : Rat := if r < 0 then -r else r
/-- 1-norm of a Gaussian rational (only used to scale tolerances) -/
def specAbs1 (z : GQ) : Rat := specAbsQ z.re + specAbsQ z.im

/-- magnitude of the terms of an element-law residual (for a purely relative tolerance) -/
def lawMag (e : Elem GQ) (v i : GQ) : Rat :=
  match e with
  | .norton Z V => specAbs1 v + specAbs1 V + specAbs1 (Z * i)
  | .thevenin Y I => specAbs1 i + specAbs1 I + specAbs1 (Y * v)

/-- op `spec_circuit`: residuals of (E1)–(E4) for a report, each with the magnitude of its
terms (`*_mag`) so that the harness can apply a purely relative tolerance at any scale -/
def h_specCircuit : Handler := fun j => do
  let N ← getNet (← j.getObjVal? "net")
  let R ← getReport (← j.getObjVal? "report")
  let labels := dedupL N.allLabels
  pure (Json.mkObj [
    ("ref", jsonGQ (R.pot N.zero)),
    ("volt", Json.mkObj (N.branches.map fun b => (b.id, jsonGQ (voltResidual R b)))),
    ("volt_mag", Json.mkObj (N.branches.map fun b =>
      (b.id, jsonRat (specAbs1 (R.v b.id) + specAbs1 (R.pot b.n1) + specAbs1 (R.pot b.n2))))),
    ("law", Json.mkObj (N.branches.map fun b => (b.id, jsonGQ (b.e.lawResidual (R.v b.id) (R.i b.id))))),
    ("law_mag", Json.mkObj (N.branches.map fun b => (b.id, jsonRat (lawMag b.e (R.v b.id) (R.i b.id)
      + (match b.e with
         | .norton _ _ => specAbs1 (R.pot b.n1) + specAbs1 (R.pot b.n2)
         | .thevenin Y _ => specAbs1 Y * (specAbs1 (R.pot b.n1) + specAbs1 (R.pot b.n2))))))),
    ("kcl", Json.mkObj (labels.map fun n => (n, jsonGQ (kclResidual N R n)))),
    ("kcl_mag", Json.mkObj (labels.map fun n =>
      (n, jsonRat ((N.branches.map fun b => specAbs1 (incidence b n) *
        (specAbs1 (R.i b.id) + specAbs1 b.e.Yfin * (specAbs1 (R.pot b.n1) + specAbs1 (R.pot b.n2)) + specAbs1 b.e.Ival)).sum)))),
    ("kinds", Json.mkObj (N.branches.map fun b => (b.id, Json.str (reprStr b.e.kind))))])

/-- Sparse-tableau matrix of the *spec* (unknowns: potentials of non-reference labels,
then one current per branch; equations: KCL at non-reference labels, element laws with
`v` eliminated through (E2)).  Used only to decide well-posedness exactly. -/
def tableau (N : Net String GQ) : List (List GQ) × List GQ :=
  let labels := (dedupL N.allLabels).filter (· ≠ N.zero)
  let nb := N.branches.length
  let potCoef (b : Branch String GQ) (c : GQ) : List GQ :=   -- c · (φ n1 − φ n2)
    labels.map fun n => c * incidence b n
  let unit (k : Nat) (c : GQ) : List GQ := (List.range nb).map fun t => if t = k then c else 0
  let kclRows := labels.map fun n =>
    ((labels.map fun _ => (0 : GQ)) ++
      (N.branches.map fun b => incidence b n * (if b.e.isLossy then (-1 : GQ) else 1)), (0 : GQ))
  let lawRows := N.branches.zipIdx.map fun (b, k) =>
    match b.e with
    | .norton Z V =>
      if Z = 0 then (potCoef b 1 ++ unit k 0, V)
      else if V = 0 then (potCoef b 1 ++ unit k (-Z), 0)
      else (potCoef b 1 ++ unit k Z, -V)
    | .thevenin Y I =>
      if Y = 0 then (potCoef b 0 ++ unit k 1, I)
      else if I = 0 then (potCoef b (-Y) ++ unit k 1, 0)
      else (potCoef b Y ++ unit k 1, -I)
  let rows := kclRows ++ lawRows
  (rows.map (·.1), rows.map (·.2))

/-- op `wellposed`: is the spec's own linear system non-singular?  Also returns the exact
spec solution (potentials per label, current per branch) when it is. -/
def h_wellposed : Handler := fun j => do
  let N ← getNet (← j.getObjVal? "net")
  let (A, b) := tableau N
  let labels := (dedupL N.allLabels).filter (· ≠ N.zero)
  match solveExact A b with
  | none => pure (Json.mkObj [("wellposed", false)])
  | some x =>
    if matVec A x ≠ b then throw "internal: tableau certificate check failed" else
    let pots := labels.zip (x.take labels.length)
    let curs := (N.branches.map (·.id)).zip (x.drop labels.length)
    pure (Json.mkObj [("wellposed", true),
      ("pot", Json.mkObj ((N.zero, jsonGQ 0) :: pots.map fun (n, v) => (n, jsonGQ v))),
      ("i", Json.mkObj (curs.map fun (n, v) => (n, jsonGQ v)))])

def handlersSpec : List (String × Handler) :=
  [("spec_circuit", h_specCircuit), ("wellposed", h_wellposed)]

end CC

namespace CC
open Lean

/-- op `spec_power`: exact power bookkeeping for a report: per branch `p − v·conj(i)` and the
Tellegen sum `Σ v·conj(J)` with `J` the physical current (linear sources counted as delivered) -/
def h_specPower : Handler := fun j => do
  let N ← getNet (← j.getObjVal? "net")
  let R ← getReport (← j.getObjVal? "report")
  let p ← getMap (← j.getObjVal? "report") "p"
  let tell := (N.branches.map fun b => R.v b.id * GQ.conj (b.e.physCurrent (R.i b.id))).sum
  pure (Json.mkObj [
    ("tellegen", jsonGQ tell),
    ("presid", Json.mkObj (N.branches.map fun b =>
      (b.id, jsonGQ (lookupGQ p b.id - R.v b.id * GQ.conj (R.i b.id))))),
    ("lossy", Json.mkObj (N.branches.map fun b => (b.id, Json.bool b.e.isLossy)))])

def handlersSpec2 : List (String × Handler) := [("spec_power", h_specPower)]

end CC
