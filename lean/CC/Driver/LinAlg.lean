/-
  CC.Driver.LinAlg — UNVERIFIED exact Gauss–Jordan elimination over GQ, used by the
  driver to *find* certificates (solutions, inverses).  Every certificate is checked
  exactly with the model's own `matVec` before it is used, so nothing here is trusted.
-/
import CC.Num
import CC.Model.MNA
namespace CC

/-- Gauss–Jordan on an augmented matrix with `n` unknown columns; returns the reduced
matrix and the pivot columns, or `none` when rank < n. -/
def gaussJordan (n : Nat) (M0 : Array (Array GQ)) : Option (Array (Array GQ)) := Id.run do
  let mut M := M0
  let rows := M.size
  if rows ≠ n then return none
  for c in [0:n] do
    let mut p := n
    for r in [c:n] do
      if p == n && (M[r]!)[c]! ≠ 0 then p := r
    if p == n then return none
    let tmp := M[c]!
    M := M.set! c M[p]!
    M := M.set! p tmp
    let piv := (M[c]!)[c]!
    let rowc := M[c]!.map (· / piv)
    M := M.set! c rowc
    for r in [0:n] do
      if r ≠ c then
        let f := (M[r]!)[c]!
        if f ≠ 0 then
          M := M.set! r ((M[r]!.zip rowc).map fun (x, y) => x - f * y)
  return some M

/-- exact solution of `A x = b` for square non-singular `A` -/
def solveExact (A : List (List GQ)) (b : List GQ) : Option (List GQ) :=
  let n := A.length
  let M : Array (Array GQ) := ((A.zip b).map fun (r, v) => (r ++ [v]).toArray).toArray
  if A.any (·.length ≠ n) || b.length ≠ n then none else
  match gaussJordan n M with
  | none => none
  | some R => some (R.toList.map fun r => r[n]!)

/-- exact inverse of a square matrix -/
def inverseExact (A : List (List GQ)) : Option (List (List GQ)) :=
  let n := A.length
  if A.any (·.length ≠ n) then none else
  let M : Array (Array GQ) := (A.zipIdx.map fun (r, i) =>
    (r ++ (List.range n).map fun k => if k = i then (1 : GQ) else 0).toArray).toArray
  match gaussJordan n M with
  | none => none
  | some R => some (R.toList.map fun r => (r.toList.drop n))

def matMul (A B : List (List GQ)) : List (List GQ) :=
  let Bt := (List.range (B.headD []).length).map fun j => B.map fun r => r.getD j 0
  A.map fun r => Bt.map fun c => dotL r c

def identity (n : Nat) : List (List GQ) :=
  (List.range n).map fun i => (List.range n).map fun k => if k = i then (1 : GQ) else 0

def transposeM (A : List (List GQ)) : List (List GQ) :=
  (List.range (A.headD []).length).map fun j => A.map fun r => r.getD j 0

end CC
