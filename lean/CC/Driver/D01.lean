/-
  Driver handlers for C01 (and the shared network core).
-/
import CC.Driver.Json
import CC.Driver.LinAlg
import CC.Model.MNA
namespace CC
open Lean

/-- op `mna`: network ↦ index maps, matrix, right-hand side (or the exception) -/
def h_mna : Handler := fun j => do
  let N ← getNet (← j.getObjVal? "net")
  match N.assemble with
  | .error e => pure (Json.mkObj [("err", e.tag)])
  | .ok (A, b) =>
    pure (Json.mkObj [("nodes", jsonStrs N.nodes), ("vs", jsonStrs N.vsIds), ("cs", jsonStrs N.csIds),
      ("A", jsonMat A), ("b", jsonVec b)])

/-- op `solve`: exact solution of the model's system, checked with the model's `matVec` -/
def h_solve : Handler := fun j => do
  let N ← getNet (← j.getObjVal? "net")
  match N.assemble with
  | .error e => pure (Json.mkObj [("err", e.tag)])
  | .ok (A, b) =>
    match solveExact A b with
    | none => pure (Json.mkObj [("singular", true)])
    | some x =>
      if matVec A x = b then pure (Json.mkObj [("x", jsonVec x)])
      else throw "internal: certificate check failed"

def accessAll (N : Net String GQ) (x : List GQ) : Json :=
  let labels := N.nodeLabels
  let pots := labels.map fun (n : String) => Json.mkObj [("n", Json.str n), ("v", jsonExcept jsonGQ (N.potential x n))]
  let brs := N.branches.map fun b => Json.mkObj [("id", Json.str b.id),
    ("v", jsonExcept jsonGQ (N.voltage x b.id)),
    ("i", jsonExcept jsonGQ (N.current x b.id)),
    ("p", jsonExcept jsonGQ (N.power GQ.conj x b.id))]
  Json.mkObj [("pot", Json.arr pots.toArray), ("br", Json.arr brs.toArray)]

/-- op `access`: accessors of the model applied to a given solution vector -/
def h_access : Handler := fun j => do
  let N ← getNet (← j.getObjVal? "net")
  let x ← getVec (← j.getObjVal? "x")
  pure (accessAll N x)

/-- op `query`: a single accessor with an arbitrary (possibly unknown) identifier -/
def h_query : Handler := fun j => do
  let N ← getNet (← j.getObjVal? "net")
  let x ← getVec (← j.getObjVal? "x")
  let what ← getStr j "what"
  let id ← getStr j "id"
  let r := match what with
    | "potential" => N.potential x id
    | "voltage" => N.voltage x id
    | "current" => N.current x id
    | _ => N.power GQ.conj x id
  pure (jsonExcept jsonGQ r)

def handlers01 : List (String × Handler) :=
  [("mna", h_mna), ("solve", h_solve), ("access", h_access), ("query", h_query)]

end CC
