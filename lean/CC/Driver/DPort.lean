/- Driver handlers, group Port (stub; filled in by the group's model). -/
import CC.Driver.Json
import CC.Driver.LinAlg
namespace CC
open Lean

def handlersPort : List (String × Handler) := []

end CC
