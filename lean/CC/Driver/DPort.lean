/-
  Driver handlers, group Port: C06 (port impedance, Thevenin/Norton) and C09 (multi-frequency
  steady state).  Model functions come from CC/Model/{Port,MultiFreq}.lean, the executable
  Spec of C06 from CC/Spec/Port.lean (+ the tableau of DSpec.lean).  Certificates
  (solutions) are found by the unverified elimination of LinAlg.lean and checked
  exactly with the model's own products before they are used.
-/
import CC.Driver.Json
import CC.Driver.LinAlg
import CC.Driver.DSpec
import CC.Model.Port
import CC.Model.MultiFreq
import CC.Spec.Port
namespace CC
open Lean

/-! ### certificates -/

/-- exact solution, returned only when `A·x = b` was checked -/
def solveChecked (A : List (List GQ)) (b : List GQ) : Option (List GQ) :=
  match solveExact A b with
  | none => none
  | some x => if x.length = b.length ∧ matVec A x = b then some x else none

/-! ### C06: model -/

def h_portPre : Handler := fun j => do
  let N ← getNet (← j.getObjVal? "net")
  let n1 ← getStr j "n1"
  let n2 ← getStr j "n2"
  match N.portPre n1 n2 with
  | .error e => pure (Json.mkObj [("err", e.tag)])
  | .ok .early => pure (Json.mkObj [("early", true)])
  | .ok .infinite => pure (Json.mkObj [("infinite", true)])
  | .ok (.sys N' keep A e i1) =>
    pure (Json.mkObj [("A", jsonMat A), ("e", jsonVec e), ("i1", Json.num (Lean.JsonNumber.fromNat i1)),
      ("keep", Json.arr (keep.map Json.bool).toArray),
      ("nodes", jsonStrs N'.nodes), ("vs", jsonStrs N'.vsIds), ("zero", Json.str N'.zero)])

def h_portZ : Handler := fun j => do
  let N ← getNet (← j.getObjVal? "net")
  pure (jsonExcept jsonGQ (N.openCircuitImpedance solveChecked (← getStr j "n1") (← getStr j "n2")))

def h_elemZ : Handler := fun j => do
  let N ← getNet (← j.getObjVal? "net")
  pure (jsonExcept jsonGQ (N.elementImpedance solveChecked (← getStr j "id")))

def h_ocVoltage : Handler := fun j => do
  let N ← getNet (← j.getObjVal? "net")
  pure (jsonExcept jsonGQ (N.openCircuitVoltage solveChecked (← getStr j "n1") (← getStr j "n2")))

def h_scCurrent : Handler := fun j => do
  let N ← getNet (← j.getObjVal? "net")
  pure (jsonExcept jsonGQ (N.shortCircuitCurrent solveChecked (← getStr j "n1") (← getStr j "n2")))

def h_equivalents : Handler := fun j => do
  let N ← getNet (← j.getObjVal? "net")
  let n1 ← getStr j "n1"
  let n2 ← getStr j "n2"
  let th := N.theveninEquivalent solveChecked n1 n2
  let no := N.nortonEquivalent solveChecked n1 n2
  pure (Json.mkObj [
    ("thevenin", jsonExcept (fun (t : TheveninEq GQ) => Json.mkObj [("U", jsonGQ t.U), ("Z", jsonGQ t.Z)]) th),
    ("norton", jsonExcept (fun (t : NortonEq GQ) => Json.mkObj [("I", jsonGQ t.I), ("Y", jsonGQ t.Y)]) no)])

/-- op `port_sweep`: the sweep wrappers of Circuit/impedance.py over the implementation's own
per-frequency networks; `id` given ⇒ element impedance, else the node pair -/
def h_portSweep : Handler := fun j => do
  let nets ← (← getArr j "nets").toList.mapM getNet
  let f : Net String GQ → Except Err GQ ←
    match (getStr j "id").toOption with
    | some id => pure (fun (N : Net String GQ) => N.elementImpedance solveChecked id)
    | none => do
      let n1 ← getStr j "n1"
      let n2 ← getStr j "n2"
      pure (fun (N : Net String GQ) => N.openCircuitImpedance solveChecked n1 n2)
  let dc : Json := match nets with
    | N0 :: _ => jsonExcept jsonGQ (dcResistance (fun z : GQ => GQ.ofRat z.re) f N0)
    | [] => Json.null
  pure (Json.mkObj [("sweep", jsonExcept (fun (l : List (Option GQ)) => Json.arr (l.map fun o => match o with | some z => jsonGQ z | none => Json.str "inf").toArray) (sweep f nets)), ("dc", dc)])

/-! ### C06: executable Spec (rank-general, because a port can be determined in a network that
is not well-posed as a whole — e.g. some *other* node hangs on open branches only) -/

/-- Gauss–Jordan on `[A | b]` without assuming full rank; returns the reduced rows and the
pivot positions `(row, column)` -/
def rrefGeneral (ncols : Nat) (M0 : Array (Array GQ)) : Array (Array GQ) × List (Nat × Nat) := Id.run do
  let mut M := M0
  let rows := M.size
  let mut piv : List (Nat × Nat) := []
  let mut r := 0
  for c in [0:ncols] do
    if r < rows then
      let mut p := rows
      for k in [r:rows] do
        if p == rows && (M[k]!)[c]! ≠ 0 then p := k
      if p < rows then
        let tmp := M[r]!
        M := M.set! r M[p]!
        M := M.set! p tmp
        let pv := (M[r]!)[c]!
        let rowr := M[r]!.map (· / pv)
        M := M.set! r rowr
        for k in [0:rows] do
          if k ≠ r then
            let f := (M[k]!)[c]!
            if f ≠ 0 then
              M := M.set! k ((M[k]!.zip rowr).map fun (x, y) => x - f * y)
        piv := piv ++ [(r, c)]
        r := r + 1
  return (M, piv)

/-- all solutions of `A x = b` agree on the linear functional `c`?  Returns
`(consistent, determined, value)`. -/
def functionalOnSolutions (A : List (List GQ)) (b : List GQ) (c : List GQ) : Bool × Bool × GQ :=
  let n := c.length
  let M : Array (Array GQ) := ((A.zip b).map fun (r, v) => (r ++ [v]).toArray).toArray
  let (R, piv) := rrefGeneral n M
  let consistent := R.all fun row => !((List.range n).all fun k => row[k]! = 0) || row[n]! = 0
  -- reduce c against the pivot rows
  let red : List GQ := piv.foldl (fun acc (r, col) =>
    let f := acc.getD col 0
    if f = 0 then acc else (acc.zip ((R[r]!).toList.take n)).map fun (x, y) => x - f * y) c
  let determined := red.all (· = 0)
  let value := (piv.map fun (r, col) => c.getD col 0 * (R[r]!)[n]!).sum
  (consistent, determined, value)

def freshId (ids : List String) (base : String) : String := Id.run do
  let mut s := base
  for _ in [0:ids.length + 1] do
    if s ∈ ids then s := s ++ "'"
  return s

/-- op `port_spec`: `PortZ N a b` of CC/Spec/Port.lean, decided exactly.  `defined` = the probe
network is solvable and every solution has the same port voltage `z`; `wellposed` = the
probe network has exactly one solution. -/
def h_portSpec : Handler := fun j => do
  let N ← getNet (← j.getObjVal? "net")
  let a ← getStr j "n1"
  let b ← getStr j "n2"
  let pid := freshId N.ids "__probe__"
  let P := probeNet N pid a b (1 : GQ)
  let (A, rhs) := tableau P
  let labels := (dedupL P.allLabels).filter (· ≠ P.zero)
  let nb := P.branches.length
  let c : List GQ := (labels.map fun n =>
      (if n = a then (1 : GQ) else 0) - (if n = b then (1 : GQ) else 0)) ++ (List.range nb).map fun _ => (0 : GQ)
  let (consistent, determined, z) := functionalOnSolutions A rhs c
  let wp := (solveExact A rhs).isSome
  pure (Json.mkObj [("defined", consistent && determined), ("consistent", consistent),
    ("determined", determined), ("wellposed", wp), ("z", jsonGQ z)])

/-- op `net_consistent`: do the circuit equations of the network (with its sources) have a solution at all
(possibly with undetermined potentials at floating nodes)? -/
def h_netConsistent : Handler := fun j => do
  let N ← getNet (← j.getObjVal? "net")
  let (A, rhs) := tableau N
  let n := (A.headD []).length
  let (consistent, _, _) := functionalOnSolutions A rhs ((List.range n).map fun _ => (0 : GQ))
  pure (Json.mkObj [("consistent", consistent)])

/-! ### C09 -/

def getOptRat (j : Json) (k : String) : Except String (Option Rat) :=
  match j.getObjVal? k with
  | .error _ => pure none
  | .ok .null => pure none
  | .ok v => do pure (some (← getRat v))

def getRats (j : Json) (k : String) : Except String (List Rat) := do
  (← getArr j k).toList.mapM getRat

def jsonRats (l : List Rat) : Json := Json.arr (l.map jsonRat).toArray

def h_freqComponents : Handler := fun j => do
  let comps ← (← getArr j "comps").toList.mapM fun c => do
    pure ({ ty := ← getStr c "ty", w := ← getOptRat c "w" } : FComp)
  let wmax ← getRatK j "wmax"
  let wres ← getRatK j "wres"
  pure (jsonExcept jsonRats (frequencyComponents comps wmax wres))

/-- op `active_index`: for every source × every analysed frequency, the harmonic the source
contributes there (`null` = replaced by a short / an open circuit) -/
def h_activeIndex : Handler := fun j => do
  let srcs ← (← getArr j "srcs").toList.mapM fun s => do
    pure ({ periodic := ← getBool s "periodic", w := ← getRatK s "w" } : Src)
  let ws ← getRats j "ws"
  let wres ← getRatK j "wres"
  pure (Json.arr (srcs.map fun s => Json.arr (ws.map fun w =>
    match s.activeIndex w wres with
    | some n => Json.num (Lean.JsonNumber.fromInt n)
    | none => Json.null).toArray).toArray)

def h_timeValue : Handler := fun j => do
  let lines ← (← getArr j "lines").toList.mapM fun l => do
    match l with
    | .arr #[x, c, s] => pure ((← getGQ x), (← getRat c), (← getRat s))
    | _ => throw "line = [X, cos, sin] expected"
  pure (Json.mkObj [("value", jsonRat (timeValue lines))])

def h_twoSided : Handler := fun j => do
  let ws ← getRats j "ws"
  let X ← getVec (← j.getObjVal? "X")
  let r := series false ws X
  pure (Json.mkObj [("w", jsonRats r.1), ("X", jsonVec r.2)])

def handlersPort : List (String × Handler) :=
  [("port_pre", h_portPre), ("port_z", h_portZ), ("elem_z", h_elemZ), ("oc_voltage", h_ocVoltage),
   ("sc_current", h_scCurrent), ("equivalents", h_equivalents), ("port_sweep", h_portSweep),
   ("port_spec", h_portSpec), ("net_consistent", h_netConsistent),
   ("freq_components", h_freqComponents), ("active_index", h_activeIndex),
   ("time_value", h_timeValue), ("two_sided", h_twoSided)]

end CC
