/-
  Driver handlers, group Load (C17, C20).

  Wire format of a tree `J`:  null ↦ null, bool ↦ true/false, number ↦ {"n":"p/q"},
  string ↦ "…", complex ↦ {"c":[re,im]}, list ↦ […], dict ↦ {"o":[[key, value], …]}
  (keys in insertion order).
  `trig` = {"cs":[[x,cos x,sin x],…], "rad":[[x, x·(π/180)],…], "deg2rad":[[x, deg2rad x],…]}:
  the library values of the parameters of the model, computed by numpy in the harness; a
  value that is asked for but missing answers the impossible cosine 2 (visible as a
  disagreement, never silently defaulted to something plausible).
-/
import CC.Driver.Json
import CC.Driver.LinAlg
import CC.Model.Load
import CC.Model.Effects
import CC.Gen.Effects
namespace CC.Load
open Lean CC

partial def getJ (j : Json) : Except String J :=
  match j with
  | .null => pure .null
  | .bool b => pure (.bool b)
  | .str s => pure (.str s)
  | .arr a => do pure (.arr (← a.toList.mapM getJ))
  | .obj _ =>
    match j.getObjVal? "n" with
    | .ok n => do pure (.num (← getRat n))
    | .error _ =>
      match j.getObjVal? "c" with
      | .ok c => do pure (.cx (← getGQ c))
      | .error _ => do
        let items ← getArr j "o"
        let kv ← items.toList.mapM fun it => do
          match it with
          | .arr #[k, v] => do pure ((← k.getStr?), (← getJ v))
          | _ => throw "bad dict item"
        pure (.obj kv)
  | .num _ => throw "bare JSON number in a tree (numbers travel as {\"n\":\"p/q\"})"

partial def jsonJ : J → Json
  | .null => .null
  | .bool b => .bool b
  | .num q => Json.mkObj [("n", jsonRat q)]
  | .str s => .str s
  | .cx z => Json.mkObj [("c", jsonGQ z)]
  | .arr l => .arr (l.map jsonJ).toArray
  | .obj kv => Json.mkObj [("o", .arr (kv.map fun (k, v) => Json.arr #[.str k, jsonJ v]).toArray)]

def tableLookup (tbl : List (Rat × List Rat)) (x : Rat) (i : Nat) (dflt : Rat) : Rat :=
  match tbl.find? (fun p => p.1 == x) with
  | some (_, vs) => vs.getD i dflt
  | none => dflt

def getTable (j : Json) (k : String) : Except String (List (Rat × List Rat)) := do
  match j.getObjVal? k with
  | .error _ => pure []
  | .ok a =>
    let rows ← a.getArr?
    rows.toList.mapM fun r => do
      let xs ← (← r.getArr?).toList.mapM getRat
      match xs with
      | x :: vs => pure (x, vs)
      | [] => throw "empty trig row"

def getTrig (j : Json) : Except String Trig := do
  match j.getObjVal? "trig" with
  | .error _ => pure { cos := fun _ => 2, sin := fun _ => 2, rad := fun _ => 0, deg2rad := fun _ => 0 }
  | .ok t =>
    let cs ← getTable t "cs"
    let rad ← getTable t "rad"
    let d2r ← getTable t "deg2rad"
    pure { cos := fun x => tableLookup cs x 0 2, sin := fun x => tableLookup cs x 1 2,
           rad := fun x => tableLookup rad x 0 0, deg2rad := fun x => tableLookup d2r x 0 0 }

def jsonLBranch (b : LBranch) : Json :=
  Json.mkObj [("n1", jsonJ b.n1), ("n2", jsonJ b.n2), ("name", jsonJ b.name), ("ty", b.ty),
              ("norton", b.norton), ("a", jsonJ b.a), ("b", jsonJ b.b)]

def jsonComp (c : Comp) : Json :=
  Json.mkObj [("ty", c.ty), ("id", jsonJ c.id), ("nodes", jsonJ c.nodes), ("value", jsonJ (.obj c.value))]

def jsonCirc (c : Circ) : Json :=
  Json.mkObj [("components", .arr (c.components.map jsonComp).toArray), ("ground", jsonJ c.ground)]

def jsonTreeRes (r : Except Err J) (arg : J) : Json :=
  Json.mkObj [("res", jsonExcept jsonJ r), ("post", jsonJ arg)]

/-- op `c17_to_complex` {z, deg, trig} -/
def h_toComplex : Handler := fun j => do
  let T ← getTrig j
  let z ← getJ (← j.getObjVal? "z")
  let deg ← getBool j "deg"
  let r := toComplex T z deg
  pure (Json.mkObj [("res", jsonExcept jsonGQ r.1), ("post", jsonJ r.2)])

/-- op `c17_load_network` {d, trig}: first load, post-state, second load of the same object -/
def h_loadNetwork : Handler := fun j => do
  let T ← getTrig j
  let d ← getJ (← j.getObjVal? "d")
  let r1 := loadNetwork T d
  let r2 := loadNetwork T r1.2
  let enc (r : Except Err (List LBranch)) := jsonExcept (fun bs => Json.arr (bs.map jsonLBranch).toArray) r
  pure (Json.mkObj [("res", enc r1.1), ("post", jsonJ r1.2), ("res2", enc r2.1), ("post2", jsonJ r2.2)])

/-- op `c17_generate_component` {c} -/
def h_generateComponent : Handler := fun j => do
  let c ← getJ (← j.getObjVal? "c")
  let r := generateComponent c
  pure (Json.mkObj [("res", jsonExcept jsonComp r.1), ("post", jsonJ r.2)])

/-- op `c17_undictify_circuit` {c} -/
def h_undictifyCircuit : Handler := fun j => do
  let c ← getJ (← j.getObjVal? "c")
  let r := undictifyCircuit c
  pure (Json.mkObj [("res", jsonExcept jsonCirc r.1), ("post", jsonJ r.2)])

/-- op `c17_dictify` {t, all} -/
def h_dictify : Handler := fun j => do
  let t ← getJ (← j.getObjVal? "t")
  let all ← getBool j "all"
  pure (jsonTreeRes (if all then .ok (dictifyAll t) else dictifyCxJ t) t)

/-- op `c17_undictify` {t, all, trig} -/
def h_undictify : Handler := fun j => do
  let T ← getTrig j
  let t ← getJ (← j.getObjVal? "t")
  let all ← getBool j "all"
  pure (jsonTreeRes (if all then undictifyAll T t else undictifyCxJ T t) t)

/-- op `c17_serialize` {t, fmt | file}: the model up to the library call — either the
exception, or the library function and the tree handed to it -/
def h_serialize : Handler := fun j => do
  let t ← getJ (← j.getObjVal? "t")
  let fmt ← match getStr j "file" with
    | .ok f => pure (pathSuffix f)
    | .error _ => getStr j "fmt"
  -- the library call is recorded, not performed: `dumps lib t` answers the marker `lib`
  match serialize (fun lib _ => .ok lib) t fmt with
  | .error e => pure (Json.mkObj [("err", e.tag), ("fmt", fmt)])
  | .ok lib => pure (Json.mkObj [("lib", lib), ("tree", jsonJ (dictifyAll t)), ("fmt", fmt)])

/-- op `c17_deserialize` {parsed: {ok: tree} | {err: tag}, fmt | file, trig, circuit}: the
library parse is performed by the harness and passed in -/
def h_deserialize : Handler := fun j => do
  let T ← getTrig j
  let fmt ← match getStr j "file" with
    | .ok f => pure (pathSuffix f)
    | .error _ => getStr j "fmt"
  let p ← j.getObjVal? "parsed"
  let parsed : Except Err J ← match p.getObjVal? "ok" with
    | .ok t => do pure (.ok (← getJ t))
    | .error _ => do pure (.error (errOfName (← getStr p "err")))
  let circuit := (getBool j "circuit").toOption.getD false
  let lib := (Gen.Load.deserializers.find? (fun q => q.1 == fmt)).map (·.2)
  if circuit then
    pure (Json.mkObj [("res", jsonExcept jsonCirc (deserializeCircuit (fun _ _ => parsed) T "" fmt)), ("lib", toJson lib)])
  else
    pure (Json.mkObj [("res", jsonExcept jsonJ (deserialize (fun _ _ => parsed) T "" fmt)), ("lib", toJson lib)])

/-- op `c17_suffix` {file} -/
def h_suffix : Handler := fun j => do
  pure (Json.mkObj [("suffix", pathSuffix (← getStr j "file"))])

/-- op `c17_tables`: the generated tables, as the compiled driver sees them -/
def h_tables : Handler := fun _ => do
  pure (Json.mkObj [
    ("network_kinds", jsonStrs (Gen.Load.networkBranchTranslators.map (·.kind))),
    ("circuit_kinds", jsonStrs (Gen.Load.circuitComponentTranslators.map (·.1))),
    ("serializers", Json.arr (Gen.Load.serializers.map fun (a, b) => Json.arr #[.str a, .str b]).toArray),
    ("deserializers", Json.arr (Gen.Load.deserializers.map fun (a, b) => Json.arr #[.str a, .str b]).toArray),
    ("entry_copied", Gen.Load.entryCopied), ("component_copied", Gen.Load.componentCopied),
    ("degree_in_place", Gen.Load.degreeInPlace)])

/-! ### C20 -/

/-- op `c20_effects`: the generated effect summary as compiled into the driver -/
def h_effects : Handler := fun _ => do
  let enc (t : List (String × List String)) :=
    Json.arr (t.map fun (f, ws) => Json.arr #[.str f, jsonStrs ws]).toArray
  pure (Json.mkObj [("effects", enc Gen.Effects.effects),
                    ("mutable_defaults", enc (Gen.Effects.mutableDefaults.map fun d => (d.2.1, d.2.2))),
                    ("global_writes", enc Gen.Effects.globalWrites),
                    ("unknown_calls", Json.arr (Gen.Effects.unknownCalls.map fun (a, b) => Json.arr #[.str a, .str b]).toArray),
                    ("assumed_callables", Json.arr (Gen.Effects.assumedCallables.map fun (a, b) => Json.arr #[.str a, .str b]).toArray),
                    ("in_scope", jsonStrs Gen.Effects.inScope),
                    ("exceptions", jsonStrs frameExceptions)])

def jsonLoadOut : LoadOut → Json
  | .cx r => Json.mkObj [("kind", "cx"), ("res", jsonExcept jsonGQ r)]
  | .net r => Json.mkObj [("kind", "net"), ("res", jsonExcept (fun bs => Json.arr (bs.map jsonLBranch).toArray) r)]
  | .comp r => Json.mkObj [("kind", "comp"), ("res", jsonExcept jsonComp r)]
  | .circ r => Json.mkObj [("kind", "circ"), ("res", jsonExcept jsonCirc r)]
  | .tree r => Json.mkObj [("kind", "tree"), ("res", jsonExcept jsonJ r)]
  | .badOp => Json.mkObj [("kind", "badop")]

/-- op `c20_history` {heap: [tree…], ops: [{fn, cell, deg}], trig}: the heap-passing machine
of CC/Model/Effects.lean instantiated with the loader model; answers every step's output
and the heap after it -/
def h_history : Handler := fun j => do
  let T ← getTrig j
  let heap ← (← getArr j "heap").toList.mapM getJ
  let ops ← (← getArr j "ops").toList.mapM fun o => do
    pure ({ fn := ← getStr o "fn", args := [(← getStr o "param", ← getNat o "cell")],
            flag := (getBool o "deg").toOption.getD false } : LoadOp)
  let rec go (h : List J) : List LoadOp → List Json
    | [] => []
    | op :: r =>
      let (h', out) := loadStep T h op
      Json.mkObj [("out", jsonLoadOut out), ("writes", toJson op.writeCells),
                  ("heap", Json.arr (h'.map jsonJ).toArray)] :: go h' r
  pure (Json.arr (go heap ops).toArray)

end CC.Load

namespace CC
open CC.Load

def handlersLoad : List (String × Handler) :=
  [("c17_to_complex", h_toComplex), ("c17_load_network", h_loadNetwork),
   ("c17_generate_component", h_generateComponent), ("c17_undictify_circuit", h_undictifyCircuit),
   ("c17_dictify", h_dictify), ("c17_undictify", h_undictify), ("c17_serialize", h_serialize),
   ("c17_deserialize", h_deserialize), ("c17_suffix", h_suffix), ("c17_tables", h_tables),
   ("c20_effects", h_effects), ("c20_history", h_history)]

end CC
