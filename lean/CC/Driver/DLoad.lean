/- Driver handlers, group Load (stub; filled in by the group's model). -/
import CC.Driver.Json
import CC.Driver.LinAlg
namespace CC
open Lean

def handlersLoad : List (String × Handler) := []

end CC
