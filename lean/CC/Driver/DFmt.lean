/- Driver handlers, group Fmt (stub; filled in by the group's model). -/
import CC.Driver.Json
import CC.Driver.LinAlg
namespace CC
open Lean

def handlersFmt : List (String × Handler) := []

end CC
