/-
  Driver handlers, group Fmt (C18 formatting pipeline, C14 annotations).
  Text crosses the line protocol as JSON strings; numbers as exact rationals.
-/
import CC.Driver.Json
import CC.Model.Fmt
import CC.Spec.Fmt
import CC.Model.Annot
namespace CC.DFmt
open Lean CC CC.Fmt

def jsonChars (l : List Char) : Json := Json.str (String.ofList l)
def getChars (j : Json) (k : String) : Except String (List Char) := do pure (← getStr j k).toList
def getInt (j : Json) (k : String) : Except String Int := do (← j.getObjVal? k).getInt?
def getBoolD (j : Json) (k : String) (d : Bool) : Bool := (getBool j k).toOption.getD d

def getTable (j : Json) (k : String) : Except String Table := do
  let a ← getArr j k
  a.toList.mapM fun e => do
    match e with
    | .arr #[kk, vv] => pure ((← kk.getInt?), (← vv.getStr?).toList)
    | _ => throw "table entry [int, str] expected"

def getSFCfg (j : Json) : Except String SFCfg := do
  let usePrefix := getBoolD j "use_prefix" CC.Gen.Fmt.sf_use_exp_prefix_default
  let table ← match j.getObjVal? "table" with
    | .ok .null | .error _ => pure CC.Gen.Fmt.sf_exp_prefixes_default
    | .ok _ => getTable j "table"
  pure { unit := ← getChars j "unit", precision := ← getNat j "precision", usePrefix := usePrefix, table := table }

/-- relative distances of the model's rounding arguments from a tie (guard of the agreement
relation: below 2^-40 a float computation may legitimately round the other way) -/
def tieMargins (v : Rat) (p : Nat) : List Rat :=
  let a := qabs v
  if a = 0 then [] else
  let e := exponent v p
  let x := a / pow10 e
  let m1 := tieDist x / x
  let s := floatToString p a
  if s.intPart = 0 then
    let y := a * pow10 s.lz * pow10 p
    [m1, tieDist y / y]
  else [m1]

def jsonF3 (f : F3) : Json :=
  Json.mkObj [("exponent", Json.num f.exponent), ("mantissa", Json.num f.mantissa),
    ("exponent3", Json.num f.exponent3), ("mantissa3", jsonRat f.mantissa3),
    ("is_inf", f.isInf), ("is_zero", f.isZero)]

/-- op `fmt_sf`: `str(ScientificFloat(v, unit, precision, use_prefix, table))` -/
def h_fmt_sf : Handler := fun j => do
  let c ← getSFCfg j
  let v ← getRatK j "v"
  pure (Json.mkObj [("s", jsonChars (c.str v)), ("f3", jsonF3 (c.value3 v)),
    ("margins", Json.arr ((tieMargins v c.precision).map jsonRat).toArray)])

/-- op `fmt_sc`: `str(ScientificComplex(...))`; `abs`, `angle` are the implementation's own -/
def h_fmt_sc : Handler := fun j => do
  let c ← getSFCfg j
  let sc : SCCfg := { c with compact := getBoolD j "compact" false, polar := getBoolD j "polar" false,
                             deg := getBoolD j "deg" false }
  let re ← getRatK j "re"; let im ← getRatK j "im"
  let absV ← getRatK j "abs"; let ang ← getRatK j "angle"
  let margins := if sc.polar then tieMargins absV c.precision
                 else tieMargins re c.precision ++ tieMargins im c.precision
  pure (Json.mkObj [("s", jsonChars (sc.str re im absV ang)),
    ("re_zero", (c.value3 (qabs re)).isZero), ("im_zero", (c.value3 (qabs im)).isZero),
    ("margins", Json.arr (margins.map jsonRat).toArray)])

def scCall? (fn : String) : Option CallCfg :=
  match fn with
  | "print_resistance" => some CC.Gen.Fmt.print_resistance_call0
  | "print_conductance" => some CC.Gen.Fmt.print_conductance_call0
  | "print_impedance" => some CC.Gen.Fmt.print_impedance_call0
  | _ => none

def sfCall? (fn : String) : Option CallCfg :=
  match fn with
  | "print_capacitance" => some CC.Gen.Fmt.print_capacitance_call0
  | "print_inductance" => some CC.Gen.Fmt.print_inductance_call0
  | _ => none

def ratD (j : Json) (k : String) : Rat := (getRatK j k).toOption.getD 0

/-- op `fmt_display`: the `Display.print_*` helper named `fn` -/
def h_fmt_display : Handler := fun j => do
  let fn ← getStr j "fn"
  let p ← getNat j "precision"
  let unit := (getChars j "unit").toOption.getD []
  let s ← match fn with
    | "print_complex" =>
      pure (printComplex (ratD j "re") (ratD j "im") (ratD j "abs") (ratD j "angle") unit p
        (getBoolD j "polar" false) (getBoolD j "deg" false))
    | "print_abs" => pure (printAbs (ratD j "abs") unit p)
    | "print_real" => pure (printReal (ratD j "re") unit p)
    | "print_sinosoidal" =>
      pure (printSinusoidal (ratD j "re") (ratD j "abs") (ratD j "phase") (ratD j "phase_deg") (ratD j "w") (ratD j "w_hz")
        unit p (getBoolD j "sin" false) (getBoolD j "deg" false) (getBoolD j "hertz" false))
    | "print_active_power" => pure (printActivePower (ratD j "re") p)
    | "print_active_reactive_power" => pure (printActiveReactivePower (ratD j "re") (ratD j "im") p)
    | _ =>
      match scCall? fn, sfCall? fn with
      | some k, _ => pure (printSC k (ratD j "re") (ratD j "im") p)
      | _, some k => pure (printSF k (ratD j "re") p)
      | _, _ => throw s!"unknown display helper {fn}"
  pure (Json.mkObj [("s", jsonChars s)])

def jsonParsed (q : Parsed) : Json :=
  Json.mkObj [("neg", q.neg), ("int", Json.num (q.intPart : Int)), ("frac", Json.num (q.fracNum : Int)),
    ("frac_len", Json.num (q.fracLen : Int)), ("exp_e", Json.num q.expE), ("pfx", Json.num q.pfxKey),
    ("value", jsonRat q.value), ("mant", jsonRat q.mant)]

def jsonText : Option Text → Json
  | none => Json.null
  | some (.inf neg) => Json.mkObj [("inf", true), ("neg", neg)]
  | some (.num q) => jsonParsed q

/-- relative allowance of the oracle for float arithmetic inside the pipeline: 2^-40 -/
def oracleTol : Rat := 1 / 1099511627776

def jsonFailures (l : List String) : Json := Json.arr (l.map Json.str).toArray

/-- op `fmt_parse`: the reader alone -/
def h_fmt_parse : Handler := fun j => do
  pure (Json.mkObj [("parsed", jsonText (parseBack (← getChars j "unit") (← getChars j "s")))])

/-- op `fmt_spec_real`: C18 on one displayed real value (oracle) -/
def h_fmt_spec_real : Handler := fun j => do
  let v ← getRatK j "v"
  let p ← getNat j "precision"
  let maxExp ← getInt j "max_exp"
  let t := parseBack (← getChars j "unit") (← getChars j "s")
  if v = 0 then throw "fmt_spec_real: the property does not quantify over v = 0"
  pure (Json.mkObj [("failures", jsonFailures (realFailures v p maxExp t oracleTol)), ("parsed", jsonText t)])

/-- a part of a complex value may be left out only if it is zero or below the smallest unit
the prefixes can express (`|part| < 10^minExp`); a part that is shown is judged like a real
value -/
def partFailures (tag : String) (v : Rat) (p : Nat) (minExp maxExp : Int) (t : Option Text) : List String :=
  match t with
  | none =>
    if v = 0 ∨ qabs v < pow10 minExp then [] else [s!"{tag}:omitted_inside_range"]
  | some t =>
    if v = 0 then
      match t with
      | .num q => if q.value = 0 then [] else [s!"{tag}:nonzero_text_for_zero"]
      | .inf _ => [s!"{tag}:infinite_text_for_zero"]
    else (realFailures v p maxExp (some t) oracleTol).map (s!"{tag}:" ++ ·)

/-- op `fmt_spec_complex`: Cartesian complex text -/
def h_fmt_spec_complex : Handler := fun j => do
  let re ← getRatK j "re"; let im ← getRatK j "im"
  let p ← getNat j "precision"
  let minExp ← getInt j "min_exp"; let maxExp ← getInt j "max_exp"
  match parseCartesian (← getChars j "unit") (← getChars j "s") with
  | none => pure (Json.mkObj [("failures", jsonFailures ["unreadable"])])
  | some (tr, ti) =>
    pure (Json.mkObj [("failures", jsonFailures (partFailures "re" re p minExp maxExp tr ++ partFailures "im" im p minExp maxExp ti)),
      ("re", jsonText tr), ("im", jsonText ti)])

/-- op `fmt_spec_polar`: polar text; the harness compares the angle -/
def h_fmt_spec_polar : Handler := fun j => do
  let absV ← getRatK j "abs"
  let p ← getNat j "precision"
  let maxExp ← getInt j "max_exp"
  match parsePolar (← getChars j "unit") (← getChars j "s") with
  | none => pure (Json.mkObj [("failures", jsonFailures ["unreadable"])])
  | some (t, ang, d) =>
    pure (Json.mkObj [("failures", jsonFailures (realFailures absV p maxExp (some t) oracleTol)), ("abs", jsonText (some t)),
      ("angle", match ang with | some a => jsonRat a | none => Json.null), ("deg_sign", d)])

/-- op `fmt_helper_range`: the specified prefix range of a display helper -/
def h_fmt_helper_range : Handler := fun j => do
  match helperRange (← getStr j "fn") with
  | some (a, b) => pure (Json.mkObj [("min", Json.num a), ("max", Json.num b)])
  | none => throw "no specified range"

/-! ### C14 -/
open CC.Annot in
def getKind (s : String) : Except String Kind :=
  match s with
  | "real" => pure .real | "complex" => pure .complex | "time" => pure .timeDomain
  | _ => throw s!"unknown kind {s}"

open CC.Annot in
def getQuantity (s : String) : Except String Quantity :=
  match s with
  | "voltage" => pure .voltage | "current" => pure .current | "power" => pure .power | "potential" => pure .potential
  | _ => throw s!"unknown quantity {s}"

def jsonOptStr : Option String → Json
  | some s => Json.str s
  | none => Json.null

open CC.Annot in
/-- op `annot_text`: the adapter text for solution value `q` (and the label's arrow flag) -/
def h_annot_text : Handler := fun j => do
  let k ← getKind (← getStr j "kind")
  let qt ← getQuantity (← getStr j "quantity")
  let reverse := getBoolD j "reverse" false
  let q ← getGQK j "q"
  let d : Derived := { absV := ratD j "abs", angle := ratD j "angle", phase := ratD j "phase",
                       phaseDeg := ratD j "phase_deg", w := ratD j "w", wHz := ratD j "w_hz" }
  let o : Opts := { precision := ← getNat j "precision", polar := getBoolD j "polar" false, deg := getBoolD j "deg" false,
                    sin := getBoolD j "sin" false, hertz := getBoolD j "hertz" false }
  let signed := match findAdapter k qt with
    | some a => signedValue a reverse q
    | none => q
  pure (Json.mkObj [("s", match annotText k qt reverse q d o with | some s => jsonChars s | none => Json.null),
    ("signed", jsonGQ signed), ("expected", jsonGQ (specValue qt reverse q)),
    ("arrow", match arrowReversed qt reverse (getBoolD j "element_reversed" false) with
              | some b => Json.bool b | none => Json.null),
    ("spec_arrow", match qt with
      | .voltage | .current => Json.bool (specArrowReversed reverse (getBoolD j "element_reversed" false))
      | _ => Json.null),
    ("unit", jsonChars (specUnit qt))])

open CC.Annot in
/-- op `annot_lookup`: declared solution type ↦ constructor, kind, accepted parameters -/
def h_annot_lookup : Handler := fun j => do
  let ty ← getStr j "type"
  let keys := ((getArr j "keys").toOption.getD #[]).toList.filterMap fun x => x.getStr?.toOption
  let kindStr : Option Kind → Json := fun k => match k with
    | some .real => "real" | some .complex => "complex" | some .timeDomain => "time" | none => Json.null
  pure (Json.mkObj [("ctor", ctorNameOfType ty), ("kind", kindStr (declaredKind ty)), ("spec_kind", kindStr (specKind ty)),
    ("params", jsonStrs (filterParams ty keys)), ("peak", declaredPeak ty),
    ("spec_peak", match specKind ty with | some k => Json.bool (specPeak k) | none => Json.null),
    ("loops", Json.arr ((CC.Gen.Annot.annotation_loops.map fun (a, b) => Json.arr #[Json.str a, Json.str b]).toArray))])

/-- op `fmt_consts`: generated constants the harness needs to compute the runtime parameters
(`phase + k·pi/2`) exactly as the implementation does -/
def h_fmt_consts : Handler := fun _ => do
  pure (Json.mkObj [("sin_shift", Json.num CC.Gen.Fmt.print_sinosoidal_sin_shift),
    ("spec_sin_shift", Json.num specSineQuarterTurns),
    ("phase_threshold", jsonRat CC.Gen.Fmt.print_sinosoidal_phase_threshold)])

def handlers : List (String × Handler) :=
  [("fmt_sf", h_fmt_sf), ("fmt_sc", h_fmt_sc), ("fmt_display", h_fmt_display), ("fmt_parse", h_fmt_parse),
   ("fmt_spec_real", h_fmt_spec_real), ("fmt_spec_complex", h_fmt_spec_complex),
   ("fmt_spec_polar", h_fmt_spec_polar), ("fmt_helper_range", h_fmt_helper_range),
   ("annot_text", h_annot_text), ("annot_lookup", h_annot_lookup), ("fmt_consts", h_fmt_consts)]

end CC.DFmt

namespace CC
def handlersFmt : List (String × Handler) := CC.DFmt.handlers
end CC
