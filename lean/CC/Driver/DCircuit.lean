/-
  Driver handlers, group Circuit (C07, C02, C19): constructors, Circuit.__post_init__,
  transform_circuit / per-component translators, the intended phasor network (Spec),
  DC / complex solution wrappers, generate_component / undictify_circuit, elm.load,
  periodic_function.

  JSON: a value is {"n": rat} | {"s": string} | {"c": [re, im]}; a value dictionary is an
  array of [key, value] pairs (order preserved); a component is
  {"kind","id","nodes":[…],"value":[[k,v],…]}.
  `trig` is an array of [phi, cos, sin]; `harm` an array of [wavetype, A, phi, n, amp, phase].
-/
import CC.Driver.Json
import CC.Driver.LinAlg
import CC.Model.Circuit
import CC.Spec.Phasor
namespace CC.DCirc
open Lean CC

def getVal (j : Json) : Except String Val := do
  match j.getObjVal? "n" with
  | .ok v => pure (.num (← getRat v))
  | .error _ =>
    match j.getObjVal? "s" with
    | .ok v => pure (.str (← v.getStr?))
    | .error _ =>
      match j.getObjVal? "c" with
      | .ok (.arr #[a, b]) => pure (.cplx (← getRat a) (← getRat b))
      | _ =>
        match j.getObjVal? "inf" with
        | .ok _ => pure .inf
        | .error _ => throw "bad value"

def jsonVal : Val → Json
  | .num q => Json.mkObj [("n", jsonRat q)]
  | .str s => Json.mkObj [("s", Json.str s)]
  | .cplx a b => Json.mkObj [("c", Json.arr #[jsonRat a, jsonRat b])]
  | .inf => Json.mkObj [("inf", true)]

def getPairs (j : Json) : Except String (List (String × Val)) := do
  let a ← j.getArr?
  a.toList.mapM fun p =>
    match p with
    | .arr #[k, v] => do pure (← k.getStr?, ← getVal v)
    | _ => throw "bad [key, value] pair"

def jsonPairs (l : List (String × Val)) : Json :=
  Json.arr (l.map fun kv => Json.arr #[Json.str kv.1, jsonVal kv.2]).toArray

def getStrs (j : Json) : Except String (List String) := do
  (← j.getArr?).toList.mapM (·.getStr?)

def getComponent (j : Json) : Except String Component := do
  pure { kind := ← getStr j "kind", id := ← getStr j "id", nodes := ← getStrs (← j.getObjVal? "nodes"),
         value := ← getPairs (← j.getObjVal? "value") }

def jsonComponent (c : Component) : Json :=
  Json.mkObj [("kind", c.kind), ("id", c.id), ("nodes", jsonStrs c.nodes), ("value", jsonPairs c.value)]

def getComponents (j : Json) : Except String (List Component) := do
  (← getArr j "components").toList.mapM getComponent

/-- `trig` table ↦ function; a phase that the harness did not supply yields a sentinel that
cannot agree with anything -/
def getTrig (j : Json) : Except String Trig := do
  match j.getObjVal? "trig" with
  | .error _ => pure fun _ => (7777, 7777)
  | .ok t =>
    let rows ← (← t.getArr?).toList.mapM fun r =>
      match r with
      | .arr #[p, c, s] => do pure (← getRat p, (← getRat c, ← getRat s))
      | _ => throw "bad trig row"
    pure fun phi => (rows.lookup phi).getD (7777, 7777)

def getHarm (j : Json) : Except String Harm := do
  match j.getObjVal? "harm" with
  | .error _ => pure fun _ _ _ _ => (7777, 7777)
  | .ok t =>
    let rows ← (← t.getArr?).toList.mapM fun r =>
      match r with
      | .arr #[wt, a, p, n, amp, ph] => do
        pure ((← wt.getStr?, ← getRat a, ← getRat p, ← n.getInt?), (← getRat amp, ← getRat ph))
      | _ => throw "bad harm row"
    pure fun wt a p n => (rows.lookup (wt, a, p, n)).getD (7777, 7777)

def optStr (j : Json) (k : String) : Except String (Option String) :=
  match j.getObjVal? k with
  | .ok .null => pure none
  | .ok v => do pure (some (← v.getStr?))
  | .error _ => pure none

def optStrs (j : Json) (k : String) : Except String (Option (List String)) :=
  match j.getObjVal? k with
  | .ok .null => pure none
  | .ok v => do pure (some (← getStrs v))
  | .error _ => pure none

def jsonTable (t : List (String × String)) : Json :=
  Json.arr (t.map fun kv => Json.arr #[Json.str kv.1, Json.str kv.2]).toArray

def cmpTag : Cmp → String
  | .lt => "<" | .le => "<=" | .gt => ">" | .ge => ">=" | .eq => "==" | .ne => "!="

/-- op `cc_tables`: the generated tables, for a sanity comparison with the live objects -/
def h_tables : Handler := fun _ => do
  let T := Gen.tables
  pure (Json.mkObj [
    ("transformers", jsonTable T.transformers),
    ("loaders", jsonTable T.loaders),
    ("network_branch_translators", jsonTable Gen.networkBranchTranslators),
    ("waves", jsonStrs T.waves),
    ("element_handlers", jsonTable Gen.elementHandlers),
    ("schematic_solutions", jsonTable Gen.schematicSolutions),
    ("w_resolution", jsonRat Gen.defaultWRes),
    ("w_resolution_transform", jsonRat Gen.defaultWResTransform),
    ("ctors", Json.arr (T.ctors.map fun s => Json.mkObj [
      ("fn", s.fn), ("kind", s.kind),
      ("params", Json.arr (s.params.map fun p => Json.mkObj [("name", p.1),
        ("ty", match p.2.1 with | .real => "real" | .cplx => "cplx" | .str => "str"),
        ("default", match p.2.2 with | some v => jsonVal v | none => Json.null)]).toArray),
      ("guards", Json.arr (s.guards.map fun g => Json.arr #[Json.str g.param, Json.str (cmpTag g.cmp),
        jsonRat g.bound, Json.str g.exc]).toArray),
      ("keys", jsonStrs (s.values.map (·.1)))]).toArray),
    ("translators", Json.arr (T.trans.map fun s => Json.mkObj [("fn", s.fn), ("reads", jsonStrs s.reads)]).toArray)])

/-- op `cc_construct`: one constructor call -/
def h_construct : Handler := fun j => do
  let fn ← getStr j "fn"
  let id ← optStr j "id"
  let nodes ← optStrs j "nodes"
  let args ← getPairs (← j.getObjVal? "args")
  match Gen.tables.ctor? fn with
  | none => throw s!"no constructor {fn}"
  | some s => pure (jsonExcept jsonComponent (s.construct id nodes args))

/-- op `cc_circuit`: `Circuit(components)` -/
def h_circuit : Handler := fun j => do
  let cs ← getComponents j
  pure (jsonExcept (fun C => Json.mkObj [("ground", Json.str C.ground),
    ("components", Json.arr (C.components.map jsonComponent).toArray)]) (Circuit.mk? cs))

/-- op `cc_transform1`: one translator call through the table -/
def h_transform1 : Handler := fun j => do
  let c ← getComponent (← j.getObjVal? "component")
  let w ← getRatK j "w"
  let wres ← getRatK j "wres"
  let trig ← getTrig j
  let harm ← getHarm j
  match transformComponent Gen.tables trig harm c w wres with
  | none => pure (Json.mkObj [("none", true)])
  | some r => pure (jsonExcept jsonBranch r)

/-- op `cc_transform`: `transform_circuit(Circuit(components), w, w_resolution)` -/
def h_transform : Handler := fun j => do
  let cs ← getComponents j
  let w ← getRatK j "w"
  let wres ← getRatK j "wres"
  let trig ← getTrig j
  let harm ← getHarm j
  let r : Except Err (Net String GQ) := do
    let C ← Circuit.mk? cs
    transformCircuit Gen.tables trig harm C w wres
  pure (jsonExcept jsonNet r)

/-- op `cc_spec_net`: the intended phasor network (CC/Spec/Phasor.lean), per component and
as a whole -/
def h_specNet : Handler := fun j => do
  let cs ← getComponents j
  let w ← getRatK j "w"
  let wres ← getRatK j "wres"
  let trig ← getTrig j
  let harm ← getHarm j
  let per := (Spec.nonGround cs).map fun c =>
    match Spec.branchOf trig harm c w wres with
    | some b => Json.mkObj [("id", c.id), ("kind", c.kind), ("branch", jsonBranch b)]
    | none => Json.mkObj [("id", c.id), ("kind", c.kind), ("branch", Json.null)]
  let whole := match Spec.phasorNet trig harm cs w wres with
    | some N => jsonNet N
    | none => Json.null
  let g := match Spec.groundOf cs with
    | some g => Json.str g
    | none => Json.null
  pure (Json.mkObj [("branches", Json.arr per.toArray), ("net", whole), ("ground", g)])

def getQuantity (s : String) : Except String Quantity :=
  if s = "potential" then pure .potential else if s = "voltage" then pure .voltage
  else if s = "current" then pure .current else throw s!"bad quantity {s}"

def jsonExceptRat (r : Except Err Rat) : Json := jsonExcept jsonRat r

/-- op `cc_solution`: DCSolution / ComplexSolution accessors on a solved network
(`mode` = "dc" | "rms" | "peak"; `x` = the solver's vector; `r2` = np.sqrt(2)) -/
def h_solution : Handler := fun j => do
  let N ← getNet (← j.getObjVal? "net")
  let x ← getVec (← j.getObjVal? "x")
  let mode ← getStr j "mode"
  let r2 ← getRatK j "r2"
  let extraIds := match j.getObjVal? "ids" with
    | .ok v => (getStrs v).toOption.getD []
    | .error _ => []
  let labels := N.nodeLabels ++ extraIds
  let ids := N.branches.map (·.id) ++ extraIds
  if mode = "dc" then
    pure (Json.mkObj [
      ("pot", Json.mkObj (labels.map fun n => (n, jsonExceptRat (dcGet N x .potential n)))),
      ("v", Json.mkObj (ids.map fun n => (n, jsonExceptRat (dcGet N x .voltage n)))),
      ("i", Json.mkObj (ids.map fun n => (n, jsonExceptRat (dcGet N x .current n)))),
      ("p", Json.mkObj (ids.map fun n => (n, jsonExceptRat (dcPower N x n))))])
  else
    let peak := mode = "peak"
    pure (Json.mkObj [
      ("pot", Json.mkObj (labels.map fun n => (n, jsonExcept jsonGQ (cxGet peak r2 N x .potential n)))),
      ("v", Json.mkObj (ids.map fun n => (n, jsonExcept jsonGQ (cxGet peak r2 N x .voltage n)))),
      ("i", Json.mkObj (ids.map fun n => (n, jsonExcept jsonGQ (cxGet peak r2 N x .current n)))),
      ("p", Json.mkObj (ids.map fun n => (n, jsonExcept jsonGQ (cxPower peak r2 N x n))))])

def getDesc (j : Json) : Except String Desc := do
  let value ← match j.getObjVal? "value" with
    | .ok .null => pure none
    | .ok v => do pure (some (← getPairs v))
    | .error _ => pure none
  pure { id := ← optStr j "id", type := ← optStr j "type", nodes := ← optStrs j "nodes", value := value }

/-- op `cc_generate`: `generate_component(entry)` -/
def h_generate : Handler := fun j => do
  let d ← getDesc (← j.getObjVal? "desc")
  pure (jsonExcept jsonComponent (generateComponent Gen.tables d))

/-- op `cc_undictify`: `undictify_circuit({'components': […]})` -/
def h_undictify : Handler := fun j => do
  let ds ← (← getArr j "descs").toList.mapM getDesc
  pure (jsonExcept (fun C => Json.mkObj [("ground", Json.str C.ground),
    ("components", Json.arr (C.components.map jsonComponent).toArray)]) (undictifyCircuit Gen.tables ds))

/-- op `cc_load`: `elm.load(name, P, V_ref, I_ref, Q)` -/
def h_load : Handler := fun j => do
  pure (jsonExcept jsonElem (elmLoad (← getRatK j "P") (← getRatK j "V_ref") (← getRatK j "I_ref") (← getRatK j "Q")))

/-- op `cc_periodic_function`: the wavetype lookup -/
def h_periodicFunction : Handler := fun j => do
  pure (jsonExcept Json.str (periodicFunction Gen.tables.waves (← getStr j "name")))

/-- op `cc_network`: `Network(branches, zero)` construction check -/
def h_network : Handler := fun j => do
  let N ← getNet (← j.getObjVal? "net")
  pure (jsonExcept (fun _ => Json.mkObj [("labels", jsonStrs N.nodeLabels)]) N.check)

def handlers : List (String × Handler) :=
  [("cc_tables", h_tables), ("cc_construct", h_construct), ("cc_circuit", h_circuit),
   ("cc_transform1", h_transform1), ("cc_transform", h_transform), ("cc_spec_net", h_specNet),
   ("cc_solution", h_solution), ("cc_generate", h_generate), ("cc_undictify", h_undictify),
   ("cc_load", h_load), ("cc_periodic_function", h_periodicFunction), ("cc_network", h_network)]

end CC.DCirc

namespace CC
def handlersCircuit : List (String × Handler) := DCirc.handlers
end CC
