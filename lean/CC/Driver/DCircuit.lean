/- Driver handlers, group Circuit (stub; filled in by the group's model). -/
import CC.Driver.Json
import CC.Driver.LinAlg
namespace CC
open Lean

def handlersCircuit : List (String × Handler) := []

end CC
