/- Driver handlers, group Draw (stub; filled in by the group's model). -/
import CC.Driver.Json
import CC.Driver.LinAlg
namespace CC
open Lean

def handlersDraw : List (String × Handler) := []

end CC
