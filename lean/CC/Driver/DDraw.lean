/-
  Driver handlers, group Draw (C13, C15): the drawing parser / translator model and the
  save–load / declarative model, fed with the anchors and attribute values the harness read
  from real schemdraw objects.
-/
import CC.Driver.Json
import CC.Driver.LinAlg
import CC.Model.Draw
import CC.Model.DrawIO
namespace CC.DrawDriver
open Lean CC CC.Draw

def jsonPt (p : Pt) : Json := Json.arr #[jsonRat p.x, jsonRat p.y]

def getPt (j : Json) : Except String Pt :=
  match j with
  | .arr #[a, b] => do pure ⟨← getRat a, ← getRat b⟩
  | _ => .error "point expected"

def getVal (j : Json) : Except String Val :=
  match j with
  | .null => pure .none
  | .str "inf" => pure .inf
  | .bool b => pure (.bool b)
  | .obj _ =>
    match j.getObjVal? "n", j.getObjVal? "b", j.getObjVal? "s", j.getObjVal? "p" with
    | .ok n, _, _, _ => do pure (.num (← getGQ n))
    | _, .ok b, _, _ => do pure (.bool (← b.getBool?))
    | _, _, .ok s, _ => do pure (.str (← s.getStr?))
    | _, _, _, .ok p => do pure (.pt (← getPt p))
    | _, _, _, _ => .error "bad value object"
  | _ => .error "value expected"

def jsonVal : Val → Json
  | .num z => Json.mkObj [("n", jsonGQ z)]
  | .bool b => Json.mkObj [("b", Json.bool b)]
  | .str s => Json.mkObj [("s", Json.str s)]
  | .inf => Json.str "inf"
  | .none => Json.null
  | .pt p => Json.mkObj [("p", jsonPt p)]

def getValMap (j : Json) : Except String (List (String × Val)) := do
  match j with
  | .arr a => a.toList.mapM fun kv =>
      match kv with
      | .arr #[.str k, v] => do pure (k, ← getVal v)
      | _ => .error "key/value pair expected"
  | _ => .error "list of key/value pairs expected"

def jsonValMap (m : List (String × Val)) : Json :=
  Json.arr (m.map fun kv => Json.arr #[Json.str kv.1, jsonVal kv.2]).toArray

def getSym (j : Json) : Except String Sym := do
  pure { cls := ← getStr j "cls",
         name := (getStr j "name").toOption.getD "",
         rev := (getBool j "rev").toOption.getD false,
         nodeId := (getStr j "node_id").toOption.getD "",
         attrs := ← getValMap ((j.getObjVal? "attrs").toOption.getD (Json.arr #[])),
         start := ← getPt (← j.getObjVal? "start"),
         stop := ← getPt (← j.getObjVal? "end") }

def getSyms (j : Json) : Except String (List Sym) := do
  (← getArr j "syms").toList.mapM getSym

def getPts (j : Json) (k : String) : Except String (List Pt) := do
  match j.getObjVal? k with
  | .ok (.arr a) => a.toList.mapM getPt
  | _ => pure []

/-- a set order supplied by the harness: used when it is a permutation of the set, otherwise
the set's own list order (the reply says which) -/
def orderFrom (given : List Pt) (l : List Pt) : List Pt :=
  if given.length = l.length ∧ given.all (· ∈ l) ∧ l.all (· ∈ given) then given else l

def ordFrom (ga gu : List Pt) : SetOrd Pt := ⟨orderFrom ga, orderFrom gu⟩

def jsonComponent (c : Component) : Json :=
  Json.mkObj [("type", c.type), ("id", c.id), ("nodes", jsonStrs c.nodes), ("value", jsonValMap c.value)]

def jsonCircuit (c : Circuit) : Json :=
  Json.mkObj [("components", Json.arr (c.components.map jsonComponent).toArray), ("ground_node", c.groundNode)]

def getPi (j : Json) : Except String Rat :=
  match j.getObjVal? "pi" with
  | .ok v => getRat v
  | .error _ => pure ((884279719003555 : Rat) / 281474976710656)   -- binary64 math.pi

/-- op `draw_parse`: the whole parser / translator pipeline on one drawing -/
def h_drawParse : Handler := fun j => do
  let syms ← getSyms j
  let π ← getPi j
  let ga := (← getPts j "ord_all").map roundPt
  let gu := (← getPts j "ord_uniq").map roundPt
  let ord := ordFrom ga gu
  let ws := wiresOf syms
  let all := allNodes syms
  let uniq := uniqueNodes ws ord all
  let umap := uniqueNodeMapping ws ord all
  let labels := nodeLabelMapping ws ord all (nodeSymsOf syms)
  pure (Json.mkObj [
    ("all", Json.arr (all.map jsonPt).toArray),
    ("ord_all_used", Json.bool (ord.all all == ga)),
    ("ord_uniq_used", Json.bool (ord.uniq uniq == gu)),
    ("classes", Json.arr (all.map fun p => Json.arr #[jsonPt p, Json.arr ((eqp ws p).map jsonPt).toArray]).toArray),
    ("uniq", Json.arr (uniq.map jsonPt).toArray),
    ("umap", Json.arr (umap.map fun pq => Json.arr #[jsonPt pq.1, jsonPt pq.2]).toArray),
    ("labels", jsonExcept (fun l => Json.arr (l.map fun (pl : Pt × String) => Json.arr #[jsonPt pl.1, Json.str pl.2]).toArray) labels),
    ("ground_label", jsonExcept Json.str (groundLabel ord syms)),
    ("circuit", jsonExcept jsonCircuit (circuitTranslator π ord syms))])

/-- op `draw_get_element`: `parser.get_element(name)` for a list of names -/
def h_drawGetElement : Handler := fun j => do
  let syms ← getSyms j
  let names ← (← getArr j "names").toList.mapM fun n => n.getStr?
  pure (Json.arr (names.map fun n =>
    jsonExcept (fun (s : Sym) => Json.mkObj [("cls", s.cls), ("name", s.name), ("start", jsonPt s.start), ("end", jsonPt s.stop)])
      (getElement syms n)).toArray)

/-- op `draw_round`: `round(x, 2)` on a list of numbers, with the distance to the nearest tie -/
def h_drawRound : Handler := fun j => do
  let xs ← (← getArr j "xs").toList.mapM getRat
  pure (Json.arr (xs.map fun x =>
    let y := x * 100
    let d := y - (y.floor : Rat) - 1/2
    Json.mkObj [("r", jsonRat (round2 x)), ("tie_dist", jsonRat (if d < 0 then -d else d))]).toArray)

/-- op `draw_construct`: a symbol constructor applied to keyword arguments -/
def h_drawConstruct : Handler := fun j => do
  let cls ← getStr j "cls"
  let kwargs ← getValMap (← j.getObjVal? "kwargs")
  let π ← getPi j
  pure (jsonExcept (fun (e : SymObj) => Json.mkObj [("name", e.name), ("rev", Json.bool e.rev), ("node_id", e.nodeId),
      ("attrs", jsonValMap e.attrs)]) (construct π cls kwargs))

def getSaved (j : Json) : Except String SavedElem := do
  pure { typ := ← getStr j "type", name := ← getStr j "name", rev := ← getBool j "reverse",
         userparams := ← getValMap (← j.getObjVal? "userparams"),
         start := ← getPt (← j.getObjVal? "start"), stop := ← getPt (← j.getObjVal? "end") }

def jsonSym (s : Sym) : Json :=
  Json.mkObj [("cls", s.cls), ("name", s.name), ("rev", Json.bool s.rev), ("node_id", s.nodeId),
    ("attrs", jsonValMap s.attrs), ("start", jsonPt s.start), ("end", jsonPt s.stop)]

/-- op `draw_load`: `undictify_element` on every saved element against the saved circuit values -/
def h_drawLoad : Handler := fun j => do
  let π ← getPi j
  let saved ← (← getArr j "elements").toList.mapM getSaved
  let circ ← (← getArr j "circuit").toList.mapM fun c => do
    pure ((← getStr c "id"), (← getValMap (← c.getObjVal? "value")))
  pure (jsonExcept (fun l => Json.arr (l.map jsonSym).toArray) (saved.mapM (undictifyElement π circ)))

/-- op `draw_cycles`: n save/load cycles of a drawing in the model; the translated circuit after each -/
def h_drawCycles : Handler := fun j => do
  let π ← getPi j
  let drawing ← (← getArr j "drawing").toList.mapM fun e => do
    pure ({ cls := ← getStr e "cls", kwargs := ← getValMap (← e.getObjVal? "kwargs"),
            start := ← getPt (← e.getObjVal? "start"), stop := ← getPt (← e.getObjVal? "end") } : DElem)
  let n ← getNat j "n"
  let ga := (← getPts j "ord_all").map roundPt
  let gu := (← getPts j "ord_uniq").map roundPt
  let ord := ordFrom ga gu
  let rec go (k : Nat) (d : List DElem) (acc : List Json) : List Json :=
    let c := jsonExcept jsonCircuit (do circuitTranslator π ord (← instantiate π d))
    match k with
    | 0 => (c :: acc).reverse
    | k + 1 =>
      match saveLoad π ord d with
      | .ok d' => go k d' (c :: acc)
      | .error e => ((Json.mkObj [("err", e.tag)]) :: c :: acc).reverse
  pure (Json.arr (go n drawing []).toArray)

/-- op `draw_declarative`: the declarative element list ↦ constructor calls and placement requests -/
def h_drawDeclarative : Handler := fun j => do
  let elems ← (← getArr j "elements").toList.mapM getValMap
  let unit ← getRatK j "unit"
  let π ← getPi j
  pure (jsonExcept (fun (l : List Placement) => Json.arr (l.map fun p => Json.mkObj [
      ("cls", p.cls), ("kwargs", jsonValMap p.kwargs), ("method", p.method), ("length", jsonRat p.length), ("plain", Json.bool p.plain),
      ("at_end_of", match p.after with | some i => Json.num (i : Int) | none => Json.null)]).toArray)
    (declarative π unit elems))

def handlers : List (String × Handler) :=
  [("draw_parse", h_drawParse), ("draw_get_element", h_drawGetElement), ("draw_round", h_drawRound), ("draw_construct", h_drawConstruct),
   ("draw_load", h_drawLoad), ("draw_cycles", h_drawCycles), ("draw_declarative", h_drawDeclarative)]

end CC.DrawDriver

namespace CC
def handlersDraw : List (String × Handler) := DrawDriver.handlers
end CC
