/- Driver handlers, group Trans: Network/transformers.py (C16, C04, C03). -/
import CC.Driver.Json
import CC.Driver.LinAlg
import CC.Model.Transform
namespace CC
open Lean

def getKey (j : Json) : Except String (ElemKey GQ) := do
  pure ⟨← getStr j "id", (getStr j "ty").toOption.getD "", ← getElem (← j.getObjVal? "e")⟩

def getKeep (j : Json) : Except String (List (ElemKey GQ)) :=
  match j.getObjVal? "keep" with
  | .ok (.arr a) => a.toList.mapM getKey
  | _ => pure []

/-- op `transformer`: {"fn": name, "net": …, "keep": […], "arg": string} ↦ network or error -/
def h_transformer : Handler := fun j => do
  let N ← getNet (← j.getObjVal? "net")
  let fn ← getStr j "fn"
  let keep ← getKeep j
  let arg := (getStr j "arg").toOption.getD ""
  let r ← match fn with
    | "switch_ground_node" => pure (switchGround N arg)
    | "remove_element" => pure (removeElement N arg)
    | "remove_open_circuit_elements" => pure (removeOpen N)
    | "remove_short_circuit_elements" => pure (removeShort N keep)
    | "short_circuitify_voltage_sources" => pure (shortCircuitifyVS N keep)
    | "open_circuitify_current_sources" => pure (openCircuitifyCS N keep)
    | "remove_ideal_current_sources" => pure (removeIdealCS N keep)
    | "remove_ideal_voltage_sources" => pure (removeIdealVS N keep)
    | "passive_network" => pure (passiveNetwork N keep)
    | _ => throw s!"unknown transformer {fn}"
  pure (jsonExcept jsonNet r)

def handlersTrans : List (String × Handler) := [("transformer", h_transformer)]

end CC
