/- Driver handlers, group Trans (stub; filled in by the group's model). -/
import CC.Driver.Json
import CC.Driver.LinAlg
namespace CC
open Lean

def handlersTrans : List (String × Handler) := []

end CC
