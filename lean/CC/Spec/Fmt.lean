/-
  CC.Spec.Fmt — what C18 (and the text part of C14) demands, independent of how the code
  computes: a reader of the displayed text (`parseBack`) and the predicates the parsed
  number must satisfy with respect to the exact value.

  The reader knows the unit it expects and the SI meaning of prefix letters (`siExp`); it
  does not know the code's tables.  Mathlib-free and executable (used by the driver as the
  oracle on the implementation's strings).
-/
import CC.Model.FmtBase
namespace CC.Fmt

/-- a displayed finite number: sign, mantissa digits, explicit decimal exponent, SI prefix -/
structure Parsed where
  neg : Bool
  intPart : Nat
  fracNum : Nat
  fracLen : Nat
  expE : Int
  pfxKey : Int
deriving Repr, DecidableEq

/-- a displayed real quantity -/
inductive Text
  | inf (neg : Bool)
  | num (p : Parsed)
deriving Repr, DecidableEq

namespace Parsed
/-- the printed mantissa (unsigned) -/
def mant (p : Parsed) : Rat := (p.intPart : Rat) + (p.fracNum : Rat) / ((10 ^ p.fracLen : Nat) : Rat)
/-- the power of ten the text denotes (explicit exponent plus prefix) -/
def exp (p : Parsed) : Int := p.expE + p.pfxKey
/-- the number the text denotes -/
def value (p : Parsed) : Rat := (if p.neg then -1 else 1) * p.mant * pow10 p.exp
/-- number of significant digits shown -/
def sigDigits (p : Parsed) : Nat := (if p.intPart = 0 then 0 else numDigits p.intPart) + p.fracLen
end Parsed

/-- SI meaning of a prefix letter -/
def siExp (c : Char) : Option Int :=
  if c = 'p' then some (-12) else if c = 'n' then some (-9) else if c = 'u' then some (-6)
  else if c = 'μ' then some (-6) else if c = 'm' then some (-3) else if c = 'k' then some 3
  else if c = 'M' then some 6 else if c = 'G' then some 9 else if c = 'T' then some 12 else none

def isDigit (c : Char) : Bool := decide ('0' ≤ c) && decide (c ≤ '9')
def digitVal (c : Char) : Nat := c.toNat - 48

/-- longest prefix of decimal digits: (value, number of digits, rest) -/
def takeNat : List Char → Nat → Nat → Nat × Nat × List Char
  | [], acc, n => (acc, n, [])
  | c :: cs, acc, n =>
    if isDigit c then takeNat cs (acc * 10 + digitVal c) (n + 1) else (acc, n, c :: cs)

/-- `digits[.digits]`: (integer part, fraction digits as a number, number of fraction digits, rest) -/
def parseUnsigned (s : List Char) : Option (Nat × Nat × Nat × List Char) :=
  match takeNat s 0 0 with
  | (ip, n, s2) =>
    if n = 0 then none else
    match s2 with
    | '.' :: t =>
      match takeNat t 0 0 with
      | (fr, m, s3) => if m = 0 then none else some (ip, fr, m, s3)
    | _ => some (ip, 0, 0, s2)

/-- `[-]digits[.digits]` -/
def parseMant (s : List Char) : Option (Bool × Nat × Nat × Nat × List Char) :=
  match s with
  | '-' :: t => (parseUnsigned t).map fun r => (true, r.1, r.2.1, r.2.2.1, r.2.2.2)
  | _ => (parseUnsigned s).map fun r => (false, r.1, r.2.1, r.2.2.1, r.2.2.2)

/-- optional `e[-]digits` -/
def parseExp (s : List Char) : Int × List Char :=
  match s with
  | 'e' :: '-' :: t =>
    let (v, n, r) := takeNat t 0 0
    if n = 0 then (0, s) else (-(v : Int), r)
  | 'e' :: t =>
    let (v, n, r) := takeNat t 0 0
    if n = 0 then (0, s) else ((v : Int), r)
  | _ => (0, s)

/-- optional SI prefix followed by exactly the expected unit -/
def parseTail (unit : List Char) (s : List Char) : Option Int :=
  if s = unit then some 0 else
  match s with
  | c :: t => if t = unit then siExp c else none
  | [] => none

/-- the reader of a displayed real quantity with expected unit `unit` -/
def parseBack (unit : List Char) (s : List Char) : Option Text :=
  if s = ['∞'] then some (.inf false)
  else if s = ['-', '∞'] then some (.inf true)
  else
    match parseMant s with
    | none => none
    | some (neg, ip, fr, m, s1) =>
      let (e, s2) := parseExp s1
      match parseTail unit s2 with
      | none => none
      | some k => some (.num { neg := neg, intPart := ip, fracNum := fr, fracLen := m, expE := e, pfxKey := k })

/-! ### what the parsed text must satisfy -/

/-- half a unit of the `p`-th significant digit of `v ≠ 0` -/
def halfUnit (v : Rat) (p : Nat) : Rat := pow10 (decade (qabs v) - (p : Int) + 1) / 2

/-- `x` is within half a unit of the `p`-th significant digit of `v` -/
def Accurate (v : Rat) (p : Nat) (x : Rat) : Prop := qabs (x - v) ≤ halfUnit v p
instance : Decidable (Accurate v p x) := by unfold Accurate; infer_instance

/-- engineering form: exponent a multiple of three, mantissa between 1 and 1000 -/
def Eng (t : Parsed) : Prop := t.exp % 3 = 0 ∧ 1 ≤ t.mant ∧ t.mant ≤ 1000
instance : Decidable (Eng t) := by unfold Eng; infer_instance

/-- `v` lies beyond the representable range: the largest prefix / exponent `maxExp` carries mantissas
below 1000, so the range ends at `1000·10^maxExp` — whatever the number of digits shown -/
def Beyond (v : Rat) (maxExp : Int) : Prop := pow10 (maxExp + 3) ≤ qabs v
instance : Decidable (Beyond v maxExp) := by unfold Beyond; infer_instance

/-- `v` rounded to `p` significant digits reaches the end of the range -/
def BeyondRounded (v : Rat) (p : Nat) (maxExp : Int) : Prop := pow10 (maxExp + 3) ≤ qabs v + halfUnit v p
instance : Decidable (BeyondRounded v p maxExp) := by unfold BeyondRounded; infer_instance

/-- accuracy with a relative allowance `tol` for float arithmetic inside the pipeline
(the property itself is `tol = 0`) -/
def AccurateTol (tol : Rat) (v : Rat) (p : Nat) (x : Rat) : Prop := qabs (x - v) ≤ halfUnit v p + tol * qabs v
instance : Decidable (AccurateTol tol v p x) := by unfold AccurateTol; infer_instance

/-- C18 for a real value `v ≠ 0`: the clauses that fail (empty list = the property holds) -/
def realFailures (v : Rat) (p : Nat) (maxExp : Int) (t : Option Text) (tol : Rat := 0) : List String :=
  match t with
  | none => ["unreadable"]
  | some (.inf neg) =>
    (if pow10 (maxExp + 3) ≤ qabs v + halfUnit v p + tol * qabs v then [] else ["saturated_inside_range"])
      ++ (if neg = decide (v < 0) then [] else ["sign"])
  | some (.num q) =>
    (if Beyond v maxExp then ["finite_beyond_range"] else [])
      ++ (if q.exp % 3 = 0 then [] else ["exponent_not_multiple_of_3"])
      ++ (if 1 ≤ q.mant ∧ q.mant ≤ 1000 then [] else ["mantissa_range"])
      ++ (if AccurateTol tol v p q.value then [] else ["accuracy"])
      ++ (if q.value = 0 ∨ (q.neg = decide (v < 0)) then [] else ["sign"])

/-- C18 for a real value: the property as a proposition -/
def RealOK (v : Rat) (p : Nat) (maxExp : Int) (unit s : List Char) : Prop :=
  realFailures v p maxExp (parseBack unit s) = []
instance : Decidable (RealOK v p maxExp unit s) := by unfold RealOK; infer_instance

/-! ### specified representable ranges of the `Display` helpers (SI prefixes offered) -/

/-- (smallest, largest) prefix exponent each display helper is specified to offer -/
def helperRange : String → Option (Int × Int)
  | "print_complex" | "print_abs" | "print_real" | "print_sinosoidal" => some (-6, 3)
  | "print_sinosoidal_hz" => some (-3, 12)
  | "print_active_power" | "print_active_reactive_power" => some (-12, 12)
  | "print_resistance" | "print_conductance" | "print_impedance" => some (-3, 9)
  | "print_capacitance" => some (-12, -3)
  | "print_inductance" => some (-9, -3)
  | _ => none

/-- a phasor `X` denotes `Re(X·e^{jωt}) = |X|·cos(ωt + arg X) = |X|·sin(ωt + arg X + π/2)`: the sine form of a
time-function text carries the phase plus **one** quarter turn -/
def specSineQuarterTurns : Int := 1

def defaultMinExp : Int := -16
def defaultMaxExp : Int := 16

/-! ### composite texts -/

def splitOn1 (c : Char) : List Char → Option (List Char × List Char)
  | [] => none
  | d :: ds => if d = c then some ([], ds) else (splitOn1 c ds).map fun (a, b) => (d :: a, b)

def dropTrailingSpaces (s : List Char) : List Char := (stripL s.reverse).reverse

/-- Cartesian complex text `[-]re ± j im`, `[-]re`, `[-]j im`: (real part, imaginary part);
an absent part is `none`; a part carries its sign in `Parsed.neg` -/
def parseCartesian (unit : List Char) (s : List Char) : Option (Option Text × Option Text) :=
  let setNeg (t : Text) (neg : Bool) : Text := match t with
    | .inf _ => .inf neg
    | .num q => .num { q with neg := neg }
  let parseSigned (s : List Char) : Option Text :=
    match s with
    | '-' :: ' ' :: t => (parseBack unit t).map (setNeg · true)
    | '-' :: t => (parseBack unit t).map (setNeg · true)
    | _ => parseBack unit s
  match splitOn1 'j' s with
  | none => (parseSigned s).map fun t => (some t, none)
  | some (l, r) =>
    match parseBack unit r with
    | none => none
    | some im =>
      let l' := dropTrailingSpaces l
      match l'.reverse with
      | [] => some (none, some im)
      | sg :: restRev =>
        let reTxt := dropTrailingSpaces restRev.reverse
        if sg = '+' ∨ sg = '-' then
          let im' := setNeg im (decide (sg = '-'))
          if reTxt = [] then some (none, some im')
          else (parseSigned reTxt).map fun re => (some re, some im')
        else none

/-- fixed-notation number `[-]digits.digits` as a rational -/
def parseFixed (s : List Char) : Option Rat :=
  match parseMant s with
  | some (neg, ip, fr, m, []) =>
    some ((if neg then -1 else 1) * ((ip : Rat) + (fr : Rat) / ((10 ^ m : Nat) : Rat)))
  | _ => none

/-- polar text `abs[∠angle[°]]`: (magnitude, angle if shown, degree sign shown) -/
def parsePolar (unit : List Char) (s : List Char) : Option (Text × Option Rat × Bool) :=
  match splitOn1 '∠' s with
  | none => (parseBack unit s).map fun t => (t, none, false)
  | some (l, r) =>
    match parseBack unit l with
    | none => none
    | some t =>
      let (r', d) := match r.reverse with
        | '°' :: rr => (rr.reverse, true)
        | _ => (r, false)
      (parseFixed r').map fun a => (t, some a, d)

end CC.Fmt
