/-
  CC.Spec.Circuit — the circuit equations, written in the vocabulary of property C01 and
  without reference to how the code computes (no matrices, no index maps).

  A *report* gives a potential for every node label and a voltage and current for every
  branch id.  `CircuitEqs N R` says the report solves the circuit:
    (E1) the reference node is at potential 0;
    (E2) every branch voltage is the difference of its terminal potentials, first − second;
    (E3) every branch obeys its own voltage–current relation, in the library's reference
         direction: first→second terminal for passive elements and ideal sources,
         generator direction for linear (lossy) sources;
    (E4) Kirchhoff's current law at every node label, the reference node included.
  The residual functions are executable; the driver evaluates them exactly on the values
  the *implementation* reports (failing-input search).
-/
import CC.Model.Net
namespace CC

section
variable {L K : Type} [DecidableEq L]
variable [Zero K] [One K] [Add K] [Mul K] [Neg K] [Sub K] [Inv K] [Div K] [DecidableEq K]

/-- what the solver reports -/
structure Report (L K : Type) where
  pot : L → K
  v : String → K
  i : String → K

/-- the six electrical kinds of a branch record -/
inductive Kind where
  | idealVS | impedance | lossyVS | idealCS | admittance | lossyCS
deriving DecidableEq, Repr

def Elem.kind : Elem K → Kind
  | .norton Z V => if Z = 0 then .idealVS else if V = 0 then .impedance else .lossyVS
  | .thevenin Y I => if Y = 0 then .idealCS else if I = 0 then .admittance else .lossyCS

/-- is the reported current in generator direction (opposite to first→second)? -/
def Elem.isLossy (e : Elem K) : Bool :=
  match e.kind with
  | .lossyVS | .lossyCS => true
  | _ => false

/-- (E3) residual of the element law for reported voltage `v` and reported current `i` -/
def Elem.lawResidual (e : Elem K) (v i : K) : K :=
  match e with
  | .norton Z V =>
    if Z = 0 then v - V                 -- ideal voltage source (short circuit for V = 0)
    else if V = 0 then v - Z * i        -- impedance
    else v + V + Z * i                  -- lossy voltage source, generator direction
  | .thevenin Y I =>
    if Y = 0 then i - I                 -- ideal current source (open circuit for I = 0)
    else if I = 0 then i - Y * v        -- admittance
    else i + I + Y * v                  -- lossy current source, generator direction

/-- physical current through the branch from its first to its second terminal -/
def Elem.physCurrent (e : Elem K) (i : K) : K := if e.isLossy then -i else i

/-- incidence of branch `b` at node `n` (+1 leaves through the first terminal) -/
def incidence (b : Branch L K) (n : L) : K :=
  (if b.n1 = n then (1 : K) else 0) - (if b.n2 = n then (1 : K) else 0)

/-- (E4) residual of Kirchhoff's current law at node `n` -/
def kclResidual (N : Net L K) (R : Report L K) (n : L) : K :=
  (N.branches.map fun b => incidence b n * b.e.physCurrent (R.i b.id)).sum

/-- (E2) residual -/
def voltResidual (R : Report L K) (b : Branch L K) : K := R.v b.id - (R.pot b.n1 - R.pot b.n2)

/-- every label that occurs in the network, plus the reference label -/
def Net.allLabels (N : Net L K) : List L :=
  N.zero :: (N.branches.map (·.n1) ++ N.branches.map (·.n2))

/-- the circuit equations -/
structure CircuitEqs (N : Net L K) (R : Report L K) : Prop where
  ref_zero : R.pot N.zero = 0
  volt : ∀ b ∈ N.branches, voltResidual R b = 0
  law : ∀ b ∈ N.branches, b.e.lawResidual (R.v b.id) (R.i b.id) = 0
  kcl : ∀ n ∈ N.allLabels, kclResidual N R n = 0

/-- the same network with every independent source set to zero -/
def Elem.zeroSources : Elem K → Elem K
  | .norton Z _ => .norton Z 0
  | .thevenin Y _ => .thevenin Y 0

def Net.zeroSources (N : Net L K) : Net L K :=
  { N with branches := N.branches.map fun b => { b with e := b.e.zeroSources } }

/-- two reports agree on everything the network can be asked about -/
def Report.AgreeOn (N : Net L K) (R S : Report L K) : Prop :=
  (∀ n ∈ N.allLabels, R.pot n = S.pot n) ∧
  (∀ b ∈ N.branches, R.v b.id = S.v b.id ∧ R.i b.id = S.i b.id)

def Report.zeroRep : Report L K := ⟨fun _ => 0, fun _ => 0, fun _ => 0⟩

/-- well-posed: the source-free circuit has only the zero solution -/
def WellPosed (N : Net L K) : Prop :=
  ∀ R : Report L K, CircuitEqs N.zeroSources R → R.AgreeOn N Report.zeroRep

end
end CC
