/-
  CC.Spec.DrawSymbols — what each drawing symbol of C13 denotes, written from the property text
  ("a source's polarity runs from its start to its end terminal unless it is marked reversed"),
  the schemdraw convention (a two-terminal element is placed from its `start` to its `end`
  anchor) and the netlist vocabulary of the library (`Circuit.components`: kind strings and value
  keys) — NOT from the per-symbol translators.  Mathlib-free; only the value type `Val` / `GQ`
  is shared with the model (CC/Model/DrawTypes.lean).

  * `Symbol` — a symbol as the user writes it: the symbol kind with its user parameters;
    `Symbol.cls` / `Symbol.params` say under which class name and keyword names it is written
    (`name=` and `reverse=` are common to all and added by `Symbol.kwargs`).
  * `denotes π sy` — the netlist component the symbol stands for: component kind, the terminal
    order (`Term.start` / `Term.stop`, as a function of the `reverse` flag) and the value map, as
    functions of the USER parameters; `none` for symbols that depict no component (wire, node
    label, annotation).
  * `Admissible sy` — the parameter values a symbol may carry (passive values real and
    non-negative, …); outside of it the library rejects the drawing.
  * `expected` — the component record for given terminal names.
-/
import CC.Model.DrawTypes
namespace CC.Draw.SymSpec

/-- the two terminals of a placed symbol -/
inductive Term where
  | start
  | stop
deriving DecidableEq, Repr

/-- a two-terminal symbol is listed from its start to its end terminal, the other way round
when it is marked reversed -/
def twoTerminal (reverse : Bool) : List Term := if reverse then [.stop, .start] else [.start, .stop]

/-- a one-terminal symbol (ground) sits on its start anchor -/
def oneTerminal (_reverse : Bool) : List Term := [.start]

/-- periodic wave forms -/
inductive Wave where
  | rect
  | tri
  | saw
deriving DecidableEq, Repr

def Wave.name : Wave → String
  | .rect => "rect"
  | .tri => "tri"
  | .saw => "saw"

/-- the phase of an AC / periodic source in the netlist: radians, cosine reference.
`deg`: the user wrote degrees (`phi·π/180`); `sin`: the user wrote the phase of a sine
(`sin x = cos (x − π/2)`). -/
def radians (π : Rat) (phi : GQ) (sin deg : Bool) : GQ :=
  let φ := if deg then phi * ⟨π, 0⟩ / 180 else phi
  if sin then φ - ⟨π / 2, 0⟩ else φ

/-- the resistance the library uses for a closed switch: the binary64 number `1e-12`
(`4951760157141521 · 2⁻⁹²`) -/
def closedSwitchOhms : Rat := 4951760157141521 / 2 ^ 92

/-- the real part as a (real) netlist value -/
def realPart (z : GQ) : Val := .num ⟨z.re, 0⟩
def imagPart (z : GQ) : Val := .num ⟨z.im, 0⟩

/-- symbols with their user parameters -/
inductive Symbol where
  | resistor (R : GQ)
  | conductance (G : GQ)
  | impedance (Z : GQ)
  | admittance (Y : GQ)
  | capacitor (C : GQ)
  | inductance (L : GQ)
  /-- lamp / resistive load with rated voltage and power -/
  | lamp (V_ref P_ref : GQ)
  | switch (closed : Bool)
  /-- labelled wire: an ideal short that is listed as a component -/
  | short
  | dcVoltage (V : GQ)
  | dcCurrent (I : GQ)
  | complexVoltage (V : GQ)
  | complexCurrent (I : GQ)
  | acVoltage (V w phi : GQ) (sin deg : Bool)
  | acCurrent (I w phi : GQ) (sin deg : Bool)
  | periodicVoltage (wave : Wave) (V w phi : GQ) (sin deg : Bool)
  | periodicCurrent (wave : Wave) (I w phi : GQ) (sin deg : Bool)
  /-- lossy DC sources: ideal source with series resistance `R` / parallel resistance `R` -/
  | realVoltage (V R : GQ)
  | realCurrent (I R : GQ)
  | ground
  /-- node symbols (`labelled := true`: the variant that prints its name) -/
  | node (labelled : Bool)
  | line
  /-- the blank base element -/
  | blank

/-- class name under which the symbol is written -/
def Symbol.cls : Symbol → String
  | .resistor _ => "Resistor"
  | .conductance _ => "Conductance"
  | .impedance _ => "Impedance"
  | .admittance _ => "Admittance"
  | .capacitor _ => "Capacitor"
  | .inductance _ => "Inductance"
  | .lamp _ _ => "Lamp"
  | .switch _ => "Switch"
  | .short => "LabeledLine"
  | .dcVoltage _ => "VoltageSource"
  | .dcCurrent _ => "CurrentSource"
  | .complexVoltage _ => "ComplexVoltageSource"
  | .complexCurrent _ => "ComplexCurrentSource"
  | .acVoltage _ _ _ _ _ => "ACVoltageSource"
  | .acCurrent _ _ _ _ _ => "ACCurrentSource"
  | .periodicVoltage .rect _ _ _ _ _ => "RectVoltageSource"
  | .periodicVoltage .tri _ _ _ _ _ => "TriangleVoltageSource"
  | .periodicVoltage .saw _ _ _ _ _ => "SawtoothVoltageSource"
  | .periodicCurrent .rect _ _ _ _ _ => "RectCurrentSource"
  | .periodicCurrent .tri _ _ _ _ _ => "TriangleCurrentSource"
  | .periodicCurrent .saw _ _ _ _ _ => "SawtoothCurrentSource"
  | .realVoltage _ _ => "RealVoltageSource"
  | .realCurrent _ _ => "RealCurrentSource"
  | .ground => "Ground"
  | .node false => "Node"
  | .node true => "LabelNode"
  | .line => "Line"
  | .blank => "Element"

/-- keyword arguments that carry the user parameters -/
def Symbol.params : Symbol → List (String × Val)
  | .resistor R => [("R", .num R)]
  | .conductance G => [("G", .num G)]
  | .impedance Z => [("Z", .num Z)]
  | .admittance Y => [("Y", .num Y)]
  | .capacitor C => [("C", .num C)]
  | .inductance L => [("L", .num L)]
  | .lamp V_ref P_ref => [("V_ref", .num V_ref), ("P_ref", .num P_ref)]
  | .switch closed => [("state", .str (if closed then "CLOSED" else "OPEN"))]
  | .short => []
  | .dcVoltage V => [("V", .num V)]
  | .dcCurrent I => [("I", .num I)]
  | .complexVoltage V => [("V", .num V)]
  | .complexCurrent I => [("I", .num I)]
  | .acVoltage V w phi sin deg => [("V", .num V), ("w", .num w), ("phi", .num phi), ("sin", .bool sin), ("deg", .bool deg)]
  | .acCurrent I w phi sin deg => [("I", .num I), ("w", .num w), ("phi", .num phi), ("sin", .bool sin), ("deg", .bool deg)]
  | .periodicVoltage _ V w phi sin deg => [("V", .num V), ("w", .num w), ("phi", .num phi), ("sin", .bool sin), ("deg", .bool deg)]
  | .periodicCurrent _ I w phi sin deg => [("I", .num I), ("w", .num w), ("phi", .num phi), ("sin", .bool sin), ("deg", .bool deg)]
  | .realVoltage V R => [("V", .num V), ("R", .num R)]
  | .realCurrent I R => [("I", .num I), ("R", .num R)]
  | .ground => []
  | .node _ => []
  | .line => []
  | .blank => []

/-- the constructor call `Class(<params>, name=…, reverse=…)` -/
def Symbol.kwargs (sy : Symbol) (name : String) (reverse : Bool) : List (String × Val) :=
  sy.params ++ [("name", .str name), ("reverse", .bool reverse)]

/-- what a symbol stands for in the netlist -/
structure Denoted where
  kind : String
  terminals : Bool → List Term
  value : List (String × Val)

/-- **the denotation.**  Passive two-terminal symbols: the component of the same kind with the
user's value.  Sources: the user's amplitude, from the first to the second listed terminal
(start → end, swapped when reversed — the amplitude is NOT negated: reversing a source reverses
its polarity); DC sources are real; no internal resistance / conductance unless the symbol has
one; phase in radians and cosine reference. -/
def denotes (π : Rat) : Symbol → Option Denoted
  | .resistor R => some ⟨"resistor", twoTerminal, [("R", .num R)]⟩
  | .conductance G => some ⟨"conductance", twoTerminal, [("G", .num G)]⟩
  | .impedance Z => some ⟨"impedance", twoTerminal, [("R", realPart Z), ("X", imagPart Z)]⟩
  | .admittance Y => some ⟨"admittance", twoTerminal, [("G", realPart Y), ("B", imagPart Y)]⟩
  | .capacitor C => some ⟨"capacitor", twoTerminal, [("C", .num C)]⟩
  | .inductance L => some ⟨"inductance", twoTerminal, [("L", .num L)]⟩
  | .lamp V_ref P_ref => some ⟨"lamp", twoTerminal, [("P", .num P_ref), ("V_ref", .num V_ref)]⟩
  | .switch true => some ⟨"resistor", twoTerminal, [("R", .num ⟨closedSwitchOhms, 0⟩)]⟩
  | .switch false => some ⟨"resistor", twoTerminal, [("R", .inf)]⟩
  | .short => some ⟨"short_circuit", twoTerminal, []⟩
  | .dcVoltage V => some ⟨"dc_voltage_source", twoTerminal,
      [("V", realPart V), ("R", .num 0), ("w", .num 0), ("phi", .num 0)]⟩
  | .dcCurrent I => some ⟨"dc_current_source", twoTerminal,
      [("I", realPart I), ("G", .num 0), ("w", .num 0), ("phi", .num 0)]⟩
  | .complexVoltage V => some ⟨"complex_voltage_source", twoTerminal,
      [("V_real", realPart V), ("V_imag", imagPart V), ("R", .num 0), ("X", .num 0)]⟩
  | .complexCurrent I => some ⟨"complex_current_source", twoTerminal,
      [("I_real", realPart I), ("I_imag", imagPart I), ("G", .num 0), ("B", .num 0)]⟩
  | .acVoltage V w phi sin deg => some ⟨"ac_voltage_source", twoTerminal,
      [("V", .num V), ("R", .num 0), ("w", .num w), ("phi", .num (radians π phi sin deg))]⟩
  | .acCurrent I w phi sin deg => some ⟨"ac_current_source", twoTerminal,
      [("I", .num I), ("G", .num 0), ("w", .num w), ("phi", .num (radians π phi sin deg))]⟩
  | .periodicVoltage wave V w phi sin deg => some ⟨"periodic_voltage_source", twoTerminal,
      [("wavetype", .str wave.name), ("V", .num V), ("w", .num w), ("phi", .num (radians π phi sin deg)), ("R", .num 0)]⟩
  | .periodicCurrent wave I w phi sin deg => some ⟨"periodic_current_source", twoTerminal,
      [("wavetype", .str wave.name), ("I", .num I), ("w", .num w), ("phi", .num (radians π phi sin deg)), ("G", .num 0)]⟩
  | .realVoltage V R => some ⟨"dc_voltage_source", twoTerminal,
      [("V", realPart V), ("R", .num R), ("w", .num 0), ("phi", .num 0)]⟩
  | .realCurrent I R => some ⟨"dc_current_source", twoTerminal,
      [("I", realPart I), ("G", .num (1 / R)), ("w", .num 0), ("phi", .num 0)]⟩
  | .ground => some ⟨"ground", oneTerminal, []⟩
  | .node _ => none
  | .line => none
  | .blank => none

/-- real and non-negative / positive -/
def NonNeg (z : GQ) : Prop := z.im = 0 ∧ 0 ≤ z.re
def Pos (z : GQ) : Prop := z.im = 0 ∧ 0 < z.re

/-- parameter values a symbol may carry -/
def Admissible : Symbol → Prop
  | .resistor R => NonNeg R
  | .conductance G => NonNeg G
  | .capacitor C => NonNeg C
  | .inductance L => NonNeg L
  | .lamp V_ref P_ref => Pos V_ref ∧ NonNeg P_ref
  | .acVoltage _ w _ _ _ => NonNeg w
  | .acCurrent _ w _ _ _ => NonNeg w
  | .periodicVoltage _ _ w _ _ _ => Pos w
  | .periodicCurrent _ _ w _ _ _ => Pos w
  | .realVoltage _ R => NonNeg R
  | .realCurrent _ R => Pos R
  | _ => True

/-- the component record: kind, id = the symbol's name, the terminal names in listing order, values -/
structure Comp where
  kind : String
  id : String
  nodes : List String
  value : List (String × Val)

def pick (atStart atStop : String) : Term → String
  | .start => atStart
  | .stop => atStop

def expected (π : Rat) (sy : Symbol) (name : String) (reverse : Bool) (atStart atStop : String) : Option Comp :=
  (denotes π sy).map fun d =>
    { kind := d.kind, id := name, nodes := (d.terminals reverse).map (pick atStart atStop), value := d.value }

end CC.Draw.SymSpec
