/-
  CC.Spec.Phasor — what properties C07 / C02 demand of the circuit → network conversion,
  written from the property text and *not* from the translators: the table "component at
  angular frequency w ↦ intended branch record".

    resistor R            ↦ impedance  Z = R        (R = ∞, an open switch: an open circuit)
    conductance G         ↦ admittance Y = G
    impedance R + jX      ↦ impedance  Z = R + jX
    admittance G + jB     ↦ admittance Y = G + jB
    inductance L          ↦ impedance  Z = j·w·L          (w = 0: a short circuit)
    capacitor C           ↦ admittance Y = j·w·C          (w = 0: an open circuit)
    lamp / resistive load ↦ admittance Y = P / V_ref²      (V_ref > 0)
    short circuit         ↦ ideal voltage source 0
    voltage source A∠φ at w_s, internal R
                          ↦ |w − w_s| ≤ w_res : source V = A·(cos φ + j sin φ) behind Z = R
                            otherwise          : short circuit
    current source A∠φ at w_s, internal G
                          ↦ |w − w_s| ≤ w_res : source I = A·(cos φ + j sin φ) beside Y = G
                            otherwise          : open circuit
    complex sources carry no frequency: they are active at every w
    periodic source (fundamental w0 > 0)
                          ↦ if an integer n has |w − n·w0| ≤ w_res : the n-th harmonic
                            amplitude(n)∠phase(n) with the source's internal R / G,
                            otherwise short / open

  Terminals: first node, second node, in the component's order; identifier: the component's.
  `cos`, `sin` and the harmonic coefficients are the same parameters as in the model.
-/
import CC.Num
import CC.Model.CircuitBase
namespace CC.Spec
open CC

abbrev Trig := Rat → Rat × Rat
abbrev Harm := String → Rat → Rat → Int → Rat × Rat

def num? (c : Component) (k : String) : Option Rat :=
  match c.value.lookup k with
  | some (.num q) => some q
  | _ => none

def str? (c : Component) (k : String) : Option String :=
  match c.value.lookup k with
  | some (.str s) => some s
  | _ => none

def isInf (c : Component) (k : String) : Bool := c.value.lookup k == some Val.inf

def dist (a b : Rat) : Rat := if a < b then b - a else a - b

/-- the phasor `A·(cos φ + j sin φ)` -/
def phasor (trig : Trig) (A phi : Rat) : GQ := ⟨A * (trig phi).1, A * (trig phi).2⟩

def shortE : Elem GQ := .norton 0 0
def openE : Elem GQ := .thevenin 0 0

/-- the harmonic of a periodic source that lies within the resolution of `w`, if any:
only the two integers next to `w / w0` can qualify -/
def harmonicIndex? (w w0 wres : Rat) : Option Int :=
  let k := (w / w0).floor
  if dist w (k * w0) ≤ wres then some k
  else if dist w ((k + 1) * w0) ≤ wres then some (k + 1)
  else none

/-- the intended element of component `c` at angular frequency `w` -/
def elemOf (trig : Trig) (harm : Harm) (c : Component) (w wres : Rat) : Option (Elem GQ) :=
  if c.kind = "resistor" then
    if isInf c "R" then some openE
    else do let R ← num? c "R"; some (.norton ⟨R, 0⟩ 0)
  else if c.kind = "conductance" then do
    let G ← num? c "G"; some (.thevenin ⟨G, 0⟩ 0)
  else if c.kind = "impedance" then do
    let R ← num? c "R"; let X ← num? c "X"; some (.norton ⟨R, X⟩ 0)
  else if c.kind = "admittance" then do
    let G ← num? c "G"; let B ← num? c "B"; some (.thevenin ⟨G, B⟩ 0)
  else if c.kind = "inductance" then do
    let L ← num? c "L"; some (.norton ⟨0, w * L⟩ 0)
  else if c.kind = "capacitor" then do
    let C ← num? c "C"; some (.thevenin ⟨0, w * C⟩ 0)
  else if c.kind = "lamp" ∨ c.kind = "resistive_load" then do
    let P ← num? c "P"; let V ← num? c "V_ref"
    if 0 < V then some (.thevenin ⟨P / (V * V), 0⟩ 0) else none
  else if c.kind = "short_circuit" then some shortE
  else if c.kind = "dc_voltage_source" then do
    let V ← num? c "V"; let R ← num? c "R"
    some (if dist w 0 ≤ wres then .norton ⟨R, 0⟩ ⟨V, 0⟩ else shortE)
  else if c.kind = "ac_voltage_source" then do
    let V ← num? c "V"; let R ← num? c "R"; let ws ← num? c "w"; let phi ← num? c "phi"
    some (if dist w ws ≤ wres then .norton ⟨R, 0⟩ (phasor trig V phi) else shortE)
  else if c.kind = "complex_voltage_source" then do
    let Vr ← num? c "V_real"; let Vi ← num? c "V_imag"; let R ← num? c "R"; let X ← num? c "X"
    some (.norton ⟨R, X⟩ ⟨Vr, Vi⟩)
  else if c.kind = "dc_current_source" then do
    let I ← num? c "I"; let G ← num? c "G"
    some (if dist w 0 ≤ wres then .thevenin ⟨G, 0⟩ ⟨I, 0⟩ else openE)
  else if c.kind = "ac_current_source" then do
    let I ← num? c "I"; let G ← num? c "G"; let ws ← num? c "w"; let phi ← num? c "phi"
    some (if dist w ws ≤ wres then .thevenin ⟨G, 0⟩ (phasor trig I phi) else openE)
  else if c.kind = "complex_current_source" then do
    let Ir ← num? c "I_real"; let Ii ← num? c "I_imag"; let G ← num? c "G"; let B ← num? c "B"
    some (.thevenin ⟨G, B⟩ ⟨Ir, Ii⟩)
  else if c.kind = "periodic_voltage_source" then do
    let wt ← str? c "wavetype"; let V ← num? c "V"; let w0 ← num? c "w"; let phi ← num? c "phi"
    let R ← num? c "R"
    if 0 < w0 then
      match harmonicIndex? w w0 wres with
      | some n => some (.norton ⟨R, 0⟩ (phasor trig (harm wt V phi n).1 (harm wt V phi n).2))
      | none => some shortE
    else none
  else if c.kind = "periodic_current_source" then do
    let wt ← str? c "wavetype"; let I ← num? c "I"; let w0 ← num? c "w"; let phi ← num? c "phi"
    let G ← num? c "G"
    if 0 < w0 then
      match harmonicIndex? w w0 wres with
      | some n => some (.thevenin ⟨G, 0⟩ (phasor trig (harm wt I phi n).1 (harm wt I phi n).2))
      | none => some openE
    else none
  else none

/-- the intended branch of a (two-terminal) component -/
def branchOf (trig : Trig) (harm : Harm) (c : Component) (w wres : Rat) : Option (Branch String GQ) :=
  match c.nodes, elemOf trig harm c w wres with
  | [a, b], some e => some { n1 := a, n2 := b, id := c.id, e := e }
  | _, _ => none

/-- what one-branch-per-component means: the non-ground components, in order -/
def nonGround (cs : List Component) : List Component := cs.filter (·.kind ≠ "ground")

/-- the reference node the property demands: the ground component's node, else the first
listed terminal -/
def groundOf (cs : List Component) : Option String :=
  match cs.filter (·.kind = "ground") with
  | g :: _ => g.nodes.head?
  | [] => cs.head?.bind (·.nodes.head?)

/-- the intended phasor network of a component list at `w` (`none`: some component is not a
well-formed two-terminal component of a kind the property names) -/
def phasorNet (trig : Trig) (harm : Harm) (cs : List Component) (w wres : Rat) : Option (Net String GQ) := do
  let bs ← (nonGround cs).mapM (branchOf trig harm · w wres)
  let z ← groundOf cs
  some { branches := bs, zero := z }

/-- same terminals, identifier and record (the `type` string of the element is not part of
the electrical meaning) -/
def sameBranch (a b : Branch String GQ) : Prop := a.n1 = b.n1 ∧ a.n2 = b.n2 ∧ a.id = b.id ∧ a.e = b.e

instance (a b : Branch String GQ) : Decidable (sameBranch a b) := by unfold sameBranch; infer_instance

/-- forget the `type` string -/
def erase (b : Branch String GQ) : Branch String GQ := { b with ty := "" }

end CC.Spec
