/-
  CC.Spec.Port — what property C06 demands, in its own vocabulary and without reference
  to how the code computes (no admittance matrix, no index maps, no pruning).

  The impedance seen between two nodes `a`, `b` of a network `N` is the voltage
  `φ(a) − φ(b)` that a unit test current produces when it is injected into `a` and drawn
  from `b`, with every independent source of `N` deactivated: ideal voltage sources become
  short circuits, current sources become open circuits, internal immittances are kept.
  In the record vocabulary of `CC.Spec.Circuit` that is `N.zeroSources` plus one ideal
  current source of value `J = 1` whose first terminal is `b` and whose second terminal is
  `a` (the library's ideal current source drives its current from the first to the second
  terminal through itself).
-/
import CC.Spec.Circuit
namespace CC

section
variable {L K : Type} [DecidableEq L]
variable [Zero K] [One K] [Add K] [Mul K] [Neg K] [Sub K] [Inv K] [Div K] [DecidableEq K]

/-- test source of value `J`, injecting into `a`, returning from `b` -/
def probeBranch (pid : String) (a b : L) (J : K) : Branch L K :=
  { n1 := b, n2 := a, id := pid, ty := "current_source", e := .thevenin 0 J }

/-- the source-free network with the test source attached -/
def probeNet (N : Net L K) (pid : String) (a b : L) (J : K) : Net L K :=
  { branches := N.zeroSources.branches ++ [probeBranch pid a b J], zero := N.zero }

/-- `z` is the driving-point impedance of `N` between `a` and `b`: the probe network has a
solution, and in every solution the port voltage is `z`.  (`pid` is the id of the test
source; it must not be an id of `N`.) -/
def PortZ (N : Net L K) (pid : String) (a b : L) (z : K) : Prop :=
  (∃ R : Report L K, CircuitEqs (probeNet N pid a b 1) R) ∧
  ∀ R : Report L K, CircuitEqs (probeNet N pid a b 1) R → R.pot a - R.pot b = z

/-- the network with an extra branch attached (a load, a short circuit, …) -/
def Net.attach (N : Net L K) (b : Branch L K) : Net L K :=
  { N with branches := N.branches ++ [b] }

end
end CC
