/-
  CC.Spec.Load — what property C17 demands, written without reference to how the loaders
  compute (it shares only the data types `J`, `Trig`, `LBranch`, `Comp` with the model).

  * a complex number is written in Cartesian notation `{"real": a, "imag": b}` or in polar
    notation `{"abs": r, "phase": φ}`; both denote one number;
  * the documented element kinds of a network description, the fields each kind carries and
    the branch each entry stands for;
  * the documented component kinds of a circuit description;
  * which documents a round trip must preserve (`Unambiguous`), and what a serialiser can carry (`Plain`).
-/
import CC.Model.Load
namespace CC.Spec.Load
open CC CC.Load

/-- a complex number as it is written in a description -/
inductive CxNote where
  | cart (re im : Rat)
  | polar (abs phase : Rat)
deriving Repr

/-- the document fragment -/
def CxNote.tree : CxNote → J
  | .cart a b => .obj [("real", .num a), ("imag", .num b)]
  | .polar r p => .obj [("abs", .num r), ("phase", .num p)]

/-- the number it denotes (`cos`, `sin` are the parameters of the model) -/
def CxNote.denote (T : Trig) : CxNote → GQ
  | .cart a b => ⟨a, b⟩
  | .polar r p => ⟨r * T.cos p, r * T.sin p⟩

/-- one entry of a network description, by documented kind, with the values it carries
(`J` for kinds that store the value as written, a complex notation for the complex kinds;
the internal immittance of the `real_*` sources is optional) -/
inductive NetEntry where
  | resistor (R : J)
  | conductor (G : J)
  | impedance (Z : CxNote)
  | admittance (Y : CxNote)
  | linearCurrentSource (I Y : CxNote)
  | currentSource (I : CxNote)
  | realCurrentSource (I : J) (Y : Option J)
  | linearVoltageSource (V Z : CxNote)
  | voltageSource (V : CxNote)
  | realVoltageSource (V : J) (Z : Option J)
  | shortCircuit
  | openCircuit

def NetEntry.kind : NetEntry → String
  | .resistor _ => "resistor"
  | .conductor _ => "conductor"
  | .impedance _ => "impedance"
  | .admittance _ => "admittance"
  | .linearCurrentSource _ _ => "linear_current_source"
  | .currentSource _ => "current_source"
  | .realCurrentSource _ _ => "real_current_source"
  | .linearVoltageSource _ _ => "linear_voltage_source"
  | .voltageSource _ => "voltage_source"
  | .realVoltageSource _ _ => "real_voltage_source"
  | .shortCircuit => "short_circuit"
  | .openCircuit => "open_circuit"

/-- the documented kinds -/
def documentedKinds : List String :=
  ["resistor", "conductor", "impedance", "admittance", "linear_current_source", "current_source",
   "real_current_source", "linear_voltage_source", "voltage_source", "real_voltage_source",
   "short_circuit", "open_circuit"]

def optField (k : String) : Option J → Obj
  | some v => [(k, v)]
  | none => []

/-- the value fields as written -/
def NetEntry.fields : NetEntry → Obj
  | .resistor R => [("R", R)]
  | .conductor G => [("G", G)]
  | .impedance Z => [("Z", Z.tree)]
  | .admittance Y => [("Y", Y.tree)]
  | .linearCurrentSource I Y => [("I", I.tree), ("Y", Y.tree)]
  | .currentSource I => [("I", I.tree)]
  | .realCurrentSource I Y => ("I", I) :: optField "Y" Y
  | .linearVoltageSource V Z => [("V", V.tree), ("Z", Z.tree)]
  | .voltageSource V => [("V", V.tree)]
  | .realVoltageSource V Z => ("V", V) :: optField "Z" Z
  | .shortCircuit => []
  | .openCircuit => []

/-- the entry as a document (keys in the order the shipped examples use) -/
def NetEntry.tree (e : NetEntry) (id n1 n2 : String) : J :=
  .obj ([("type", .str e.kind), ("id", .str id), ("N1", .str n1), ("N2", .str n2)] ++ e.fields)

/-- the branch the entry stands for: identifier, terminals in order, record and value -/
def NetEntry.intended (T : Trig) (e : NetEntry) (id n1 n2 : String) : LBranch :=
  let mk (ty : String) (norton : Bool) (a b : J) : LBranch :=
    { n1 := .str n1, n2 := .str n2, name := .str id, ty := ty, norton := norton, a := a, b := b }
  match e with
  | .resistor R => mk "resistor" true R (.num 0)
  | .conductor G => mk "conductor" false G (.num 0)
  | .impedance Z => mk "impedance" true (.cx (Z.denote T)) (.num 0)
  | .admittance Y => mk "admittance" false (.cx (Y.denote T)) (.num 0)
  | .linearCurrentSource I Y => mk "current_source" false (.cx (Y.denote T)) (.cx (I.denote T))
  | .currentSource I => mk "current_source" false (.num 0) (.cx (I.denote T))
  | .realCurrentSource I Y => mk "current_source" false (Y.getD (.num 0)) I
  | .linearVoltageSource V Z => mk "voltage_source" true (.cx (Z.denote T)) (.cx (V.denote T))
  | .voltageSource V => mk "voltage_source" true (.num 0) (.cx (V.denote T))
  | .realVoltageSource V Z => mk "voltage_source" true (Z.getD (.num 0)) V
  | .shortCircuit => mk "short_circuit" true (.num 0) (.num 0)
  | .openCircuit => mk "open_circuit" false (.num 0) (.num 0)

/-- an entry with its identifier and terminals -/
structure Placed where
  e : NetEntry
  id : String
  n1 : String
  n2 : String

def Placed.tree (p : Placed) : J := p.e.tree p.id p.n1 p.n2
def Placed.intended (T : Trig) (p : Placed) : LBranch := p.e.intended T p.id p.n1 p.n2

/-- a description the library must accept: the reference node `'0'` occurs (or the
description is empty) and identifiers are distinct -/
def ValidDescription (ps : List Placed) : Prop :=
  (ps = [] ∨ ∃ p ∈ ps, p.n1 = "0" ∨ p.n2 = "0") ∧
  (dedupL (ps.map fun p => J.str p.id)).length = ps.length

/-- the documented component kinds of a circuit description -/
def documentedComponentKinds : List String :=
  ["resistor", "conductance", "impedance", "admittance", "dc_voltage_source", "ac_voltage_source",
   "complex_voltage_source", "dc_current_source", "ac_current_source", "complex_current_source"]

/-! ### documents and round trips -/

/-- does a dictionary look like one of the complex notations? -/
def cxLike (o : Obj) : Bool :=
  Obj.keysAre o "real" "imag" || Obj.keysAre o "abs" "phase" || Obj.keysAre o "abs" "phase_deg"

mutual
/-- no complex leaf: what `json`/`yaml` can carry -/
def Plain : J → Bool
  | .cx _ => false
  | .arr l => PlainL l
  | .obj o => PlainO o
  | _ => true
def PlainL : List J → Bool
  | [] => true
  | a :: r => Plain a && PlainL r
def PlainO : List (String × J) → Bool
  | [] => true
  | (_, v) :: r => Plain v && PlainO r
end

mutual
/-- no dictionary anywhere in the tree — root, dictionary values, list elements — looks like a
complex notation (such a document is ambiguous by design: the loader would read that
dictionary as a number) -/
def Unambiguous : J → Bool
  | .obj o => !cxLike o && UnambiguousO o
  | .arr l => UnambiguousL l
  | _ => true
def UnambiguousO : List (String × J) → Bool
  | [] => true
  | (_, v) :: r => Unambiguous v && UnambiguousO r
def UnambiguousL : List J → Bool
  | [] => true
  | a :: r => Unambiguous a && UnambiguousL r
end

end CC.Spec.Load
