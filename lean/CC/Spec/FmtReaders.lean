/-
  CC.Spec.FmtReaders — readers of the composite texts (C18, C14): what a human reads off
  a displayed time function and a displayed `P`/`Q` pair.  A reader is the *inverse notation*:
  it knows how such a text is written (amplitude `·` `cos`/`sin` `(` [`2π·`] frequency `·t`
  [`±` phase [`°`]] `)`; `P: ` arrow number `W` [newline `Q: ` arrow number `var`]), the unit
  it expects, and the SI prefix letters — nothing about how the code produces the text.  Every
  number inside a composite text is read by the real-path reader `parseBack` of `CC.Spec.Fmt`.

  The reader of the Cartesian complex text `[-]a ± j b` is `parseCartesian` of `CC.Spec.Fmt`
  (the one the driver runs as the oracle); `Text.withNeg` names the sign convention it uses:
  a part whose sign stands apart from its digits carries that sign in `neg`.

  Mathlib-free and executable.
-/
import CC.Spec.Fmt
namespace CC.Fmt

/-- the displayed quantity with the sign read off a separate sign character -/
def Text.withNeg (t : Text) (neg : Bool) : Text :=
  match t with
  | .inf _ => .inf neg
  | .num q => .num { q with neg := neg }

/-- the sign a displayed quantity carries -/
def Text.isNeg : Text → Bool
  | .inf n => n
  | .num q => q.neg

/-- the number a finite displayed quantity denotes -/
def Text.value? : Text → Option Rat
  | .inf _ => none
  | .num q => some q.value

/-- `s` without its last character, which must be `c` -/
def stripLast (c : Char) (s : List Char) : Option (List Char) :=
  match s.reverse with
  | d :: r => if d = c then some r.reverse else none
  | [] => none

/-- `s` without the leading literal `p` -/
def stripPrefix : List Char → List Char → Option (List Char)
  | [], s => some s
  | _ :: _, [] => none
  | a :: p, b :: s => if a = b then stripPrefix p s else none

/-! ### time function -/

/-- what a time-function text `A·cos(f·t±φ)` shows -/
structure Wave where
  /-- the amplitude, in the unit of the quantity -/
  amplitude : Text
  /-- `sin` (else `cos`) -/
  sine : Bool
  /-- the frequency is written `2π·f` with `f` in `Hz` (else an angular frequency in `/s`) -/
  hertz : Bool
  freq : Text
  /-- the phase with its sign (`neg` from the `+`/`-` character); `none`: no phase shown -/
  phase : Option Text
  /-- the phase carries a degree sign -/
  deg : Bool
deriving Repr, DecidableEq

/-- a time-function text is a constant (a plain real quantity) or a wave -/
inductive TimeText
  | const (t : Text)
  | wave (w : Wave)
deriving Repr, DecidableEq

/-- what stands between `·t` and `)`: nothing, or `+`/`-` and a number with an optional degree sign -/
def parsePhase (s : List Char) : Option (Option Text × Bool) :=
  match s with
  | [] => some (none, false)
  | sg :: r =>
    if sg = '+' ∨ sg = '-' then
      let deg := (stripLast '°' r).isSome
      (parseBack (if deg then ['°'] else []) r).map fun t => (some (t.withNeg (decide (sg = '-'))), deg)
    else none

/-- what follows the first `·`: `sin(` or `cos(`, [`2π·`], frequency, `·t`, phase, `)` -/
def parseWaveArg (amp : Text) (r : List Char) : Option TimeText :=
  let trig : Option (Bool × List Char) :=
    match stripPrefix ['s', 'i', 'n', '('] r with
    | some r' => some (true, r')
    | none => (stripPrefix ['c', 'o', 's', '('] r).map fun r' => (false, r')
  match trig with
  | none => none
  | some (sine, r1) =>
    match splitOn1 '·' r1 with
    | none => none
    | some (tok, r2) =>
      -- the factor `2π` announces a frequency in hertz
      let fr : Option (Bool × List Char × List Char) :=
        if tok = ['2', 'π'] then (splitOn1 '·' r2).map fun (f, r3) => (true, f, r3) else some (false, tok, r2)
      match fr with
      | none => none
      | some (hertz, f, r3) =>
        match parseBack (if hertz then ['H', 'z'] else ['/', 's']) f, r3 with
        | some fq, 't' :: r4 =>
          match stripLast ')' r4 with
          | none => none
          | some ph =>
            (parsePhase ph).map fun (p, d) =>
              .wave { amplitude := amp, sine := sine, hertz := hertz, freq := fq, phase := p, deg := d }
        | _, _ => none

/-- the reader of a time-function text whose amplitude has unit `unit` -/
def parseSinusoid (unit : List Char) (s : List Char) : Option TimeText :=
  match splitOn1 '·' s with
  | none => (parseBack unit s).map .const
  | some (a, r) =>
    match parseBack unit a with
    | none => none
    | some amp => parseWaveArg amp r

/-! ### active / reactive power -/

/-- what a `P`/`Q` text shows: arrow (`↓` = true) and magnitude of `P` in `W`; of `Q` in `var` if shown -/
structure PQ where
  pDown : Bool
  p : Text
  q : Option (Bool × Text)
deriving Repr, DecidableEq

def parseArrow : List Char → Option (Bool × List Char)
  | '↓' :: r => some (true, r)
  | '↑' :: r => some (false, r)
  | _ => none

/-- the reader of `P: ↓|↑ x W` [newline `Q: ↓|↑ y var`] -/
def parsePQ (s : List Char) : Option PQ :=
  match (stripPrefix ['P', ':', ' '] s).bind parseArrow with
  | none => none
  | some (pd, s2) =>
    match splitOn1 '\n' s2 with
    | none => (parseBack ['W'] s2).map fun t => { pDown := pd, p := t, q := none }
    | some (l, r) =>
      match parseBack ['W'] l, (stripPrefix ['Q', ':', ' '] r).bind parseArrow with
      | some t, some (qd, r2) =>
        (parseBack ['v', 'a', 'r'] r2).map fun u => { pDown := pd, p := t, q := some (qd, u) }
      | _, _ => none

end CC.Fmt
