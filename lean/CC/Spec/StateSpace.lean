/-
  CC.Spec.StateSpace — what C10 / C12 demand of the state-space model, in the vocabulary of the
  circuit equations (CC/Spec/Circuit.lean), without reference to how the code computes.

  The network handed to `state_space_matrices` is the circuit at `w = 0`: capacitors are open
  circuits, inductors are short circuits, their values live in the two dictionaries.
    * `phasorNet … s u`  — the same circuit at complex frequency `s`: capacitor `Y = s·C`,
      inductor `Z = s·L`, source `sources[k]` with amplitude `u[k]`;
    * `sampleNet … u ẋ`  — the circuit at one instant: capacitor `k` carries the current
      `C_k·ẋ_k`, inductor `k` the voltage `L_k·ẋ_k`, sources their instantaneous values;
  What the output rows deliver from the vector `y = C x + D u` is the accessor report
  `(sampleNet …).reportOf y` of CC/Proofs/Sound.lean (node potentials, currents of voltage sources and
  inductors from `y`; capacitor currents `C·ẋ`, every other current by the branch's own law).
  Mathlib-free.
-/
import CC.Model.StateSpace
import CC.Spec.Circuit
namespace CC

section
variable {L K : Type} [DecidableEq L] [LabelOrd L]
variable [Zero K] [One K] [Add K] [Mul K] [Neg K] [Sub K] [Inv K] [Div K] [DecidableEq K]

def Net.mapElems (N : Net L K) (f : Branch L K → Elem K) : Net L K :=
  { N with branches := N.branches.map fun b => { b with e := f b } }

/-- source `sources[k]` takes the value `u[k]` -/
def setSource (sources : List String) (u : List K) (b : Branch L K) : Elem K :=
  match idxOf? b.id sources with
  | some k => (match b.e with
      | .norton Z _ => .norton Z (u.getD k 0)
      | .thevenin Y _ => .thevenin Y (u.getD k 0))
  | none => b.e

/-- the circuit at complex frequency `s`, driven by the input amplitudes `u`: capacitor `k` (position
in the dictionary) has the admittance `s·C_k`, inductor `k` the impedance `s·L_k` -/
def phasorNet (N : Net L K) (cvals lvals : ValDict K) (sources : List String) (u : List K) (s : K) : Net L K :=
  N.mapElems fun b =>
    match idxOf? b.id cvals.keys with
    | some k => .thevenin (s * cvals.vals.getD k 0) 0
    | none =>
      match idxOf? b.id lvals.keys with
      | some k => .norton (s * lvals.vals.getD k 0) 0
      | none => setSource sources u b

/-- the circuit at one sample: reactive elements replaced by sources of strength `value·ẋ_k`
(`k` = position in the dictionaries, capacitors first) -/
def sampleNet (N : Net L K) (cvals lvals : ValDict K) (sources : List String) (u xdot : List K) : Net L K :=
  N.mapElems fun b =>
    match idxOf? b.id cvals.keys with
    | some k => .thevenin 0 (cvals.vals.getD k 0 * xdot.getD k 0)
    | none =>
      match idxOf? b.id lvals.keys with
      | some k => .norton 0 (lvals.vals.getD k 0 * xdot.getD (cvals.length + k) 0)
      | none => setSource sources u b

end
end CC
