/-
  CC.Spec.Fourier — what property C08 demands, independent of the code:
  the n-th complex Fourier coefficient of a real `T`-periodic function,

      coeff f T n = (1/T) · ∫₀ᵀ f(t) · exp(−2πi·n·t/T) dt,

  and the exact meaning of Python's float `%` / `np.mod` (`fmodR`, sign of the divisor).
  (Imports Mathlib: the analytic specification is not executable.)
-/
import Mathlib.Analysis.SpecialFunctions.Integrals.Basic
import Mathlib.MeasureTheory.Integral.IntervalIntegral.Periodic

namespace CC.Fourier
open Complex

/-- Python's `x % y` / `np.mod(x, y)` on real numbers: `x − y·⌊x/y⌋`. -/
noncomputable def fmodR (x y : ℝ) : ℝ := x - y * ⌊x / y⌋

/-- the `n`-th complex Fourier coefficient of `f` with respect to the period `T` -/
noncomputable def coeff (f : ℝ → ℝ) (T : ℝ) (n : ℤ) : ℂ :=
  (1 / T : ℂ) * ∫ t in (0:ℝ)..T, (f t : ℂ) * cexp (-(2 * Real.pi * I * n / T) * t)

end CC.Fourier
