/-
  CC.Spec.Annot — what C14 demands of an annotation, independent of the code: which adapter
  a declared solution type selects, which unit and which sign rule each annotated quantity
  carries.  (The text itself is judged by `CC.Spec.Fmt`.)
-/
import CC.Num
import CC.Spec.Fmt
namespace CC.Annot

/-- the kinds of solution a schematic can be annotated with -/
inductive Kind | real | complex | timeDomain
deriving DecidableEq, Repr

/-- the annotated quantities -/
inductive Quantity | voltage | current | power | potential
deriving DecidableEq, Repr

/-- declared solution type of the declarative description ↦ kind of annotation -/
def specKind : String → Option Kind
  | "dc" | "real" => some .real
  | "complex" => some .complex
  | "single_frequency_time_domain" => some .timeDomain
  | _ => none

def specUnit : Quantity → List Char
  | .voltage => ['V'] | .current => ['A'] | .power => ['W'] | .potential => ['V']

/-- voltages, currents and powers have a reference direction; potentials do not -/
def specDirected : Quantity → Bool
  | .potential => false | _ => true

/-- the quantity an annotation must denote: the solution's value in the element's reference
direction, negated exactly when the annotation is requested in reverse -/
def specValue (qt : Quantity) (reverse : Bool) (q : GQ) : GQ :=
  if specDirected qt && reverse then -q else q

/-- which display helper renders which kind of annotation -/
def specPrinter : Kind → Quantity → String
  | .real, .power => "print_active_power"
  | .real, _ => "print_real"
  | .complex, _ => "print_complex"
  | .timeDomain, _ => "print_sinosoidal"

/-- the number a kind of annotation is about: a time function `A·cos(ωt+φ)` carries the peak
value as its amplitude; complex annotations are RMS phasors (property C02) -/
def specPeak : Kind → Bool
  | .timeDomain => true
  | _ => false

/-- the *drawing rule* for the arrow flag of a voltage/current label symbol: reversed iff exactly one of
"annotation requested in reverse" and "element drawn in reverse" holds.  This is a statement about two flags, not
about what the drawing means: that the number written next to the arrow is the quantity *along the arrow actually
drawn* is judged geometrically by the oracle (`check_arrows` in c14.py) against the node potentials of the exact
solution — the flag rule alone was satisfied while reversed passive elements carried the wrong number. -/
def specArrowReversed (reverse elementReversed : Bool) : Bool := xor reverse elementReversed

end CC.Annot
