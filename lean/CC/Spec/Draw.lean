/-
  CC.Spec.Draw — what C13 / C15 demand, in the vocabulary of the property statements and
  without reference to how the parser computes.  Mathlib-free.

  * `Joined ws p q` — the terminals `p`, `q` coincide or are joined by a chain of wires
    (`ws` = the wires as pairs of end points; a wire conducts in both directions).
  * `Realises ws pts lab` — a node naming `lab` is faithful on the points `pts`: two points
    carry the same name exactly when they are joined.
  * `SameUpToRenaming` — two namings of the same points induce the same partition (the
    netlists they produce differ by a bijective renaming of nodes).
-/
namespace CC.Draw

/-- "coincide or are joined by a chain of wires" -/
inductive Joined {P : Type} (ws : List (P × P)) : P → P → Prop where
  | refl (p : P) : Joined ws p p
  | wire {p a b : P} : Joined ws p a → ((a, b) ∈ ws ∨ (b, a) ∈ ws) → Joined ws p b

/-- the naming `lab` puts two points of `pts` on the same node exactly when they are joined -/
def Realises {P L : Type} (ws : List (P × P)) (pts : List P) (lab : P → L) : Prop :=
  ∀ p ∈ pts, ∀ q ∈ pts, (lab p = lab q ↔ Joined ws p q)

/-- two namings agree up to a renaming of nodes on `pts` -/
def SameUpToRenaming {P L L' : Type} (pts : List P) (lab : P → L) (lab' : P → L') : Prop :=
  ∀ p ∈ pts, ∀ q ∈ pts, (lab p = lab q ↔ lab' p = lab' q)

/-- the electrical content of a two-terminal source: `value` from terminal `a` to terminal `b`.
A source of value `v` on `(a, b)` and a source of value `-v` on `(b, a)` are the same source. -/
structure Oriented (L V : Type) where
  a : L
  b : L
  value : V
deriving DecidableEq, Repr

/-- normal form used to compare sources: swap the terminals and negate -/
def Oriented.flip {L V : Type} [Neg V] (o : Oriented L V) : Oriented L V := ⟨o.b, o.a, -o.value⟩

end CC.Draw
