/-
  CC.Proofs.FourierAlg — algebraic facts about the generated Fourier model
  (CC/Gen/Fourier.lean), over an arbitrary field, `π`, `cos`, `sin` arbitrary parameters.
-/
import CC.Gen.Fourier
import Mathlib.Algebra.Field.Basic
import Mathlib.Algebra.CharZero.Defs
import Mathlib.Tactic.Ring
import Mathlib.Tactic.FieldSimp

namespace CC.Fourier
open CC.Gen.Fourier

variable {K : Type} [Field K]

/-- every harmonic class has phase coefficient 0 at order 0 -/
theorem phaseCoefficient_zero (π : K) (h : HarmObj K) : h.phaseCoefficient π 0 = 0 := by
  obtain ⟨cls, A, p, o⟩ := h
  cases cls <;>
    simp [HarmObj.phaseCoefficient, ConstFunctionHarmonics.phaseCoefficient,
      CosFunctionHarmonics.phaseCoefficient, SinFunctionHarmonics.phaseCoefficient,
      RectFunctionHarmonics.phaseCoefficient, TriFunctionHarmonics.phaseCoefficient,
      SawFunctionHarmonics.phaseCoefficient]

theorem amplitude_neg (π : K) (h : HarmObj K) (n : ℤ) : h.amplitude π (-n) = h.amplitude π n := by
  unfold HarmObj.amplitude
  split_ifs with h1 h2 h2
  · omega
  · rw [neg_neg]
  · rfl
  · have : n = 0 := by omega
    subst this; rfl

theorem phase_neg (π : K) (h : HarmObj K) (n : ℤ) : h.phase π (-n) = - h.phase π n := by
  unfold HarmObj.phase
  split_ifs with h1 h2 h2
  · omega
  · rw [neg_neg]
  · rw [neg_neg]
  · have : n = 0 := by omega
    subst this; simp [phaseCoefficient_zero]

end CC.Fourier
