/-
  CC.Proofs.FourierInt — integrals behind C08: time shift of a `T`-periodic function,
  ∫ (α+βu)·exp(cu), and the canonical coefficients of the constant / exponential /
  piecewise-linear pieces.
-/
import CC.Spec.Fourier
import Mathlib.Analysis.SpecialFunctions.Complex.Circle

namespace CC.Fourier
open Complex Real intervalIntegral MeasureTheory

theorem fmodR_add_period (u T : ℝ) (hT : T ≠ 0) : fmodR (u + T) T = fmodR u T := by
  unfold fmodR
  have : (u + T) / T = u / T + 1 := by field_simp
  rw [this, Int.floor_add_one]; push_cast; ring

theorem fmodR_of_mem (u T : ℝ) (h0 : 0 ≤ u) (h1 : u < T) : fmodR u T = u := by
  unfold fmodR
  have hT : 0 < T := lt_of_le_of_lt h0 h1
  have : ⌊u / T⌋ = 0 := by
    rw [Int.floor_eq_zero_iff]
    exact ⟨div_nonneg h0 hT.le, (div_lt_one hT).mpr h1⟩
  rw [this]; simp

theorem fmodR_nonneg (u T : ℝ) (hT : 0 < T) : 0 ≤ fmodR u T := by
  unfold fmodR
  have := Int.floor_le (u / T)
  have h2 : T * (⌊u / T⌋ : ℝ) ≤ T * (u / T) := mul_le_mul_of_nonneg_left this hT.le
  have h3 : T * (u / T) = u := by field_simp
  linarith

theorem fmodR_lt (u T : ℝ) (hT : 0 < T) : fmodR u T < T := by
  unfold fmodR
  have := Int.lt_floor_add_one (u / T)
  have h2 : T * (u / T) < T * ((⌊u / T⌋ : ℝ) + 1) := mul_lt_mul_of_pos_left this hT
  have h3 : T * (u / T) = u := by field_simp
  linarith

/-- the exponent of the `n`-th harmonic -/
noncomputable def cexpo (T : ℝ) (n : ℤ) : ℂ := -(2 * π * I * n / T)

theorem coeff_eq (f : ℝ → ℝ) (T : ℝ) (n : ℤ) :
    coeff f T n = (1 / T : ℂ) * ∫ t in (0:ℝ)..T, (f t : ℂ) * cexp (cexpo T n * t) := rfl

theorem cexp_cexpo_period (T : ℝ) (hT : T ≠ 0) (n : ℤ) : cexp (cexpo T n * (T : ℝ)) = 1 := by
  have hT' : (T : ℂ) ≠ 0 := by exact_mod_cast hT
  have : cexpo T n * (T : ℝ) = (-n : ℤ) * (2 * π * I) := by
    unfold cexpo; field_simp; push_cast; ring
  rw [this]; exact Complex.exp_int_mul_two_pi_mul_I _

theorem cexp_cexpo_half (T : ℝ) (hT : T ≠ 0) (n : ℤ) :
    cexp (cexpo T n * ((T / 2 : ℝ) : ℂ)) = (-1) ^ n := by
  have hT' : (T : ℂ) ≠ 0 := by exact_mod_cast hT
  have : cexpo T n * ((T / 2 : ℝ) : ℂ) = (-n : ℤ) * (π * I) := by
    unfold cexpo; push_cast; field_simp
  rw [this, Complex.exp_int_mul, Complex.exp_pi_mul_I]
  rw [zpow_neg, ← inv_zpow, show ((-1 : ℂ))⁻¹ = -1 by norm_num]

theorem cexpo_ne_zero (T : ℝ) (hT : T ≠ 0) (n : ℤ) (hn : n ≠ 0) : cexpo T n ≠ 0 := by
  have hT' : (T : ℂ) ≠ 0 := by exact_mod_cast hT
  have hn' : (n : ℂ) ≠ 0 := by exact_mod_cast hn
  have hpi : (π : ℂ) ≠ 0 := by exact_mod_cast Real.pi_ne_zero
  unfold cexpo; simp [hT', hn', hpi, I_ne_zero]

/-- **time shift**: the coefficient of `t ↦ g((t + t0) mod T)` is the coefficient of `g`
(read on one period `[0, T)`) times `exp(2πi·n·t0/T)`. -/
theorem coeff_shift (g : ℝ → ℝ) (T t0 : ℝ) (hT : 0 < T) (n : ℤ) :
    coeff (fun t => g (fmodR (t + t0) T)) T n
      = cexp (-(cexpo T n) * t0) * coeff g T n := by
  rw [coeff_eq, coeff_eq]
  set c := cexpo T n with hc
  have h1 : ∫ t in (0:ℝ)..T, ((g (fmodR (t + t0) T) : ℝ) : ℂ) * cexp (c * t)
      = ∫ u in (0 + t0)..(T + t0), ((g (fmodR u T) : ℝ) : ℂ) * cexp (c * ((u - t0 : ℝ) : ℂ)) := by
    rw [← integral_comp_add_right (fun u : ℝ => ((g (fmodR u T) : ℝ) : ℂ) * cexp (c * ((u - t0 : ℝ) : ℂ)))]
    congr 1; ext t; simp
  have h2 : ∀ u : ℝ, ((g (fmodR u T) : ℝ) : ℂ) * cexp (c * ((u - t0 : ℝ) : ℂ))
      = cexp (-c * t0) * (((g (fmodR u T) : ℝ) : ℂ) * cexp (c * u)) := by
    intro u
    have : c * ((u - t0 : ℝ) : ℂ) = -c * t0 + c * u := by push_cast; ring
    rw [this, Complex.exp_add]; ring
  have hper : Function.Periodic (fun u : ℝ => ((g (fmodR u T) : ℝ) : ℂ) * cexp (c * u)) T := by
    intro u
    simp only
    rw [fmodR_add_period u T hT.ne']
    have : c * ((u + T : ℝ) : ℂ) = c * u + c * (T : ℝ) := by push_cast; ring
    rw [this, Complex.exp_add, cexp_cexpo_period T hT.ne' n, mul_one]
  have h3 : ∫ u in (0 + t0)..(T + t0), ((g (fmodR u T) : ℝ) : ℂ) * cexp (c * u)
      = ∫ u in (0:ℝ)..T, ((g u : ℝ) : ℂ) * cexp (c * u) := by
    have := hper.intervalIntegral_add_eq t0 0
    rw [zero_add] at this ⊢
    rw [add_comm T t0, this]
    apply integral_congr_uIoo
    intro u hu
    rw [Set.uIoo_of_le hT.le] at hu
    simp only
    rw [fmodR_of_mem u T hu.1.le hu.2]
  rw [h1]
  simp_rw [h2]
  rw [intervalIntegral.integral_const_mul, h3]
  ring

/-- `∫ₐᵇ (α + βu)·exp(cu) du` by the explicit antiderivative. -/
theorem integral_linear_mul_cexp (c : ℂ) (hc : c ≠ 0) (α β : ℂ) (a b : ℝ) :
    ∫ u in a..b, (α + β * u) * cexp (c * u)
      = cexp (c * b) * ((α + β * b) / c - β / c ^ 2) - cexp (c * a) * ((α + β * a) / c - β / c ^ 2) := by
  have hderiv : ∀ x ∈ Set.uIcc a b,
      HasDerivAt (fun u : ℝ => cexp (c * u) * ((α + β * u) / c - β / c ^ 2))
        ((α + β * x) * cexp (c * x)) x := by
    intro x _
    have hx : HasDerivAt (fun u : ℝ => (u : ℂ)) 1 x := by
      simpa using (hasDerivAt_id x).ofReal_comp
    have h1 : HasDerivAt (fun u : ℝ => cexp (c * u)) (cexp (c * x) * (c * 1)) x :=
      (hx.const_mul c).cexp
    have h2 : HasDerivAt (fun u : ℝ => (α + β * u) / c - β / c ^ 2) ((β * 1) / c) x :=
      (((hx.const_mul β).const_add α).div_const c).sub_const _
    have h3 : HasDerivAt (fun u : ℝ => cexp (c * u) * ((α + β * u) / c - β / c ^ 2))
        (cexp (c * x) * (c * 1) * ((α + β * x) / c - β / c ^ 2) + cexp (c * x) * ((β * 1) / c)) x :=
      h1.mul h2
    refine h3.congr_deriv ?_
    field_simp
    ring
  rw [integral_eq_sub_of_hasDerivAt hderiv]
  apply Continuous.intervalIntegrable
  fun_prop

end CC.Fourier
