/-
  CC.Proofs.DrawLift — from one element to whole drawings: if every element of a drawing is
  `ElemStable` (CC/Proofs/DrawRoundTrip.lean) and element names are unique (wires are
  anonymous), one `saveLoad` of the drawing keeps the translated circuit.

  The circuit section of a saved drawing is looked up *by element name*; with unique names the
  entry an element finds is its own component, so `undictify_element` inside the drawing is the
  per-element `reloadFrom`; the reloaded symbols agree with the original ones on everything the
  parser reads (class, anchors, node id), so the node naming is the same, and they translate
  to the same components.
-/
import CC.Proofs.DrawRoundTrip
set_option linter.unusedSectionVars false
set_option linter.unusedSimpArgs false
set_option linter.unusedVariables false
namespace CC.Draw

/-! ### `mapM` in `Except` -/
section MapM
variable {α β : Type}

/-- the value of a successful computation (a default otherwise) -/
def valOf [Inhabited β] (f : α → Except Err β) (a : α) : β :=
  match f a with
  | .ok b => b
  | .error _ => default

theorem mapM_cons_ok (f : α → Except Err β) (a : α) (l : List α) :
    (a :: l).mapM f = (do let b ← f a; let bs ← l.mapM f; pure (b :: bs)) := by
  simp [List.mapM_cons]

theorem mapM_ok_map [Inhabited β] (f : α → Except Err β) (l : List α) (r : List β)
    (h : l.mapM f = .ok r) : r = l.map (valOf f) ∧ ∀ a ∈ l, f a = .ok (valOf f a) := by
  induction l generalizing r with
  | nil => simp at h; cases h; exact ⟨rfl, fun a ha => by cases ha⟩
  | cons a l ih =>
    rw [mapM_cons_ok] at h
    cases hfa : f a with
    | error e => simp [hfa, bind, Except.bind] at h
    | ok b =>
      cases hl : l.mapM f with
      | error e => simp [hfa, hl, bind, Except.bind] at h
      | ok bs =>
        simp [hfa, hl, bind, Except.bind, pure, Except.pure] at h
        obtain ⟨h1, h2⟩ := ih bs hl
        have hv : valOf f a = b := by simp [valOf, hfa]
        refine ⟨?_, ?_⟩
        · rw [← h, List.map_cons, hv, ← h1]
        · intro x hx
          rcases List.mem_cons.mp hx with rfl | hx
          · rw [hv]; exact hfa
          · exact h2 x hx

theorem mapM_of_forall (f : α → Except Err β) (g : α → β) (l : List α)
    (h : ∀ a ∈ l, f a = .ok (g a)) : l.mapM f = .ok (l.map g) := by
  induction l with
  | nil => rfl
  | cons a l ih =>
    rw [mapM_cons_ok, h a List.mem_cons_self, ih (fun x hx => h x (List.mem_cons_of_mem _ hx))]
    rfl

theorem mapM_map_congr {γ : Type} (F : β → Except Err γ) (f g : α → β) (l : List α)
    (h : ∀ a ∈ l, F (g a) = F (f a)) : (l.map g).mapM F = (l.map f).mapM F := by
  induction l with
  | nil => rfl
  | cons a l ih =>
    simp only [List.map_cons, mapM_cons_ok]
    rw [h a List.mem_cons_self, ih (fun x hx => h x (List.mem_cons_of_mem _ hx))]

theorem filter_map_congr {γ : Type} (p : β → Bool) (hf : β → γ) (f g : α → β) (l : List α)
    (h : ∀ a ∈ l, p (g a) = p (f a) ∧ hf (g a) = hf (f a)) :
    ((l.map g).filter p).map hf = ((l.map f).filter p).map hf := by
  induction l with
  | nil => rfl
  | cons a l ih =>
    have ha := h a List.mem_cons_self
    have := ih (fun x hx => h x (List.mem_cons_of_mem _ hx))
    simp only [List.map_cons, List.filter_cons, ha.1]
    split
    · simp only [List.map_cons, ha.2, this]
    · exact this

end MapM

/-! ### association lists -/

theorem lookup_of_unique {K V : Type} [DecidableEq K] (l : List (K × V)) (k : K) (v : V)
    (hmem : (k, v) ∈ l) (huniq : ∀ v', (k, v') ∈ l → v' = v) : l.lookup k = some v := by
  induction l with
  | nil => cases hmem
  | cons kv l ih =>
    obtain ⟨k₀, v₀⟩ := kv
    by_cases hk : k = k₀
    · subst hk
      have := huniq v₀ List.mem_cons_self
      simp [List.lookup, this]
    · have hb : (k == k₀) = false := by simp [hk]
      simp only [List.lookup, hb]
      apply ih
      · rcases List.mem_cons.mp hmem with h | h
        · cases h; exact absurd rfl hk
        · exact h
      · intro v' hv'; exact huniq v' (List.mem_cons_of_mem _ hv')

theorem lookup_none_of_forall {K V : Type} [DecidableEq K] (l : List (K × V)) (k : K)
    (h : ∀ v', (k, v') ∉ l) : l.lookup k = none := by
  induction l with
  | nil => rfl
  | cons kv l ih =>
    obtain ⟨k₀, v₀⟩ := kv
    by_cases hk : k = k₀
    · subst hk; exact absurd List.mem_cons_self (h v₀)
    · have hb : (k == k₀) = false := by simp [hk]
      simp only [List.lookup, hb]
      exact ih (fun v' hv' => h v' (List.mem_cons_of_mem _ hv'))

/-! ### what the parser reads of a symbol -/

/-- the two symbols agree on everything the parser reads -/
def PEq (s s' : Sym) : Prop :=
  s'.cls = s.cls ∧ s'.start = s.start ∧ s'.stop = s.stop ∧ s'.nodeId = s.nodeId

theorem parser_inputs_congr {α : Type} (f g : α → Sym) (l : List α) (h : ∀ a ∈ l, PEq (f a) (g a)) :
    wiresOf (l.map g) = wiresOf (l.map f) ∧ allNodes (l.map g) = allNodes (l.map f) ∧
      nodeSymsOf (l.map g) = nodeSymsOf (l.map f) := by
  have hcls : ∀ a ∈ l, (g a).cls = (f a).cls := fun a ha => (h a ha).1
  have hn1 : ∀ a ∈ l, (g a).n1 = (f a).n1 := fun a ha => by unfold Sym.n1; rw [(h a ha).2.1]
  have hn2 : ∀ a ∈ l, (g a).n2 = (f a).n2 := fun a ha => by unfold Sym.n2; rw [(h a ha).2.2.1]
  have hline : ∀ a ∈ l, (g a).isLine = (f a).isLine := fun a ha => by unfold Sym.isLine; rw [hcls a ha]
  have hname : ∀ a ∈ l, (g a).hasName = (f a).hasName := fun a ha => by unfold Sym.hasName; rw [hcls a ha]
  have hnode : ∀ a ∈ l, (g a).isNode = (f a).isNode := fun a ha => by unfold Sym.isNode; rw [hcls a ha]
  refine ⟨?_, ?_, ?_⟩
  · unfold wiresOf
    exact filter_map_congr _ _ f g l (fun a ha => ⟨hline a ha, by simp only [hn1 a ha, hn2 a ha]⟩)
  · unfold allNodes
    simp only
    rw [filter_map_congr (·.hasName) (·.n1) f g l (fun a ha => ⟨hname a ha, hn1 a ha⟩),
        filter_map_congr (·.hasName) (·.n2) f g l (fun a ha => ⟨hname a ha, hn2 a ha⟩),
        filter_map_congr (·.isLine) (·.n1) f g l (fun a ha => ⟨hline a ha, hn1 a ha⟩),
        filter_map_congr (·.isLine) (·.n2) f g l (fun a ha => ⟨hline a ha, hn2 a ha⟩)]
  · unfold nodeSymsOf
    exact filter_map_congr _ _ f g l (fun a ha => ⟨hnode a ha, by simp only [hn1 a ha, (h a ha).2.2.2]⟩)

/-- symbols that agree on what the parser reads and translate alike (under every node naming)
give the same circuit -/
theorem circuitTranslator_congr {α : Type} (π : Rat) (ord : SetOrd Pt) (f g : α → Sym) (l : List α)
    (hp : ∀ a ∈ l, PEq (f a) (g a))
    (ht : ∀ a ∈ l, ∀ L, translateSym π L (g a) = translateSym π L (f a)) :
    circuitTranslator π ord (l.map g) = circuitTranslator π ord (l.map f) := by
  obtain ⟨h1, h2, h3⟩ := parser_inputs_congr f g l hp
  unfold circuitTranslator
  simp only [h1, h2, h3]
  rw [mapM_map_congr _ f g l (fun a ha => ht a ha _)]

/-! ### translators: terminal names only end up in `nodes` -/

theorem mapM_pair (L : Pt → Except Err String) (a b : Pt) :
    [a, b].mapM L = (do let x ← L a; let y ← L b; pure [x, y]) := by
  simp [List.mapM_cons]

/-- same class, same anchors, and the same component for every pair of terminal names ⇒ the
same translation under every node naming -/
theorem translateSym_congr (π : Rat) (s s' : Sym) (hp : PEq s s')
    (hc : ∀ la lb, compOfSym π s' [la, lb] = compOfSym π s [la, lb]) (L : Pt → Except Err String) :
    translateSym π L s' = translateSym π L s := by
  unfold translateSym
  have h1 : s'.n1 = s.n1 := by unfold Sym.n1; rw [hp.2.1]
  have h2 : s'.n2 = s.n2 := by unfold Sym.n2; rw [hp.2.2.1]
  rw [hp.1, h1, h2, mapM_pair]
  cases Gen.translatorMap.lookup s.cls with
  | none => rfl
  | some f =>
    simp only
    cases L s.n1 with
    | error e => rfl
    | ok la =>
      cases L s.n2 with
      | error e => rfl
      | ok lb => simp only [bind, Except.bind, pure, Except.pure, hc la lb]

theorem remapKE_ok {α : Type} {x : Except Err α} {c : α} (h : remapKE x = .ok c) : x = .ok c := by
  unfold remapKE at h
  split at h
  · cases h
  · exact h

/-- a successful translation used some pair of terminal names -/
theorem translateSym_ok (π : Rat) (L : Pt → Except Err String) (s : Sym) (c : Option Component)
    (h : translateSym π L s = .ok c) : ∃ la lb, compOfSym π s [la, lb] = .ok c := by
  unfold translateSym at h
  rw [mapM_pair] at h
  cases hl : Gen.translatorMap.lookup s.cls with
  | none => simp [hl] at h
  | some f =>
    simp only [hl] at h
    have h := remapKE_ok h
    cases h1 : L s.n1 with
    | error e => simp [h1, bind, Except.bind] at h
    | ok la =>
      cases h2 : L s.n2 with
      | error e => simp [h1, h2, bind, Except.bind] at h
      | ok lb =>
        simp only [h1, h2, bind, Except.bind, pure, Except.pure] at h
        exact ⟨la, lb, h⟩

theorem bind_ok {α β : Type} {x : Except Err α} {f : α → Except Err β} {r : β}
    (h : (x >>= f) = .ok r) : ∃ a, x = .ok a ∧ f a = .ok r := by
  cases x with
  | error e => simp [bind, Except.bind] at h
  | ok a => exact ⟨a, rfl, h⟩

theorem runCase_id (π : Rat) (s : Sym) (nodes : List String) (c : TrCase) (k : Component)
    (h : runCase π s nodes c = .ok (some k)) : k.id = s.name := by
  unfold runCase at h
  cases hc : c.ctor with
  | none => simp [hc, pure, Except.pure] at h
  | some cn =>
    simp only [hc] at h
    obtain ⟨ns, _, h⟩ := bind_ok h
    obtain ⟨args, _, h⟩ := bind_ok h
    cases h3 : Gen.ctors.find? (·.name = cn) with
    | none => simp [h3, throw, throwThe, MonadExceptOf.throw] at h
    | some spec =>
      simp only [h3] at h
      unfold applyCtor at h
      cases h4 : ctorValue spec args with
      | error e => simp [h4, Functor.map, Except.map] at h
      | ok v =>
        simp [h4, Functor.map, Except.map] at h
        rw [← h]

theorem runCases_id (π : Rat) (s : Sym) (nodes : List String) (cases : List TrCase) (k : Component)
    (h : runCases π s nodes cases = .ok (some k)) : k.id = s.name := by
  induction cases with
  | nil => simp [runCases, pure, Except.pure] at h
  | cons c cs ih =>
    unfold runCases at h
    cases hg : c.guard with
    | none => simp only [hg] at h; exact runCase_id π s nodes c k h
    | some am =>
      obtain ⟨a, m⟩ := am
      simp only [hg] at h
      cases hv : s.getAttr a with
      | error e => simp [hv, bind, Except.bind] at h
      | ok v =>
        simp only [hv, bind, Except.bind] at h
        split at h
        · exact runCase_id π s nodes c k h
        · exact ih h

/-- the component's identifier is the symbol's name -/
theorem compOfSym_id (π : Rat) (s : Sym) (nodes : List String) (k : Component)
    (h : compOfSym π s nodes = .ok (some k)) : k.id = s.name := by
  unfold compOfSym at h
  cases h1 : Gen.translatorMap.lookup s.cls with
  | none => simp [h1, throw, throwThe, MonadExceptOf.throw] at h
  | some f =>
    simp only [h1] at h
    cases h2 : Gen.translators.lookup f with
    | none => simp [h2, throw, throwThe, MonadExceptOf.throw] at h
    | some cases => simp only [h2] at h; exact runCases_id π s nodes cases k h

/-- a wire has no component -/
theorem compOfSym_line (π : Rat) (s : Sym) (nodes : List String) (h : s.cls = "Line") :
    compOfSym π s nodes = .ok none := by
  have h1 : Gen.translatorMap.lookup "Line" = some "none_translator" := by decide
  have h2 : Gen.translators.lookup "none_translator" =
      some [{ guard := none, ctor := none, nodes := .pair, args := [] }] := by decide
  unfold compOfSym
  rw [h, h1]
  simp only [h2, runCases, runCase]
  rfl

/-! ### save / load of one element inside a drawing -/

theorem toSym_shell (π : Rat) (e : DElem) (s : Sym) (h : e.toSym π = .ok s) :
    s.cls = e.cls ∧ s.start = e.start ∧ s.stop = e.stop := by
  unfold DElem.toSym at h
  cases hc : construct π e.cls e.kwargs with
  | error x => simp [hc, bind, Except.bind] at h
  | ok o =>
    simp [hc, bind, Except.bind, pure, Except.pure] at h
    subst h; exact ⟨rfl, rfl, rfl⟩

theorem dictify_name (π : Rat) (e : DElem) (s : Sym) (sv : SavedElem) (h : e.toSym π = .ok s)
    (h' : dictifyElement π e = .ok sv) : sv.name = s.name := by
  unfold DElem.toSym at h
  unfold dictifyElement at h'
  cases hc : construct π e.cls e.kwargs with
  | error x => simp [hc, bind, Except.bind] at h
  | ok o =>
    simp [hc, bind, Except.bind, pure, Except.pure] at h h'
    cases hci : classInfo e.cls with
    | none => simp [hci, throw, throwThe, MonadExceptOf.throw] at h'
    | some c =>
      simp [hci] at h'
      subst h; subst h'; rfl

/-- `undictify_element` looks at the circuit section only through the entry of its own name -/
theorem undictifyDElem_congr (X Y : List (String × List (String × Val))) (sv : SavedElem)
    (h : X.reverse.lookup sv.name = Y.reverse.lookup sv.name) :
    undictifyDElem X sv = undictifyDElem Y sv := by
  unfold undictifyDElem undictifyKwargs
  simp only [h]

/-- element names are unique; only wires may share their (empty) name -/
def NamesWF (π : Rat) (d : List DElem) : Prop :=
  ∀ e₁ ∈ d, ∀ e₂ ∈ d, ∀ s₁ s₂, e₁.toSym π = .ok s₁ → e₂.toSym π = .ok s₂ → s₁.name = s₂.name →
    e₁ = e₂ ∨ (e₁.cls = "Line" ∧ e₂.cls = "Line")

theorem mkCircuit_components (cs : List Component) (c : Circuit) (h : mkCircuit cs = .ok c) :
    c.components = cs := by
  unfold mkCircuit at h
  cases cs with
  | nil => simp [pure, Except.pure] at h; subst h; rfl
  | cons c0 tl =>
    dsimp only at h
    repeat' split at h
    all_goals first
      | (simp [throw, throwThe, MonadExceptOf.throw] at h; done)
      | (simp [pure, Except.pure] at h; subst h; rfl)

/-- **one cycle, whole drawings** -/
theorem saveLoad_roundtrip_aux (π : Rat) (ord : SetOrd Pt) (d d' : List DElem)
    (hst : ∀ e ∈ d, ElemStable π e) (hn : NamesWF π d) (h : saveLoad π ord d = .ok d') :
    circuitOf π ord d' = circuitOf π ord d ∧
    ∃ ρ : DElem → DElem, d' = d.map ρ ∧
      ∀ e ∈ d, ∃ la lb k, elemComp π e [la, lb] = .ok k ∧ reloadFrom π e k = .ok (ρ e) := by
  -- take `saveLoad` apart
  unfold saveLoad instantiate at h
  cases h1 : d.mapM (DElem.toSym π) with
  | error x => simp [h1, bind, Except.bind] at h
  | ok syms =>
  cases h2 : circuitTranslator π ord syms with
  | error x => simp [h1, h2, bind, Except.bind] at h
  | ok c =>
  cases h3 : d.mapM (dictifyElement π) with
  | error x => simp [h1, h2, h3, bind, Except.bind] at h
  | ok saved =>
  simp only [h1, h2, h3, bind, Except.bind] at h
  -- the lists as images of `d`
  obtain ⟨hsyms, hσ⟩ := mapM_ok_map _ d syms h1
  obtain ⟨hsaved, hδ⟩ := mapM_ok_map _ d saved h3
  obtain ⟨hd', hυ⟩ := mapM_ok_map _ saved d' h
  -- the circuit
  unfold circuitTranslator at h2
  simp only at h2
  generalize hL : lookupLabel (uniqueNodeMapping (wiresOf syms) ord (allNodes syms))
      (nodeLabelMapping (wiresOf syms) ord (allNodes syms) (nodeSymsOf syms)) = L at h2
  cases h4 : syms.mapM (translateSym π L) with
  | error x => simp [h4, bind, Except.bind] at h2
  | ok cs =>
  simp only [h4, bind, Except.bind] at h2
  have hcomp : c.components = cs.filterMap id := mkCircuit_components _ _ h2
  obtain ⟨hcs, hκ⟩ := mapM_ok_map _ syms cs h4
  set σ := valOf (DElem.toSym π) with hσdef
  set κ := valOf (translateSym π L) with hκdef
  set δ := valOf (dictifyElement π) with hδdef
  set circ := c.components.map (fun k => (k.id, k.value)) with hcirc
  set υ := valOf (undictifyDElem circ) with hυdef
  -- entries of the circuit section come from elements of the drawing
  have hentry : ∀ a b, (a, b) ∈ circ.reverse → ∃ e₂ ∈ d, ∃ k₂, κ (σ e₂) = some k₂ ∧ a = (σ e₂).name ∧ b = k₂.value := by
    intro a b hab
    rw [List.mem_reverse, hcirc, hcomp, hcs, hsyms] at hab
    simp only [List.mem_map, List.mem_filterMap, id] at hab
    obtain ⟨k₂, ⟨o, ⟨s₂, ⟨e₂, he₂, rfl⟩, rfl⟩, ho⟩, hk⟩ := hab
    refine ⟨e₂, he₂, k₂, ho, ?_, ?_⟩
    · have hs₂ : σ e₂ ∈ syms := by rw [hsyms]; exact List.mem_map.mpr ⟨e₂, he₂, rfl⟩
      have ht := hκ (σ e₂) hs₂
      obtain ⟨la, lb, hc⟩ := translateSym_ok π L _ _ ht
      rw [ho] at hc
      have := compOfSym_id π _ _ _ hc
      rw [← this]; exact (Prod.mk.inj hk).1.symm
    · exact (Prod.mk.inj hk).2.symm
  have hline_none : ∀ e₂ ∈ d, e₂.cls = "Line" → κ (σ e₂) = none := by
    intro e₂ he₂ hcl
    have hs₂ : σ e₂ ∈ syms := by rw [hsyms]; exact List.mem_map.mpr ⟨e₂, he₂, rfl⟩
    obtain ⟨la, lb, hc⟩ := translateSym_ok π L _ _ (hκ (σ e₂) hs₂)
    have hcls : (σ e₂).cls = "Line" := by rw [(toSym_shell π e₂ _ (hσ e₂ he₂)).1]; exact hcl
    rw [compOfSym_line π _ _ hcls] at hc
    exact (Except.ok.inj hc).symm
  -- per element
  have hper : ∀ e ∈ d, (∃ la lb k, elemComp π e [la, lb] = .ok k ∧ reloadFrom π e k = .ok (υ (δ e))) ∧
      ∃ s', (υ (δ e)).toSym π = .ok s' ∧ PEq (σ e) s' ∧
      ∀ la lb, compOfSym π s' [la, lb] = compOfSym π (σ e) [la, lb] := by
    intro e he
    have hs : e.toSym π = .ok (σ e) := hσ e he
    have hsm : σ e ∈ syms := by rw [hsyms]; exact List.mem_map.mpr ⟨e, he, rfl⟩
    have ht : translateSym π L (σ e) = .ok (κ (σ e)) := hκ _ hsm
    obtain ⟨la, lb, hc⟩ := translateSym_ok π L _ _ ht
    have hec : elemComp π e [la, lb] = .ok (κ (σ e)) := by
      unfold elemComp; simp only [hs, bind, Except.bind]; exact hc
    have hdict : dictifyElement π e = .ok (δ e) := hδ e he
    have hsvm : δ e ∈ saved := by rw [hsaved]; exact List.mem_map.mpr ⟨e, he, rfl⟩
    have hund : undictifyDElem circ (δ e) = .ok (υ (δ e)) := hυ _ hsvm
    have hname : (δ e).name = (σ e).name := dictify_name π e _ _ hs hdict
    -- the entry found under the element's name is its own component
    have hlook : circ.reverse.lookup (δ e).name =
        (ownCirc (κ (σ e))).reverse.lookup (δ e).name := by
      rw [hname]
      cases hk : κ (σ e) with
      | none =>
        simp only [ownCirc, List.reverse_nil, List.lookup]
        apply lookup_none_of_forall
        intro b hb
        obtain ⟨e₂, he₂, k₂, hk₂, hnm, _⟩ := hentry _ _ hb
        rcases hn e he e₂ he₂ _ _ hs (hσ e₂ he₂) hnm with heq | ⟨_, hl₂⟩
        · subst heq; rw [hk] at hk₂; cases hk₂
        · rw [hline_none e₂ he₂ hl₂] at hk₂; cases hk₂
      | some k =>
        have hid : k.id = (σ e).name := by rw [hk] at hc; exact compOfSym_id π _ _ _ hc
        have hown : (ownCirc (some k)).reverse.lookup (σ e).name = some k.value := by
          simp [ownCirc, List.lookup, hid]
        rw [hown]
        apply lookup_of_unique
        · rw [List.mem_reverse, hcirc, hcomp, hcs, hsyms]
          simp only [List.mem_map, List.mem_filterMap, id]
          exact ⟨k, ⟨some k, ⟨σ e, ⟨e, he, rfl⟩, hk⟩, rfl⟩, by rw [hid]⟩
        · intro b hb
          obtain ⟨e₂, he₂, k₂, hk₂, hnm, hb₂⟩ := hentry _ _ hb
          rcases hn e he e₂ he₂ _ _ hs (hσ e₂ he₂) hnm with heq | ⟨hl₁, _⟩
          · subst heq; rw [hk] at hk₂; cases hk₂; exact hb₂
          · rw [hline_none e he hl₁] at hk; cases hk
    have hrel : reloadFrom π e (κ (σ e)) = .ok (υ (δ e)) := by
      unfold reloadFrom
      simp only [hdict, bind, Except.bind]
      rw [← undictifyDElem_congr _ _ _ hlook]; exact hund
    have hre : reloadElem π e [la, lb] = .ok (υ (δ e)) := by
      unfold reloadElem; simp only [hec, bind, Except.bind]; exact hrel
    -- (S): the shell is kept
    have hS := (hst e he).shell la lb
    simp only [hre, hec, bind, Except.bind, pure, Except.pure] at hS
    have hS := Except.ok.inj hS
    unfold shell at hS
    simp only [hs, Prod.mk.injEq] at hS
    obtain ⟨hcls, hstart, hstop, hopt⟩ := hS
    cases hs' : (υ (δ e)).toSym π with
    | error x => simp [hs'] at hopt
    | ok s' =>
      simp only [hs', Option.some.injEq, Prod.mk.injEq] at hopt
      have hsh' := toSym_shell π _ _ hs'
      have hsh := toSym_shell π _ _ hs
      refine ⟨⟨la, lb, _, hec, hrel⟩, s', rfl, ⟨?_, ?_, ?_, hopt.2.2⟩, ?_⟩
      · rw [hsh'.1, hsh.1, hcls]
      · rw [hsh'.2.1, hsh.2.1, hstart]
      · rw [hsh'.2.2, hsh.2.2, hstop]
      · -- (B): same component for all terminal names
        intro la' lb'
        have hB := (hst e he).roundtrip la lb la' lb'
        simp only [hec, hrel, bind, Except.bind] at hB
        unfold elemComp at hB
        simp only [hs', hs, bind, Except.bind] at hB
        exact hB
  -- assemble
  have hd'' : d' = d.map (fun e => υ (δ e)) := by rw [hd', hsaved, List.map_map]; rfl
  let σ' : DElem → Sym := fun e => valOf (DElem.toSym π) (υ (δ e))
  have hσ' : ∀ e ∈ d, (υ (δ e)).toSym π = .ok (σ' e) := by
    intro e he
    obtain ⟨_, s', hs', _⟩ := hper e he
    simp only [σ', valOf, hs']
  have hinst' : d'.mapM (DElem.toSym π) = .ok (d.map σ') := by
    have hm : d.map σ' = (d.map (fun e => υ (δ e))).map (valOf (DElem.toSym π)) := by
      rw [List.map_map]; rfl
    rw [hd'', hm]
    apply mapM_of_forall
    intro e' he'
    obtain ⟨e, he, rfl⟩ := List.mem_map.mp he'
    exact hσ' e he
  have hcongr : circuitTranslator π ord (d.map σ') = circuitTranslator π ord (d.map σ) := by
    apply circuitTranslator_congr
    · intro e he
      obtain ⟨_, s', hs', hp, _⟩ := hper e he
      have : σ' e = s' := by have := hσ' e he; rw [hs'] at this; exact (Except.ok.inj this).symm
      rw [this]; exact hp
    · intro e he L'
      obtain ⟨_, s', hs', hp, hc⟩ := hper e he
      have : σ' e = s' := by have := hσ' e he; rw [hs'] at this; exact (Except.ok.inj this).symm
      rw [this]; exact translateSym_congr π _ _ hp hc L'
  refine ⟨?_, fun e => υ (δ e), hd'', fun e he => (hper e he).1⟩
  unfold circuitOf instantiate
  simp only [hinst', h1, bind, Except.bind]
  rw [hcongr, ← hsyms]

/-- **one cycle, whole drawings**: if every element is `ElemStable` and names are unique, one
save/load cycle keeps the translated circuit -/
theorem saveLoad_roundtrip (π : Rat) (ord : SetOrd Pt) (d d' : List DElem)
    (hst : ∀ e ∈ d, ElemStable π e) (hn : NamesWF π d) (h : saveLoad π ord d = .ok d') :
    circuitOf π ord d' = circuitOf π ord d :=
  (saveLoad_roundtrip_aux π ord d d' hst hn h).1

/-! ### any number of cycles -/

/-- the element reloads to itself whenever it translates -/
def IsFixed (π : Rat) (d : DElem) : Prop :=
  ∀ la lb k, elemComp π d [la, lb] = .ok k → reloadFrom π d k = .ok d

theorem isFixed_of_reload {π : Rat} {e e' : DElem} (h : ElemStable π e) {la lb : String} {k : Option Component}
    (hk : elemComp π e [la, lb] = .ok k) (hr : reloadFrom π e k = .ok e') : IsFixed π e' := by
  intro la' lb' k' hk'
  have := h.fixed la lb la' lb'
  simp only [hk, hr, hk', bind, Except.bind, pure, Except.pure] at this
  exact this

theorem elemStable_of_isFixed {π : Rat} {e : DElem} (h : IsFixed π e) : ElemStable π e := by
  refine ⟨?_, ?_, ?_⟩
  · intro la lb la' lb'
    cases hk : elemComp π e [la, lb] with
    | error x => simp [bind, Except.bind]
    | ok k => simp only [h la lb k hk, bind, Except.bind]
  · intro la lb la' lb'
    cases hk : elemComp π e [la, lb] with
    | error x => simp [bind, Except.bind]
    | ok k =>
      simp only [h la lb k hk, bind, Except.bind]
      cases hk' : elemComp π e [la', lb'] with
      | error x => rfl
      | ok k' => simp only [h la' lb' k' hk']; rfl
  · intro la lb
    unfold reloadElem
    cases hk : elemComp π e [la, lb] with
    | error x => simp [bind, Except.bind]
    | ok k => simp only [h la lb k hk, bind, Except.bind]

/-- name, class of a reloaded element -/
theorem reload_shell {π : Rat} {e e' : DElem} (h : ElemStable π e) {la lb : String} {k : Option Component}
    (hk : elemComp π e [la, lb] = .ok k) (hr : reloadFrom π e k = .ok e') {s' : Sym}
    (hs' : e'.toSym π = .ok s') : e'.cls = e.cls ∧ ∃ s, e.toSym π = .ok s ∧ s.name = s'.name := by
  have hS := h.shell la lb
  have hre : reloadElem π e [la, lb] = .ok e' := by
    unfold reloadElem; simp only [hk, bind, Except.bind]; exact hr
  simp only [hre, hk, bind, Except.bind, pure, Except.pure] at hS
  have hS := Except.ok.inj hS
  unfold shell at hS
  simp only [hs', Prod.mk.injEq] at hS
  refine ⟨hS.1, ?_⟩
  cases hs : e.toSym π with
  | error x => simp [hs] at hS
  | ok s =>
    simp only [hs, Option.some.injEq, Prod.mk.injEq] at hS
    exact ⟨s, rfl, hS.2.2.2.1.symm⟩

/-- drawings on which save/load cycles keep the circuit: every element is `ElemStable`, names
are unique -/
def StableDrawing (π : Rat) (d : List DElem) : Prop :=
  (∀ e ∈ d, ElemStable π e) ∧ NamesWF π d

theorem saveLoad_stableDrawing (π : Rat) (ord : SetOrd Pt) (d d' : List DElem) (hd : StableDrawing π d)
    (h : saveLoad π ord d = .ok d') : StableDrawing π d' ∧ circuitOf π ord d' = circuitOf π ord d := by
  obtain ⟨hc, ρ, hρ, hel⟩ := saveLoad_roundtrip_aux π ord d d' hd.1 hd.2 h
  refine ⟨⟨?_, ?_⟩, hc⟩
  · intro e' he'
    rw [hρ] at he'
    obtain ⟨e, he, rfl⟩ := List.mem_map.mp he'
    obtain ⟨la, lb, k, hk, hr⟩ := hel e he
    exact elemStable_of_isFixed (isFixed_of_reload (hd.1 e he) hk hr)
  · intro e₁' he₁' e₂' he₂' s₁' s₂' hs₁' hs₂' hname
    rw [hρ] at he₁' he₂'
    obtain ⟨e₁, he₁, rfl⟩ := List.mem_map.mp he₁'
    obtain ⟨e₂, he₂, rfl⟩ := List.mem_map.mp he₂'
    obtain ⟨la₁, lb₁, k₁, hk₁, hr₁⟩ := hel e₁ he₁
    obtain ⟨la₂, lb₂, k₂, hk₂, hr₂⟩ := hel e₂ he₂
    obtain ⟨hc₁, s₁, hs₁, hn₁⟩ := reload_shell (hd.1 e₁ he₁) hk₁ hr₁ hs₁'
    obtain ⟨hc₂, s₂, hs₂, hn₂⟩ := reload_shell (hd.1 e₂ he₂) hk₂ hr₂ hs₂'
    rcases hd.2 e₁ he₁ e₂ he₂ s₁ s₂ hs₁ hs₂ (by rw [hn₁, hn₂, hname]) with heq | ⟨hl₁, hl₂⟩
    · left; rw [heq]
    · right; exact ⟨hc₁.trans hl₁, hc₂.trans hl₂⟩

/-- **any number of cycles, whole drawings** -/
theorem cycles_roundtrip (π : Rat) (ord : SetOrd Pt) (n : Nat) (d d' : List DElem) (hd : StableDrawing π d)
    (h : cycles π ord n d = .ok d') : StableDrawing π d' ∧ circuitOf π ord d' = circuitOf π ord d := by
  induction n generalizing d with
  | zero =>
    simp [cycles, pure, Except.pure] at h
    subst h; exact ⟨hd, rfl⟩
  | succ n ih =>
    unfold cycles at h
    cases h1 : saveLoad π ord d with
    | error x => simp [h1, bind, Except.bind] at h
    | ok d1 =>
      simp only [h1, bind, Except.bind] at h
      obtain ⟨hd1, hc1⟩ := saveLoad_stableDrawing π ord d d1 hd h1
      obtain ⟨hd', hc'⟩ := ih d1 hd1 h
      exact ⟨hd', hc'.trans hc1⟩

end CC.Draw
